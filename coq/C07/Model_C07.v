(* C07 — VmStack: abstract model of boa's call-frame stack / shared value stack across host entries.

   Transliterated (arm by arm) from
     core/engine/src/vm/mod.rs            Vm::push_frame, pop_frame, handle_exception_at,
                                          Context::handle_error, handle_return, handle_yield, handle_throw,
                                          check_runtime_limits, Context::run (falls off the dummy frame)
     core/engine/src/vm/call_frame/mod.rs CallFrame (fp, rp, argument_count, env_fp, flags)
     core/engine/src/object/operations.rs JsObject::call / construct
     core/engine/src/builtins/function/mod.rs   function_call / function_construct
     core/engine/src/native_function/mod.rs     native_function_call / native_function_construct
     core/engine/src/script.rs            Script::evaluate / prepare_run   (builtins/eval: perform_eval has the same shape)
     core/engine/src/builtins/generator/mod.rs  GeneratorContext::from_current / resume, generator_resume(_abrupt)
     core/engine/src/vm/opcode/generator  Generator opcode (from_current + handle_yield)

   The value stack is abstracted to its length, a frame to (fp, rp, register_count, argc, EXIT_EARLY,
   REGISTERS_ALREADY_PUSHED, env_fp, environments.len(), pc, handler table as data).  The behaviour of the
   running program is an arbitrary *behaviour tree*: the body of a frame is an arbitrary list of actions, a
   call action carries the behaviour of the callee, a native call the behaviour of the Rust code (which may
   re-enter the engine through further host entries).  Everything the engine decides itself (limits,
   handler lookup, unwinding, truncation) is computed by the model.

   `fixes` selects, per repair site, the transitions of the unrepaired tree (false) or of the repaired
   tree (true); the check calibrates the four flags against the implementation on every run. *)
From Coq Require Import List Arith Bool.
Import ListNotations.

Record handler := mkH { h_start : nat; h_end : nat; h_envc : nat }.

Record frame := mkF {
  fp : nat; rp : nat; regs : nat; argc : nat;
  exit_early : bool;           (* CallFrameFlags::EXIT_EARLY *)
  pushed : bool;               (* CallFrameFlags::REGISTERS_ALREADY_PUSHED (generator frames) *)
  env_fp : nat; envs : nat;    (* env_fp, environments.len() (per frame) *)
  pc : nat; handlers : list handler }.

(* GeneratorState; the context holds its own value stack (length) and the saved frame *)
Inductive gstate := GStart (gs : nat) (f : frame) | GYield (gs : nat) (f : frame) | GExec | GDone.

Record vm := mkVm {
  frames : list frame;         (* head = current frame, last = the dummy frame *)
  stack : nat;                 (* Vm.stack.len() *)
  hdepth : nat;                (* Vm.host_call_depth *)
  gens : list gstate;          (* generator objects, by creation index *)
  rlimit : nat; slimit : nat;  (* RuntimeLimits: recursion, stack size *)
  pending : bool               (* Vm.pending_exception.is_some() *) }.

Record fixes := mkFx { fx_throw : bool; fx_error : bool; fx_call : bool; fx_decl : bool;
                       fx_modlink : bool; fx_pending : bool }.
Definition fx_old := mkFx false false false false false false.
Definition fx_new := mkFx true true true true true true.

Inductive compl := CNormal | CReturn | CThrow (catchable : bool) | CPanic.
Inductive ctl := Continue | Break (c : compl).
Inductive rres := ROk | RErr (catchable : bool) | RPanic.
Inductive lkind := LRecursion | LStackSize.
Inductive rkind := KNext | KRet | KThr.

Inductive obs :=
| OProbe (id nframes st hd : nat)
| OLimit (k : lkind)
| ODone (r : rres) (nframes st hd : nat)
| OUntidy.   (* a frame returned / suspended while an exception was still pending (compiled code never does) *)

(* ---- behaviour trees ---- *)
Inductive act :=
| APush (n : nat) | APop (n : nat) | ASetPc (p : nat) | AEnvPush | AEnvPop | AProbe (id : nat)
| ACall (argc regs : nat) (hs : list handler) (construct : bool) (envfp nenv : nat) (body : acts)
| ANew (argc regs : nat) (hs : list handler) (envfp nenv : nat) (init : racts) (body : acts)
| ACallErr (limits_first : bool)
| ACallNative (argc : nat) (construct : bool) (body : racts)
| ARust (body : racts)
| AReturn | AYield | AGenCreate | AAwait | AThrow | ARethrow | AException | AError (catchable : bool)
with acts := ANil | ACons (a : act) (l : acts)
with ract :=
| RProbe (id : nat)
| RHostEval (regs : nat) (hs : list handler) (envfp nenv : nat) (ok : bool) (body : acts)
| RHostCall (argc regs : nat) (hs : list handler) (envfp nenv : nat) (body : acts)
| RHostCallErr (argc : nat) (limits_first : bool)
| RHostCallNative (argc : nat) (body : racts)
| RHostConstruct (argc regs : nat) (hs : list handler) (envfp nenv : nat) (proto_ok : bool) (body : acts)
| RHostConstructNative (argc : nat) (body : racts)
| RHostNew (argc regs : nat) (hs : list handler) (envfp nenv : nat) (init : racts) (body : acts)
| RResume (g : nat) (kind : rkind) (body : acts)
| RBlock (body : racts)
| RHostModuleLink (regs : nat)
| RReturn | RThrow (catchable : bool) | RPropagate (all : bool)
with racts := RNil | RCons (r : ract) (l : racts).

(* ---- record updates ---- *)
Definition set_frames v fs := mkVm fs (stack v) (hdepth v) (gens v) (rlimit v) (slimit v) (pending v).
Definition set_stack v s := mkVm (frames v) s (hdepth v) (gens v) (rlimit v) (slimit v) (pending v).
Definition set_hdepth v h := mkVm (frames v) (stack v) h (gens v) (rlimit v) (slimit v) (pending v).
Definition set_gens v g := mkVm (frames v) (stack v) (hdepth v) g (rlimit v) (slimit v) (pending v).
Definition set_pending v b := mkVm (frames v) (stack v) (hdepth v) (gens v) (rlimit v) (slimit v) b.

Definition f_set_envs f e := mkF (fp f) (rp f) (regs f) (argc f) (exit_early f) (pushed f) (env_fp f) e (pc f) (handlers f).
Definition f_set_pc f p := mkF (fp f) (rp f) (regs f) (argc f) (exit_early f) (pushed f) (env_fp f) (envs f) p (handlers f).
Definition f_set_exit f b := mkF (fp f) (rp f) (regs f) (argc f) b (pushed f) (env_fp f) (envs f) (pc f) (handlers f).
(* environments.truncate(n) *)
Definition f_trunc_env f n := f_set_envs f (Nat.min (envs f) n).

Definition dummy := mkF 0 0 0 0 false false 0 0 0 [].
Definition init (rl sl : nat) := mkVm [dummy] 0 0 [] rl sl false.

Definition top v := hd dummy (frames v).
Definition set_top (g : frame -> frame) v :=
  match frames v with [] => v | f :: r => set_frames v (g f :: r) end.
(* Vec::truncate *)
Definition trunc v n := set_stack v (Nat.min (stack v) n).

(* Vm::pop_frame: never pops the dummy frame *)
Definition pop_frame v : option (frame * vm) :=
  match frames v with
  | f :: (_ :: _) as r => Some (f, set_frames v r)
  | _ => None
  end.

(* Vm::push_frame *)
Definition push_frame v f :=
  if pushed f then set_frames v (f :: frames v)
  else
    let f' := mkF (stack v - argc f - 2) (stack v) (regs f) (argc f) (exit_early f) (pushed f)
                  (env_fp f) (envs f) (pc f) (handlers f) in
    set_stack (set_frames v (f' :: frames v)) (stack v + regs f).

(* Context::check_runtime_limits *)
Definition check_limits v : option lkind :=
  if rlimit v <=? (length (frames v) - 1 + hdepth v) then Some LRecursion
  else if slimit v <=? stack v then Some LStackSize
  else None.

(* CodeBlock::find_handler: innermost-last, contains = start <= pc < end *)
Definition h_contains (p : nat) (h : handler) := (h_start h <=? p) && (p <? h_end h).
Definition find_handler (hs : list handler) (p : nat) := find (h_contains p) (rev hs).

Definition land (f : frame) (h : handler) :=
  f_trunc_env (f_set_pc f (h_end h)) (env_fp f + h_envc h).

(* Vm::handle_exception_at *)
Definition handle_exception_at v (p : nat) : option vm :=
  match frames v with
  | [] => None
  | f :: r => match find_handler (handlers f) p with
              | None => None
              | Some h => Some (set_frames v (land f h :: r))
              end
  end.

(* the loop of Context::handle_throw after the throwing frame was popped *)
Fixpoint throw_loop (fx : fixes) (frs : list frame) (last : frame) (st : nat) : list frame * nat * ctl :=
  match frs with
  | [] => ([], st, Break CPanic)
  | cur :: below =>
      match find_handler (handlers cur) (pc cur) with
      | Some h => (land cur h :: below, st, Continue)
      | None =>
          if exit_early cur then
            if fx_throw fx then (f_trunc_env cur (env_fp cur) :: below, Nat.min st (fp cur), Break (CThrow true))
            else (cur :: below, st, Break (CThrow true))
          else
            match below with
            | [] => ([f_trunc_env cur (env_fp cur)], Nat.min st (fp last), Continue)
            | _ :: _ => throw_loop fx below cur st
            end
      end
  end.

(* Context::handle_throw *)
Definition handle_throw fx v : vm * ctl :=
  match frames v with
  | [] => (v, Break CPanic)
  | t :: below =>
      if exit_early t then
        (set_pending (set_stack (set_frames v (f_trunc_env t (env_fp t) :: below)) (Nat.min (stack v) (fp t))) false,
         Break (CThrow true))
      else
        match below with
        | [] => (v, Break CPanic)
        | _ :: _ => let '(frs, st, c) := throw_loop fx below t (stack v) in
                    let v1 := set_stack (set_frames v frs) st in
                    (* `pending_exception.take()` when the loop ends in a Break *)
                    (match c with Break _ => set_pending v1 false | Continue => v1 end, c)
        end
  end.

(* the loop of the uncatchable branch of Context::handle_error *)
Fixpoint error_loop (frs : list frame) (last : option frame) (efp : nat) : list frame * option frame * nat :=
  match frs with
  | [] => ([], last, efp)
  | cur :: below =>
      if exit_early cur then (frs, last, efp)
      else match below with
           | [] => (frs, last, env_fp cur)
           | _ :: _ => error_loop below (Some cur) (env_fp cur)
           end
  end.

(* Context::handle_error *)
Definition handle_error fx v (catchable : bool) : vm * ctl :=
  if catchable then
    match handle_exception_at v (pc (top v) - 1) with
    | Some v' => (set_pending v' true, Continue)
    | None => handle_throw fx (set_pending v true)
    end
  else
    let '(frs, last, efp) := error_loop (frames v) None (envs (top v)) in
    let v1 := set_top (fun f => f_trunc_env f efp) (set_frames v frs) in
    let v2 :=
      if fx_error fx && exit_early (top v1) then trunc v1 (fp (top v1))
      else match last with Some f => trunc v1 (fp f) | None => v1 end in
    ((if fx_pending fx then set_pending v2 false else v2), Break (CThrow false)).

(* Context::handle_return *)
Definition handle_return v : vm * ctl :=
  let t := top v in
  let v1 := trunc v (fp t) in
  if exit_early t then (v1, Break CReturn)
  else match pop_frame (set_stack v1 (stack v1 + 1)) with
       | Some (_, v2) => (v2, Continue)
       | None => (v1, Break CPanic)
       end.

(* Context::handle_yield *)
Definition handle_yield v : vm * ctl :=
  if exit_early (top v) then (v, Break CNormal)
  else match pop_frame (set_stack v (stack v + 1)) with
       | Some (_, v2) => (v2, Continue)
       | None => (v, Break CPanic)
       end.

(* Generator opcode: GeneratorContext::from_current, then handle_yield *)
(* also the Await opcode (start = false): the continuation is resumed with a value, like a generator after a yield *)
Definition gen_create (start : bool) v : vm * ctl :=
  let t := top v in
  let gs := stack v - fp t in
  let f := mkF 0 (rp t - fp t) (regs t) (argc t) (exit_early t) true (env_fp t) (envs t) (pc t) (handlers t) in
  handle_yield (set_gens (trunc v (fp t)) (gens v ++ [if start then GStart gs f else GYield gs f])).

Definition gens_set (l : list gstate) (g : nat) (s : gstate) : list gstate :=
  firstn g l ++ s :: skipn (S g) l.

Definition untidy (v : vm) : list obs := if pending v then [OUntidy] else [].

Definition compl_res (c : compl) : rres :=
  match c with CNormal | CReturn => ROk | CThrow b => RErr b | CPanic => RPanic end.

(* what `run()` returns when the behaviour of the entry frame ended without a Break: the frame at the run
   boundary is gone and control would continue in a frame that does not belong to this run() (only reachable
   from ill-formed states; `no_engine_panic` shows it never happens) *)
Definition escaped (v : vm) : compl := CPanic.

Definition ordinary_frame (argc regs : nat) (hs : list handler) (ee : bool) (envfp nenv : nat) :=
  mkF 0 0 regs argc ee false envfp (envfp + nenv) 0 hs.

Section Exec.
Variable fx : fixes.

Definition err_ctl v (r : rres) : vm * ctl :=
  match r with
  | ROk => (v, Continue)
  | RErr c => handle_error fx v c
  | RPanic => (v, Break CPanic)
  end.

(* `last` threads the result of the most recent nested host entry (for RPropagate) *)
Fixpoint run_act (v : vm) (a : act) {struct a} : vm * ctl * list obs :=
  match a with
  | APush n => (set_stack v (stack v + n), Continue, [])
  | APop n =>
      if rp (top v) + regs (top v) + n <=? stack v then (set_stack v (stack v - n), Continue, [])
      else (v, Continue, [])
  | ASetPc p => (set_top (fun f => f_set_pc f p) v, Continue, [])
  | AEnvPush => (set_top (fun f => f_set_envs f (S (envs f))) v, Continue, [])
  | AEnvPop => (set_top (fun f => if env_fp f <? envs f then f_set_envs f (envs f - 1) else f) v, Continue, [])
  | AProbe id => (v, Continue, [OProbe id (length (frames v)) (stack v) (hdepth v)])
  | ACall ac rg hs construct envfp nenv body =>
      let need := ac + 2 + (if construct then 1 else 0) in
      if rp (top v) + regs (top v) + need <=? stack v then
        match check_limits v with
        | Some k => let '(v1, c) := handle_error fx v false in (v1, c, [OLimit k])
        | None =>
            let v1 := if construct then set_stack v (stack v - 1) else v in
            let v2 := push_frame v1 (ordinary_frame ac rg hs false envfp nenv) in
            let '(v3, r, o) := run_acts v2 body in
            match r with
            | Some c => (v3, Break c, o)
            | None => (v3, Continue, o)
            end
        end
      else (v, Continue, [])
  | ANew ac rg hs envfp nenv init body =>
      (* function_construct reached from bytecode, step by step: limits; pop new_target; the Rust code that runs
         before the callee frame exists (prototype lookup, InitializeInstanceElements: field initialisers and
         private methods, each a nested host [[Call]]) -- its `?` returns with no frame pushed --; push_frame; body *)
      let need := ac + 3 in
      if rp (top v) + regs (top v) + need <=? stack v then
        match check_limits v with
        | Some k => let '(v1, c) := handle_error fx v false in (v1, c, [OLimit k])
        | None =>
            let v1 := set_stack v (stack v - 1) in
            let '(v1', ri, oi) := run_racts v1 ROk init in
            match ri with
            | ROk =>
                let v2 := push_frame v1' (ordinary_frame ac rg hs false envfp nenv) in
                let '(v3, r, o) := run_acts v2 body in
                match r with
                | Some c => (v3, Break c, oi ++ o)
                | None => (v3, Continue, oi ++ o)
                end
            | _ => let '(v3, c) := err_ctl v1' ri in (v3, c, oi)
            end
        end
      else (v, Continue, [])
  | ACallErr lf =>
      (* [[Call]] fails before a frame is pushed: function_call checks the limits first (class constructor
         called without `new`), non-callable values fail at once *)
      match (if lf then check_limits v else None) with
      | Some k => let '(v1, c) := handle_error fx v false in (v1, c, [OLimit k])
      | None => let '(v1, c) := handle_error fx v true in (v1, c, [])
      end
  | ACallNative ac construct body =>
      let need := ac + 2 + (if construct then 1 else 0) in
      if rp (top v) + regs (top v) + need <=? stack v then
        if construct then
          (* native_function_construct: limits first, then the pops *)
          match check_limits v with
          | Some k => let '(v1, c) := handle_error fx v false in (v1, c, [OLimit k])
          | None =>
              let v1 := set_stack v (stack v - need) in
              let '(v2, r, o) := run_racts v1 ROk body in
              match r with
              | ROk => (set_stack v2 (stack v2 + 1), Continue, o)
              | _ => let '(v3, c) := err_ctl v2 r in (v3, c, o)
              end
          end
        else
          (* native_function_call: pops first, then the limits *)
          let v1 := set_stack v (stack v - need) in
          match check_limits v1 with
          | Some k => let '(v2, c) := handle_error fx v1 false in (v2, c, [OLimit k])
          | None =>
              let '(v2, r, o) := run_racts v1 ROk body in
              match r with
              | ROk => (set_stack v2 (stack v2 + 1), Continue, o)
              | _ => let '(v3, c) := err_ctl v2 r in (v3, c, o)
              end
          end
      else (v, Continue, [])
  | ARust body =>
      let '(v2, r, o) := run_racts v ROk body in
      let '(v3, c) := err_ctl v2 r in (v3, c, o)
  | AReturn => let '(v1, c) := handle_return v in (v1, c, untidy v)
  | AYield => if pushed (top v) then let '(v1, c) := handle_yield v in (v1, c, untidy v) else (v, Continue, [])
  | AGenCreate => if pushed (top v) then (v, Continue, []) else let '(v1, c) := gen_create true v in (v1, c, untidy v)
  | AAwait => let '(v1, c) := gen_create false v in (v1, c, untidy v)
  | AThrow =>
      (* Throw opcode: pending_exception = Some(..) first *)
      let v0 := set_pending v true in
      match handle_exception_at v0 (pc (top v0) - 1) with
      | Some v1 => (v1, Continue, [])
      | None => let '(v1, c) := handle_throw fx v0 in (v1, c, [])
      end
  | ARethrow =>
      match handle_exception_at v (pc (top v) - 1) with
      | Some v1 => (v1, Continue, [])
      | None =>
          if pending v then let '(v1, c) := handle_throw fx v in (v1, c, [])
          else let '(v1, c) := handle_return v in (v1, c, [])
      end
  | AException => (set_pending v false, Continue, [])   (* Exception / MaybeException: pending_exception.take() *)
  | AError c => let '(v1, k) := handle_error fx v c in (v1, k, [])
  end

(* the behaviour of the current frame; returns Some c when run() broke with c, None when the frame
   this body belongs to is no longer on the frame stack (control is in an ancestor of this run()) *)
with run_acts (v : vm) (l : acts) {struct l} : vm * option compl * list obs :=
  match l with
  | ANil =>
      (* code blocks end in Return *)
      let '(v1, c) := handle_return v in
      match c with Break k => (v1, Some k, untidy v) | Continue => (v1, None, untidy v) end
  | ACons a rest =>
      let n := length (frames v) in
      let '(v1, c, o) := run_act v a in
      match c with
      | Break k => (v1, Some k, o)
      | Continue =>
          if length (frames v1) <? n then (v1, None, o)
          else let '(v2, r, o2) := run_acts v1 rest in (v2, r, o ++ o2)
      end
  end

(* one step of Rust code (the embedder, a native function, an opcode handler calling back) *)
with run_ract (v : vm) (last : rres) (r : ract) {struct r} : vm * option rres * rres * list obs :=
  (* result: (state, Some res = the Rust code returned res | None = goes on, last, observations) *)
  let done v res := (v, None, res, [ODone res (length (frames v)) (stack v) (hdepth v)]) in
  let boundary v2 (r : option compl) := match r with Some c => c | None => escaped v2 end in
  match r with
  | RProbe id => (v, None, last, [OProbe id (length (frames v)) (stack v) (hdepth v)])
  | RHostEval rg hs envfp nenv ok body =>
      (* Script::evaluate / perform_eval: push this, func; push_frame(EXIT_EARLY); declaration instantiation *)
      let s0 := stack v in
      let v1 := push_frame (set_stack v (s0 + 2)) (ordinary_frame 0 rg hs true envfp nenv) in
      if ok then
        let '(v2, r, o) := run_acts v1 body in
        let c := boundary v2 r in
        let v3 := match pop_frame v2 with Some (_, v3) => v3 | None => v2 end in
        let '(v4, x, res, o2) := done v3 (compl_res c) in (v4, x, res, o ++ o2)
      else
        let v2 := match pop_frame v1 with
                  | Some (f, v2) => if fx_decl fx then trunc v2 (fp f) else v2
                  | None => v1 end in
        done v2 (RErr true)
  | RHostCall ac rg hs envfp nenv body =>
      let s0 := stack v in
      let v1 := set_stack v (s0 + 2 + ac) in
      match check_limits v1 with
      | Some k =>
          let v2 := if fx_call fx then trunc v1 s0 else v1 in
          let '(v3, x, res, o) := done v2 (RErr false) in (v3, x, res, OLimit k :: o)
      | None =>
          let v2 := push_frame v1 (ordinary_frame ac rg hs true envfp nenv) in
          let v3 := set_hdepth v2 (S (hdepth v2)) in
          let '(v4, r, o) := run_acts v3 body in
          let c := boundary v4 r in
          let v5 := set_hdepth v4 (hdepth v4 - 1) in
          match pop_frame v5 with
          | Some (_, v6) => let '(v7, x, res, o2) := done v6 (compl_res c) in (v7, x, res, o ++ o2)
          | None => let '(v7, x, res, o2) := done v5 RPanic in (v7, x, res, o ++ o2)
          end
      end
  | RHostCallErr ac lf =>
      let s0 := stack v in
      let v1 := set_stack v (s0 + 2 + ac) in
      let v2 := if fx_call fx then trunc v1 s0 else v1 in
      match (if lf then check_limits v1 else None) with
      | Some k => let '(v3, x, res, o) := done v2 (RErr false) in (v3, x, res, OLimit k :: o)
      | None => done v2 (RErr true)
      end
  | RHostCallNative ac body =>
      (* push this/func/args; native_function_call pops them, then checks the limits *)
      let v1 := set_stack v (stack v + 2 + ac - (2 + ac)) in
      match check_limits v1 with
      | Some k => let '(v3, x, res, o) := done v1 (RErr false) in (v3, x, res, OLimit k :: o)
      | None =>
          let '(v2, r, o) := run_racts v1 ROk body in
          (* Ok: push the result, `resolve` = Complete, JsObject::call pops it *)
          let '(v3, x, res, o2) := done v2 r in (v3, x, res, o ++ o2)
      end
  | RHostConstruct ac rg hs envfp nenv proto_ok body =>
      let s0 := stack v in
      let v1 := set_stack v (s0 + 3 + ac) in
      match check_limits v1 with
      | Some k =>
          let v2 := if fx_call fx then trunc v1 s0 else v1 in
          let '(v3, x, res, o) := done v2 (RErr false) in (v3, x, res, OLimit k :: o)
      | None =>
          let v1' := set_stack v1 (stack v1 - 1) in
          if proto_ok then
            let v2 := push_frame v1' (ordinary_frame ac rg hs true envfp nenv) in
            let v3 := set_hdepth v2 (S (hdepth v2)) in
            let '(v4, r, o) := run_acts v3 body in
            let c := boundary v4 r in
            let v5 := set_hdepth v4 (hdepth v4 - 1) in
            match pop_frame v5 with
            | Some (_, v6) => let '(v7, x, res, o2) := done v6 (compl_res c) in (v7, x, res, o ++ o2)
            | None => let '(v7, x, res, o2) := done v5 RPanic in (v7, x, res, o ++ o2)
            end
          else
            let v2 := if fx_call fx then trunc v1' s0 else v1' in
            done v2 (RErr true)
      end
  | RHostNew ac rg hs envfp nenv init body =>
      (* JsObject::construct on an ordinary constructor, function_construct step by step (see ANew) *)
      let s0 := stack v in
      let v1 := set_stack v (s0 + 3 + ac) in
      match check_limits v1 with
      | Some k =>
          let v2 := if fx_call fx then trunc v1 s0 else v1 in
          let '(v3, x, res, o) := done v2 (RErr false) in (v3, x, res, OLimit k :: o)
      | None =>
          let v1' := set_stack v1 (stack v1 - 1) in
          let '(v1i, ri, oi) := run_racts v1' ROk init in
          match ri with
          | ROk =>
              let v2 := push_frame v1i (ordinary_frame ac rg hs true envfp nenv) in
              let v3 := set_hdepth v2 (S (hdepth v2)) in
              let '(v4, r, o) := run_acts v3 body in
              let c := boundary v4 r in
              let v5 := set_hdepth v4 (hdepth v4 - 1) in
              match pop_frame v5 with
              | Some (_, v6) => let '(v7, x, res, o2) := done v6 (compl_res c) in (v7, x, res, oi ++ o ++ o2)
              | None => let '(v7, x, res, o2) := done v5 RPanic in (v7, x, res, oi ++ o ++ o2)
              end
          | _ =>
              let v2 := if fx_call fx then trunc v1i s0 else v1i in
              let '(v3, x, res, o2) := done v2 ri in (v3, x, res, oi ++ o2)
          end
      end
  | RHostConstructNative ac body =>
      (* native_function_construct: limits are checked before new_target/args/func/this are popped *)
      let s0 := stack v in
      let v1 := set_stack v (s0 + 3 + ac) in
      match check_limits v1 with
      | Some k =>
          let v2 := if fx_call fx then trunc v1 s0 else v1 in
          let '(v3, x, res, o) := done v2 (RErr false) in (v3, x, res, OLimit k :: o)
      | None =>
          let v1' := set_stack v1 (stack v1 - (3 + ac)) in
          let '(v2, r, o) := run_racts v1' ROk body in
          let '(v3, x, res, o2) := done v2 r in (v3, x, res, o ++ o2)
      end
  | RResume g kind body =>
      let start_resume gs f (with_value : bool) :=
        (* GeneratorContext::resume: swap stacks, push the frame (fp/rp kept), EXIT_EARLY, push value?, resume kind *)
        let outer := stack v in
        let v1 := set_gens (set_stack v gs) (gens_set (gens v) g GExec) in
        let v2 := push_frame v1 (f_set_exit f true) in
        let v3 := set_stack v2 (stack v2 + (if with_value then 2 else 1)) in
        let '(v4, r, o) := run_acts v3 body in
        let c := boundary v4 r in
        let gs' := stack v4 in
        let v5 := set_stack v4 outer in
        match pop_frame v5 with
        | Some (f', v6) =>
            (* a context whose stack was split off again by an Await is dead: the continuation lives in the new one *)
            let st := match c with
                      | CNormal => if rp f' + regs f' <=? gs' then GYield gs' f' else GDone
                      | _ => GDone end in
            let v7 := set_gens v6 (gens_set (gens v6) g st) in
            let '(v8, x, res, o2) := done v7 (compl_res c) in (v8, x, res, o ++ o2)
        | None => let '(v8, x, res, o2) := done v5 RPanic in (v8, x, res, o ++ o2)
        end in
      match nth_error (gens v) g with
      | None => done v (RErr true)
      | Some GExec => done v (RErr true)
      | Some GDone => match kind with KThr => done v (RErr true) | _ => done v ROk end
      | Some (GStart gs f) =>
          match kind with
          | KNext => start_resume gs f false
          | KRet => done (set_gens v (gens_set (gens v) g GDone)) ROk
          | KThr => done (set_gens v (gens_set (gens v) g GDone)) (RErr true)
          end
      | Some (GYield gs f) => start_resume gs f true
      end
  | RBlock body =>
      (* embedder-side Rust code made of several entries (Context::run_jobs: an Err from a job ends it) *)
      let '(v2, r, o) := run_racts v ROk body in
      let '(v3, x, res, o2) := done v2 r in (v3, x, res, o ++ o2)
  | RHostModuleLink rg =>
      (* SourceTextModule::initialize_environment: push this/func, push_frame (no EXIT_EARLY, nothing runs), pop_frame *)
      let v1 := push_frame (set_stack v (stack v + 2)) (ordinary_frame 0 rg [] false 0 0) in
      match pop_frame v1 with
      | Some (f, v2) => done (if fx_modlink fx then trunc v2 (fp f) else v2) ROk
      | None => done v1 RPanic
      end
  | RReturn => (v, Some ROk, last, [])
  | RThrow c => (v, Some (RErr c), last, [])
  | RPropagate all =>
      (* `?` on the result of the last nested entry; all = false: only engine errors propagate (a promise job
         turns a thrown value into a rejection) *)
      match last with
      | ROk => (v, None, last, [])
      | RErr true => if all then (v, Some last, last, []) else (v, None, last, [])
      | e => (v, Some e, last, [])
      end
  end

with run_racts (v : vm) (last : rres) (l : racts) {struct l} : vm * rres * list obs :=
  match l with
  | RNil => (v, ROk, [])
  | RCons r rest =>
      let '(v1, x, last1, o) := run_ract v last r in
      match x with
      | Some res => (v1, res, o)
      | None => let '(v2, res, o2) := run_racts v1 last1 rest in (v2, res, o ++ o2)
      end
  end.

(* the embedder: a list of host entries on one context *)
Definition run_host (v : vm) (l : racts) : vm * list obs :=
  let '(v1, _, o) := run_racts v ROk l in (v1, o).

(* one host entry seen from the embedder: resulting state and its result *)
Definition run_entry (v : vm) (e : ract) : vm * rres :=
  let '(v1, _, last, _) := run_ract v ROk e in (v1, last).

Fixpoint run_history (v : vm) (h : list ract) : list rres :=
  match h with
  | [] => []
  | e :: t => let '(v1, r) := run_entry v e in r :: run_history v1 t
  end.

(* the sub-history of the entries that completed normally *)
Fixpoint successes (v : vm) (h : list ract) : list ract :=
  match h with
  | [] => []
  | e :: t => let '(v1, r) := run_entry v e in
              match r with ROk => e :: successes v1 t | _ => successes v1 t end
  end.

End Exec.

Definition is_ok (r : rres) : bool := match r with ROk => true | _ => false end.

(* entries that touch no generator object (no creation, no resumption) *)
Fixpoint genfree_act (a : act) : bool :=
  match a with
  | ACall _ _ _ _ _ _ b => genfree_acts b
  | ANew _ _ _ _ _ i b => genfree_racts i && genfree_acts b
  | ACallNative _ _ b => genfree_racts b
  | ARust b => genfree_racts b
  | AGenCreate => false
  | AAwait => false
  | _ => true
  end
with genfree_acts (l : acts) : bool :=
  match l with ANil => true | ACons a r => genfree_act a && genfree_acts r end
with genfree_ract (r : ract) : bool :=
  match r with
  | RHostEval _ _ _ _ _ b => genfree_acts b
  | RHostCall _ _ _ _ _ b => genfree_acts b
  | RHostCallNative _ b => genfree_racts b
  | RHostConstruct _ _ _ _ _ _ b => genfree_acts b
  | RHostConstructNative _ b => genfree_racts b
  | RHostNew _ _ _ _ _ i b => genfree_racts i && genfree_acts b
  | RResume _ _ _ => false
  | RBlock b => genfree_racts b
  | _ => true
  end
with genfree_racts (l : racts) : bool :=
  match l with RNil => true | RCons r t => genfree_ract r && genfree_racts t end.

(* a host entry proper (what the embedder can do), as opposed to the return/throw steps of native code *)
Definition is_entry (r : ract) : bool :=
  match r with RReturn | RThrow _ | RPropagate _ => false | _ => true end.
