(* C07 — proofs about the VmStack model: the repaired transitions (fx_new) keep every host entry balanced
   for all behaviour trees; the transitions of the unrepaired tree (fx_old) do not. *)
From Coq Require Import List Arith Bool Lia.
Import ListNotations.
From C07 Require Import Model_C07.

(* ------------------------------------------------------------------------------------------ *)
(* invariants *)

Definition nonexit (f : frame) := exit_early f = false /\ pushed f = false.

Definition same_shape (a b : frame) :=
  fp a = fp b /\ rp a = rp b /\ regs a = regs b /\ exit_early a = exit_early b /\ pushed a = pushed b.

(* frames of one value stack, innermost first: each register file fits below the next frame *)
Fixpoint chain (fs : list frame) (s : nat) : Prop :=
  match fs with
  | [] => True
  | f :: r => fp f <= rp f /\ rp f + regs f <= s /\ chain r (fp f)
  end.

(* the frames of the innermost `run()`: non-EXIT_EARLY frames `seg` above the entry frame (a variant E' of
   E that differs at most in pc / environments), and the untouched frames `below` of the Rust caller *)
Definition Inv (fs : list frame) (st : nat) (E : frame) (below : list frame) :=
  exists seg E', fs = seg ++ E' :: below /\ same_shape E E' /\ below <> [] /\
                 Forall nonexit seg /\ exit_early E = true /\ chain (seg ++ [E']) st.

Definition gwf (g : gstate) :=
  match g with
  | GStart gs f | GYield gs f => fp f = 0 /\ rp f + regs f <= gs /\ pushed f = true
  | _ => True
  end.
Definition GInv (v : vm) := Forall gwf (gens v).

Definition wf (v : vm) := frames v <> [] /\ GInv v.

Definition aux_same (v v' : vm) :=
  hdepth v' = hdepth v /\ rlimit v' = rlimit v /\ slimit v' = slimit v.

Definition Post (c : compl) (v' : vm) (E : frame) (below : list frame) :=
  exists E', frames v' = E' :: below /\ same_shape E E' /\ c <> CPanic /\
    match c with
    | CNormal => stack v' = fp E \/ (pushed E = true /\ rp E + regs E <= stack v')
    | _ => stack v' = fp E
    end.

Definition ctl_ok (c : ctl) (v v' : vm) (E : frame) (below : list frame) :=
  match c with
  | Continue => Inv (frames v') (stack v') E below /\ length (frames v') <= length (frames v)
  | Break k => Post k v' E below
  end.

(* ------------------------------------------------------------------------------------------ *)
(* basic facts *)

Ltac splits := repeat match goal with |- _ /\ _ => split end.

Lemma same_shape_refl a : same_shape a a.
Proof. unfold same_shape; tauto. Qed.
Lemma same_shape_trans a b c : same_shape a b -> same_shape b c -> same_shape a c.
Proof. unfold same_shape; intuition congruence. Qed.
Lemma same_shape_sym a b : same_shape a b -> same_shape b a.
Proof. unfold same_shape; intuition congruence. Qed.

Lemma chain_mono fs s s' : chain fs s -> s <= s' -> chain fs s'.
Proof. destruct fs; simpl; intuition lia. Qed.

Lemma chain_last_fp seg E s : chain (seg ++ [E]) s -> fp E <= s.
Proof.
  revert s. induction seg as [|a seg IH]; simpl; intros s H.
  - lia.
  - destruct H as (H1 & H2 & H3). apply IH in H3. lia.
Qed.

Lemma chain_shape seg E E' s : same_shape E E' -> chain (seg ++ [E]) s -> chain (seg ++ [E']) s.
Proof.
  intros (S1 & S2 & S3 & _). revert s. induction seg as [|a seg IH]; simpl; intros s H.
  - rewrite <- S1, <- S2, <- S3. exact H.
  - destruct H as (H1 & H2 & H3). auto.
Qed.

Lemma chain_head_shape a a' r s : same_shape a a' -> chain (a :: r) s -> chain (a' :: r) s.
Proof. intros (S1 & S2 & S3 & _). simpl. rewrite <- S1, <- S2, <- S3. auto. Qed.

Lemma land_shape f h : same_shape f (land f h).
Proof. unfold same_shape, land, f_trunc_env, f_set_envs, f_set_pc; simpl; tauto. Qed.
Lemma trunc_env_shape f n : same_shape f (f_trunc_env f n).
Proof. unfold same_shape, f_trunc_env, f_set_envs; simpl; tauto. Qed.

Lemma nonexit_shape a b : same_shape a b -> nonexit a -> nonexit b.
Proof. unfold same_shape, nonexit. intuition congruence. Qed.

Lemma Inv_mono fs st st' E below : Inv fs st E below -> st <= st' -> Inv fs st' E below.
Proof.
  intros (seg & E' & H1 & H2 & H3 & H4 & H5 & H6) L.
  exists seg, E'. splits; auto. eapply chain_mono; eauto.
Qed.

Lemma Inv_len fs st E below : Inv fs st E below -> S (length below) <= length fs.
Proof.
  intros (seg & E' & H1 & _). subst fs. rewrite app_length. simpl. lia.
Qed.


Ltac fin :=
  simpl in *;
  try assumption; try reflexivity; try discriminate; try congruence;
  try (solve [lia]);
  try (solve [auto using same_shape_refl, land_shape, trunc_env_shape]);
  try (solve [eapply same_shape_trans; eauto using land_shape, trunc_env_shape]);
  try (solve [constructor; auto; eapply nonexit_shape; eauto using land_shape, trunc_env_shape]);
  try (solve [eapply chain_mono; eauto; lia]);
  try (solve [unfold same_shape, nonexit in *; intuition congruence]);
  try (solve [unfold same_shape, nonexit in *; intuition lia]).


Ltac sf := splits; fin; splits; fin.

(* ------------------------------------------------------------------------------------------ *)
(* the unwinding loops *)

Lemma throw_loop_spec E' below : exit_early E' = true -> below <> [] ->
  forall seg last st s0, Forall nonexit seg -> chain (seg ++ [E']) s0 -> s0 <= st ->
  match throw_loop fx_new (seg ++ E' :: below) last st with
  | (frs, st', Continue) =>
      st' = st /\ exists seg2 E2, frs = seg2 ++ E2 :: below /\ same_shape E' E2 /\ Forall nonexit seg2 /\
                                  chain (seg2 ++ [E2]) st /\ length seg2 <= length seg
  | (frs, st', Break c) => c = CThrow true /\ st' = fp E' /\ exists E2, frs = E2 :: below /\ same_shape E' E2
  end.
Proof.
  intros EE NB. induction seg as [|a seg IH]; intros last st s0 NE CH LE.
  - simpl. destruct (find_handler (handlers E') (pc E')) as [h|].
    + split; auto. exists [], (land E' h). splits; fin.
    + rewrite EE. simpl. splits; fin.
      exists (f_trunc_env E' (env_fp E')). split; fin.
  - simpl app. simpl throw_loop. inversion NE as [|? ? NA NE']; subst.
    simpl in CH. destruct CH as (C1 & C2 & C3).
    destruct (find_handler (handlers a) (pc a)) as [h|].
    + split; auto. exists (land a h :: seg), E'. sf.
    + destruct NA as (NA1 & NA2). rewrite NA1.
      assert (exists x y, seg ++ E' :: below = x :: y) as (x & y & EQ) by (destruct seg; simpl; eauto).
      rewrite EQ. rewrite <- EQ.
      specialize (IH a st (fp a) NE' C3).
      assert (fp a <= st) as L by lia. specialize (IH L).
      destruct (throw_loop fx_new (seg ++ E' :: below) a st) as ((frs & st') & [|c]).
      * destruct IH as (I1 & seg2 & E2 & I2 & I3 & I4 & I5 & I6). split; auto.
        exists seg2, E2. splits; fin.
      * exact IH.
Qed.

Lemma error_loop_spec E' below : exit_early E' = true ->
  forall seg last efp, Forall nonexit seg ->
  fst (fst (error_loop (seg ++ E' :: below) last efp)) = E' :: below.
Proof.
  intros EE. induction seg as [|a seg IH]; intros last efp NE.
  - simpl. rewrite EE. reflexivity.
  - simpl app. simpl error_loop. inversion NE as [|? ? NA NE']; subst. destruct NA as (NA1 & _). rewrite NA1.
    assert (exists x y, seg ++ E' :: below = x :: y) as (x & y & EQ) by (destruct seg; simpl; eauto).
    rewrite EQ. rewrite <- EQ. apply IH; auto.
Qed.

Ltac dv v := destruct v as [fs st hd gs rl sl pd]; simpl in *.

Lemma handle_exception_at_spec v p E below v' :
  Inv (frames v) (stack v) E below -> handle_exception_at v p = Some v' ->
  Inv (frames v') (stack v') E below /\ length (frames v') = length (frames v) /\ aux_same v v' /\ gens v' = gens v.
Proof.
  intros (seg & E' & H1 & H2 & H3 & H4 & H5 & H6) HE. dv v. subst fs.
  unfold handle_exception_at in HE. simpl in HE.
  destruct seg as [|a seg]; simpl in HE.
  - destruct (find_handler (handlers E') p) as [h|]; inversion HE; subst; clear HE. unfold aux_same. simpl.
    splits; auto.
    exists [], (land E' h). sf.
  - destruct (find_handler (handlers a) p) as [h|]; inversion HE; subst; clear HE. unfold aux_same. simpl.
    splits; auto.
    exists (land a h :: seg), E'. inversion H4; subst. sf.
Qed.

Lemma handle_throw_spec v E below :
  Inv (frames v) (stack v) E below ->
  let '(v', c) := handle_throw fx_new v in
  ctl_ok c v v' E below /\ aux_same v v' /\ gens v' = gens v.
Proof.
  intros (seg & E' & H1 & H2 & H3 & H4 & H5 & H6). dv v. subst fs.
  assert (EE : exit_early E' = true) by (destruct H2 as (_ & _ & _ & X & _); congruence).
  unfold handle_throw, aux_same. simpl.
  destruct seg as [|a seg]; simpl.
  - rewrite EE. simpl. splits; auto.
    exists (f_trunc_env E' (env_fp E')). destruct H2 as (S1 & S2 & S3 & S4 & S5). unfold same_shape. sf.
  - inversion H4 as [|? ? NA NE']; subst. destruct NA as (NA1 & NA2). rewrite NA1.
    assert (exists x y, seg ++ E' :: below = x :: y) as (x & y & EQ) by (destruct seg; simpl; eauto).
    rewrite EQ. rewrite <- EQ.
    simpl in H6. destruct H6 as (C1 & C2 & C3).
    pose proof (throw_loop_spec E' below EE H3 seg a st (fp a) NE' C3) as TL.
    assert (fp a <= st) as L by lia. specialize (TL L).
    destruct (throw_loop fx_new (seg ++ E' :: below) a st) as ((frs & st') & [|c]); simpl.
    + destruct TL as (T1 & seg2 & E2 & T2 & T3 & T4 & T5 & T6). subst. splits; auto.
      * exists seg2, E2. sf.
      * rewrite !app_length. simpl. lia.
    + destruct TL as (T1 & T2 & E2 & T3 & T4). subst. splits; auto.
      exists E2. destruct H2 as (S1 & S2 & S3 & S4 & S5). sf.
Qed.

Lemma handle_error_spec v E below cat :
  Inv (frames v) (stack v) E below ->
  let '(v', c) := handle_error fx_new v cat in
  ctl_ok c v v' E below /\ aux_same v v' /\ gens v' = gens v.
Proof.
  intros I. unfold handle_error. destruct cat.
  - destruct (handle_exception_at v (pc (top v) - 1)) as [v'|] eqn:HE.
    + apply (handle_exception_at_spec v _ E below v' I) in HE. destruct HE as (A & B & C & D).
      simpl. splits; auto. lia.
    + exact (handle_throw_spec (set_pending v true) E below I).
  - destruct I as (seg & E' & H1 & H2 & H3 & H4 & H5 & H6). dv v. subst fs.
    assert (EE : exit_early E' = true) by (destruct H2 as (_ & _ & _ & X & _); congruence).
    pose proof (error_loop_spec E' below EE seg None (envs (top (mkVm (seg ++ E' :: below) st hd gs rl sl pd))) H4) as EL.
    destruct (error_loop (seg ++ E' :: below) None (envs (top (mkVm (seg ++ E' :: below) st hd gs rl sl pd)))) as ((frs & last) & efp).
    simpl in EL. subst frs. unfold set_top, set_frames, trunc, top, aux_same. simpl. rewrite EE. simpl.
    splits; auto.
    exists (f_trunc_env E' efp). apply chain_last_fp in H6. sf.
Qed.

Lemma handle_return_spec v E below :
  Inv (frames v) (stack v) E below ->
  let '(v', c) := handle_return v in
  ctl_ok c v v' E below /\ aux_same v v' /\ gens v' = gens v /\
  (c = Continue -> length (frames v') < length (frames v)).
Proof.
  intros (seg & E' & H1 & H2 & H3 & H4 & H5 & H6). dv v. subst fs.
  assert (EE : exit_early E' = true) by (destruct H2 as (_ & _ & _ & X & _); congruence).
  unfold handle_return, top, trunc, pop_frame, aux_same. simpl.
  destruct seg as [|a seg]; simpl.
  - rewrite EE. simpl. splits; auto; try discriminate.
    exists E'. sf.
  - inversion H4 as [|? ? NA NE']; subst. destruct NA as (NA1 & NA2). rewrite NA1.
    assert (exists x y, seg ++ E' :: below = x :: y) as (x & y & EQ) by (destruct seg; simpl; eauto).
    rewrite EQ. simpl. rewrite <- EQ.
    simpl in H6. destruct H6 as (C1 & C2 & C3).
    splits; auto; try lia.
    exists seg, E'. sf.
Qed.

Lemma handle_yield_spec v E below :
  Inv (frames v) (stack v) E below -> pushed (top v) = true ->
  let '(v', c) := handle_yield v in
  ctl_ok c v v' E below /\ aux_same v v' /\ gens v' = gens v.
Proof.
  intros (seg & E' & H1 & H2 & H3 & H4 & H5 & H6) Y. dv v. subst fs.
  assert (EE : exit_early E' = true) by (destruct H2 as (_ & _ & _ & X & _); congruence).
  unfold handle_yield, top, pop_frame, aux_same in *. simpl in *.
  destruct seg as [|a seg]; simpl in *.
  - rewrite EE. simpl. splits; auto.
    exists E'. sf.
  - inversion H4 as [|? ? NA NE']; subst. destruct NA as (NA1 & NA2). congruence.
Qed.

Lemma gen_create_spec start v E below :
  Inv (frames v) (stack v) E below -> GInv v ->
  let '(v', c) := gen_create start v in
  ctl_ok c v v' E below /\ aux_same v v' /\ GInv v' /\ exists g, gens v' = gens v ++ [g].
Proof.
  intros (seg & E' & H1 & H2 & H3 & H4 & H5 & H6) G. dv v. subst fs.
  assert (EE : exit_early E' = true) by (destruct H2 as (_ & _ & _ & X & _); congruence).
  unfold gen_create, handle_yield, top, trunc, pop_frame, GInv, aux_same in *. simpl in *.
  destruct seg as [|a seg]; simpl in *.
  - rewrite EE. simpl. splits; auto.
    + exists E'. sf.
    + apply Forall_app. split; auto. constructor; auto. destruct start; sf.
    + eauto.
  - inversion H4 as [|? ? NA NE']; subst. destruct NA as (NA1 & NA2). rewrite NA1.
    assert (exists x y, seg ++ E' :: below = x :: y) as (x & y & EQ) by (destruct seg; simpl; eauto).
    rewrite EQ. simpl. rewrite <- EQ.
    destruct H6 as (C1 & C2 & C3).
    splits; auto; try lia.
    + exists seg, E'. sf.
    + apply Forall_app. split; auto. constructor; auto. destruct start; sf.
    + eauto.
Qed.

(* ------------------------------------------------------------------------------------------ *)
(* frame-stack bookkeeping *)

Lemma chain_rebase l s s' :
  chain l s -> match l with [] => True | h :: _ => rp h + regs h <= s' end -> chain l s'.
Proof. destruct l; simpl; intuition. Qed.

Lemma Inv_top_bound fs st E below : Inv fs st E below -> rp (hd dummy fs) + regs (hd dummy fs) <= st.
Proof.
  intros (seg & E' & H1 & H2 & H3 & H4 & H5 & H6). subst fs.
  destruct seg; simpl in *; lia.
Qed.

Lemma Inv_push fs st E below f st' :
  Inv fs st E below -> nonexit f -> fp f <= rp f -> rp f + regs f <= st' ->
  rp (hd dummy fs) + regs (hd dummy fs) <= fp f -> Inv (f :: fs) st' E below.
Proof.
  intros (seg & E' & H1 & H2 & H3 & H4 & H5 & H6) N A B C. subst fs.
  exists (f :: seg), E'. splits; auto.
  simpl. splits; auto. eapply chain_rebase; eauto.
  destruct seg; simpl in *; lia.
Qed.

Lemma Inv_entry E below st :
  below <> [] -> exit_early E = true -> fp E <= rp E -> rp E + regs E <= st -> Inv (E :: below) st E below.
Proof.
  intros. exists [], E. simpl. splits; auto using same_shape_refl.
Qed.

Lemma Inv_set_top g v E below :
  (forall f, same_shape f (g f)) -> Inv (frames v) (stack v) E below ->
  Inv (frames (set_top g v)) (stack (set_top g v)) E below /\
  length (frames (set_top g v)) = length (frames v) /\ aux_same v (set_top g v) /\ gens (set_top g v) = gens v.
Proof.
  intros SG (seg & E' & H1 & H2 & H3 & H4 & H5 & H6). dv v. subst fs. unfold set_top, aux_same. simpl.
  destruct seg as [|a seg]; simpl; splits; auto.
  - exists [], (g E'). pose proof (SG E'). sf.
  - exists (g a :: seg), E'. pose proof (SG a). inversion H4; subst. sf.
Qed.

Lemma top_pushed_is_entry fs st E below :
  Inv fs st E below -> pushed (hd dummy fs) = true -> pushed E = true.
Proof.
  intros (seg & E' & H1 & H2 & H3 & H4 & H5 & H6) P. subst fs.
  destruct seg as [|a seg]; simpl in *.
  - unfold same_shape in *. intuition congruence.
  - inversion H4 as [|? ? NA ?]; subst. destruct NA. congruence.
Qed.

Lemma pop_frame_post v c E below :
  Post c v E below -> below <> [] ->
  exists E', pop_frame v = Some (E', set_frames v below) /\ same_shape E E'.
Proof.
  intros (E' & F & S & _) NB. exists E'. split; auto.
  unfold pop_frame. rewrite F. destruct below; congruence.
Qed.

Lemma Forall_firstn' {A} (P : A -> Prop) n l : Forall P l -> Forall P (firstn n l).
Proof. revert l. induction n; destruct l; simpl; intros F; auto. inversion F; subst. constructor; auto. Qed.
Lemma Forall_skipn' {A} (P : A -> Prop) n l : Forall P l -> Forall P (skipn n l).
Proof. revert l. induction n; destruct l; simpl; intros F; auto. inversion F; subst. auto. Qed.

Lemma gens_set_wf l g s : Forall gwf l -> gwf s -> Forall gwf (gens_set l g s).
Proof.
  intros F S. unfold gens_set. apply Forall_app. split.
  - apply Forall_firstn'; auto.
  - constructor; auto. apply Forall_skipn'; auto.
Qed.

Lemma nth_gwf l g s : Forall gwf l -> nth_error l g = Some s -> gwf s.
Proof. intros F N. apply nth_error_In in N. eapply Forall_forall; eauto. Qed.

(* ------------------------------------------------------------------------------------------ *)
(* the main induction over behaviour trees *)

Scheme act_mut := Induction for act Sort Prop
with acts_mut := Induction for acts Sort Prop
with ract_mut := Induction for ract Sort Prop
with racts_mut := Induction for racts Sort Prop.
Combined Scheme tree_mutind from act_mut, acts_mut, ract_mut, racts_mut.

Definition gens_keep (gf : bool) (v v' : vm) := gf = true -> gens v' = gens v.
Definition R_ok (r : rres) := r <> RPanic.

Definition P_act (a : act) := forall v E below,
  Inv (frames v) (stack v) E below -> GInv v ->
  match run_act fx_new v a with
  | (v', c, _) => ctl_ok c v v' E below /\ aux_same v v' /\ GInv v' /\ gens_keep (genfree_act a) v v'
  end.

Definition P_acts (l : acts) := forall v E below,
  Inv (frames v) (stack v) E below -> GInv v ->
  match run_acts fx_new v l with
  | (v', r, _) =>
      aux_same v v' /\ GInv v' /\ gens_keep (genfree_acts l) v v' /\
      match r with
      | Some c => Post c v' E below
      | None => Inv (frames v') (stack v') E below /\ length (frames v') < length (frames v)
      end
  end.

Definition P_ract (r : ract) := forall v last, wf v ->
  match run_ract fx_new v last r with
  | (v', x, last', _) =>
      frames v' = frames v /\ stack v' = stack v /\ aux_same v v' /\ GInv v' /\
      gens_keep (genfree_ract r) v v' /\
      (R_ok last -> R_ok last' /\ match x with Some res => R_ok res | None => True end)
  end.

Definition P_racts (l : racts) := forall v last, wf v ->
  match run_racts fx_new v last l with
  | (v', res, _) =>
      frames v' = frames v /\ stack v' = stack v /\ aux_same v v' /\ GInv v' /\
      gens_keep (genfree_racts l) v v' /\ (R_ok last -> R_ok res)
  end.

Lemma aux_same_refl v : aux_same v v. Proof. unfold aux_same; auto. Qed.
Lemma aux_same_trans a b c : aux_same a b -> aux_same b c -> aux_same a c.
Proof. unfold aux_same. intuition congruence. Qed.

(* running the behaviour of a freshly pushed entry frame up to the Break of its run() *)
Lemma run_frame_spec body (IH : P_acts body) v1 E below :
  frames v1 = E :: below -> below <> [] -> exit_early E = true -> fp E <= rp E ->
  rp E + regs E <= stack v1 -> GInv v1 ->
  match run_acts fx_new v1 body with
  | (v2, r, _) =>
      Post (match r with Some c => c | None => escaped v2 end) v2 E below /\
      aux_same v1 v2 /\ GInv v2 /\ gens_keep (genfree_acts body) v1 v2
  end.
Proof.
  intros F NB EE A B G.
  assert (I : Inv (frames v1) (stack v1) E below) by (rewrite F; apply Inv_entry; auto).
  specialize (IH v1 E below I G).
  destruct (run_acts fx_new v1 body) as ((v2 & r) & o).
  destruct IH as (X1 & X2 & X3 & X4). splits; auto.
  destruct r as [c|]; auto.
  destruct X4 as (I2 & L). apply Inv_len in I2. rewrite F in L. simpl in L. lia.
Qed.

(* ------------------------------------------------------------------------------------------ *)
(* unfolding equations of the interpreter (each by reflexivity, so they cannot drift from the model) *)

Lemma run_act_ACall_eq fx v ac rg hs construct envfp nenv body :
  run_act fx v (ACall ac rg hs construct envfp nenv body) =
  (let need := ac + 2 + (if construct then 1 else 0) in
      if rp (top v) + regs (top v) + need <=? stack v then
        match check_limits v with
        | Some k => let '(v1, c) := handle_error fx v false in (v1, c, [OLimit k])
        | None =>
            let v1 := if construct then set_stack v (stack v - 1) else v in
            let v2 := push_frame v1 (ordinary_frame ac rg hs false envfp nenv) in
            let '(v3, r, o) := run_acts fx v2 body in
            match r with
            | Some c => (v3, Break c, o)
            | None => (v3, Continue, o)
            end
        end
      else (v, Continue, [])).
Proof. reflexivity. Qed.

Lemma run_act_ANew_eq fx v ac rg hs envfp nenv init body :
  run_act fx v (ANew ac rg hs envfp nenv init body) =
  (let need := ac + 3 in
      if rp (top v) + regs (top v) + need <=? stack v then
        match check_limits v with
        | Some k => let '(v1, c) := handle_error fx v false in (v1, c, [OLimit k])
        | None =>
            let v1 := set_stack v (stack v - 1) in
            let '(v1', ri, oi) := run_racts fx v1 ROk init in
            match ri with
            | ROk =>
                let v2 := push_frame v1' (ordinary_frame ac rg hs false envfp nenv) in
                let '(v3, r, o) := run_acts fx v2 body in
                match r with
                | Some c => (v3, Break c, oi ++ o)
                | None => (v3, Continue, oi ++ o)
                end
            | _ => let '(v3, c) := err_ctl fx v1' ri in (v3, c, oi)
            end
        end
      else (v, Continue, [])).
Proof. reflexivity. Qed.

Lemma run_act_ACallNative_eq fx v ac construct body :
  run_act fx v (ACallNative ac construct body) =
  (let need := ac + 2 + (if construct then 1 else 0) in
      if rp (top v) + regs (top v) + need <=? stack v then
        if construct then
          
          match check_limits v with
          | Some k => let '(v1, c) := handle_error fx v false in (v1, c, [OLimit k])
          | None =>
              let v1 := set_stack v (stack v - need) in
              let '(v2, r, o) := run_racts fx v1 ROk body in
              match r with
              | ROk => (set_stack v2 (stack v2 + 1), Continue, o)
              | _ => let '(v3, c) := err_ctl fx v2 r in (v3, c, o)
              end
          end
        else
          
          let v1 := set_stack v (stack v - need) in
          match check_limits v1 with
          | Some k => let '(v2, c) := handle_error fx v1 false in (v2, c, [OLimit k])
          | None =>
              let '(v2, r, o) := run_racts fx v1 ROk body in
              match r with
              | ROk => (set_stack v2 (stack v2 + 1), Continue, o)
              | _ => let '(v3, c) := err_ctl fx v2 r in (v3, c, o)
              end
          end
      else (v, Continue, [])).
Proof. reflexivity. Qed.

Lemma run_act_ARust_eq fx v body :
  run_act fx v (ARust body) =
  (let '(v2, r, o) := run_racts fx v ROk body in
      let '(v3, c) := err_ctl fx v2 r in (v3, c, o)).
Proof. reflexivity. Qed.

Lemma run_acts_ANil_eq fx v  :
  run_acts fx v (ANil) =
  (let '(v1, c) := handle_return v in
      match c with Break k => (v1, Some k, untidy v) | Continue => (v1, None, untidy v) end).
Proof. reflexivity. Qed.

Lemma run_acts_ACons_eq fx v a rest :
  run_acts fx v (ACons a rest) =
  (let n := length (frames v) in
      let '(v1, c, o) := run_act fx v a in
      match c with
      | Break k => (v1, Some k, o)
      | Continue =>
          if length (frames v1) <? n then (v1, None, o)
          else let '(v2, r, o2) := run_acts fx v1 rest in (v2, r, o ++ o2)
      end).
Proof. reflexivity. Qed.

Lemma run_ract_RProbe_eq fx v last id :
  run_ract fx v last (RProbe id) =
  (let done v res := (v, @None rres, res, [ODone res (length (frames v)) (stack v) (hdepth v)]) in
  let boundary v2 (r : option compl) := match r with Some c => c | None => escaped v2 end in
  (v, None, last, [OProbe id (length (frames v)) (stack v) (hdepth v)])).
Proof. reflexivity. Qed.

Lemma run_ract_RHostEval_eq fx v last rg hs envfp nenv ok body :
  run_ract fx v last (RHostEval rg hs envfp nenv ok body) =
  (let done v res := (v, @None rres, res, [ODone res (length (frames v)) (stack v) (hdepth v)]) in
  let boundary v2 (r : option compl) := match r with Some c => c | None => escaped v2 end in
  let s0 := stack v in
      let v1 := push_frame (set_stack v (s0 + 2)) (ordinary_frame 0 rg hs true envfp nenv) in
      if ok then
        let '(v2, r, o) := run_acts fx v1 body in
        let c := boundary v2 r in
        let v3 := match pop_frame v2 with Some (_, v3) => v3 | None => v2 end in
        let '(v4, x, res, o2) := done v3 (compl_res c) in (v4, x, res, o ++ o2)
      else
        let v2 := match pop_frame v1 with
                  | Some (f, v2) => if fx_decl fx then trunc v2 (fp f) else v2
                  | None => v1 end in
        done v2 (RErr true)).
Proof. reflexivity. Qed.

Lemma run_ract_RHostCall_eq fx v last ac rg hs envfp nenv body :
  run_ract fx v last (RHostCall ac rg hs envfp nenv body) =
  (let done v res := (v, @None rres, res, [ODone res (length (frames v)) (stack v) (hdepth v)]) in
  let boundary v2 (r : option compl) := match r with Some c => c | None => escaped v2 end in
  let s0 := stack v in
      let v1 := set_stack v (s0 + 2 + ac) in
      match check_limits v1 with
      | Some k =>
          let v2 := if fx_call fx then trunc v1 s0 else v1 in
          let '(v3, x, res, o) := done v2 (RErr false) in (v3, x, res, OLimit k :: o)
      | None =>
          let v2 := push_frame v1 (ordinary_frame ac rg hs true envfp nenv) in
          let v3 := set_hdepth v2 (S (hdepth v2)) in
          let '(v4, r, o) := run_acts fx v3 body in
          let c := boundary v4 r in
          let v5 := set_hdepth v4 (hdepth v4 - 1) in
          match pop_frame v5 with
          | Some (_, v6) => let '(v7, x, res, o2) := done v6 (compl_res c) in (v7, x, res, o ++ o2)
          | None => let '(v7, x, res, o2) := done v5 RPanic in (v7, x, res, o ++ o2)
          end
      end).
Proof. reflexivity. Qed.

Lemma run_ract_RHostCallErr_eq fx v last ac lf :
  run_ract fx v last (RHostCallErr ac lf) =
  (let done v res := (v, @None rres, res, [ODone res (length (frames v)) (stack v) (hdepth v)]) in
  let boundary v2 (r : option compl) := match r with Some c => c | None => escaped v2 end in
  let s0 := stack v in
      let v1 := set_stack v (s0 + 2 + ac) in
      let v2 := if fx_call fx then trunc v1 s0 else v1 in
      match (if lf then check_limits v1 else None) with
      | Some k => let '(v3, x, res, o) := done v2 (RErr false) in (v3, x, res, OLimit k :: o)
      | None => done v2 (RErr true)
      end).
Proof. reflexivity. Qed.

Lemma run_ract_RHostCallNative_eq fx v last ac body :
  run_ract fx v last (RHostCallNative ac body) =
  (let done v res := (v, @None rres, res, [ODone res (length (frames v)) (stack v) (hdepth v)]) in
  let boundary v2 (r : option compl) := match r with Some c => c | None => escaped v2 end in
  let v1 := set_stack v (stack v + 2 + ac - (2 + ac)) in
      match check_limits v1 with
      | Some k => let '(v3, x, res, o) := done v1 (RErr false) in (v3, x, res, OLimit k :: o)
      | None =>
          let '(v2, r, o) := run_racts fx v1 ROk body in
          
          let '(v3, x, res, o2) := done v2 r in (v3, x, res, o ++ o2)
      end).
Proof. reflexivity. Qed.

Lemma run_ract_RHostConstruct_eq fx v last ac rg hs envfp nenv proto_ok body :
  run_ract fx v last (RHostConstruct ac rg hs envfp nenv proto_ok body) =
  (let done v res := (v, @None rres, res, [ODone res (length (frames v)) (stack v) (hdepth v)]) in
  let boundary v2 (r : option compl) := match r with Some c => c | None => escaped v2 end in
  let s0 := stack v in
      let v1 := set_stack v (s0 + 3 + ac) in
      match check_limits v1 with
      | Some k =>
          let v2 := if fx_call fx then trunc v1 s0 else v1 in
          let '(v3, x, res, o) := done v2 (RErr false) in (v3, x, res, OLimit k :: o)
      | None =>
          let v1' := set_stack v1 (stack v1 - 1) in
          if proto_ok then
            let v2 := push_frame v1' (ordinary_frame ac rg hs true envfp nenv) in
            let v3 := set_hdepth v2 (S (hdepth v2)) in
            let '(v4, r, o) := run_acts fx v3 body in
            let c := boundary v4 r in
            let v5 := set_hdepth v4 (hdepth v4 - 1) in
            match pop_frame v5 with
            | Some (_, v6) => let '(v7, x, res, o2) := done v6 (compl_res c) in (v7, x, res, o ++ o2)
            | None => let '(v7, x, res, o2) := done v5 RPanic in (v7, x, res, o ++ o2)
            end
          else
            let v2 := if fx_call fx then trunc v1' s0 else v1' in
            done v2 (RErr true)
      end).
Proof. reflexivity. Qed.

Lemma run_ract_RHostNew_eq fx v last ac rg hs envfp nenv init body :
  run_ract fx v last (RHostNew ac rg hs envfp nenv init body) =
  (let done v res := (v, @None rres, res, [ODone res (length (frames v)) (stack v) (hdepth v)]) in
  let boundary v2 (r : option compl) := match r with Some c => c | None => escaped v2 end in
  let s0 := stack v in
      let v1 := set_stack v (s0 + 3 + ac) in
      match check_limits v1 with
      | Some k =>
          let v2 := if fx_call fx then trunc v1 s0 else v1 in
          let '(v3, x, res, o) := done v2 (RErr false) in (v3, x, res, OLimit k :: o)
      | None =>
          let v1' := set_stack v1 (stack v1 - 1) in
          let '(v1i, ri, oi) := run_racts fx v1' ROk init in
          match ri with
          | ROk =>
              let v2 := push_frame v1i (ordinary_frame ac rg hs true envfp nenv) in
              let v3 := set_hdepth v2 (S (hdepth v2)) in
              let '(v4, r, o) := run_acts fx v3 body in
              let c := boundary v4 r in
              let v5 := set_hdepth v4 (hdepth v4 - 1) in
              match pop_frame v5 with
              | Some (_, v6) => let '(v7, x, res, o2) := done v6 (compl_res c) in (v7, x, res, oi ++ o ++ o2)
              | None => let '(v7, x, res, o2) := done v5 RPanic in (v7, x, res, oi ++ o ++ o2)
              end
          | _ =>
              let v2 := if fx_call fx then trunc v1i s0 else v1i in
              let '(v3, x, res, o2) := done v2 ri in (v3, x, res, oi ++ o2)
          end
      end).
Proof. reflexivity. Qed.

Lemma run_ract_RHostConstructNative_eq fx v last ac body :
  run_ract fx v last (RHostConstructNative ac body) =
  (let done v res := (v, @None rres, res, [ODone res (length (frames v)) (stack v) (hdepth v)]) in
  let boundary v2 (r : option compl) := match r with Some c => c | None => escaped v2 end in
  let s0 := stack v in
      let v1 := set_stack v (s0 + 3 + ac) in
      match check_limits v1 with
      | Some k =>
          let v2 := if fx_call fx then trunc v1 s0 else v1 in
          let '(v3, x, res, o) := done v2 (RErr false) in (v3, x, res, OLimit k :: o)
      | None =>
          let v1' := set_stack v1 (stack v1 - (3 + ac)) in
          let '(v2, r, o) := run_racts fx v1' ROk body in
          let '(v3, x, res, o2) := done v2 r in (v3, x, res, o ++ o2)
      end).
Proof. reflexivity. Qed.

Lemma run_ract_RResume_eq fx v last g kind body :
  run_ract fx v last (RResume g kind body) =
  (let done v res := (v, @None rres, res, [ODone res (length (frames v)) (stack v) (hdepth v)]) in
  let boundary v2 (r : option compl) := match r with Some c => c | None => escaped v2 end in
  let start_resume gs f (with_value : bool) :=
        
        let outer := stack v in
        let v1 := set_gens (set_stack v gs) (gens_set (gens v) g GExec) in
        let v2 := push_frame v1 (f_set_exit f true) in
        let v3 := set_stack v2 (stack v2 + (if with_value then 2 else 1)) in
        let '(v4, r, o) := run_acts fx v3 body in
        let c := boundary v4 r in
        let gs' := stack v4 in
        let v5 := set_stack v4 outer in
        match pop_frame v5 with
        | Some (f', v6) =>
            
            let st := match c with
                      | CNormal => if rp f' + regs f' <=? gs' then GYield gs' f' else GDone
                      | _ => GDone end in
            let v7 := set_gens v6 (gens_set (gens v6) g st) in
            let '(v8, x, res, o2) := done v7 (compl_res c) in (v8, x, res, o ++ o2)
        | None => let '(v8, x, res, o2) := done v5 RPanic in (v8, x, res, o ++ o2)
        end in
      match nth_error (gens v) g with
      | None => done v (RErr true)
      | Some GExec => done v (RErr true)
      | Some GDone => match kind with KThr => done v (RErr true) | _ => done v ROk end
      | Some (GStart gs f) =>
          match kind with
          | KNext => start_resume gs f false
          | KRet => done (set_gens v (gens_set (gens v) g GDone)) ROk
          | KThr => done (set_gens v (gens_set (gens v) g GDone)) (RErr true)
          end
      | Some (GYield gs f) => start_resume gs f true
      end).
Proof. reflexivity. Qed.

Lemma run_ract_RBlock_eq fx v last body :
  run_ract fx v last (RBlock body) =
  (let done v res := (v, @None rres, res, [ODone res (length (frames v)) (stack v) (hdepth v)]) in
  let boundary v2 (r : option compl) := match r with Some c => c | None => escaped v2 end in
  let '(v2, r, o) := run_racts fx v ROk body in
      let '(v3, x, res, o2) := done v2 r in (v3, x, res, o ++ o2)).
Proof. reflexivity. Qed.

Lemma run_ract_RHostModuleLink_eq fx v last rg :
  run_ract fx v last (RHostModuleLink rg) =
  (let done v res := (v, @None rres, res, [ODone res (length (frames v)) (stack v) (hdepth v)]) in
  let boundary v2 (r : option compl) := match r with Some c => c | None => escaped v2 end in
  let v1 := push_frame (set_stack v (stack v + 2)) (ordinary_frame 0 rg [] false 0 0) in
      match pop_frame v1 with
      | Some (f, v2) => done (if fx_modlink fx then trunc v2 (fp f) else v2) ROk
      | None => done v1 RPanic
      end).
Proof. reflexivity. Qed.

Lemma run_ract_RReturn_eq fx v last  :
  run_ract fx v last (RReturn) =
  (let done v res := (v, @None rres, res, [ODone res (length (frames v)) (stack v) (hdepth v)]) in
  let boundary v2 (r : option compl) := match r with Some c => c | None => escaped v2 end in
  (v, Some ROk, last, [])).
Proof. reflexivity. Qed.

Lemma run_ract_RThrow_eq fx v last c :
  run_ract fx v last (RThrow c) =
  (let done v res := (v, @None rres, res, [ODone res (length (frames v)) (stack v) (hdepth v)]) in
  let boundary v2 (r : option compl) := match r with Some c => c | None => escaped v2 end in
  (v, Some (RErr c), last, [])).
Proof. reflexivity. Qed.

Lemma run_ract_RPropagate_eq fx v last all :
  run_ract fx v last (RPropagate all) =
  (let done v res := (v, @None rres, res, [ODone res (length (frames v)) (stack v) (hdepth v)]) in
  let boundary v2 (r : option compl) := match r with Some c => c | None => escaped v2 end in
  match last with
      | ROk => (v, None, last, [])
      | RErr true => if all then (v, Some last, last, []) else (v, None, last, [])
      | e => (v, Some e, last, [])
      end).
Proof. reflexivity. Qed.

Lemma run_racts_RNil_eq fx v last  :
  run_racts fx v last (RNil) =
  ((v, ROk, [])).
Proof. reflexivity. Qed.

Lemma run_racts_RCons_eq fx v last r rest :
  run_racts fx v last (RCons r rest) =
  (let '(v1, x, last1, o) := run_ract fx v last r in
      match x with
      | Some res => (v1, res, o)
      | None => let '(v2, res, o2) := run_racts fx v1 last1 rest in (v2, res, o ++ o2)
      end).
Proof. reflexivity. Qed.

(* ------------------------------------------------------------------------------------------ *)
(* the cases of the main induction *)

Lemma Inv_lower fs st st' E below :
  Inv fs st E below -> rp (hd dummy fs) + regs (hd dummy fs) <= st' -> Inv fs st' E below.
Proof.
  intros (seg & E' & H1 & H2 & H3 & H4 & H5 & H6) L. subst fs.
  exists seg, E'. splits; auto. eapply chain_rebase; eauto.
  destruct seg; simpl in *; lia.
Qed.

Lemma wrap_handler v v1 c E below gf :
  ctl_ok c v v1 E below /\ aux_same v v1 /\ gens v1 = gens v -> GInv v ->
  ctl_ok c v v1 E below /\ aux_same v v1 /\ GInv v1 /\ gens_keep gf v v1.
Proof.
  intros (A & B & C) G. splits; auto.
  - unfold GInv. rewrite C. exact G.
  - intros _. exact C.
Qed.

Lemma ctl_continue_refl v E below : Inv (frames v) (stack v) E below -> ctl_ok Continue v v E below.
Proof. intros I. simpl. split; auto. Qed.

Ltac side := try (solve [auto using aux_same_refl, ctl_continue_refl]); try (solve [intros _; reflexivity]);
  try (solve [unfold GInv, aux_same in *; simpl; auto]); try lia.

Lemma P_simple :
  (forall n, P_act (APush n)) /\ (forall n, P_act (APop n)) /\ (forall p, P_act (ASetPc p)) /\
  P_act AEnvPush /\ P_act AEnvPop /\ (forall id, P_act (AProbe id)).
Proof.
  splits.
  - intros n v E below I G. simpl. splits; side.
    eapply Inv_mono; eauto. lia.
  - intros n v E below I G. cbn [run_act].
    destruct (rp (top v) + regs (top v) + n <=? stack v) eqn:GD.
    + apply Nat.leb_le in GD. simpl. splits; side.
      eapply Inv_lower; eauto. unfold top in GD. lia.
    + splits; side.
  - intros p v E below I G. simpl.
    destruct (Inv_set_top (fun f => f_set_pc f p) v E below) as (A & B & C & D); auto.
    { intros f. unfold same_shape, f_set_pc; simpl; tauto. }
    splits; auto; try lia.
    + unfold GInv. rewrite D. exact G.
    + intros _. exact D.
  - intros v E below I G. simpl.
    destruct (Inv_set_top (fun f => f_set_envs f (S (envs f))) v E below) as (A & B & C & D); auto.
    { intros f. unfold same_shape, f_set_envs; simpl; tauto. }
    splits; auto; try lia.
    + unfold GInv. rewrite D. exact G.
    + intros _. exact D.
  - intros v E below I G. simpl.
    destruct (Inv_set_top (fun f => if env_fp f <? envs f then f_set_envs f (envs f - 1) else f) v E below) as (A & B & C & D); auto.
    { intros f. destruct (env_fp f <? envs f); unfold same_shape, f_set_envs; simpl; tauto. }
    splits; auto; try lia.
    + unfold GInv. rewrite D. exact G.
    + intros _. exact D.
  - intros id v E below I G. simpl. splits; side.
Qed.

Lemma P_handlers :
  (forall lf, P_act (ACallErr lf)) /\ P_act AReturn /\ P_act AYield /\ P_act AGenCreate /\ P_act AAwait /\ P_act AThrow /\
  P_act ARethrow /\ P_act AException /\ (forall c, P_act (AError c)).
Proof.
  splits.
  - intros lf v E below I G. cbn [run_act].
    destruct (if lf then check_limits v else None) as [k|].
    + pose proof (handle_error_spec v E below false I) as X.
      destruct (handle_error fx_new v false) as (v1 & c). apply wrap_handler; auto.
    + pose proof (handle_error_spec v E below true I) as X.
      destruct (handle_error fx_new v true) as (v1 & c). apply wrap_handler; auto.
  - intros v E below I G. cbn [run_act].
    pose proof (handle_return_spec v E below I) as X.
    destruct (handle_return v) as (v1 & c). apply wrap_handler; auto. tauto.
  - intros v E below I G. cbn [run_act].
    destruct (pushed (top v)) eqn:PT.
    + pose proof (handle_yield_spec v E below I PT) as X.
      destruct (handle_yield v) as (v1 & c). apply wrap_handler; auto.
    + splits; side.
  - intros v E below I G. cbn [run_act].
    destruct (pushed (top v)) eqn:PT.
    + splits; side.
    + pose proof (gen_create_spec true v E below I G) as X.
      destruct (gen_create true v) as (v1 & c). destruct X as (A & B & C & D). splits; auto.
      intros F; discriminate.
  - intros v E below I G. cbn [run_act].
    pose proof (gen_create_spec false v E below I G) as X.
    destruct (gen_create false v) as (v1 & c). destruct X as (A & B & C & D). splits; auto.
    intros F; discriminate.
  - intros v E below I G. cbn [run_act]. cbv zeta.
    assert (I0 : Inv (frames (set_pending v true)) (stack (set_pending v true)) E below) by exact I.
    assert (G0 : GInv (set_pending v true)) by exact G.
    destruct (handle_exception_at (set_pending v true) (pc (top (set_pending v true)) - 1)) as [v1|] eqn:HE.
    + apply (handle_exception_at_spec _ _ E below v1 I0) in HE. destruct HE as (A & B & C & D).
      apply (wrap_handler v v1 Continue E below true); auto. simpl. splits; auto.
      simpl in B. lia.
    + pose proof (handle_throw_spec (set_pending v true) E below I0) as X.
      destruct (handle_throw fx_new (set_pending v true)) as (v1 & c).
      apply (wrap_handler v v1 c E below true); auto.
  - intros v E below I G. cbn [run_act].
    destruct (handle_exception_at v (pc (top v) - 1)) as [v1|] eqn:HE.
    + apply (handle_exception_at_spec v _ E below v1 I) in HE. destruct HE as (A & B & C & D).
      apply wrap_handler; auto. simpl. splits; auto. lia.
    + destruct (pending v).
      * pose proof (handle_throw_spec v E below I) as X.
        destruct (handle_throw fx_new v) as (v1 & c). apply wrap_handler; auto.
      * pose proof (handle_return_spec v E below I) as X.
        destruct (handle_return v) as (v1 & c). apply wrap_handler; auto. tauto.
  - intros v E below I G. cbn [run_act]. splits; side.
  - intros c v E below I G. cbn [run_act].
    pose proof (handle_error_spec v E below c I) as X.
    destruct (handle_error fx_new v c) as (v1 & k). apply wrap_handler; auto.
Qed.

Lemma wf_of_Inv v E below : Inv (frames v) (stack v) E below -> GInv v -> wf v.
Proof.
  intros (seg & E' & H1 & _) G. split; auto. rewrite H1. destruct seg; discriminate.
Qed.

Lemma Inv_transfer v v' E below :
  Inv (frames v) (stack v) E below -> frames v' = frames v -> stack v' = stack v ->
  Inv (frames v') (stack v') E below.
Proof. intros I F S. rewrite F, S. exact I. Qed.

(* an error result of Rust code called from an instruction: Context::handle_error *)
Lemma err_ctl_spec v E below r :
  Inv (frames v) (stack v) E below -> R_ok r ->
  let '(v', c) := err_ctl fx_new v r in
  ctl_ok c v v' E below /\ aux_same v v' /\ gens v' = gens v.
Proof.
  intros I OK. destruct r; cbn [err_ctl].
  - splits; side.
  - apply handle_error_spec; auto.
  - exfalso. apply OK. reflexivity.
Qed.


Lemma P_ACall ac rg hs construct envfp nenv body :
  P_acts body -> P_act (ACall ac rg hs construct envfp nenv body).
Proof.
  intros IH v E below I G. rewrite run_act_ACall_eq. cbv zeta.
  destruct (rp (top v) + regs (top v) + (ac + 2 + (if construct then 1 else 0)) <=? stack v) eqn:GD.
  2: { splits; side. }
  apply Nat.leb_le in GD. unfold top in GD.
  destruct (check_limits v) as [k|].
  - pose proof (handle_error_spec v E below false I) as X.
    destruct (handle_error fx_new v false) as (v1 & c). apply wrap_handler; auto.
  - set (v1 := if construct then set_stack v (stack v - 1) else v).
    set (v2 := push_frame v1 (ordinary_frame ac rg hs false envfp nenv)).
    assert (F1 : frames v1 = frames v /\ stack v1 + (if construct then 1 else 0) = stack v /\ gens v1 = gens v /\ aux_same v v1).
    { subst v1. destruct construct; simpl; splits; side. }
    destruct F1 as (F1 & F2 & F3 & F4).
    assert (I2 : Inv (frames v2) (stack v2) E below).
    { subst v2. unfold push_frame, ordinary_frame. simpl. rewrite F1.
      eapply Inv_push; eauto; simpl; try lia; try (split; reflexivity); try (destruct construct; lia). }
    assert (G2 : GInv v2) by (subst v2; unfold GInv, push_frame; simpl; rewrite F3; exact G).
    assert (A2 : aux_same v v2 /\ gens v2 = gens v /\ length (frames v2) = S (length (frames v))).
    { subst v2. unfold push_frame, ordinary_frame, aux_same in *. simpl. rewrite F1. splits; side; tauto. }
    destruct A2 as (A2 & A3 & A4).
    specialize (IH v2 E below I2 G2).
    destruct (run_acts fx_new v2 body) as ((v3 & r) & o).
    destruct IH as (B1 & B2 & B3 & B4).
    assert (gens_keep (genfree_act (ACall ac rg hs construct envfp nenv body)) v v3).
    { intros GF. simpl in GF. rewrite B3; auto. }
    destruct r as [c|]; splits; eauto using aux_same_trans.
    destruct B4 as (B4 & B5). simpl. split; auto. lia.
Qed.

Lemma push_run_spec body (IH : P_acts body) v1 E below ac rg hs envfp nenv :
  Inv (frames v1) (stack v1) E below -> GInv v1 ->
  rp (hd dummy (frames v1)) + regs (hd dummy (frames v1)) + (ac + 2) <= stack v1 ->
  match run_acts fx_new (push_frame v1 (ordinary_frame ac rg hs false envfp nenv)) body with
  | (v3, r, _) =>
      ctl_ok (match r with Some c => Break c | None => Continue end) v1 v3 E below /\ aux_same v1 v3 /\ GInv v3 /\
      gens_keep (genfree_acts body) v1 v3
  end.
Proof.
  intros I G GD.
  set (v2 := push_frame v1 (ordinary_frame ac rg hs false envfp nenv)).
  assert (I2 : Inv (frames v2) (stack v2) E below).
  { subst v2. unfold push_frame, ordinary_frame. simpl.
    eapply Inv_push; eauto; simpl; try lia; try (split; reflexivity). }
  assert (G2 : GInv v2) by (subst v2; exact G).
  assert (A2 : aux_same v1 v2 /\ gens v2 = gens v1 /\ length (frames v2) = S (length (frames v1))).
  { subst v2. unfold push_frame, ordinary_frame, aux_same. simpl. splits; side. }
  destruct A2 as (A2 & A3 & A4).
  specialize (IH v2 E below I2 G2).
  destruct (run_acts fx_new v2 body) as ((v3 & r) & o).
  destruct IH as (B1 & B2 & B3 & B4).
  assert (gens_keep (genfree_acts body) v1 v3) by (intros GF; rewrite B3; auto).
  destruct r as [c|]; splits; auto; try (unfold aux_same in *; intuition congruence).
  destruct B4 as (B4 & B5). simpl. split; auto. lia.
Qed.

Lemma P_ANew ac rg hs envfp nenv init body :
  P_racts init -> P_acts body -> P_act (ANew ac rg hs envfp nenv init body).
Proof.
  intros IHi IH v E below I G. rewrite run_act_ANew_eq. cbv zeta.
  destruct (rp (top v) + regs (top v) + (ac + 3) <=? stack v) eqn:GD.
  2: { splits; side. }
  apply Nat.leb_le in GD. unfold top in GD.
  destruct (check_limits v) as [k|].
  - pose proof (handle_error_spec v E below false I) as X.
    destruct (handle_error fx_new v false) as (v1 & c). apply wrap_handler; auto.
  - set (v1 := set_stack v (stack v - 1)).
    assert (I1 : Inv (frames v1) (stack v1) E below) by (subst v1; simpl; eapply Inv_lower; eauto; lia).
    assert (G1 : GInv v1) by (subst v1; exact G).
    specialize (IHi v1 ROk (wf_of_Inv v1 E below I1 G1)).
    destruct (run_racts fx_new v1 ROk init) as ((v1' & ri) & oi).
    destruct IHi as (F & S & A & G2 & K & OK).
    assert (R_ok ri) as OKr by (apply OK; discriminate).
    assert (I2 : Inv (frames v1') (stack v1') E below) by (eapply Inv_transfer; eauto).
    assert (A' : aux_same v v1') by (subst v1; unfold aux_same in *; simpl in *; tauto).
    assert (F' : frames v1' = frames v) by (rewrite F; reflexivity).
    destruct ri.
    + assert (GD' : rp (hd dummy (frames v1')) + regs (hd dummy (frames v1')) + (ac + 2) <= stack v1').
      { rewrite F', S. subst v1. simpl. lia. }
      pose proof (push_run_spec body IH v1' E below ac rg hs envfp nenv I2 G2 GD') as X.
      destruct (run_acts fx_new (push_frame v1' (ordinary_frame ac rg hs false envfp nenv)) body) as ((v3 & r) & o).
      destruct X as (X1 & X2 & X3 & X4).
      assert (KK : gens_keep (genfree_act (ANew ac rg hs envfp nenv init body)) v v3).
      { intros GF. simpl in GF. apply andb_prop in GF. destruct GF as (GF1 & GF2). rewrite X4, K; auto. }
      destruct r as [c|]; splits; auto; try (unfold aux_same in *; intuition congruence).
      simpl in *. rewrite <- F'. exact X1.
    + pose proof (err_ctl_spec v1' E below (RErr catchable) I2 OKr) as X.
      destruct (err_ctl fx_new v1' (RErr catchable)) as (v3 & c). destruct X as (X1 & X2 & X3).
      splits.
      * destruct c; simpl in *; auto. rewrite <- F'. exact X1.
      * unfold aux_same in *; intuition congruence.
      * unfold GInv. rewrite X3. exact G2.
      * intros GF. simpl in GF. apply andb_prop in GF. destruct GF as (GF1 & GF2). rewrite X3, K; auto.
    + exfalso. apply OKr. reflexivity.
Qed.

Lemma native_result_spec body (IH : P_racts body) v v1 E below :
  Inv (frames v1) (stack v1) E below -> GInv v1 ->
  frames v1 = frames v -> aux_same v v1 -> gens v1 = gens v ->
  match run_racts fx_new v1 ROk body with
  | (v2, r, o) =>
      match (match r with
             | ROk => (set_stack v2 (stack v2 + 1), Continue, o)
             | _ => let '(v3, c) := err_ctl fx_new v2 r in (v3, c, o)
             end) with
      | (v', c, _) => ctl_ok c v v' E below /\ aux_same v v' /\ GInv v' /\ gens_keep (genfree_racts body) v v'
      end
  end.
Proof.
  intros I G F0 A0 G0. specialize (IH v1 ROk (wf_of_Inv v1 E below I G)).
  destruct (run_racts fx_new v1 ROk body) as ((v2 & r) & o).
  destruct IH as (F & S & A & G2 & K & OK).
  assert (R_ok r) as OKr by (apply OK; discriminate).
  assert (I2 : Inv (frames v2) (stack v2) E below) by (eapply Inv_transfer; eauto).
  assert (A' : aux_same v v2) by (eapply aux_same_trans; eauto).
  destruct r.
  - cbn [ctl_ok]. splits; side.
    all: try (solve [simpl; eapply Inv_mono; eauto; lia]).
    all: try (solve [simpl; rewrite F, F0; lia]).
    all: try (solve [unfold aux_same in *; simpl; tauto]).
    all: try (solve [intros GF; simpl; rewrite K; auto]).
  - pose proof (err_ctl_spec v2 E below (RErr catchable) I2 OKr) as X.
    destruct (err_ctl fx_new v2 (RErr catchable)) as (v3 & c). destruct X as (X1 & X2 & X3).
    splits.
    + destruct c; simpl in *; auto. rewrite <- F0, <- F. exact X1.
    + unfold aux_same in *; intuition congruence.
    + unfold GInv. rewrite X3. exact G2.
    + intros GF. rewrite X3, K; auto.
  - exfalso. apply OKr. reflexivity.
Qed.

Lemma P_ACallNative ac construct body : P_racts body -> P_act (ACallNative ac construct body).
Proof.
  intros IH v E below I G. rewrite run_act_ACallNative_eq. cbv zeta.
  destruct (rp (top v) + regs (top v) + (ac + 2 + (if construct then 1 else 0)) <=? stack v) eqn:GD.
  2: { splits; side. }
  apply Nat.leb_le in GD. unfold top in GD.
  set (v1 := set_stack v (stack v - (ac + 2 + (if construct then 1 else 0)))).
  assert (I1 : Inv (frames v1) (stack v1) E below) by (subst v1; simpl; eapply Inv_lower; eauto; lia).
  assert (G1 : GInv v1) by (subst v1; exact G).
  assert (A1 : aux_same v v1) by (subst v1; unfold aux_same; simpl; auto).
  destruct construct.
  - destruct (check_limits v) as [k|].
    + pose proof (handle_error_spec v E below false I) as X.
      destruct (handle_error fx_new v false) as (v2 & c). apply wrap_handler; auto.
    + pose proof (native_result_spec body IH v v1 E below I1 G1 eq_refl A1 eq_refl) as X.
      destruct (run_racts fx_new v1 ROk body) as ((v2 & r) & o). destruct r; exact X.
  - destruct (check_limits v1) as [k|].
    + pose proof (handle_error_spec v1 E below false I1) as X.
      destruct (handle_error fx_new v1 false) as (v2 & c).
      destruct X as (X1 & X2 & X3). splits.
      * destruct c; simpl in *; auto.
      * unfold aux_same in *; intuition congruence.
      * unfold GInv. rewrite X3. exact G1.
      * intros _. rewrite X3. reflexivity.
    + pose proof (native_result_spec body IH v v1 E below I1 G1 eq_refl A1 eq_refl) as X.
      destruct (run_racts fx_new v1 ROk body) as ((v2 & r) & o). destruct r; exact X.
Qed.

Lemma P_ARust body : P_racts body -> P_act (ARust body).
Proof.
  intros IH v E below I G. rewrite run_act_ARust_eq.
  specialize (IH v ROk (wf_of_Inv v E below I G)).
  destruct (run_racts fx_new v ROk body) as ((v2 & r) & o).
  destruct IH as (F & S & A & G2 & K & OK).
  assert (R_ok r) as OKr by (apply OK; discriminate).
  assert (I2 : Inv (frames v2) (stack v2) E below) by (eapply Inv_transfer; eauto).
  pose proof (err_ctl_spec v2 E below r I2 OKr) as X.
  destruct (err_ctl fx_new v2 r) as (v3 & c). destruct X as (X1 & X2 & X3).
  splits.
  - destruct c; simpl in *; auto. rewrite <- F. exact X1.
  - unfold aux_same in *; intuition congruence.
  - unfold GInv. rewrite X3. exact G2.
  - intros GF. rewrite X3, K; auto.
Qed.

Lemma P_ANil : P_acts ANil.
Proof.
  intros v E below I G. rewrite run_acts_ANil_eq.
  pose proof (handle_return_spec v E below I) as X.
  destruct (handle_return v) as (v1 & c). destruct X as (X1 & X2 & X3 & X4).
  destruct c as [|k]; splits; auto.
  all: try (solve [unfold GInv; rewrite X3; exact G]).
  all: try (solve [intros _; exact X3]).
  all: simpl in X1; tauto.
Qed.

Lemma P_ACons a rest : P_act a -> P_acts rest -> P_acts (ACons a rest).
Proof.
  intros IHa IHr v E below I G. rewrite run_acts_ACons_eq. cbv zeta.
  specialize (IHa v E below I G).
  destruct (run_act fx_new v a) as ((v1 & c) & o).
  destruct IHa as (A1 & A2 & A3 & A4).
  destruct c as [|k].
  - simpl in A1. destruct A1 as (I1 & L1).
    destruct (length (frames v1) <? length (frames v)) eqn:LT.
    + apply Nat.ltb_lt in LT. splits; auto.
      intros GF. simpl in GF. apply andb_prop in GF. apply A4; tauto.
    + apply Nat.ltb_ge in LT.
      specialize (IHr v1 E below I1 A3).
      destruct (run_acts fx_new v1 rest) as ((v2 & r) & o2).
      destruct IHr as (B1 & B2 & B3 & B4). splits; auto.
      * unfold aux_same in *; intuition congruence.
      * intros GF. simpl in GF. apply andb_prop in GF. rewrite B3, A4; tauto.
      * destruct r; auto. destruct B4. split; auto. lia.
  - splits; auto.
    intros GF. simpl in GF. apply andb_prop in GF. apply A4; tauto.
Qed.

Lemma pop_frame_cons v f below : frames v = f :: below -> below <> [] ->
  pop_frame v = Some (f, set_frames v below).
Proof. intros F NB. unfold pop_frame. rewrite F. destruct below; congruence. Qed.

Lemma compl_res_ok c : c <> CPanic -> R_ok (compl_res c).
Proof. destruct c; simpl; unfold R_ok; congruence. Qed.

Lemma entry_run body (IH : P_acts body) v1 E below :
  frames v1 = E :: below -> below <> [] -> exit_early E = true -> pushed E = false -> fp E <= rp E ->
  rp E + regs E <= stack v1 -> GInv v1 ->
  match run_acts fx_new v1 body with
  | (v2, r, _) =>
      exists E', frames v2 = E' :: below /\ stack v2 = fp E /\
                 (match r with Some c => c | None => escaped v2 end) <> CPanic /\
                 aux_same v1 v2 /\ GInv v2 /\ gens_keep (genfree_acts body) v1 v2
  end.
Proof.
  intros F NB EE PE A B G.
  pose proof (run_frame_spec body IH v1 E below F NB EE A B G) as X.
  destruct (run_acts fx_new v1 body) as ((v2 & r) & o).
  destruct X as ((E' & P1 & P2 & P3 & P4) & X2 & X3 & X4).
  exists E'. splits; auto.
  destruct (match r with Some c => c | None => escaped v2 end); auto.
  destruct P4 as [Q|(Q & _)]; [auto|congruence].
Qed.

Lemma P_ract_simple :
  (forall id, P_ract (RProbe id)) /\ (forall ac lf, P_ract (RHostCallErr ac lf)) /\
  P_ract RReturn /\ (forall c, P_ract (RThrow c)) /\ (forall a, P_ract (RPropagate a)).
Proof.
  splits.
  - intros id v last W. rewrite run_ract_RProbe_eq. cbv beta zeta. destruct W. splits; side; try (intros; split; auto).
  - intros ac lf v last W. rewrite run_ract_RHostCallErr_eq. cbv beta zeta. destruct W.
    destruct (if lf then check_limits (set_stack v (stack v + 2 + ac)) else None) as [k|];
      simpl; splits; side; try (unfold R_ok; intros; split; auto; discriminate).
  - intros v last W. rewrite run_ract_RReturn_eq. cbv beta zeta. destruct W. splits; side; try (unfold R_ok; intros; split; auto; discriminate).
  - intros c v last W. rewrite run_ract_RThrow_eq. cbv beta zeta. destruct W. splits; side; try (unfold R_ok; intros; split; auto; discriminate).
  - intros a v last W. rewrite run_ract_RPropagate_eq. cbv beta zeta. destruct W.
    destruct last as [|[|]|]; destruct a; splits; side; unfold R_ok; intros; split; auto; discriminate.
Qed.

Ltac rok := unfold R_ok; intros; split; auto; try discriminate.

Lemma P_RHostCallNative ac body : P_racts body -> P_ract (RHostCallNative ac body).
Proof.
  intros IH v last W. rewrite run_ract_RHostCallNative_eq. cbv beta zeta.
  set (v1 := set_stack v (stack v + 2 + ac - (2 + ac))).
  assert (S1 : stack v1 = stack v) by (subst v1; simpl; lia).
  assert (W1 : wf v1) by (destruct W; split; auto).
  destruct (check_limits v1) as [k|].
  - destruct W. splits; side; try rok.
  - specialize (IH v1 ROk W1).
    destruct (run_racts fx_new v1 ROk body) as ((v2 & r) & o).
    destruct IH as (F & S & A & G2 & K & OK). cbn [fst snd].
    splits; auto; try congruence.
    + intros _. split; [|exact I]. apply OK. discriminate.
Qed.

Lemma P_RBlock body : P_racts body -> P_ract (RBlock body).
Proof.
  intros IH v last W. rewrite run_ract_RBlock_eq. cbv beta zeta.
  specialize (IH v ROk W).
  destruct (run_racts fx_new v ROk body) as ((v2 & r) & o).
  destruct IH as (F & S & A & G2 & K & OK). cbn [fst snd].
  splits; auto; try congruence.
  intros _. split; [|exact I]. apply OK. discriminate.
Qed.

Lemma P_RHostModuleLink rg : P_ract (RHostModuleLink rg).
Proof.
  intros v last (NE & G). rewrite run_ract_RHostModuleLink_eq. cbv beta zeta.
  set (E := mkF (stack v + 2 - 0 - 2) (stack v + 2) rg 0 false false 0 (0 + 0) 0 []).
  set (v1 := push_frame (set_stack v (stack v + 2)) (ordinary_frame 0 rg [] false 0 0)).
  assert (F1 : frames v1 = E :: frames v) by reflexivity.
  rewrite (pop_frame_cons v1 E (frames v) F1 NE). simpl.
  splits; side; try rok.
Qed.

Lemma P_RHostConstructNative ac body : P_racts body -> P_ract (RHostConstructNative ac body).
Proof.
  intros IH v last W. rewrite run_ract_RHostConstructNative_eq. cbv beta zeta.
  set (v1 := set_stack v (stack v + 3 + ac)).
  destruct (check_limits v1) as [k|].
  - destruct W. subst v1. simpl. splits; side; try rok.
  - set (v1' := set_stack v1 (stack v1 - (3 + ac))).
    assert (S1 : stack v1' = stack v) by (subst v1' v1; simpl; lia).
    assert (W1 : wf v1') by (destruct W; split; auto).
    specialize (IH v1' ROk W1).
    destruct (run_racts fx_new v1' ROk body) as ((v2 & r) & o).
    destruct IH as (F & S & A & G2 & K & OK). cbn [fst snd].
    splits; auto; try congruence.
    + intros _. split; [|exact I]. apply OK. discriminate.
Qed.

Lemma P_RHostEval rg hs envfp nenv ok body : P_acts body -> P_ract (RHostEval rg hs envfp nenv ok body).
Proof.
  intros IH v last W. rewrite run_ract_RHostEval_eq. cbv beta zeta. destruct W as (NE & G).
  set (E := mkF (stack v + 2 - 0 - 2) (stack v + 2) rg 0 true false envfp (envfp + nenv) 0 hs).
  set (v1 := push_frame (set_stack v (stack v + 2)) (ordinary_frame 0 rg hs true envfp nenv)).
  assert (F1 : frames v1 = E :: frames v) by reflexivity.
  assert (S1 : stack v1 = stack v + 2 + rg) by reflexivity.
  destruct ok.
  - pose proof (entry_run body IH v1 E (frames v) F1 NE eq_refl eq_refl) as X.
    assert (fp E <= rp E) as L1 by (simpl; lia).
    assert (rp E + regs E <= stack v1) as L2 by (rewrite S1; simpl; lia).
    specialize (X L1 L2 G).
    destruct (run_acts fx_new v1 body) as ((v2 & r) & o).
    destruct X as (E' & X1 & X2 & X3 & X4 & X5 & X6).
    rewrite (pop_frame_cons v2 E' (frames v) X1 NE). simpl.
    splits; auto; try lia.
    all: try (solve [rewrite X2; simpl; lia]).
    all: try (solve [unfold aux_same, v1 in *; simpl in *; tauto]).
    all: try (solve [intros GF; simpl in GF; rewrite (X6 GF); reflexivity]).
    all: try (solve [intros _; split; [|exact I]; apply compl_res_ok; exact X3]).
  - rewrite (pop_frame_cons v1 E (frames v) F1 NE). simpl.
    splits; side; try rok.
Qed.

(* JsObject::call / construct on an ordinary function, after this/func/args were pushed and the limits passed *)
Lemma call_frame_spec body (IH : P_acts body) v v1 s0 ac rg hs envfp nenv last :
  wf v -> frames v1 = frames v -> stack v1 = s0 + 2 + ac -> s0 = stack v ->
  aux_same v v1 -> gens v1 = gens v ->
  match
    (let v2 := push_frame v1 (ordinary_frame ac rg hs true envfp nenv) in
     let v3 := set_hdepth v2 (S (hdepth v2)) in
     let '(v4, r, o) := run_acts fx_new v3 body in
     let c := match r with Some c => c | None => escaped v4 end in
     let v5 := set_hdepth v4 (hdepth v4 - 1) in
     match pop_frame v5 with
     | Some (_, v6) =>
         let '(v7, x, res, o2) := (v6, @None rres, compl_res c, [ODone (compl_res c) (length (frames v6)) (stack v6) (hdepth v6)]) in
         (v7, x, res, o ++ o2)
     | None =>
         let '(v7, x, res, o2) := (v5, @None rres, RPanic, [ODone RPanic (length (frames v5)) (stack v5) (hdepth v5)]) in
         (v7, x, res, o ++ o2)
     end)
  with
  | (v', x, last', _) =>
      frames v' = frames v /\ stack v' = stack v /\ aux_same v v' /\ GInv v' /\
      gens_keep (genfree_acts body) v v' /\
      (R_ok last -> R_ok last' /\ match x with Some res => R_ok res | None => True end)
  end.
Proof.
  intros (NE & G) F1 S1 S0 A1 G1. cbv zeta.
  set (E := mkF (stack v1 - ac - 2) (stack v1) rg ac true false envfp (envfp + nenv) 0 hs).
  set (v3 := set_hdepth (push_frame v1 (ordinary_frame ac rg hs true envfp nenv)) _).
  assert (F3 : frames v3 = E :: frames v) by (subst v3 E; simpl; rewrite F1; reflexivity).
  assert (S3 : stack v3 = stack v1 + rg) by reflexivity.
  assert (G3 : GInv v3) by (subst v3; unfold GInv; simpl; rewrite G1; exact G).
  assert (fp E <= rp E) as L1 by (simpl; lia).
  assert (rp E + regs E <= stack v3) as L2 by (rewrite S3; simpl; lia).
  pose proof (entry_run body IH v3 E (frames v) F3 NE eq_refl eq_refl L1 L2 G3) as X.
  destruct (run_acts fx_new v3 body) as ((v4 & r) & o).
  destruct X as (E' & X1 & X2 & X3 & X4 & X5 & X6).
  rewrite (pop_frame_cons (set_hdepth v4 (hdepth v4 - 1)) E' (frames v)); auto.
  simpl.
  assert (H3 : hdepth v3 = S (hdepth v)) by (subst v3; unfold aux_same in A1; simpl; f_equal; tauto).
  splits; auto.
  all: try (solve [rewrite X2; simpl; lia]).
  all: try (solve [unfold aux_same in *; simpl in *; splits; try lia; intuition congruence]).
  all: try (solve [intros GF; simpl; rewrite (X6 GF); subst v3; simpl; exact G1]).
  all: try (solve [intros _; split; [|exact I]; apply compl_res_ok; exact X3]).
Qed.

Lemma P_RHostCall ac rg hs envfp nenv body : P_acts body -> P_ract (RHostCall ac rg hs envfp nenv body).
Proof.
  intros IH v last W. rewrite run_ract_RHostCall_eq. cbv beta zeta.
  set (v1 := set_stack v (stack v + 2 + ac)).
  destruct (check_limits v1) as [k|].
  - destruct W. subst v1. simpl. splits; side; try rok.
  - apply (call_frame_spec body IH v v1 (stack v) ac rg hs envfp nenv last W); auto.
    unfold aux_same; auto.
Qed.

Lemma P_RHostConstruct ac rg hs envfp nenv proto_ok body :
  P_acts body -> P_ract (RHostConstruct ac rg hs envfp nenv proto_ok body).
Proof.
  intros IH v last W. rewrite run_ract_RHostConstruct_eq. cbv beta zeta.
  set (v1 := set_stack v (stack v + 3 + ac)).
  destruct (check_limits v1) as [k|].
  - destruct W. subst v1. simpl. splits; side; try rok.
  - set (v1' := set_stack v1 (stack v1 - 1)).
    destruct proto_ok.
    + apply (call_frame_spec body IH v v1' (stack v) ac rg hs envfp nenv last W); auto.
      * subst v1' v1. simpl. lia.
      * unfold aux_same; auto.
    + destruct W. subst v1' v1. simpl. splits; side; try rok.
Qed.

Lemma P_RHostNew ac rg hs envfp nenv init body :
  P_racts init -> P_acts body -> P_ract (RHostNew ac rg hs envfp nenv init body).
Proof.
  intros IHi IH v last W. rewrite run_ract_RHostNew_eq. cbv beta zeta.
  set (v1 := set_stack v (stack v + 3 + ac)).
  destruct (check_limits v1) as [k|].
  - destruct W. subst v1. simpl. splits; side; try rok.
  - set (v1' := set_stack v1 (stack v1 - 1)).
    assert (W1 : wf v1') by (destruct W; split; auto).
    specialize (IHi v1' ROk W1).
    destruct (run_racts fx_new v1' ROk init) as ((vi & ri) & oi).
    destruct IHi as (F & SS & A & G2 & K & OK).
    assert (R_ok ri) as OKr by (apply OK; discriminate).
    destruct W as (NE & G).
    assert (Fi : frames vi = frames v) by (rewrite F; reflexivity).
    assert (Si : stack vi = stack v + 2 + ac) by (rewrite SS; subst v1' v1; simpl; lia).
    assert (Ai : aux_same v vi) by (subst v1' v1; unfold aux_same in *; simpl in *; tauto).
    destruct ri.
    + set (E := mkF (stack vi - ac - 2) (stack vi) rg ac true false envfp (envfp + nenv) 0 hs).
      set (v3 := set_hdepth (push_frame vi (ordinary_frame ac rg hs true envfp nenv)) _).
      assert (F3 : frames v3 = E :: frames v) by (subst v3 E; simpl; rewrite Fi; reflexivity).
      assert (S3 : stack v3 = stack vi + rg) by reflexivity.
      assert (G3 : GInv v3) by (subst v3; exact G2).
      assert (fp E <= rp E) as L1 by (simpl; lia).
      assert (rp E + regs E <= stack v3) as L2 by (rewrite S3; simpl; lia).
      pose proof (entry_run body IH v3 E (frames v) F3 NE eq_refl eq_refl L1 L2 G3) as X.
      destruct (run_acts fx_new v3 body) as ((v4 & r) & o).
      destruct X as (E' & X1 & X2 & X3 & X4 & X5 & X6).
      rewrite (pop_frame_cons (set_hdepth v4 (hdepth v4 - 1)) E' (frames v)); auto.
      simpl.
      assert (H3 : hdepth v3 = S (hdepth v)) by (subst v3; unfold aux_same in Ai; simpl; f_equal; tauto).
      splits; auto.
      all: try (solve [rewrite X2; simpl; lia]).
      all: try (solve [unfold aux_same in *; simpl in *; splits; try lia; intuition congruence]).
      all: try (solve [intros GF; simpl in *; apply andb_prop in GF; destruct GF as (GF1 & GF2);
                       rewrite (X6 GF2); subst v3; simpl; rewrite K; auto]).
      all: try (solve [intros _; split; [|exact I]; apply compl_res_ok; exact X3]).
    + simpl. splits; auto; try lia.
      all: try (solve [unfold aux_same in *; simpl in *; intuition congruence]).
      all: try (solve [intros GF; simpl in *; apply andb_prop in GF; destruct GF as (GF1 & GF2); rewrite K; auto]).
      all: try (solve [intros _; split; auto]).
    + exfalso. apply OKr. reflexivity.
Qed.

Lemma P_RNil : P_racts RNil.
Proof.
  intros v last (NE & G). rewrite run_racts_RNil_eq. splits; side. unfold R_ok; discriminate.
Qed.

Lemma P_RCons r rest : P_ract r -> P_racts rest -> P_racts (RCons r rest).
Proof.
  intros IHr IHl v last W. rewrite run_racts_RCons_eq.
  specialize (IHr v last W).
  destruct (run_ract fx_new v last r) as (((v1 & x) & last1) & o).
  destruct IHr as (F & S & A & G1 & K & OK).
  destruct x as [res|].
  - splits; auto.
    + intros GF. simpl in GF. apply andb_prop in GF. apply K; tauto.
    + intros L. apply OK in L. tauto.
  - assert (W1 : wf v1) by (destruct W; split; auto; congruence).
    specialize (IHl v1 last1 W1).
    destruct (run_racts fx_new v1 last1 rest) as ((v2 & res) & o2).
    destruct IHl as (F2 & S2 & A2 & G2 & K2 & OK2).
    splits; auto; try congruence.
    + unfold aux_same in *; intuition congruence.
    + intros GF. simpl in GF. apply andb_prop in GF. rewrite K2, K; tauto.
    + intros L. apply OK2. apply OK in L. tauto.
Qed.

Definition done_r (v : vm) (res : rres) : vm * option rres * rres * list obs :=
  (v, None, res, [ODone res (length (frames v)) (stack v) (hdepth v)]).

Definition start_resume_expr (v : vm) (g : nat) (body : acts) (gs : nat) (f : frame) (with_value : bool) :=
  let outer := stack v in
  let v1 := set_gens (set_stack v gs) (gens_set (gens v) g GExec) in
  let v2 := push_frame v1 (f_set_exit f true) in
  let v3 := set_stack v2 (stack v2 + (if with_value then 2 else 1)) in
  let '(v4, r, o) := run_acts fx_new v3 body in
  let c := match r with Some c => c | None => escaped v4 end in
  let gs' := stack v4 in
  let v5 := set_stack v4 outer in
  match pop_frame v5 with
  | Some (f', v6) =>
      let st := match c with
                | CNormal => if rp f' + regs f' <=? gs' then GYield gs' f' else GDone
                | _ => GDone end in
      let v7 := set_gens v6 (gens_set (gens v6) g st) in
      let '(v8, x, res, o2) := done_r v7 (compl_res c) in (v8, x, res, o ++ o2)
  | None => let '(v8, x, res, o2) := done_r v5 RPanic in (v8, x, res, o ++ o2)
  end.

Lemma run_ract_RResume_eq2 v last g kind body :
  run_ract fx_new v last (RResume g kind body) =
  match nth_error (gens v) g with
  | None => done_r v (RErr true)
  | Some GExec => done_r v (RErr true)
  | Some GDone => match kind with KThr => done_r v (RErr true) | _ => done_r v ROk end
  | Some (GStart gs f) =>
      match kind with
      | KNext => start_resume_expr v g body gs f false
      | KRet => done_r (set_gens v (gens_set (gens v) g GDone)) ROk
      | KThr => done_r (set_gens v (gens_set (gens v) g GDone)) (RErr true)
      end
  | Some (GYield gs f) => start_resume_expr v g body gs f true
  end.
Proof. reflexivity. Qed.

Lemma resume_spec body (IH : P_acts body) v g gs f wv last :
  wf v -> fp f = 0 -> rp f + regs f <= gs -> pushed f = true ->
  match start_resume_expr v g body gs f wv with
  | (v', x, last', _) =>
      frames v' = frames v /\ stack v' = stack v /\ aux_same v v' /\ GInv v' /\
      (R_ok last -> R_ok last' /\ match x with Some res => R_ok res | None => True end)
  end.
Proof.
  intros (NE & G) F0 RG PF. unfold start_resume_expr. cbv zeta.
  set (E := f_set_exit f true).
  set (v1 := set_gens (set_stack v gs) (gens_set (gens v) g GExec)).
  assert (P2 : push_frame v1 E = set_frames v1 (E :: frames v1)).
  { unfold push_frame. subst E. simpl. rewrite PF. reflexivity. }
  rewrite P2.
  set (v3 := set_stack (set_frames v1 (E :: frames v1)) _).
  assert (F3 : frames v3 = E :: frames v) by reflexivity.
  assert (S3 : gs <= stack v3) by (subst v3; simpl; lia).
  assert (G3 : GInv v3).
  { subst v3 v1. unfold GInv. simpl. apply gens_set_wf; auto. exact I. }
  assert (fp E <= rp E) as L1 by (subst E; simpl; lia).
  assert (rp E + regs E <= stack v3) as L2 by (subst E; simpl; lia).
  pose proof (run_frame_spec body IH v3 E (frames v) F3 NE eq_refl L1 L2 G3) as X.
  destruct (run_acts fx_new v3 body) as ((v4 & r) & o).
  destruct X as ((E' & P1 & P2' & P3 & P4) & X2 & X3 & X4).
  rewrite (pop_frame_cons (set_stack v4 (stack v)) E' (frames v)); auto.
  unfold done_r. simpl.
  assert (SH : fp E' = 0 /\ pushed E' = true /\ rp E' = rp f /\ regs E' = regs f).
  { destruct P2' as (Q1 & Q2 & Q3 & Q4 & Q5). subst E. simpl in *. splits; congruence. }
  splits; auto.
  all: try (solve [unfold aux_same in *; subst v3 v1; simpl in *; tauto]).
  all: try (solve [intros _; split; [|exact I]; apply compl_res_ok; exact P3]).
  all: try (solve [simpl; lia]).
  unfold GInv. simpl. apply gens_set_wf; auto.
  destruct (match r with Some c => c | None => escaped v4 end); simpl; auto.
  destruct (rp E' + regs E' <=? stack v4) eqn:LE; simpl; auto.
  apply Nat.leb_le in LE. tauto.
Qed.

Lemma P_RResume g kind body : P_acts body -> P_ract (RResume g kind body).
Proof.
  intros IH v last W. rewrite run_ract_RResume_eq2.
  assert (GK : forall v', gens_keep (genfree_ract (RResume g kind body)) v v') by (intros v' X; discriminate).
  destruct (nth_error (gens v) g) as [s|] eqn:NT.
  2: { destruct W. unfold done_r. splits; side; try rok. }
  assert (WS : gwf s) by (destruct W as (_ & G); eapply nth_gwf; eauto).
  destruct s as [gs f|gs f| |].
  - destruct WS as (A & B & C). destruct kind.
    + pose proof (resume_spec body IH v g gs f false last W A B C) as X.
      destruct (start_resume_expr v g body gs f false) as (((v' & x) & l') & o). destruct X as (X1 & X2 & X3 & X4 & X5). splits; auto.
    + destruct W as (NE & G). unfold done_r. simpl. splits; side; try rok.
      unfold GInv. simpl. apply gens_set_wf; auto. exact I.
    + destruct W as (NE & G). unfold done_r. simpl. splits; side; try rok.
      unfold GInv. simpl. apply gens_set_wf; auto. exact I.
  - destruct WS as (A & B & C).
    pose proof (resume_spec body IH v g gs f true last W A B C) as X.
    destruct (start_resume_expr v g body gs f true) as (((v' & x) & l') & o). destruct X as (X1 & X2 & X3 & X4 & X5). splits; auto.
  - destruct W. unfold done_r. splits; side; try rok.
  - destruct W. unfold done_r. destruct kind; splits; side; try rok.
Qed.

Theorem tree_spec :
  (forall a, P_act a) /\ (forall l, P_acts l) /\ (forall r, P_ract r) /\ (forall l, P_racts l).
Proof.
  destruct P_simple as (S1 & S2 & S3 & S4 & S5 & S6).
  destruct P_handlers as (H1 & H2 & H3 & H4 & H4' & H5 & H6 & H6' & H7).
  destruct P_ract_simple as (R1 & R2 & R3 & R4 & R5).
  apply tree_mutind; intros; auto using P_ANew, P_RHostNew, P_ACall, P_ACallNative, P_ARust, P_ANil, P_ACons, P_RHostEval, P_RHostCall,
    P_RHostCallNative, P_RHostConstruct, P_RHostConstructNative, P_RResume, P_RBlock, P_RHostModuleLink, P_RNil, P_RCons.
Qed.

(* ------------------------------------------------------------------------------------------ *)
(* the property lemmas *)

Lemma wf_init rl sl : wf (init rl sl).
Proof. split; [discriminate|constructor]. Qed.

Lemma entry_balanced_lemma : forall v last e, wf v ->
  let '(v', _, _, _) := run_ract fx_new v last e in
  frames v' = frames v /\ stack v' = stack v /\ hdepth v' = hdepth v /\ wf v'.
Proof.
  intros v last e W. pose proof (proj1 (proj2 (proj2 tree_spec)) e v last W) as X.
  destruct (run_ract fx_new v last e) as (((v' & x) & l') & o).
  destruct X as (F & S & A & G & _). destruct W as (NE & _). unfold aux_same in A.
  splits; auto; try tauto. split; auto. congruence.
Qed.

Lemma host_balanced_lemma : forall v l, wf v ->
  let '(v', _) := run_host fx_new v l in
  frames v' = frames v /\ stack v' = stack v /\ hdepth v' = hdepth v /\ wf v'.
Proof.
  intros v l W. unfold run_host. pose proof (proj2 (proj2 (proj2 tree_spec)) l v ROk W) as X.
  destruct (run_racts fx_new v ROk l) as ((v' & r) & o).
  destruct X as (F & S & A & G & _). destruct W as (NE & _). unfold aux_same in A.
  splits; auto; try tauto. split; auto. congruence.
Qed.

Lemma no_panic_lemma : forall v e, wf v ->
  let '(_, x, r, _) := run_ract fx_new v ROk e in r <> RPanic /\ x <> Some RPanic.
Proof.
  intros v e W. pose proof (proj1 (proj2 (proj2 tree_spec)) e v ROk W) as X.
  destruct (run_ract fx_new v ROk e) as (((v' & x) & l') & o).
  destruct X as (_ & _ & _ & _ & _ & OK).
  assert (R_ok ROk) as R0 by (unfold R_ok; discriminate).
  destruct (OK R0) as (A & B). split; auto.
  destruct x as [res|]; [|discriminate]. intros EQ. inversion EQ; subst. apply B. reflexivity.
Qed.

Lemma vm_eta v v' :
  frames v' = frames v -> stack v' = stack v -> aux_same v v' -> gens v' = gens v -> pending v' = pending v -> v' = v.
Proof.
  destruct v, v'. unfold aux_same. simpl. intros; intuition subst; reflexivity.
Qed.

(* a failed entry that touches no generator leaves the whole modelled state unchanged *)
Lemma entry_state_lemma : forall v e, wf v -> genfree_ract e = true ->
  pending (fst (run_entry fx_new v e)) = pending v ->
  fst (run_entry fx_new v e) = v.
Proof.
  intros v e W GF. unfold run_entry.
  pose proof (proj1 (proj2 (proj2 tree_spec)) e v ROk W) as X.
  destruct (run_ract fx_new v ROk e) as (((v' & x) & l') & o).
  destruct X as (F & S & A & G & K & _). simpl. apply vm_eta; auto.
Qed.

Lemma entry_wf_lemma : forall v e, wf v -> wf (fst (run_entry fx_new v e)).
Proof.
  intros v e W. unfold run_entry. pose proof (entry_balanced_lemma v ROk e W) as X.
  destruct (run_ract fx_new v ROk e) as (((v' & x) & l') & o). simpl. tauto.
Qed.

(* every failed entry of the history is generator-free and leaves no exception pending that was not pending
   before (checked along the run; `pending_settled` shows when the second part holds) *)
Fixpoint failed_genfree (v : vm) (h : list ract) : bool :=
  match h with
  | [] => true
  | e :: t => let '(v1, r) := run_entry fx_new v e in
              (is_ok r || (genfree_ract e && Bool.eqb (pending v1) (pending v))) && failed_genfree v1 t
  end.

Lemma failed_invisible_lemma : forall h v, wf v -> failed_genfree v h = true ->
  run_history fx_new v (successes fx_new v h) = filter is_ok (run_history fx_new v h).
Proof.
  induction h as [|e t IH]; intros v W FG; simpl; auto.
  simpl in FG.
  pose proof (entry_wf_lemma v e W) as W1.
  pose proof (entry_state_lemma v e W) as ST.
  destruct (run_entry fx_new v e) as (v1 & r) eqn:RE. simpl in *.
  apply andb_prop in FG. destruct FG as (FG1 & FG2).
  destruct r; simpl in *.
  - rewrite RE. f_equal. apply IH; auto.
  - apply andb_prop in FG1. destruct FG1 as (GF & PE). apply Bool.eqb_prop in PE.
    specialize (ST GF PE). subst v1. auto.
  - apply andb_prop in FG1. destruct FG1 as (GF & PE). apply Bool.eqb_prop in PE.
    specialize (ST GF PE). subst v1. auto.
Qed.

(* ------------------------------------------------------------------------------------------ *)
(* the unrepaired transitions: concrete witnesses (each is replayed against the implementation by the check) *)

Definition al (xs : list act) : acts := fold_right ACons ANil xs.
Definition rl (xs : list ract) : racts := fold_right RCons RNil xs.

(* `function g(){ throw 1 } g();` evaluated as a script: script block with 3 registers, g with 2 *)
Definition w_throw : ract :=
  RHostEval 3 [] 0 0 true (al [APush 2; ACall 0 2 [] false 0 0 (al [AThrow])]).
(* an uncatchable engine error (a runtime limit) raised in the script frame itself *)
Definition w_error : ract := RHostEval 3 [] 0 0 true (al [AError false]).
(* JsObject::call whose [[Call]] fails before a frame is pushed (class constructor without `new`) *)
Definition w_call : ract := RHostCallErr 0 true.
(* a script whose global declaration instantiation fails *)
Definition w_decl : ract := RHostEval 3 [] 0 0 false ANil.
(* linking a source-text module whose code block has 2 registers *)
Definition w_modlink : ract := RHostModuleLink 2.
(* `try { throw 1 } catch (e) { throw 2 } finally { for(;;){} }`: an engine error while an exception is pending *)
Definition w_pending : ract :=
  RHostEval 6 [mkH 2 10 0; mkH 2 20 0] 0 0 true
    (al [ASetPc 5; AThrow; AException; ASetPc 15; AThrow; AError false]).
(* a successful evaluation: `function f(a){ return a } f(1);` *)
Definition w_ok : ract :=
  RHostEval 3 [] 0 0 true (al [APush 3; ACall 1 2 [] false 0 0 (al [AReturn]); APop 1]).

Lemma balanced_refuted_lemma :
  exists e, let v := init 512 1024 in
            frames (fst (run_entry fx_old v e)) = frames v /\ stack (fst (run_entry fx_old v e)) = 9 /\ stack v = 0.
Proof. exists w_throw. vm_compute. auto. Qed.

Lemma each_fix_needed_lemma :
  stack (fst (run_entry (mkFx false true true true true true) (init 512 1024) w_throw)) = 9 /\
  stack (fst (run_entry (mkFx true false true true true true) (init 512 1024) w_error)) = 5 /\
  stack (fst (run_entry (mkFx true true false true true true) (init 512 1024) w_call)) = 2 /\
  stack (fst (run_entry (mkFx true true true false true true) (init 512 1024) w_decl)) = 5 /\
  stack (fst (run_entry (mkFx true true true true false true) (init 512 1024) w_modlink)) = 4 /\
  pending (fst (run_entry (mkFx true true true true true false) (init 512 1024) w_pending)) = true.
Proof. vm_compute. repeat split; reflexivity. Qed.

(* under a small stack-size limit one failed evaluation changes the answer of a later successful one *)
Lemma invisible_refuted_lemma :
  let v := init 512 12 in let h := [w_throw; w_ok] in
  run_history fx_old v h = [RErr true; RErr false] /\
  run_history fx_old v (successes fx_old v [w_ok]) = [ROk] /\
  run_history fx_new v h = [RErr true; ROk].
Proof. vm_compute. auto. Qed.

Lemma history_balanced_lemma : forall rlim slim l,
  let '(v', _) := run_host fx_new (init rlim slim) l in
  frames v' = [dummy] /\ stack v' = 0 /\ hdepth v' = 0.
Proof.
  intros rlim slim l. pose proof (host_balanced_lemma (init rlim slim) l (wf_init rlim slim)) as X.
  destruct (run_host fx_new (init rlim slim) l) as (v' & o). simpl in X. tauto.
Qed.

Lemma invisible_nonvacuous_lemma :
  failed_genfree (init 512 12) [w_throw; w_ok; w_error; w_call; w_decl; w_ok] = true /\
  run_history fx_new (init 512 12) [w_throw; w_ok; w_error; w_call; w_decl; w_ok] =
    [RErr true; ROk; RErr false; RErr true; RErr true; ROk].
Proof. vm_compute. auto. Qed.

(* host [[Construct]] of `class B { x = ft(); constructor(){} }` with `function ft(){ throw 1 }`: the field initialiser
   (a nested host [[Call]] made by InitializeInstanceElements before the constructor's frame exists) throws *)
Definition w_init_throw : ract :=
  RHostNew 0 3 [] 0 0
    (rl [RHostCall 0 3 [] 0 0 (al [APush 2; ACall 0 2 [] false 0 0 (al [AThrow])]); RPropagate true]) ANil.

Lemma init_throw_example_lemma :
  run_entry fx_new (init 512 1024) w_init_throw = (init 512 1024, RErr true).
Proof. vm_compute. reflexivity. Qed.
