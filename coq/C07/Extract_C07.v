(* Extraction of the executable VmStack model (ExtrOcamlBasic only: nat stays the extracted inductive
   datatype; no Extract Constant / Extract Inductive of our own). *)
From Coq Require Import ExtrOcamlBasic.
From C07 Require Import Model_C07.
Extraction Language OCaml.
Extraction "vmstack.ml" Model_C07.init Model_C07.run_host Model_C07.run_history Model_C07.successes
  Model_C07.fx_old Model_C07.fx_new Model_C07.mkFx Model_C07.genfree_ract.
