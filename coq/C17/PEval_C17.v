(* C17 lemmas, part 3: InnerModuleEvaluation on a synchronous graph maintains the invariant, follows the
   specification's depth-first order, never panics and never runs out of fuel (fuel > number of modules). *)
From Coq Require Import List Arith Bool Lia Sorting.Sorted.
From C17 Require Import Modules Spec_C17 PBase_C17 PInv_C17.
Import ListNotations.

Definition ie_post (g : graph) (bf : nat -> option nat) (cap : option nat) (s : gstate) (stack : list nat)
           (ix : nat -> nat) (vis : list nat) (m : nat) (s' : gstate) (stack' : list nat) (r : res nat) : Prop :=
  exists ix' idx' vis' l thr new,
    stack' = new ++ stack /\
    slog s' = slog s ++ l /\
    dfs g bf vis m vis' l thr /\
    same_aux s s' /\
    (forall x, In x stack -> status_of s' x = status_of s x /\ ix' x = ix x) /\
    (forall x, okst (status_of s x) = true -> okst (status_of s' x) = true) /\
    (forall x, is_white (status_of s' x) = true -> is_white (status_of s x) = true) /\
    (forall e, In e l -> is_white (status_of s (ev_mod e)) = true) /\
    keeps s s' /\
    (is_white (status_of s m) = true -> tlc_of (status_of s' m) = cap) /\
    match thr with
    | None => r = ROk idx' /\ GI g bf s' stack' ix' idx' vis' /\
              ((new = [] /\ (okst (status_of s' m) = true \/ In m stack)) \/
               (In m new /\ (forall x, In x new -> Fin g s' stack' ix' (ancS s' m) x /\ reach g x m) /\
                exists w, In w stack /\ reach g m w))
    | Some t => r = RErr (EThrow t) /\ Abort g bf s' stack' ix' idx' vis' t /\
                (In m stack' \/ exists tl cr, status_of s' m = Evaluated tl cr (Some (EThrow t)))
    end.

Definition ie_spec (cf : cfg) (f : nat) (g : graph) : Prop :=
  forall bf cap s stack ix idx vis m s' stack' r,
    GI g bf s stack ix idx vis ->
    (forall x, In x stack -> reach g x m) ->
    evaluable (status_of s m) = true ->
    length g < f + length stack ->
    inner_evaluate cf f g cap s stack idx m = (s', stack', r) ->
    ie_post g bf cap s stack ix vis m s' stack' r.

Definition er_post (g : graph) (bf : nat -> option nat) (s : gstate) (stack : list nat) (ix : nat -> nat)
           (vis : list nat) (cur : nat) (below done reqs : list nat)
           (s' : gstate) (stack' : list nat) (r : res (nat * nat)) : Prop :=
  exists ix' idx' vis' l thr,
    slog s' = slog s ++ l /\ dfs_list g bf vis reqs vis' l thr /\ same_aux s s' /\
    (forall x, In x below -> status_of s' x = status_of s x /\ ix' x = ix x) /\
    ix' cur = ix cur /\
    (forall x, okst (status_of s x) = true -> okst (status_of s' x) = true) /\
    (forall x, is_white (status_of s' x) = true -> is_white (status_of s x) = true) /\
    (forall e, In e l -> is_white (status_of s (ev_mod e)) = true) /\
    keeps s s' /\
    tlc_of (status_of s' cur) = tlc_of (status_of s cur) /\
    match thr with
    | None => exists seg', r = ROk (idx', 0) /\ stack' = seg' ++ cur :: below /\
               GI g bf s' stack' ix' idx' vis' /\ FI g s' stack' ix' cur seg' below (done ++ reqs)
    | Some t => r = RErr (EThrow t) /\ Abort g bf s' stack' ix' idx' vis' t /\ exists new, stack' = new ++ stack
    end.

Lemma is_white_evaluating : forall t c a o, is_white (Evaluating t c a o) = false.
Proof. reflexivity. Qed.

Lemma er_spec : forall cf f g, ie_spec cf f g ->
  forall reqs bf s stack ix idx vis cur seg below done s' stack' r,
    GI g bf s stack ix idx vis -> FI g s stack ix cur seg below done ->
    (forall q, In q reqs -> edge g cur q) ->
    length g < f + length stack ->
    eval_requests (fun s st i r => inner_evaluate cf f g None s st i r) cur reqs s stack idx 0 = (s', stack', r) ->
    er_post g bf s stack ix vis cur below done reqs s' stack' r.
Proof.
  intros cf f g IH reqs. induction reqs as [|q rest IHr];
    intros bf s stack ix idx vis cur seg below done s' stack' r HG HF Hreqs Hfuel Her.
  - simpl in Her. inversion Her; subst.
    exists ix, idx, vis, [], None. rewrite !app_nil_r.
    split; [reflexivity|]. split; [constructor|]. split; [apply same_aux_refl|].
    split; [auto|]. split; [reflexivity|]. split; [auto|]. split; [auto|]. split; [intros e []|].
    split; [apply keeps_refl|]. split; [reflexivity|].
    exists seg. split; [reflexivity|]. split; [apply (F_stack _ _ _ _ _ _ _ _ HF)|]. split; assumption.
  - simpl in Her.
    pose proof (F_stack _ _ _ _ _ _ _ _ HF) as Hstack.
    assert (Hcur : In cur stack) by (rewrite Hstack; apply in_or_app; simpl; auto).
    destruct (G_stack _ _ _ _ _ _ _ HG cur Hcur) as (tlcm & ancm & Ecur & Hancm & Hixm).
    assert (Hbelow : forall x, In x below -> In x stack) by (intros; rewrite Hstack; apply in_or_app; simpl; auto).
    assert (Hsegin : forall x, In x seg -> In x stack) by (intros; rewrite Hstack; apply in_or_app; auto).
    pose proof (GI_stack_nodup _ _ _ _ _ _ _ HG) as Hnd.
    assert (Hsegcur : forall x, In x seg -> x <> cur).
    { intros x Hx ->. rewrite Hstack in Hnd. apply NoDup_remove_2 in Hnd. apply Hnd. apply in_or_app; auto. }
    destruct (inner_evaluate cf f g None s stack idx q) as [[s1 st1] r1] eqn:E1.
    assert (Hq : edge g cur q) by (apply Hreqs; simpl; auto).
    assert (Hqev : evaluable (status_of s q) = true).
    { eapply G_closed; eauto. rewrite Ecur. reflexivity. }
    assert (Hpre : forall x, In x stack -> reach g x q).
    { intros x Hx. eapply reach_trans; [apply (F_reach _ _ _ _ _ _ _ _ HF); assumption|apply reach_edge; assumption]. }
    destruct (IH bf None s stack ix idx vis q s1 st1 r1 HG Hpre Hqev Hfuel E1)
      as (ix1 & idx1 & vis1 & l1 & thr1 & new1 & Hst1 & Hlog1 & Hdfs1 & Haux1 & Hold1 & Hok1 & Hwh1 & Hevs1 & Hkeep1 & _ & Hres1).
    destruct thr1 as [t|].
    { (* the request aborted *)
      destruct Hres1 as (-> & HA & _). inversion Her; subst s' stack' r.
      exists ix1, idx1, vis1, l1, (Some t).
      split; [assumption|]. split; [apply dfsl_fail; assumption|]. split; [assumption|].
      split; [intros x Hx; apply Hold1; auto|]. split; [apply Hold1; assumption|].
      split; [assumption|]. split; [assumption|]. split; [assumption|]. split; [assumption|].
      split; [destruct (Hold1 cur Hcur) as [-> _]; reflexivity|].
      split; [reflexivity|]. split; [assumption|]. eauto. }
    destruct Hres1 as (-> & HG1 & Hcase).
    assert (Ecur1 : status_of s1 cur = Evaluating tlcm cur ancm None).
    { destruct (Hold1 cur Hcur) as [-> _]. assumption. }
    assert (Hcur1 : In cur st1) by (rewrite Hst1; apply in_or_app; auto).
    assert (Hsub1 : forall x, In x stack -> In x st1 /\ ix1 x = ix x).
    { intros x Hx. split; [rewrite Hst1; apply in_or_app; auto|apply Hold1; assumption]. }
    assert (Hnd1 : NoDup st1) by (eapply GI_stack_nodup; eauto).
    assert (Hnew1cur : forall x, In x new1 -> x <> cur).
    { intros x Hx ->. rewrite Hst1 in Hnd1. eapply NoDup_app_disjoint; eauto. }
    assert (Hnoev1 : ~ In (RStart cur) (slog s1) /\ ~ In (REnd cur) (slog s1)).
    { destruct (F_noev _ _ _ _ _ _ _ _ HF) as [Hn1 Hn2]. rewrite Hlog1. split; intros Hin; apply in_app_or in Hin;
        (destruct Hin as [Hin|Hin]; [contradiction|]); apply Hevs1 in Hin; simpl in Hin; rewrite Ecur in Hin; discriminate. }
    (* the continuation, from a state s2 that differs from s1 at most in cur's ancestor index *)
    assert (Hcont : forall s2 seg2,
               GI g bf s2 st1 ix1 idx1 vis1 -> FI g s2 st1 ix1 cur seg2 below (done ++ [q]) ->
               (forall x, x <> cur -> status_of s2 x = status_of s1 x) ->
               (exists a, status_of s2 cur = Evaluating tlcm cur a None) ->
               slog s2 = slog s1 -> same_aux s1 s2 ->
               eval_requests (fun s st i r => inner_evaluate cf f g None s st i r) cur rest s2 st1 idx1 0 = (s', stack', r) ->
               er_post g bf s stack ix vis cur below done (q :: rest) s' stack' r).
    { intros s2 seg2 HG2 HF2 Hne2 (a2 & Ecur2) Hlog2 Haux2 Hrest.
      assert (Hfuel2 : length g < f + length st1).
      { rewrite Hst1, app_length. lia. }
      assert (Hreqs2 : forall q', In q' rest -> edge g cur q') by (intros; apply Hreqs; simpl; auto).
      destruct (IHr bf s2 st1 ix1 idx1 vis1 cur seg2 below (done ++ [q]) s' stack' r HG2 HF2 Hreqs2 Hfuel2 Hrest)
        as (ix' & idx' & vis' & l2 & thr & Hlog' & Hdfs' & Haux' & Hold' & Hixc' & Hok' & Hwh' & Hevs' & Hkeep' & Htlc' & Hres').
      assert (Hok12 : forall x, okst (status_of s1 x) = true -> okst (status_of s2 x) = true).
      { intros x Hx. destruct (Nat.eq_dec x cur) as [->|Hxc]; [rewrite Ecur1 in Hx; discriminate|].
        rewrite Hne2 by assumption. assumption. }
      assert (Hwh21 : forall x, is_white (status_of s2 x) = true -> is_white (status_of s1 x) = true).
      { intros x Hx. destruct (Nat.eq_dec x cur) as [->|Hxc]; [rewrite Ecur2 in Hx; discriminate|].
        rewrite <- Hne2 by assumption. assumption. }
      exists ix', idx', vis', (l1 ++ l2), thr.
      split; [rewrite Hlog', Hlog2, Hlog1, app_assoc; reflexivity|].
      split; [eapply dfsl_cons; eassumption|].
      split; [eapply same_aux_trans; [exact Haux1|eapply same_aux_trans; [exact Haux2|exact Haux']]|].
      split.
      { intros x Hx. destruct (Hold' x Hx) as [Ha Hb]. destruct (Hold1 x (Hbelow x Hx)) as [Hc Hd].
        assert (x <> cur).
        { intros ->. rewrite Hstack in Hnd. apply NoDup_remove_2 in Hnd. apply Hnd. apply in_or_app; auto. }
        split; [rewrite Ha, Hne2 by assumption; assumption|congruence]. }
      split; [rewrite Hixc'; apply Hold1; assumption|].
      split; [intros x Hx; auto|].
      split; [intros x Hx; auto|].
      split.
      { intros e He. apply in_app_or in He. destruct He as [He|He]; [auto|].
        apply Hwh1, Hwh21, Hevs'. assumption. }
      split.
      { eapply keeps_trans; [exact Hkeep1|]. eapply keeps_trans; [|exact Hkeep'].
        apply (keeps_except s1 s2 (fun x => x = cur)).
        - intros x ->. rewrite Ecur1, Ecur2. split; [discriminate|split; [reflexivity|split; reflexivity]].
        - exact Hne2.
        - intros x. destruct (Nat.eq_dec x cur); auto. }
      split; [rewrite Htlc', Ecur2, Ecur; reflexivity|].
      destruct thr as [t|].
      - destruct Hres' as (-> & HA & (new & Hn)). split; [reflexivity|]. split; [assumption|].
        exists (new ++ new1). rewrite Hn, Hst1, app_assoc. reflexivity.
      - destruct Hres' as (seg' & -> & Hs' & HG' & HF'). exists seg'. split; [reflexivity|]. split; [assumption|].
        split; [assumption|]. rewrite <- app_assoc in HF'. exact HF'. }
    (* facts shared by the two ways a request can still be on the stack *)
    assert (Hstill : In q st1 ->
               (forall x, In x new1 -> Fin g s1 st1 ix1 (ancS s1 q) x /\ reach g x cur) ->
               er_post g bf s stack ix vis cur below done (q :: rest) s' stack' r).
    { intros Hqin Hnew.
      destruct (G_stack _ _ _ _ _ _ _ HG1 q Hqin) as (tq & aq & Eq & Haq & Hixq).
      rewrite Eq in Her. apply mem_In in Hqin as Hqmem. rewrite Hqmem in Her. simpl in Her. rewrite Ecur1 in Her.
      set (s2 := set_status s1 cur (Evaluating tlcm cur (Nat.min ancm aq) None)) in *.
      assert (HG2 : GI g bf s2 st1 ix1 idx1 vis1).
      { assert (Haq' : aq = ancS s1 q) by (unfold ancS; rewrite Eq; reflexivity).
        unfold s2. rewrite Haq'. eapply GI_anc; eauto. }
      assert (Hne2 : forall x, x <> cur -> status_of s2 x = status_of s1 x).
      { intros x Hx. unfold s2. apply status_set_status_neq. auto. }
      assert (Hanc2 : ancS s2 cur = Nat.min ancm aq).
      { unfold ancS, s2. rewrite status_set_status_eq. reflexivity. }
      assert (Hok12 : forall x, okst (status_of s1 x) = true -> okst (status_of s2 x) = true).
      { intros x Hx. destruct (Nat.eq_dec x cur) as [->|Hxc]; [rewrite Ecur1 in Hx; discriminate|].
        rewrite Hne2 by assumption. assumption. }
      apply (Hcont s2 (new1 ++ seg)); try assumption.
      - constructor.
        + rewrite Hst1, Hstack, app_assoc. reflexivity.
        + intros x Hx. rewrite Hst1 in Hx. apply in_app_or in Hx. destruct Hx as [Hx|Hx].
          * apply Hnew; assumption.
          * apply (F_reach _ _ _ _ _ _ _ _ HF); assumption.
        + intros x Hx. apply in_app_or in Hx. destruct Hx as [Hx|Hx].
          * destruct (Hnew x Hx) as [HFx _].
            eapply (Fin_step g s1 s2 st1 st1 ix1 ix1); [exact Hok12|auto|exists []; rewrite app_nil_r; reflexivity| | |exact HFx].
            -- unfold ancS. rewrite Hne2 by (apply Hnew1cur; assumption). reflexivity.
            -- rewrite Hanc2. unfold ancS at 1. rewrite Eq. simpl. lia.
          * pose proof (F_seg _ _ _ _ _ _ _ _ HF x Hx) as HFx.
            eapply (Fin_step g s s2 stack st1 ix ix1); [| |exists l1; exact Hlog1| | |exact HFx].
            -- intros y Hy. auto.
            -- exact Hsub1.
            -- unfold ancS. rewrite Hne2 by (apply Hsegcur; assumption).
               destruct (Hold1 x (Hsegin x Hx)) as [-> _]. reflexivity.
            -- rewrite Hanc2. unfold ancS. rewrite Ecur. simpl. lia.
        + intros z Hz. apply in_app_or in Hz. destruct Hz as [Hz|[<-|[]]].
          * pose proof (F_done _ _ _ _ _ _ _ _ HF z Hz) as Hrz.
            eapply reqok_mono; [|eapply (reqok_step s s2 stack st1 ix ix1); [|exact Hsub1|exact Hrz]].
            -- rewrite Hanc2. unfold ancS. rewrite Ecur. simpl. lia.
            -- intros y Hy. auto.
          * right. split; [assumption|]. rewrite Hanc2. lia.
        + exact Hnoev1.
      - exists (Nat.min ancm aq). unfold s2. apply status_set_status_eq.
      - reflexivity.
      - apply same_aux_set_status. }
    destruct Hcase as [[-> [Hokq|Hqin]]|(Hqnew & Hnewfin & (w & Hw & Hqw))].
    + (* evaluated without error *)
      simpl in Hst1. subst st1.
      destruct (status_of s1 q) as [| | | |? ? ? ?|? ? ? ?|tq cq eq] eqn:Eq; try discriminate Hokq.
      destruct eq; [discriminate|].
      destruct (G_ok _ _ _ _ _ _ _ HG1 _ _ _ Eq) as ((tc & Ecq) & _). rewrite Ecq in Her.
      apply (Hcont s1 seg); try assumption.
      * constructor.
        -- assumption.
        -- apply (F_reach _ _ _ _ _ _ _ _ HF).
        -- intros x Hx. pose proof (F_seg _ _ _ _ _ _ _ _ HF x Hx) as HFx.
           eapply (Fin_step g s s1 stack stack ix ix1); [exact Hok1|exact Hsub1|exists l1; exact Hlog1| | |exact HFx].
           ++ unfold ancS. destruct (Hold1 x (Hsegin x Hx)) as [-> _]. reflexivity.
           ++ unfold ancS. rewrite Ecur1, Ecur. lia.
        -- intros z Hz. apply in_app_or in Hz. destruct Hz as [Hz|[<-|[]]].
           ++ pose proof (F_done _ _ _ _ _ _ _ _ HF z Hz) as Hrz.
              eapply reqok_mono; [|eapply (reqok_step s s1 stack stack ix ix1); [exact Hok1|exact Hsub1|exact Hrz]].
              unfold ancS. rewrite Ecur1, Ecur. lia.
           ++ left. rewrite Eq. reflexivity.
        -- exact Hnoev1.
      * auto.
      * eauto.
      * reflexivity.
      * apply same_aux_refl.
    + (* was already on the stack *)
      simpl in Hst1. subst st1. apply Hstill; [assumption|intros x []].
    + (* has been pushed and is still on the stack *)
      apply Hstill.
      * rewrite Hst1. apply in_or_app; auto.
      * intros x Hx. destruct (Hnewfin x Hx) as [HFx Hxq]. split; [assumption|].
        eapply reach_trans; [exact Hxq|]. eapply reach_trans; [exact Hqw|].
        apply (F_reach _ _ _ _ _ _ _ _ HF). assumption.
Qed.

(* ------------------------------------------------------------------------------------------ *)
(* InnerModuleEvaluation *)

Lemma inner_evaluate_S : forall cf f g cap s stack index m,
  inner_evaluate cf (S f) g cap s stack index m =
      match status_of s m with
      | Evaluating _ _ _ _ | EvaluatingAsync _ _ _ _ => (s, stack, ROk index)
      | Evaluated _ _ (Some e) => (s, stack, RErr e)
      | Evaluated _ _ None => (s, stack, ROk index)
      | Linked _ =>
          let s := set_status s m (Evaluating cap m index None) in
          let module_index := index in
          let stack := m :: stack in
          match eval_requests (fun s st i r => inner_evaluate cf f g None s st i r) m (requests g m)
                              s stack (S index) 0 with
          | (s, stack, ROk (index, pend)) =>
              let s := if cf_own_pending cf then set_pend s m pend else s in
              let '(s, r) :=
                if (0 <? pend) || has_tla g m then
                  match status_of s m with
                  | Evaluating tlc cr anc None =>
                      let s := incr_acount (set_status s m (Evaluating tlc cr anc (Some (gs_acount s)))) in
                      if pend =? 0 then execute_async g s m else (s, ROk tt)
                  | Evaluating _ _ _ (Some _) => (s, RPanic (POther 40))
                  | _ => (s, RPanic (POther 41))
                  end
                else execute_sync g s m in
              match r with
              | ROk _ =>
                  match status_of s m with
                  | Evaluating _ _ anc _ =>
                      if module_index <? anc then (s, stack, RPanic (POther 42))
                      else if anc =? module_index then
                        match pop_scc cf m pend s stack with
                        | (s, stack, None) => (s, stack, ROk index)
                        | (s, stack, Some p) => (s, stack, RPanic p)
                        end
                      else (s, stack, ROk index)
                  | _ => (s, stack, RPanic (POther 43))
                  end
              | RErr e => (s, stack, RErr e)
              | RPanic p => (s, stack, RPanic p)
              | RFuel => (s, stack, RFuel)
              end
          | (s, stack, RErr e) => (s, stack, RErr e)
          | (s, stack, RPanic p) => (s, stack, RPanic p)
          | (s, stack, RFuel) => (s, stack, RFuel)
          end
      | _ => (s, stack, RPanic (POther 44))
      end.
Proof. reflexivity. Qed.

Lemma has_tla_sync : forall g m, sync g -> has_tla g m = false.
Proof. intros g m H. unfold has_tla. rewrite (H m). reflexivity. Qed.

(* a request that does not lead back to cur is, once processed, evaluated without error *)
Lemma deps_ended : forall g bf s stack ix idx vis cur seg below,
  GI g bf s stack ix idx vis -> FI g s stack ix cur seg below (requests g cur) ->
  forall d, ncdep g cur d -> In (REnd d) (slog s).
Proof.
  intros g bf s stack ix idx vis cur seg below HG HF d (r & Hr & Hrd & Hnr).
  destruct (F_done _ _ _ _ _ _ _ _ HF r Hr) as [Hok|[Hin _]].
  - eapply ok_closure; eauto.
  - exfalso. apply Hnr. apply (F_reach _ _ _ _ _ _ _ _ HF). assumption.
Qed.

Lemma ie_spec_all : forall cf g, sync g -> forall f, ie_spec cf f g.
Proof.
  intros cf g Hsync f. induction f as [|f IHf];
    intros bf cap s stack ix idx vis m s' stack' r HG Hpre Hev Hfuel Hie.
  { pose proof (GI_stack_length _ _ _ _ _ _ _ HG). lia. }
  rewrite inner_evaluate_S in Hie.
  assert (Hnil : forall (P : Prop), P -> (forall x : nat, In x (@nil nat) -> P)) by (intros P HP x []).
  destruct (status_of s m) as [| | |a|tm cm am om|tm cm om pm|tm cm em] eqn:Em; try discriminate Hev.
  (* EvaluatingAsync is not evaluable *)
  - (* Linked: enter the module *)
    cbv zeta in Hie.
    set (s1 := set_status s m (Evaluating cap m idx None)) in *.
    assert (HG1 : GI g bf s1 (m :: stack) (upd ix m idx) (S idx) (m :: vis)) by (eapply GI_push; eauto).
    assert (Hnin : ~ In m stack).
    { intro Hin. destruct (G_stack _ _ _ _ _ _ _ HG m Hin) as (t & an & E & _). congruence. }
    assert (Hne1 : forall x, x <> m -> status_of s1 x = status_of s x).
    { intros x Hx. unfold s1. apply status_set_status_neq. auto. }
    assert (Em1 : status_of s1 m = Evaluating cap m idx None) by (unfold s1; apply status_set_status_eq).
    assert (Hnoev : ~ In (RStart m) (slog s) /\ ~ In (REnd m) (slog s)).
    { split; intro Hin; (assert (Hd : entered (status_of s m) = true) by (eapply G_dom; eauto));
        rewrite Em in Hd; discriminate. }
    assert (HF1 : FI g s1 (m :: stack) (upd ix m idx) m [] stack []).
    { constructor.
      - reflexivity.
      - intros x [<-|Hx]; [apply reach_refl|auto].
      - intros x [].
      - intros x [].
      - exact Hnoev. }
    assert (Hbfm : bf m = None).
    { rewrite <- (G_badf _ _ _ _ _ _ _ HG m). unfold badf. rewrite Em. reflexivity. }
    assert (Hvism : ~ In m vis).
    { intro Hin. apply (G_vis _ _ _ _ _ _ _ HG m) in Hin; [|rewrite Em; reflexivity]. rewrite Em in Hin. discriminate. }
    assert (Hok01 : forall x, okst (status_of s x) = true -> okst (status_of s1 x) = true).
    { intros x Hx. destruct (Nat.eq_dec x m) as [->|Hxm]; [rewrite Em in Hx; discriminate|]. rewrite Hne1; auto. }
    assert (Hwh10 : forall x, is_white (status_of s1 x) = true -> is_white (status_of s x) = true).
    { intros x Hx. destruct (Nat.eq_dec x m) as [->|Hxm]; [rewrite Em1 in Hx; discriminate|]. rewrite <- Hne1; auto. }
    destruct (eval_requests (fun s st i r => inner_evaluate cf f g None s st i r) m (requests g m) s1 (m :: stack) (S idx) 0)
      as [[s2 st2] r2] eqn:Eer.
    assert (Hfuel1 : length g < f + length (m :: stack)) by (simpl; lia).
    destruct (er_spec cf f g IHf (requests g m) bf s1 (m :: stack) (upd ix m idx) (S idx) (m :: vis) m [] stack []
                s2 st2 r2 HG1 HF1 (fun q Hq => Hq) Hfuel1 Eer)
      as (ix2 & idx2 & vis2 & l2 & thr2 & Hlog2 & Hdfs2 & Haux2 & Hold2 & Hixm2 & Hok2 & Hwh2 & Hevs2 & Hkeep2 & Htlc2 & Hres2).
    rewrite Em1 in Htlc2. simpl in Htlc2.
    rewrite upd_eq in Hixm2.
    assert (Hold02 : forall x, In x stack -> status_of s2 x = status_of s x /\ ix2 x = ix x).
    { intros x Hx. destruct (Hold2 x Hx) as [Ha Hb].
      assert (x <> m) by (intro; subst; contradiction).
      split; [rewrite Ha; apply Hne1; assumption|rewrite Hb; apply upd_neq; assumption]. }
    assert (Haux02 : same_aux s s2) by (eapply same_aux_trans; [apply same_aux_set_status|exact Haux2]).
    assert (Hevs02 : forall e, In e l2 -> is_white (status_of s (ev_mod e)) = true) by (intros; auto).
    assert (Hkeep02 : keeps s s2).
    { eapply keeps_trans; [|exact Hkeep2]. apply keeps_set_status; [rewrite Em; discriminate|reflexivity|reflexivity|rewrite Em; reflexivity]. }
    destruct thr2 as [t|].
    { (* a request aborted *)
      destruct Hres2 as (-> & HA & (new & Hn)). inversion Hie; subst s' stack' r.
      exists ix2, idx2, vis2, l2, (Some t), (new ++ [m]).
      split; [rewrite Hn, <- app_assoc; reflexivity|].
      split; [exact Hlog2|]. split; [apply dfs_fail; assumption|]. split; [assumption|].
      split; [assumption|]. split; [auto|]. split; [auto|]. split; [assumption|]. split; [assumption|].
      split; [intros _; assumption|].
      split; [reflexivity|]. split; [assumption|]. left. rewrite Hn. apply in_or_app; simpl; auto. }
    destruct Hres2 as (seg & -> & Hst2 & HG2 & HF2). simpl in HF2. cbv zeta in Hie.
    (* the store of the module's own pending count (patched variant) touches neither statuses nor the log *)
    rename s2 into s2o.
    set (s2 := if cf_own_pending cf then set_pend s2o m 0 else s2o) in *.
    assert (Hsp : forall x, status_of s2 x = status_of s2o x).
    { intros x. unfold s2. destruct (cf_own_pending cf); [apply status_set_pend|reflexivity]. }
    assert (Hlp : slog s2 = slog s2o) by (unfold s2; destruct (cf_own_pending cf); reflexivity).
    assert (Hap : same_aux s2o s2) by (unfold s2; destruct (cf_own_pending cf); unfold same_aux; auto).
    assert (HG2n : GI g bf s2 st2 ix2 idx2 vis2) by (eapply GI_same; eauto).
    assert (HF2n : FI g s2 st2 ix2 m seg stack (requests g m)) by (eapply FI_same; eauto).
    assert (Hlog2n : slog s2 = slog s1 ++ l2) by (rewrite Hlp; assumption).
    assert (Hold02n : forall x, In x stack -> status_of s2 x = status_of s x /\ ix2 x = ix x).
    { intros x Hx. rewrite Hsp. auto. }
    assert (Haux02n : same_aux s s2) by (eapply same_aux_trans; eauto).
    assert (Hkeep02n : keeps s s2) by (eapply keeps_trans; [exact Hkeep02|apply keeps_same; assumption]).
    assert (Hok2n : forall x, okst (status_of s1 x) = true -> okst (status_of s2 x) = true).
    { intros x Hx. rewrite Hsp. auto. }
    assert (Hwh2n : forall x, is_white (status_of s2 x) = true -> is_white (status_of s1 x) = true).
    { intros x Hx. rewrite Hsp in Hx. auto. }
    assert (Htlc2n : tlc_of (status_of s2 m) = cap) by (rewrite Hsp; assumption).
    clear HG2 HF2 Hlog2 Hold02 Haux02 Hkeep02 Hok2 Hwh2 Htlc2 Hold2 Haux2 Hkeep2.
    rename HG2n into HG2, HF2n into HF2, Hlog2n into Hlog2, Hold02n into Hold02, Haux02n into Haux02,
           Hkeep02n into Hkeep02, Hok2n into Hok2, Hwh2n into Hwh2, Htlc2n into Htlc2.
    rewrite (has_tla_sync g m Hsync) in Hie. simpl in Hie.
    assert (Hm2 : In m st2) by (rewrite Hst2; apply in_or_app; simpl; auto).
    destruct (G_stack _ _ _ _ _ _ _ HG2 m Hm2) as (tm2 & am2 & Em2 & Ham2 & Hixm2').
    destruct (execute_sync_spec g s2 m _ _ _ _ Em2) as (s3 & Hex & Hst3 & Haux3 & Hlog3).
    rewrite Hex in Hie.
    destruct (F_noev _ _ _ _ _ _ _ _ HF2) as [Hns2 Hne2].
    assert (Hdeps : forall d, ncdep g m d -> In (REnd d) (slog s2)) by (eapply deps_ended; eauto).
    assert (HG3 : GI g bf s3 st2 ix2 idx2 vis2).
    { eapply (GI_log g bf s2 s3 st2 ix2 idx2 vis2 m (body_events g m)); eauto.
      unfold body_events. destruct (throws g m); auto. }
    assert (Hlog03 : slog s3 = slog s ++ (l2 ++ body_events g m)).
    { rewrite Hlog3, Hlog2, app_assoc. reflexivity. }
    assert (Hold03 : forall x, In x stack -> status_of s3 x = status_of s x /\ ix2 x = ix x).
    { intros x Hx. rewrite Hst3. auto. }
    assert (Hok03 : forall x, okst (status_of s x) = true -> okst (status_of s3 x) = true).
    { intros x Hx. rewrite Hst3. auto. }
    assert (Hwh30 : forall x, is_white (status_of s3 x) = true -> is_white (status_of s x) = true).
    { intros x Hx. rewrite Hst3 in Hx. auto. }
    assert (Hevs03 : forall e, In e (l2 ++ body_events g m) -> is_white (status_of s (ev_mod e)) = true).
    { intros e He. apply in_app_or in He. destruct He as [He|He]; [auto|].
      assert (ev_mod e = m) as ->; [|rewrite Em; reflexivity].
      unfold body_events in He. destruct (throws g m); simpl in He; intuition (subst; reflexivity). }
    assert (Haux03 : same_aux s s3) by (eapply same_aux_trans; eauto).
    assert (Hkeep03 : keeps s s3) by (eapply keeps_trans; [exact Hkeep02|apply keeps_same; assumption]).
    assert (Hreach3 : forall x, In x st2 -> reach g x m) by (apply (F_reach _ _ _ _ _ _ _ _ HF2)).
    destruct (throws g m) eqn:Ethr.
    { (* the body throws *)
      inversion Hie; subst s' stack' r.
      exists ix2, idx2, vis2, (l2 ++ body_events g m), (body_thr g m), (seg ++ [m]).
      split; [rewrite Hst2, <- app_assoc; reflexivity|]. split; [assumption|].
      split; [apply dfs_body; assumption|]. split; [assumption|]. split; [assumption|].
      split; [assumption|]. split; [assumption|]. split; [assumption|]. split; [assumption|].
      split; [intros _; rewrite Hst3; assumption|].
      unfold body_thr. rewrite Ethr. split; [reflexivity|]. split; [|left; assumption].
      constructor; auto.
      - rewrite Hlog3. unfold body_events. rewrite Ethr. apply in_or_app. simpl; auto.
      - rewrite Hlog3. unfold body_events. rewrite Ethr. rewrite in_snoc. intros [?|?]; [contradiction|discriminate]. }
    (* the body ran to its end *)
    rewrite Hst3, Em2 in Hie.
    assert (Ham2' : am2 <= idx) by lia.
    destruct (idx <? am2) eqn:Elt; [apply Nat.ltb_lt in Elt; lia|].
    assert (Hend3 : In (REnd m) (slog s3)).
    { rewrite Hlog3. unfold body_events. rewrite Ethr. apply in_or_app. simpl; auto. }
    assert (Hstep23 : forall canc x, Fin g s2 st2 ix2 canc x -> Fin g s3 st2 ix2 canc x).
    { intros canc x HFx. eapply (Fin_step g s2 s3 st2 st2 ix2 ix2); [| |exists (body_events g m); exact Hlog3| | |exact HFx].
      - intros y Hy. rewrite Hst3. assumption.
      - auto.
      - unfold ancS. rewrite Hst3. reflexivity.
      - lia. }
    assert (Hanc3 : ancS s3 m = am2) by (unfold ancS; rewrite Hst3, Em2; reflexivity).
    assert (Hanc2 : ancS s2 m = am2) by (unfold ancS; rewrite Em2; reflexivity).
    assert (Hseg3 : forall x, In x seg -> Fin g s3 st2 ix2 (ancS s3 m) x).
    { intros x Hx. rewrite Hanc3, <- Hanc2. apply Hstep23. apply (F_seg _ _ _ _ _ _ _ _ HF2). assumption. }
    assert (Hreq3 : forall z, edge g m z -> reqok s3 st2 ix2 (ancS s3 m) z).
    { intros z Hz. rewrite Hanc3, <- Hanc2.
      eapply (reqok_step s2 s3 st2 st2 ix2 ix2); [| |apply (F_done _ _ _ _ _ _ _ _ HF2); assumption].
      - intros y Hy. rewrite Hst3. assumption.
      - auto. }
    destruct (am2 =? idx) eqn:Eeq.
    + (* root of a component: pop it *)
      apply Nat.eqb_eq in Eeq. subst am2.
      pose proof (G_sorted _ _ _ _ _ _ _ HG3) as Hsort. rewrite Hst2 in Hsort.
      pose proof (ixsorted_NoDup _ _ Hsort) as Hnd.
      assert (Hnd' : NoDup (seg ++ [m]) /\ ~ In m seg).
      { split.
        - replace (seg ++ m :: stack) with ((seg ++ [m]) ++ stack) in Hnd by (rewrite <- app_assoc; reflexivity).
          eapply NoDup_app_l; eauto.
        - intro Hin. apply NoDup_remove_2 in Hnd. apply Hnd. apply in_or_app; auto. }
      destruct Hnd' as [Hnd1 Hnd2].
      destruct (pop_scc_sync cf m s3 seg stack Hnd2) as (s4 & Hpop & Haux4 & Hlog4 & Hin4 & Hout4).
      { intros x Hx. assert (Hxs : In x st2).
        { rewrite Hst2. rewrite in_snoc in Hx. apply in_or_app. simpl. intuition. }
        destruct (G_stack _ _ _ _ _ _ _ HG3 x Hxs) as (t & an & E & _). eauto. }
      { assumption. }
      rewrite Hst2, Hpop in Hie. inversion Hie; subst s' stack' r.
      assert (Hslog4 : slog s4 = slog s3) by (unfold slog; rewrite Hlog4; reflexivity).
      assert (HG4 : GI g bf s4 stack ix2 idx2 vis2).
      { eapply (GI_pop g bf s3 s4 st2 ix2 idx2 vis2 m seg stack); eauto.
        - rewrite Hanc3. auto. }
      assert (Hnotp : forall x, In x stack -> ~ In x (seg ++ [m])).
      { intros x Hx Hp. eapply (NoDup_app_disjoint _ (seg ++ [m]) stack x); eauto.
        rewrite <- app_assoc. exact Hnd. }
      exists ix2, idx2, vis2, (l2 ++ body_events g m), (body_thr g m), [].
      split; [reflexivity|]. split; [rewrite Hslog4; assumption|].
      split; [apply dfs_body; assumption|].
      split; [eapply same_aux_trans; eauto|].
      split; [intros x Hx; rewrite Hout4 by (apply Hnotp; assumption); auto|].
      split.
      { intros x Hx. apply Hok03 in Hx. destruct (in_dec Nat.eq_dec x (seg ++ [m])) as [Hp|Hp].
        - rewrite (Hin4 x Hp). reflexivity.
        - rewrite Hout4 by assumption. assumption. }
      split.
      { intros x Hx. destruct (in_dec Nat.eq_dec x (seg ++ [m])) as [Hp|Hp].
        - rewrite (Hin4 x Hp) in Hx. discriminate.
        - rewrite Hout4 in Hx by assumption. auto. }
      split; [assumption|].
      split.
      { eapply keeps_trans; [exact Hkeep03|]. apply (keeps_except s3 s4 (fun x => In x (seg ++ [m]))).
        - intros x Hx. rewrite (Hin4 x Hx).
          assert (Hxs : In x st2) by (rewrite Hst2; rewrite in_snoc in Hx; apply in_or_app; simpl; intuition).
          destruct (G_stack _ _ _ _ _ _ _ HG3 x Hxs) as (t & an & E & _). rewrite E.
          split; [discriminate|split; [reflexivity|split; reflexivity]].
        - exact Hout4.
        - intros x. destruct (in_dec Nat.eq_dec x (seg ++ [m])); auto. }
      split; [intros _; rewrite (Hin4 m) by (rewrite in_snoc; auto); simpl; rewrite Hst3; assumption|].
      unfold body_thr. rewrite Ethr. split; [reflexivity|]. split; [assumption|].
      left. split; [reflexivity|]. left.
      rewrite (Hin4 m) by (rewrite in_snoc; auto). reflexivity.
    + (* inside a component that is not complete yet *)
      apply Nat.eqb_neq in Eeq. inversion Hie; subst s' stack' r.
      exists ix2, idx2, vis2, (l2 ++ body_events g m), (body_thr g m), (seg ++ [m]).
      split; [rewrite Hst2, <- app_assoc; reflexivity|]. split; [assumption|].
      split; [apply dfs_body; assumption|]. split; [assumption|]. split; [assumption|].
      split; [assumption|]. split; [assumption|]. split; [assumption|]. split; [assumption|].
      split; [intros _; rewrite Hst3; assumption|].
      unfold body_thr. rewrite Ethr. split; [reflexivity|]. split; [assumption|].
      right. split; [rewrite in_snoc; auto|]. split.
      * intros x Hx. split.
        -- rewrite in_snoc in Hx. destruct Hx as [Hx| ->]; [auto|].
           constructor; [assumption|assumption|lia|assumption].
        -- apply Hreach3. rewrite Hst2. rewrite in_snoc in Hx. apply in_or_app. simpl. intuition.
      * destruct (G_wit _ _ _ _ _ _ _ HG3 m Hm2) as (w & Hw & Hw1 & Hw2).
        exists w. split; [|assumption].
        rewrite Hanc3 in Hw1.
        pose proof (G_sorted _ _ _ _ _ _ _ HG3) as Hsort. rewrite Hst2 in Hsort.
        destruct (ixsorted_app _ _ _ _ Hsort) as (Hs1 & _).
        rewrite Hst2 in Hw. apply in_app_or in Hw. destruct Hw as [Hw|[<-|Hw]]; [|lia|assumption].
        specialize (Hs1 _ Hw). lia.
  - (* Evaluating: already on the stack *)
    inversion Hie; subst s' stack' r.
    assert (Hin : In m stack) by (eapply G_ev; eauto).
    exists ix, idx, vis, [], None, []. rewrite app_nil_r.
    split; [reflexivity|]. split; [reflexivity|].
    split.
    { apply dfs_seen.
      - rewrite <- (G_badf _ _ _ _ _ _ _ HG m). unfold badf. rewrite Em. reflexivity.
      - apply (G_vis _ _ _ _ _ _ _ HG m); rewrite Em; reflexivity. }
    split; [apply same_aux_refl|]. split; [auto|]. split; [auto|]. split; [auto|]. split; [intros e []|].
    split; [apply keeps_refl|]. split; [rewrite Em; discriminate|].
    split; [reflexivity|]. split; [assumption|]. left. auto.
  - (* Evaluated *)
    destruct em as [e|].
    + inversion Hie; subst s' stack' r.
      destruct (G_bad _ _ _ _ _ _ _ HG _ _ _ _ Em) as (-> & t & -> & Ht & Hmt & (tt' & Et) & Hst & Hnt).
      exists ix, idx, vis, [], (Some t), []. rewrite app_nil_r.
      split; [reflexivity|]. split; [reflexivity|].
      split.
      { apply dfs_bad. rewrite <- (G_badf _ _ _ _ _ _ _ HG m). unfold badf. rewrite Em. reflexivity. }
      split; [apply same_aux_refl|]. split; [auto|]. split; [auto|]. split; [auto|]. split; [intros e []|].
      split; [apply keeps_refl|]. split; [rewrite Em; discriminate|].
      split; [reflexivity|]. split; [|right; eauto]. constructor; auto.
      * intros x Hx. eapply reach_trans; [apply Hpre; assumption|assumption].
      * right. eauto.
    + inversion Hie; subst s' stack' r.
      exists ix, idx, vis, [], None, []. rewrite app_nil_r.
      split; [reflexivity|]. split; [reflexivity|].
      split.
      { apply dfs_seen.
        - rewrite <- (G_badf _ _ _ _ _ _ _ HG m). unfold badf. rewrite Em. reflexivity.
        - apply (G_vis _ _ _ _ _ _ _ HG m); rewrite Em; reflexivity. }
      split; [apply same_aux_refl|]. split; [auto|]. split; [auto|]. split; [auto|]. split; [intros e []|].
      split; [apply keeps_refl|]. split; [rewrite Em; discriminate|].
      split; [reflexivity|]. split; [assumption|]. left. split; [reflexivity|]. left. rewrite Em. reflexivity.
Qed.
