(* Extraction of the executable model for the correspondence driver (ocaml/C17). *)
From Coq Require Import List Arith.
From Coq Require Import ExtrOcamlBasic.
From C17 Require Import Modules.
(* coqc runs with /verif/coq as working directory (Makefile and vlib alike); ocaml/gen is created by vlib.coq_make
   and is git-ignored; ocaml/C17/build.sh copies the result into ocaml/C17/_build *)
Extraction "../ocaml/gen/c17_model.ml" run_ops run_op load link evaluate run_jobs promise_state default_fuel gs0 mkMod getm mkCfg cfg0.
