(* C17 lemmas, part 6: LoadRequestedModules — the loader is asked for a resolvable edge at most once, and only for
   edges of the graph.  (Any graph, with or without top-level await; independent of Modules.cfg.) *)
From Coq Require Import List Arith Bool Lia.
From C17 Require Import Modules Spec_C17 PBase_C17.
Import ListNotations.

Definition regpair (g : graph) (p : nat * nat) : bool := registered g (snd p).

(* what the loader call log looks like between two load operations *)
Record LInv (g : graph) (s : gstate) : Prop := mkLInv {
  L_nodup : NoDup (filter (regpair g) (gs_loads s));
  L_edge : forall a b, In (a, b) (gs_loads s) -> In b (requests g a);
  L_loaded : forall a b, In (a, b) (gs_loads s) -> registered g b = true -> In b (ms_loaded (getm s a))
}.

Definition slab_jobs (sl : list (option (nat * nat))) : list (nat * nat) :=
  flat_map (fun o => match o with Some j => [j] | None => [] end) sl.
Definition jobs (l : lstate) : list (nat * nat) := ls_queue l ++ slab_jobs (ls_slab l).

Record LJ (g : graph) (s : gstate) (l : lstate) : Prop := mkLJ {
  LJ_inv : LInv g s;
  LJ_nodup : NoDup (jobs l);
  LJ_job : forall a b, In (a, b) (jobs l) ->
             In b (requests g a) /\ ~ In b (ms_loaded (getm s a)) /\ In a (ls_visited l)
}.

(* ------------------------------------------------------------------------------------------ *)
(* request lists have no duplicates *)

Lemma dedup_acc_spec : forall l seen,
  NoDup (dedup_acc seen l) /\ forall x, In x (dedup_acc seen l) -> ~ In x seen.
Proof.
  induction l as [|a l IH]; intros seen; simpl.
  - split; [constructor|intros x []].
  - destruct (mem a seen) eqn:E.
    + apply IH.
    + destruct (IH (a :: seen)) as [H1 H2]. split.
      * constructor; [|assumption]. intro Hin. apply (H2 a Hin). simpl; auto.
      * intros x [<-|Hx].
        -- intro Hin. apply mem_In in Hin. congruence.
        -- intro Hin. apply (H2 x Hx). simpl; auto.
Qed.

Lemma requests_nodup : forall g m, NoDup (requests g m).
Proof. intros. unfold requests, dedup. apply dedup_acc_spec. Qed.

(* ------------------------------------------------------------------------------------------ *)
(* the slab of the FutureGroup *)

Lemma slab_jobs_app : forall a b, slab_jobs (a ++ b) = slab_jobs a ++ slab_jobs b.
Proof. intros. unfold slab_jobs. apply flat_map_app. Qed.

Lemma slab_set_some : forall sl i j x, In x (slab_jobs (slab_set sl i (Some j))) -> x = j \/ In x (slab_jobs sl).
Proof.
  induction sl as [|o sl IH]; intros i j x Hx; simpl in *; [destruct i; destruct Hx|].
  destruct i as [|i]; simpl in Hx.
  - destruct Hx as [<-|Hx]; [auto|]. right. apply in_or_app; auto.
  - apply in_app_or in Hx. destruct Hx as [Hx|Hx]; [right; apply in_or_app; auto|].
    destruct (IH _ _ _ Hx); [auto|right; apply in_or_app; auto].
Qed.

Lemma slab_set_some_nodup : forall sl i j, NoDup (slab_jobs sl) -> ~ In j (slab_jobs sl) ->
  NoDup (slab_jobs (slab_set sl i (Some j))).
Proof.
  induction sl as [|o sl IH]; intros i j Hnd Hj; simpl in *; [destruct i; constructor|].
  destruct i as [|i]; simpl.
  - constructor.
    + intro Hin. apply Hj. apply in_or_app; auto.
    + eapply NoDup_app_r; eauto.
  - assert (Hsl : NoDup (slab_jobs sl)) by (eapply NoDup_app_r; eauto).
    assert (Hjsl : ~ In j (slab_jobs sl)) by (intro; apply Hj; apply in_or_app; auto).
    specialize (IH i j Hsl Hjsl).
    destruct o as [k|]; simpl in *; [|assumption].
    inversion Hnd; subst. constructor; [|assumption].
    intro Hin. apply slab_set_some in Hin. destruct Hin as [->|Hin]; [apply Hj; simpl; auto|contradiction].
Qed.

Lemma NoDup_app_replace : forall (A : Type) (q B B' : list A) (j : A),
  NoDup (q ++ B) -> NoDup B' -> (forall x, In x B' -> x = j \/ In x B) -> ~ In j (q ++ B) -> NoDup (q ++ B').
Proof.
  intros A q B B' j. induction q as [|a q IH]; intros Hnd HB' Hsub Hj; simpl in *; [assumption|].
  inversion Hnd; subst. constructor.
  - intro Hin. apply in_app_or in Hin. destruct Hin as [Hin|Hin]; [apply H1; apply in_or_app; auto|].
    destruct (Hsub _ Hin) as [->|Hb]; [apply Hj; auto|apply H1; apply in_or_app; auto].
  - apply IH; auto.
Qed.

Lemma slab_insert_all_spec : forall q sl fr sl' fr',
  slab_insert_all q sl fr = (sl', fr') -> NoDup (q ++ slab_jobs sl) ->
  NoDup (slab_jobs sl') /\ forall x, In x (slab_jobs sl') -> In x q \/ In x (slab_jobs sl).
Proof.
  induction q as [|j q IH]; intros sl fr sl' fr' H Hnd; simpl in H.
  - inversion H; subst. simpl in Hnd. split; [assumption|auto].
  - simpl in Hnd. inversion Hnd as [|? ? Hj Hnd']; subst.
    assert (Hjsl : ~ In j (slab_jobs sl)) by (intro; apply Hj; apply in_or_app; auto).
    assert (Hsl : NoDup (slab_jobs sl)) by (eapply NoDup_app_r; eauto).
    destruct fr as [|i fr].
    + destruct (IH _ _ _ _ H) as [H1 H2].
      * rewrite slab_jobs_app. simpl. rewrite app_assoc. apply NoDup_snoc.
        -- assumption.
        -- assumption.
      * split; [assumption|]. intros x Hx. destruct (H2 x Hx) as [Hq|Hs]; [simpl; auto|].
        rewrite slab_jobs_app in Hs. apply in_app_or in Hs. simpl in Hs. simpl. intuition.
    + destruct (IH _ _ _ _ H) as [H1 H2].
      * (* NoDup (q ++ slab_jobs (slab_set sl i (Some j))) *)
        eapply (NoDup_app_replace _ q (slab_jobs sl) _ j); eauto.
        -- apply slab_set_some_nodup; assumption.
        -- intros x Hx. eapply slab_set_some; eauto.
      * split; [assumption|]. intros x Hx. destruct (H2 x Hx) as [Hq|Hs]; [simpl; auto|].
        apply slab_set_some in Hs. simpl. intuition.
Qed.

Lemma slab_first_spec : forall sl k i j, slab_first sl k = Some (i, j) -> NoDup (slab_jobs sl) ->
  k <= i /\ In j (slab_jobs sl) /\ NoDup (slab_jobs (slab_set sl (i - k) None)) /\
  forall x, In x (slab_jobs (slab_set sl (i - k) None)) <-> (In x (slab_jobs sl) /\ x <> j).
Proof.
  induction sl as [|o sl IH]; intros k i j H Hnd; simpl in H; [discriminate|].
  destruct o as [j0|].
  - inversion H; subst. rewrite Nat.sub_diag. simpl. simpl in Hnd. inversion Hnd; subst.
    split; [lia|]. split; [auto|]. split; [assumption|].
    intros x. split.
    + intros Hx. split; [auto|]. intro; subst. contradiction.
    + intros [[<-|Hx] Hne]; [congruence|assumption].
  - simpl in Hnd. destruct (IH _ _ _ H Hnd) as (H1 & H2 & H3 & H4).
    split; [lia|]. split; [assumption|].
    replace (i - k) with (S (i - S k)) by lia. simpl. split; [assumption|]. exact H4.
Qed.

(* ------------------------------------------------------------------------------------------ *)
(* InnerModuleLoading: does not touch the engine state; enqueues each (referrer, request) at most once *)

Definition load_reqs (rec : gstate -> lstate -> nat -> gstate * lstate * option panic) (m : nat) :=
  fix loop (rs : list nat) (s : gstate) (l : lstate) : gstate * lstate * option panic :=
    match rs with
    | [] => (s, l, None)
    | r :: rest =>
        let '(s, l, p) :=
          if mem r (ms_loaded (getm s m)) then rec s l r
          else (s, ls_enqueue l (m, r), None) in
        match p with
        | Some pn => (s, l, Some pn)
        | None => if negb (ls_loading l) then (s, l, None) else loop rest s l
        end
    end.

Lemma inner_load_S : forall f g s l m, inner_load (S f) g s l m =
      if negb (ls_loading l) then (s, l, Some (POther 90))
      else
        let visit :=
          match status_of s m with
          | Unlinked => negb (mem m (ls_visited l))
          | _ => false
          end in
        let r :=
          if visit then
            let l := ls_visit l m in
            let reqs := requests g m in
            let l := ls_set_pending l (ls_pending l + length reqs) in
            load_reqs (inner_load f g) m reqs s l
          else (s, l, None) in
        match r with
        | (s, l, Some p) => (s, l, Some p)
        | (s, l, None) =>
            if negb (ls_loading l) then (s, l, None)
            else match ls_pending l with
                 | 0 => (s, l, Some (POther 91))
                 | S n =>
                     let l := ls_set_pending l n in
                     match n with
                     | 0 => (s, ls_settle (ls_set_loading l false) None, None)
                     | _ => (s, l, None)
                     end
                 end
        end.
Proof. reflexivity. Qed.

(* what InnerModuleLoading may change in the loading state; P: the referrers new jobs may have *)
Record lstep (P : nat -> Prop) (l l' : lstate) : Prop := mkLstep {
  LS_vis : incl (ls_visited l) (ls_visited l');
  LS_slab : ls_slab l' = ls_slab l;
  LS_free : ls_free l' = ls_free l;
  LS_queue : exists new, ls_queue l' = ls_queue l ++ new /\ forall a b, In (a, b) new -> P a
}.

Lemma lstep_refl : forall P l, lstep P l l.
Proof. intros. constructor; auto using incl_refl. exists []. rewrite app_nil_r. split; [reflexivity|intros a b []]. Qed.

Lemma lstep_trans : forall (P Q R : nat -> Prop) a b c, lstep P a b -> lstep Q b c ->
  (forall x, P x -> R x) -> (forall x, Q x -> R x) -> lstep R a c.
Proof.
  intros P Q R a b c [V1 S1 F1 (n1 & Q1 & N1)] [V2 S2 F2 (n2 & Q2 & N2)] HP HQ. constructor.
  - eapply incl_tran; eauto.
  - congruence.
  - congruence.
  - exists (n1 ++ n2). rewrite Q2, Q1, app_assoc. split; [reflexivity|].
    intros x y Hin. apply in_app_or in Hin. destruct Hin as [Hin|Hin]; eauto.
Qed.

Lemma lstep_weaken : forall (P R : nat -> Prop) l l', lstep P l l' -> (forall x, P x -> R x) -> lstep R l l'.
Proof.
  intros P R l l' [V S F (n & Q & N)] H. constructor; auto. exists n. split; [assumption|]. intros; eauto.
Qed.

Lemma lstep_same : forall P l l', ls_visited l' = ls_visited l -> ls_slab l' = ls_slab l -> ls_free l' = ls_free l ->
  ls_queue l' = ls_queue l -> lstep P l l'.
Proof.
  intros P l l' H1 H2 H3 H4. constructor; auto.
  - rewrite H1. apply incl_refl.
  - exists []. rewrite app_nil_r. split; [assumption|intros a b []].
Qed.

Lemma LJ_same : forall g s l l', ls_visited l' = ls_visited l -> ls_slab l' = ls_slab l -> ls_queue l' = ls_queue l ->
  LJ g s l -> LJ g s l'.
Proof.
  intros g s l l' H1 H2 H3 [A B C]. constructor; auto.
  - unfold jobs. rewrite H2, H3. assumption.
  - unfold jobs. rewrite H2, H3, H1. assumption.
Qed.

Definition il_spec (f : nat) (g : graph) : Prop :=
  forall s l m s' l' p, LJ g s l -> inner_load f g s l m = (s', l', p) ->
    s' = s /\ LJ g s l' /\ lstep (fun a => ~ In a (ls_visited l)) l l'.

Lemma load_reqs_spec : forall f g, il_spec f g ->
  forall m rs done s l s' l' p,
    LJ g s l -> In m (ls_visited l) -> NoDup (done ++ rs) -> (forall r, In r rs -> In r (requests g m)) ->
    (forall b, In (m, b) (jobs l) -> In b done) ->
    load_reqs (inner_load f g) m rs s l = (s', l', p) ->
    s' = s /\ LJ g s l' /\ lstep (fun a => a = m \/ ~ In a (ls_visited l)) l l'.
Proof.
  intros f g IH m rs. induction rs as [|r rest IHr]; intros done s l s' l' p HJ Hm Hnd Hreq Hdone H.
  - simpl in H. inversion H; subst. split; [reflexivity|]. split; [assumption|apply lstep_refl].
  - simpl in H.
    assert (Hnd' : NoDup ((done ++ [r]) ++ rest)) by (rewrite <- app_assoc; exact Hnd).
    assert (Hreq' : forall x, In x rest -> In x (requests g m)) by (intros; apply Hreq; simpl; auto).
    destruct (mem r (ms_loaded (getm s m))) eqn:Emem.
    + destruct (inner_load f g s l r) as [[s1 l1] p1] eqn:E1.
      destruct (IH _ _ _ _ _ _ HJ E1) as (-> & HJ1 & Hst1).
      assert (Hst1' : lstep (fun a => a = m \/ ~ In a (ls_visited l)) l l1).
      { eapply lstep_weaken; [exact Hst1|auto]. }
      destruct p1 as [pn|].
      * inversion H; subst. auto.
      * destruct (negb (ls_loading l1)); [inversion H; subst; auto|].
        destruct (IHr (done ++ [r]) s l1 s' l' p HJ1) as (-> & HJ' & Hst'); auto.
        -- apply (LS_vis _ _ _ Hst1). assumption.
        -- intros b Hb. unfold jobs in Hb. rewrite (LS_slab _ _ _ Hst1) in Hb.
           destruct (LS_queue _ _ _ Hst1) as (new & Hq & Hnew). rewrite Hq in Hb.
           rewrite in_snoc. left. apply Hdone. unfold jobs.
           apply in_app_or in Hb. destruct Hb as [Hb|Hb]; [|apply in_or_app; auto].
           apply in_app_or in Hb. destruct Hb as [Hb|Hb]; [apply in_or_app; auto|].
           exfalso. apply (Hnew _ _ Hb). assumption.
        -- split; [reflexivity|]. split; [assumption|].
           eapply lstep_trans; [exact Hst1'|exact Hst'|auto|].
           intros x [->|Hx]; [auto|]. right. intro Hv. apply Hx. apply (LS_vis _ _ _ Hst1). assumption.
    + (* a new job (m, r) *)
      assert (Hnj : ~ In (m, r) (jobs l)).
      { intro Hin. apply Hdone in Hin. eapply NoDup_app_disjoint; [exact Hnd|exact Hin|simpl; auto]. }
      set (l1 := ls_enqueue l (m, r)) in *.
      assert (HJ1 : LJ g s l1).
      { destruct HJ as [A B C]. constructor; [assumption| |].
        - unfold jobs, l1. simpl. rewrite <- app_assoc. simpl.
          apply NoDup_app_replace with (B := slab_jobs (ls_slab l)) (j := (m, r)); auto.
          + apply NoDup_cons; [intro Hin; apply Hnj; unfold jobs; apply in_or_app; auto|eapply NoDup_app_r; eauto].
          + intros x [<-|Hx]; auto.
        - intros a b Hin. unfold jobs, l1 in Hin. simpl in Hin. rewrite <- app_assoc in Hin.
          apply in_app_or in Hin. destruct Hin as [Hin|[Hin|Hin]].
          + apply C. unfold jobs. apply in_or_app; auto.
          + inversion Hin; subst. split; [apply Hreq; simpl; auto|]. split; [|assumption].
            intro Hl. apply mem_In in Hl. congruence.
          + apply C. unfold jobs. apply in_or_app; auto. }
      assert (Hst1 : lstep (fun a => a = m \/ ~ In a (ls_visited l)) l l1).
      { constructor; unfold l1; simpl; auto using incl_refl.
        exists [(m, r)]. split; [reflexivity|]. intros a b [Hab|[]]. inversion Hab; subst. auto. }
      destruct (negb (ls_loading l1)); [inversion H; subst; auto|].
      destruct (IHr (done ++ [r]) s l1 s' l' p HJ1) as (-> & HJ' & Hst'); auto.
      * intros b Hb. unfold jobs, l1 in Hb. simpl in Hb. rewrite <- app_assoc in Hb. rewrite in_snoc.
        apply in_app_or in Hb. destruct Hb as [Hb|[Hb|Hb]].
        -- left. apply Hdone. unfold jobs. apply in_or_app; auto.
        -- inversion Hb; auto.
        -- left. apply Hdone. unfold jobs. apply in_or_app; auto.
      * split; [reflexivity|]. split; [assumption|]. eapply lstep_trans; [exact Hst1|exact Hst'|auto|auto].
Qed.

Lemma il_spec_all : forall g f, il_spec f g.
Proof.
  intros g f. induction f as [|f IH]; intros s l m s' l' p HJ H.
  - simpl in H. inversion H; subst. split; [reflexivity|]. split; [assumption|apply lstep_refl].
  - rewrite inner_load_S in H.
    destruct (negb (ls_loading l)); [inversion H; subst; split; [reflexivity|]; split; [assumption|apply lstep_refl]|].
    cbv zeta in H.
    set (visit := match status_of s m with Unlinked => negb (mem m (ls_visited l)) | _ => false end) in *.
    (* the tail of the function only touches counters and flags *)
    assert (Htail : forall s1 l1 p1,
              s1 = s -> LJ g s l1 -> lstep (fun a => ~ In a (ls_visited l)) l l1 ->
              match (s1, l1, p1) with
              | (s, l, Some p) => (s, l, Some p)
              | (s, l, None) =>
                  if negb (ls_loading l) then (s, l, None)
                  else match ls_pending l with
                       | 0 => (s, l, Some (POther 91))
                       | S n =>
                           let l := ls_set_pending l n in
                           match n with
                           | 0 => (s, ls_settle (ls_set_loading l false) None, None)
                           | _ => (s, l, None)
                           end
                       end
              end = (s', l', p) ->
              s' = s /\ LJ g s l' /\ lstep (fun a => ~ In a (ls_visited l)) l l').
    { intros s1 l1 p1 -> HJ1 Hst1 Ht. destruct p1 as [pn|]; [inversion Ht; subst; auto|].
      destruct (negb (ls_loading l1)); [inversion Ht; subst; auto|].
      destruct (ls_pending l1) as [|n] eqn:Ep; [inversion Ht; subst; auto|].
      cbv zeta in Ht. destruct n as [|n]; inversion Ht; subst; (split; [reflexivity|]); split.
      - eapply LJ_same; [| | |exact HJ1]; reflexivity.
      - eapply lstep_trans; [exact Hst1|apply (lstep_same (fun _ => False)); reflexivity|auto|intros x []].
      - eapply LJ_same; [| | |exact HJ1]; reflexivity.
      - eapply lstep_trans; [exact Hst1|apply (lstep_same (fun _ => False)); reflexivity|auto|intros x []]. }
    destruct visit eqn:Evis.
    + assert (Hnv : ~ In m (ls_visited l)).
      { unfold visit in Evis. destruct (status_of s m); try discriminate.
        intro Hin. apply mem_In in Hin. rewrite Hin in Evis. discriminate. }
      set (l0 := ls_set_pending (ls_visit l m) (ls_pending (ls_visit l m) + length (requests g m))) in *.
      destruct (load_reqs (inner_load f g) m (requests g m) s l0) as [[s1 l1] p1] eqn:Eloop.
      assert (HJ0 : LJ g s l0).
      { destruct HJ as [A B C]. constructor; [assumption|exact B|].
        intros a b Hin. destruct (C a b Hin) as (H1 & H2 & H3). split; [assumption|]. split; [assumption|].
        unfold l0. simpl. auto. }
      destruct (load_reqs_spec f g IH m (requests g m) [] s l0 s1 l1 p1 HJ0) as (-> & HJ1 & Hst1); auto.
      * unfold l0. simpl. auto.
      * apply requests_nodup.
      * intros b Hb. exfalso. destruct HJ as [_ _ C]. destruct (C m b Hb) as (_ & _ & Hv). contradiction.
      * apply (Htail s l1 p1); auto.
        assert (Hst0 : lstep (fun _ : nat => False) l l0).
        { constructor; unfold l0; simpl; auto.
          - intros x Hx. simpl. auto.
          - exists []. rewrite app_nil_r. split; [reflexivity|intros a b []]. }
        eapply lstep_trans; [exact Hst0|exact Hst1|intros x []|].
        intros x [->|Hx]; [assumption|]. intro Hv. apply Hx. unfold l0. simpl. auto.
    + apply (Htail s l None); auto. apply lstep_refl.
Qed.

(* ------------------------------------------------------------------------------------------ *)
(* one finished loader call *)

Lemma getm_add_load : forall s a b x, getm (add_load s a b) x = getm s x.
Proof. reflexivity. Qed.

Lemma getm_add_loaded : forall s m r x, ~ In r (ms_loaded (getm s m)) ->
  ms_loaded (getm (add_loaded s m r) x) = if m =? x then ms_loaded (getm s m) ++ [r] else ms_loaded (getm s x).
Proof.
  intros s m r x Hn. unfold add_loaded.
  destruct (mem r (ms_loaded (getm s m))) eqn:E; [apply mem_In in E; contradiction|].
  rewrite getm_setm. destruct (m =? x); reflexivity.
Qed.

Lemma loads_add_loaded : forall s m r, gs_loads (add_loaded s m r) = gs_loads s.
Proof. intros. unfold add_loaded. destruct (mem r (ms_loaded (getm s m))); reflexivity. Qed.

Lemma filter_snoc : forall (A : Type) (f : A -> bool) l a, filter f (l ++ [a]) = filter f l ++ (if f a then [a] else []).
Proof. intros. rewrite filter_app. simpl. destruct (f a); reflexivity. Qed.

Lemma load_job_spec : forall fuel g s l m r s' l' p,
  LInv g s -> NoDup ((m, r) :: jobs l) ->
  (forall a b, In (a, b) ((m, r) :: jobs l) ->
     In b (requests g a) /\ ~ In b (ms_loaded (getm s a)) /\ In a (ls_visited l)) ->
  load_job fuel g s l (m, r) = (s', l', p) -> LJ g s' l'.
Proof.
  intros fuel g s l m r s' l' p [L1 L2 L3] Hnd Hjobs H. unfold load_job in H.
  destruct (Hjobs m r) as (Hedge & Hnl & Hvis); [simpl; auto|].
  inversion Hnd as [|? ? Hnj Hnd']; subst.
  set (s1 := add_load s m r) in *.
  assert (Hnd1 : NoDup (filter (regpair g) (gs_loads s1))).
  { unfold s1. simpl. rewrite filter_snoc. unfold regpair at 2. simpl.
    destruct (registered g r) eqn:Er; [|rewrite app_nil_r; assumption].
    apply NoDup_snoc; [assumption|]. intro Hin. apply filter_In in Hin. destruct Hin as [Hin _].
    apply Hnl. apply L3; assumption. }
  assert (Hedge1 : forall a b, In (a, b) (gs_loads s1) -> In b (requests g a)).
  { intros a b Hin. unfold s1 in Hin. simpl in Hin. rewrite in_snoc in Hin.
    destruct Hin as [Hin|Hin]; [auto|inversion Hin; subst; assumption]. }
  destruct (registered g r) eqn:Er.
  - set (s2 := add_loaded s1 m r) in *.
    assert (Hnl1 : ~ In r (ms_loaded (getm s1 m))) by (unfold s1; rewrite getm_add_load; assumption).
    assert (HL2 : LInv g s2).
    { constructor.
      - unfold s2. rewrite loads_add_loaded. assumption.
      - unfold s2. rewrite loads_add_loaded. assumption.
      - intros a b Hin Hreg. unfold s2 in *. rewrite loads_add_loaded in Hin.
        rewrite getm_add_loaded by assumption. unfold s1 in Hin. simpl in Hin. rewrite in_snoc in Hin.
        destruct Hin as [Hin|Hin].
        + specialize (L3 a b Hin Hreg). destruct (m =? a) eqn:E.
          * apply Nat.eqb_eq in E. subst. apply in_or_app. left. unfold s1. rewrite getm_add_load. assumption.
          * unfold s1. rewrite getm_add_load. assumption.
        + inversion Hin; subst. rewrite Nat.eqb_refl. rewrite in_snoc. auto. }
    assert (HJ2 : LJ g s2 l).
    { constructor; [assumption|assumption|].
      intros a b Hin. destruct (Hjobs a b) as (H1 & H2 & H3); [simpl; auto|].
      split; [assumption|]. split; [|assumption].
      unfold s2. rewrite getm_add_loaded by assumption. destruct (m =? a) eqn:E.
      - apply Nat.eqb_eq in E. subst. rewrite in_snoc. unfold s1. rewrite getm_add_load.
        intros [Hc|Hc]; [contradiction|]. subst. contradiction.
      - unfold s1. rewrite getm_add_load. assumption. }
    destruct (negb (ls_loading l)); [inversion H; subst; assumption|].
    destruct (il_spec_all g fuel s2 l r s' l' p HJ2 H) as (-> & HJ' & _). assumption.
  - assert (HL1 : LInv g s1).
    { constructor; [assumption|assumption|].
      intros a b Hin Hreg. unfold s1 in *. rewrite getm_add_load. simpl in Hin. rewrite in_snoc in Hin.
      destruct Hin as [Hin|Hin]; [auto|]. inversion Hin; subst. congruence. }
    assert (HJ1 : LJ g s1 l).
    { constructor; [assumption|assumption|].
      intros a b Hin. destruct (Hjobs a b) as (H1 & H2 & H3); [simpl; auto|].
      unfold s1. rewrite getm_add_load. auto. }
    destruct (negb (ls_loading l)); inversion H; subst; [assumption|].
    eapply LJ_same; [| | |exact HJ1]; reflexivity.
Qed.

Lemma load_loop_spec : forall g fuel s l s' l' res, LJ g s l -> load_loop fuel g s l = (s', l', res) -> LInv g s'.
Proof.
  intros g fuel. induction fuel as [|f IH]; intros s l s' l' res HJ H; simpl in H.
  - inversion H; subst. apply (LJ_inv _ _ _ HJ).
  - destruct (slab_insert_all (ls_queue l) (ls_slab l) (ls_free l)) as [sl fr] eqn:Eins.
    destruct (slab_insert_all_spec _ _ _ _ _ Eins (LJ_nodup _ _ _ HJ)) as [Hnd Hsub].
    destruct (slab_first sl 0) as [[i j]|] eqn:Efirst; [|inversion H; subst; apply (LJ_inv _ _ _ HJ)].
    destruct (slab_first_spec _ _ _ _ Efirst Hnd) as (_ & Hj & Hnd2 & Hin2). rewrite Nat.sub_0_r in *.
    set (l2 := mkLs (ls_loading l) (ls_pending l) (ls_visited l) [] (slab_set sl i None) (i :: fr) (ls_result l)) in *.
    assert (Hjobs2 : jobs l2 = slab_jobs (slab_set sl i None)) by reflexivity.
    destruct j as [m r].
    destruct (load_job (S f) g s l2 (m, r)) as [[s3 l3] p3] eqn:Ejob.
    assert (HJ3 : LJ g s3 l3).
    { eapply (load_job_spec (S f) g s l2 m r); [apply (LJ_inv _ _ _ HJ)| | |exact Ejob].
      - constructor; [|rewrite Hjobs2; assumption]. rewrite Hjobs2. intro Hin. apply Hin2 in Hin. destruct Hin; congruence.
      - intros a b Hin.
        assert (Hold : In (a, b) (jobs l)).
        { destruct Hin as [Hin|Hin].
          - inversion Hin; subst. unfold jobs. destruct (Hsub _ Hj); apply in_or_app; auto.
          - rewrite Hjobs2 in Hin. apply Hin2 in Hin. destruct Hin as [Hin _]. unfold jobs.
            destruct (Hsub _ Hin); apply in_or_app; auto. }
        apply (LJ_job _ _ _ HJ). assumption. }
    destruct p3 as [pn|]; [|eapply IH; eauto].
    assert (s' = s3) as ->; [|apply (LJ_inv _ _ _ HJ3)].
    destruct pn as [| | | |n]; try (inversion H; reflexivity).
    do 97 (destruct n as [|n]; [inversion H; reflexivity|]). inversion H; reflexivity.
Qed.

Lemma LInv_gs0 : forall g, LInv g gs0.
Proof. intros g. constructor; simpl; [constructor|intros a b []|intros a b []]. Qed.

Lemma load_spec : forall g fuel s m s' r, LInv g s -> load fuel g s m = (s', r) -> LInv g s'.
Proof.
  intros g fuel s m s' r HL H. unfold load in H.
  assert (HJ0 : LJ g s ls0).
  { constructor; [assumption|constructor|intros a b []]. }
  destruct (inner_load fuel g s ls0 m) as [[s1 l1] p1] eqn:E1.
  destruct (il_spec_all g fuel s ls0 m s1 l1 p1 HJ0 E1) as (-> & HJ1 & _).
  destruct p1 as [pn|].
  - assert (s' = s) as ->; [|assumption].
    destruct pn as [| | | |n]; try (inversion H; reflexivity).
    do 97 (destruct n as [|n]; [inversion H; reflexivity|]). inversion H; reflexivity.
  - destruct (load_loop fuel g s l1) as [[s2 l2] r2] eqn:E2.
    pose proof (load_loop_spec g fuel s l1 s2 l2 r2 HJ1 E2) as HL2.
    destruct r2; inversion H; subst; assumption.
Qed.
