(* C17 lemmas, part 7: Link() on a graph without link errors (InitializeEnvironment never throws) turns a state
   between two operations into one in which the entry and everything it reaches is linked — i.e. it establishes the
   hypothesis `Ready` of the evaluation theorems.  The Rust's extra PreLinked state (DEVIATION 4 in Modules.v) is
   harmless here: a component may be popped to `linked` early, but at the end everything visited is linked. *)
From Coq Require Import List Arith Bool Lia.
From C17 Require Import Modules Spec_C17 PBase_C17.
Import ListNotations.

Definition nonun (st : status) : bool := match st with Unlinked => false | _ => true end.
Definition linkst (st : status) : bool :=
  match st with Unlinked | Linking _ | PreLinked _ | Linked _ => true | _ => false end.
Definition prelinked_or_linked (st : status) : Prop :=
  match st with PreLinked _ | Linked _ => True | _ => False end.

(* no module is in the middle of linking or evaluating *)
Definition settled (s : gstate) : Prop :=
  forall x, match status_of s x with Unlinked | Linked _ | Evaluated _ _ _ => True | _ => False end.
Definition nolinkerr (g : graph) : Prop := forall m, mi_linkerr (info g m) = false.
Definition wf (g : graph) : Prop := forall x r, x < length g -> In r (requests g x) -> r < length g.

Record LK (g : graph) (s0 s : gstate) (stack : list nat) : Prop := mkLK {
  K_stack : forall x, In x stack -> (exists a, status_of s x = Linking a) \/ (exists a, status_of s x = PreLinked a);
  K_on : forall x a, status_of s x = Linking a \/ status_of s x = PreLinked a -> In x stack;
  K_nodup : NoDup stack;
  K_old : forall x, nonun (status_of s0 x) = true -> status_of s x = status_of s0 x;
  K_new : forall x, status_of s0 x = Unlinked -> linkst (status_of s x) = true;
  K_bound : forall x, nonun (status_of s x) = true -> x < length g;
  K_closed : forall x r, prelinked_or_linked (status_of s x) -> edge g x r -> nonun (status_of s r) = true;
  K_log : gs_log s = gs_log s0 /\ same_aux s0 s;
  K_set0 : settled s0
}.

Lemma LK_stack_length : forall g s0 s stack, LK g s0 s stack -> length stack <= length g.
Proof.
  intros g s0 s stack H. apply NoDup_bound_length; [apply (K_nodup _ _ _ _ H)|].
  intros x Hx. apply (K_bound _ _ _ _ H). destruct (K_stack _ _ _ _ H x Hx) as [[a ->]|[a ->]]; reflexivity.
Qed.

(* changing the status of one module that was unlinked when the operation started, within the linking statuses *)
Lemma LK_set : forall g s0 s stack stack' x st',
  LK g s0 s stack -> status_of s0 x = Unlinked ->
  linkst st' = true -> nonun st' = true -> x < length g ->
  (forall y, In y stack' <-> (In y stack /\ y <> x) \/ (y = x /\ ((exists a, st' = Linking a) \/ (exists a, st' = PreLinked a)))) ->
  NoDup stack' ->
  (prelinked_or_linked st' -> forall r, edge g x r -> r <> x -> nonun (status_of s r) = true) ->
  LK g s0 (set_status s x st') stack'.
Proof.
  intros g s0 s stack stack' x st' H H0 Hl Hn Hx Hst Hnd Hcl.
  constructor.
  - intros y Hy. apply Hst in Hy. destruct Hy as [[Hy Hne]|[-> Hy]].
    + rewrite status_set_status_neq by auto. apply (K_stack _ _ _ _ H). assumption.
    + rewrite status_set_status_eq. destruct Hy as [[a ->]|[a ->]]; eauto.
  - intros y a. destruct (Nat.eq_dec x y) as [<-|Hne].
    + rewrite status_set_status_eq. intros Hy. apply Hst. right. split; [reflexivity|]. destruct Hy; eauto.
    + rewrite status_set_status_neq by assumption. intros Hy. apply Hst. left. split; [|auto].
      eapply (K_on _ _ _ _ H); eauto.
  - assumption.
  - intros y Hy. destruct (Nat.eq_dec x y) as [<-|Hne]; [rewrite H0 in Hy; discriminate|].
    rewrite status_set_status_neq by assumption. apply (K_old _ _ _ _ H). assumption.
  - intros y Hy. destruct (Nat.eq_dec x y) as [<-|Hne]; [rewrite status_set_status_eq; assumption|].
    rewrite status_set_status_neq by assumption. apply (K_new _ _ _ _ H). assumption.
  - intros y. destruct (Nat.eq_dec x y) as [<-|Hne]; [auto|].
    rewrite status_set_status_neq by assumption. apply (K_bound _ _ _ _ H).
  - intros y r Hy Hyr.
    assert (Hrx : r = x -> nonun (status_of (set_status s x st') r) = true).
    { intros ->. rewrite status_set_status_eq. assumption. }
    destruct (Nat.eq_dec r x) as [->|Hr]; [auto|].
    rewrite status_set_status_neq by auto.
    destruct (Nat.eq_dec x y) as [<-|Hne].
    + rewrite status_set_status_eq in Hy. apply Hcl; auto.
    + rewrite status_set_status_neq in Hy by assumption. eapply (K_closed _ _ _ _ H); eauto.
  - destruct (K_log _ _ _ _ H) as [Ha Hb]. split; [assumption|].
    eapply same_aux_trans; [exact Hb|apply same_aux_set_status].
  - apply (K_set0 _ _ _ _ H).
Qed.

(* popping: everything above and including m is PreLinked and becomes Linked *)
Lemma pop_link_spec : forall m s seg below,
  ~ In m seg -> NoDup (seg ++ [m]) ->
  (forall x, In x (seg ++ [m]) -> exists a, status_of s x = PreLinked a) ->
  exists s', pop_link m s (seg ++ m :: below) = (s', below, None) /\ same_aux s s' /\ gs_log s' = gs_log s /\
    (forall x, In x (seg ++ [m]) -> exists a, status_of s' x = Linked a) /\
    (forall x, ~ In x (seg ++ [m]) -> status_of s' x = status_of s x).
Proof.
  intros m s seg. revert s. induction seg as [|b seg IH]; intros s below Hnin Hnd Hst.
  - simpl. destruct (Hst m) as (a & E); [simpl; auto|]. rewrite E, Nat.eqb_refl.
    eexists. split; [reflexivity|]. split; [apply same_aux_set_status|]. split; [reflexivity|]. split.
    + intros x [<-|[]]. exists a. apply status_set_status_eq.
    + intros x Hx. apply status_set_status_neq. intro; subst; apply Hx; simpl; auto.
  - simpl. destruct (Hst b) as (a & E); [simpl; auto|]. rewrite E.
    assert (Hbm : b <> m) by (intro; subst; apply Hnin; simpl; auto).
    apply Nat.eqb_neq in Hbm as Hbm'. rewrite Hbm'.
    set (s1 := set_status s b (Linked a)).
    simpl in Hnd. inversion Hnd as [|? ? Hb Hnd']; subst.
    destruct (IH s1 below) as (s' & Hp & Haux & Hlog & Hin & Hout).
    + intro; apply Hnin; simpl; auto.
    + assumption.
    + intros x Hx. destruct (Hst x) as (a' & Ex); [simpl; auto|]. exists a'.
      unfold s1. rewrite status_set_status_neq; [assumption|]. intro; subst; contradiction.
    + exists s'. split; [exact Hp|]. split; [eapply same_aux_trans; [apply same_aux_set_status|exact Haux]|].
      split; [rewrite Hlog; reflexivity|]. split.
      * intros x [<-|Hx]; [|apply Hin; assumption].
        rewrite Hout by assumption. exists a. unfold s1. apply status_set_status_eq.
      * intros x Hx. rewrite Hout by (intro; apply Hx; simpl; auto).
        unfold s1. apply status_set_status_neq. intro; subst; apply Hx; simpl; auto.
Qed.

Lemma LK_pop : forall g s0 s s' seg m below,
  LK g s0 s (seg ++ m :: below) ->
  (forall x, In x (seg ++ [m]) -> exists a, status_of s x = PreLinked a) ->
  same_aux s s' -> gs_log s' = gs_log s ->
  (forall x, In x (seg ++ [m]) -> exists a, status_of s' x = Linked a) ->
  (forall x, ~ In x (seg ++ [m]) -> status_of s' x = status_of s x) ->
  LK g s0 s' below.
Proof.
  intros g s0 s s' seg m below H Hpre Haux Hlog Hin Hout.
  pose proof (K_nodup _ _ _ _ H) as Hnd.
  assert (Hbelow : forall x, In x below -> ~ In x (seg ++ [m])).
  { intros x Hx Hp. eapply (NoDup_app_disjoint _ (seg ++ [m]) below x); eauto. rewrite <- app_assoc. exact Hnd. }
  assert (Hnon : forall x, nonun (status_of s' x) = nonun (status_of s x)).
  { intros x. destruct (in_dec Nat.eq_dec x (seg ++ [m])) as [Hp|Hp].
    - destruct (Hin x Hp) as (a & ->). destruct (Hpre x Hp) as (a' & ->). reflexivity.
    - rewrite Hout by assumption. reflexivity. }
  constructor.
  - intros x Hx. rewrite Hout by (apply Hbelow; assumption). apply (K_stack _ _ _ _ H). apply in_or_app. simpl. auto.
  - intros x a Hx. destruct (in_dec Nat.eq_dec x (seg ++ [m])) as [Hp|Hp].
    + destruct (Hin x Hp) as (a' & E). rewrite E in Hx. destruct Hx; discriminate.
    + rewrite Hout in Hx by assumption. pose proof (K_on _ _ _ _ H x a Hx) as Hs.
      apply in_app_or in Hs. destruct Hs as [Hs|[<-|Hs]]; auto; exfalso; apply Hp; rewrite in_snoc; auto.
  - replace (seg ++ m :: below) with ((seg ++ [m]) ++ below) in Hnd by (rewrite <- app_assoc; reflexivity).
    eapply NoDup_app_r; eauto.
  - intros x Hx. destruct (in_dec Nat.eq_dec x (seg ++ [m])) as [Hp|Hp].
    + exfalso. destruct (Hpre x Hp) as (a & E). rewrite (K_old _ _ _ _ H x Hx) in E.
      pose proof (K_set0 _ _ _ _ H x) as Hs0. rewrite E in Hs0. exact Hs0.
    + rewrite Hout by assumption. apply (K_old _ _ _ _ H). assumption.
  - intros x Hx. destruct (in_dec Nat.eq_dec x (seg ++ [m])) as [Hp|Hp].
    + destruct (Hin x Hp) as (a & ->). reflexivity.
    + rewrite Hout by assumption. apply (K_new _ _ _ _ H). assumption.
  - intros x. rewrite Hnon. apply (K_bound _ _ _ _ H).
  - intros x r Hx Hxr. rewrite Hnon.
    destruct (in_dec Nat.eq_dec x (seg ++ [m])) as [Hp|Hp].
    + destruct (Hpre x Hp) as (a & E). eapply (K_closed _ _ _ _ H); eauto. rewrite E. exact I.
    + rewrite Hout in Hx by assumption. eapply (K_closed _ _ _ _ H); eauto.
  - destruct (K_log _ _ _ _ H) as [Ha Hb]. split; [congruence|eapply same_aux_trans; eauto].
  - apply (K_set0 _ _ _ _ H).
Qed.

(* ------------------------------------------------------------------------------------------ *)
(* InnerModuleLinking *)

Lemma inner_link_S : forall f g s stack index m, inner_link (S f) g s stack index m =
      match status_of s m with
      | Linking _ | PreLinked _ | Linked _ | EvaluatingAsync _ _ _ _ | Evaluated _ _ _ => (s, stack, ROk index)
      | Unlinked =>
          let s := set_status s m (Linking index) in
          let module_index := index in
          let stack := m :: stack in
          match link_requests (inner_link f g) m (requests g m) s stack (S index) with
          | (s, stack, ROk index) =>
              match init_environment g s m with
              | (s, ROk _) =>
                  match status_of s m with
                  | PreLinked anc =>
                      if anc =? module_index then
                        match pop_link m s stack with
                        | (s, stack, None) => (s, stack, ROk index)
                        | (s, stack, Some p) => (s, stack, RPanic p)
                        end
                      else (s, stack, ROk index)
                  | _ => (s, stack, RPanic (POther 86))
                  end
              | (s, RErr e) => (s, stack, RErr e)
              | (s, RPanic p) => (s, stack, RPanic p)
              | (s, RFuel) => (s, stack, RFuel)
              end
          | other => other
          end
      | Evaluating _ _ _ _ => (s, stack, RPanic (POther 87))
      end.
Proof. reflexivity. Qed.

Definition lk_post (g : graph) (s0 s : gstate) (stack : list nat) (idx m : nat) (s' : gstate) (stack' : list nat)
           (r : res nat) : Prop :=
  exists idx' new, r = ROk idx' /\ stack' = new ++ stack /\ LK g s0 s' stack' /\
    nonun (status_of s' m) = true /\
    (forall x, In x stack -> status_of s' x = status_of s x) /\
    (forall x, In x new -> exists a, status_of s' x = PreLinked a) /\
    (forall x, nonun (status_of s x) = true -> nonun (status_of s' x) = true) /\
    (new = [] \/ exists a, status_of s' m = PreLinked a /\ a < idx).

Definition lk_spec (f : nat) (g : graph) : Prop :=
  forall s0 s stack idx m s' stack' r,
    LK g s0 s stack -> m < length g -> length g < f + length stack ->
    inner_link f g s stack idx m = (s', stack', r) -> lk_post g s0 s stack idx m s' stack' r.

Section Link.
  Variable g : graph.
  Hypothesis Hnle : nolinkerr g.
  Hypothesis Hwf : wf g.

  Lemma lr_spec : forall f, lk_spec f g ->
    forall reqs s0 s stack idx cur ac seg below s' stack' r,
      LK g s0 s stack -> stack = seg ++ cur :: below ->
      status_of s cur = Linking ac ->
      (forall x, In x seg -> exists a, status_of s x = PreLinked a) ->
      (forall q, In q reqs -> edge g cur q) -> length g < f + length stack ->
      link_requests (inner_link f g) cur reqs s stack idx = (s', stack', r) ->
      exists idx' seg', r = ROk idx' /\ stack' = seg' ++ cur :: below /\ LK g s0 s' stack' /\
        (exists a, status_of s' cur = Linking a /\ a <= ac) /\
        (forall x, In x seg' -> exists a, status_of s' x = PreLinked a) /\
        (forall x, In x below -> status_of s' x = status_of s x) /\
        (forall q, In q reqs -> nonun (status_of s' q) = true) /\
        (forall x, nonun (status_of s x) = true -> nonun (status_of s' x) = true).
  Proof.
    intros f IH reqs. induction reqs as [|q rest IHr];
      intros s0 s stack idx cur ac seg below s' stack' r HK Hstack Ecur Hseg Hreqs Hfuel H.
    - simpl in H. inversion H; subst. exists idx, seg.
      split; [reflexivity|]. split; [reflexivity|]. split; [assumption|]. split; [exists ac; split; [assumption|lia]|].
      split; [assumption|]. split; [auto|]. split; [intros q []|auto].
    - simpl in H.
      assert (Hcur : In cur stack) by (rewrite Hstack; apply in_or_app; simpl; auto).
      assert (Hcurlt : cur < length g) by (apply (K_bound _ _ _ _ HK); rewrite Ecur; reflexivity).
      assert (Hq : q < length g) by (eapply Hwf; [exact Hcurlt|apply Hreqs; simpl; auto]).
      destruct (inner_link f g s stack idx q) as [[s1 st1] r1] eqn:E1.
      destruct (IH s0 s stack idx q s1 st1 r1 HK Hq Hfuel E1)
        as (idx1 & new1 & -> & Hst1 & HK1 & Hqn & Hold1 & Hnew1 & Hmono1 & _).
      assert (Ecur1 : status_of s1 cur = Linking ac) by (rewrite Hold1; assumption).
      assert (Hstack1 : st1 = (new1 ++ seg) ++ cur :: below) by (rewrite Hst1, Hstack, app_assoc; reflexivity).
      assert (Hseg1 : forall x, In x (new1 ++ seg) -> exists a, status_of s1 x = PreLinked a).
      { intros x Hx. apply in_app_or in Hx. destruct Hx as [Hx|Hx]; [auto|].
        rewrite Hold1 by (rewrite Hstack; apply in_or_app; auto). auto. }
      assert (Hfuel1 : length g < f + length st1) by (rewrite Hst1, app_length; lia).
      assert (Hreqs' : forall q', In q' rest -> edge g cur q') by (intros; apply Hreqs; simpl; auto).
      assert (Hbelow1 : forall x, In x below -> status_of s1 x = status_of s x).
      { intros x Hx. apply Hold1. rewrite Hstack. apply in_or_app. simpl. auto. }
      (* continue from a state that differs from s1 at most in cur's ancestor index *)
      assert (Hcont : forall s2 a2, LK g s0 s2 st1 -> (forall x, x <> cur -> status_of s2 x = status_of s1 x) ->
                status_of s2 cur = Linking a2 -> a2 <= ac ->
                link_requests (inner_link f g) cur rest s2 st1 idx1 = (s', stack', r) ->
                exists idx' seg', r = ROk idx' /\ stack' = seg' ++ cur :: below /\ LK g s0 s' stack' /\
                  (exists a, status_of s' cur = Linking a /\ a <= ac) /\
                  (forall x, In x seg' -> exists a, status_of s' x = PreLinked a) /\
                  (forall x, In x below -> status_of s' x = status_of s x) /\
                  (forall q', In q' (q :: rest) -> nonun (status_of s' q') = true) /\
                  (forall x, nonun (status_of s x) = true -> nonun (status_of s' x) = true)).
      { intros s2 a2 HK2 Hne2 Hcur2 Hle2 Hrest.
        assert (Hnd1 : NoDup st1) by (apply (K_nodup _ _ _ _ HK2)).
        assert (Hnc : forall x, In x (new1 ++ seg) \/ In x below -> x <> cur).
        { intros x Hx ->. rewrite Hstack1 in Hnd1. apply NoDup_remove_2 in Hnd1. apply Hnd1.
          apply in_or_app. destruct Hx; auto. }
        assert (Hmono12 : forall x, nonun (status_of s1 x) = true -> nonun (status_of s2 x) = true).
        { intros x Hx. destruct (Nat.eq_dec x cur) as [->|Hxc]; [rewrite Hcur2; reflexivity|].
          rewrite Hne2 by assumption. assumption. }
        destruct (IHr s0 s2 st1 idx1 cur a2 (new1 ++ seg) below s' stack' r HK2 Hstack1 Hcur2) as
            (idx' & seg' & -> & Hs' & HK' & (a' & Hc' & Hle') & Hseg' & Hb' & Hrq' & Hmono'); auto.
        - intros x Hx. rewrite Hne2 by (apply Hnc; auto). auto.
        - exists idx', seg'. split; [reflexivity|]. split; [assumption|]. split; [assumption|].
          split; [exists a'; split; [assumption|lia]|].
          split; [assumption|]. split.
          { intros x Hx. rewrite Hb' by assumption. rewrite Hne2 by (apply Hnc; auto). auto. }
          split; [|auto]. intros q' [<-|Hq']; auto. }
      destruct (status_of s1 q) as [|ranc|ranc|ranc| | |] eqn:Eq; try discriminate Hqn.
      + (* Linking: on the stack *)
        assert (Hqin : In q st1) by (eapply (K_on _ _ _ _ HK1); eauto).
        apply mem_In in Hqin as Hqm. rewrite Hqm in H. simpl in H. rewrite Ecur1 in H.
        apply (Hcont (set_status s1 cur (Linking (Nat.min ac ranc))) (Nat.min ac ranc)); auto.
        * assert (Hc0 : status_of s0 cur = Unlinked).
          { destruct (status_of s0 cur) eqn:E0; auto;
              pose proof (K_old _ _ _ _ HK1 cur) as Ho; rewrite E0 in Ho; specialize (Ho eq_refl);
              pose proof (K_set0 _ _ _ _ HK1 cur) as Hs0; rewrite E0 in Hs0; try contradiction; congruence. }
          apply (LK_set g s0 s1 st1 st1 cur (Linking (Nat.min ac ranc)) HK1 Hc0 eq_refl eq_refl Hcurlt).
          -- intros y. split.
             ++ intros Hy. destruct (Nat.eq_dec y cur) as [->|Hne]; [right; eauto|left; auto].
             ++ intros [[Hy _]|[-> _]]; auto. rewrite Hstack1. apply in_or_app. simpl. auto.
          -- apply (K_nodup _ _ _ _ HK1).
          -- intros [].
        * intros x Hx. apply status_set_status_neq. auto.
        * apply status_set_status_eq.
        * lia.
      + apply (Hcont s1 ac); auto.
      + apply (Hcont s1 ac); auto.
      + (* Evaluating: impossible *)
        exfalso. pose proof (K_new _ _ _ _ HK1 q) as Hn. pose proof (K_old _ _ _ _ HK1 q) as Ho.
        pose proof (K_set0 _ _ _ _ HK1 q) as Hs0.
        destruct (status_of s0 q) eqn:E0; try contradiction.
        * specialize (Hn eq_refl). rewrite Eq in Hn. discriminate.
        * specialize (Ho eq_refl). congruence.
        * specialize (Ho eq_refl). congruence.
      + (* EvaluatingAsync: impossible *)
        exfalso. pose proof (K_new _ _ _ _ HK1 q) as Hn. pose proof (K_old _ _ _ _ HK1 q) as Ho.
        pose proof (K_set0 _ _ _ _ HK1 q) as Hs0.
        destruct (status_of s0 q) eqn:E0; try contradiction.
        * specialize (Hn eq_refl). rewrite Eq in Hn. discriminate.
        * specialize (Ho eq_refl). congruence.
        * specialize (Ho eq_refl). congruence.
      + apply (Hcont s1 ac); auto.
  Qed.

  Lemma status0_unlinked : forall s0 s stack x, LK g s0 s stack -> status_of s x = Unlinked -> status_of s0 x = Unlinked.
  Proof.
    intros s0 s stack x HK Hx. destruct (status_of s0 x) eqn:E0; auto;
      pose proof (K_old _ _ _ _ HK x) as Ho; rewrite E0 in Ho; specialize (Ho eq_refl); congruence.
  Qed.

  Lemma lk_spec_all : forall f, lk_spec f g.
  Proof.
    intros f. induction f as [|f IH]; intros s0 s stack idx m s' stack' r HK Hm Hfuel H.
    { pose proof (LK_stack_length _ _ _ _ HK). lia. }
    rewrite inner_link_S in H.
    assert (Hdone : nonun (status_of s m) = true -> (s', stack', r) = (s, stack, ROk idx) ->
                    lk_post g s0 s stack idx m s' stack' r).
    { intros Hn Heq. inversion Heq; subst. exists idx, []. simpl.
      split; [reflexivity|]. split; [reflexivity|]. split; [assumption|]. split; [assumption|].
      split; [auto|]. split; [intros x []|]. split; auto. }
    destruct (status_of s m) as [|a|a|a|tm cm am om|tm cm om pm|tm cm em] eqn:Em;
      try (apply Hdone; [reflexivity|symmetry; exact H]).
    - (* Unlinked: enter *)
      cbv zeta in H.
      assert (Hm0 : status_of s0 m = Unlinked) by (eapply status0_unlinked; eauto).
      assert (Hnin : ~ In m stack).
      { intro Hin. destruct (K_stack _ _ _ _ HK m Hin) as [[a E]|[a E]]; congruence. }
      set (s1 := set_status s m (Linking idx)) in *.
      assert (HK1 : LK g s0 s1 (m :: stack)).
      { apply (LK_set g s0 s stack (m :: stack) m (Linking idx) HK Hm0 eq_refl eq_refl Hm).
        - intros y. simpl. split.
          + intros [<-|Hy]; [right; eauto|]. left. split; [assumption|]. intro; subst; contradiction.
          + intros [[Hy _]|[-> _]]; auto.
        - constructor; [assumption|apply (K_nodup _ _ _ _ HK)].
        - intros []. }
      destruct (link_requests (inner_link f g) m (requests g m) s1 (m :: stack) (S idx)) as [[s2 st2] r2] eqn:Eloop.
      assert (Hfuel1 : length g < f + length (m :: stack)) by (simpl; lia).
      destruct (lr_spec f IH (requests g m) s0 s1 (m :: stack) (S idx) m idx [] stack s2 st2 r2 HK1 eq_refl)
        as (idx2 & seg & -> & Hst2 & HK2 & (a2 & Em2 & Hle2) & Hseg2 & Hbelow2 & Hreqs2 & Hmono2); auto.
      { unfold s1. apply status_set_status_eq. }
      { intros x []. }
      unfold init_environment in H. rewrite (Hnle m), Em2 in H.
      set (s3 := set_status s2 m (PreLinked a2)) in *.
      assert (Em3 : status_of s3 m = PreLinked a2) by (unfold s3; apply status_set_status_eq).
      rewrite Em3 in H.
      assert (Hm2 : In m st2) by (rewrite Hst2; apply in_or_app; simpl; auto).
      assert (HK3 : LK g s0 s3 st2).
      { apply (LK_set g s0 s2 st2 st2 m (PreLinked a2) HK2 Hm0 eq_refl eq_refl Hm).
        - intros y. split.
          + intros Hy. destruct (Nat.eq_dec y m) as [->|Hne]; [right; eauto|left; auto].
          + intros [[Hy _]|[-> _]]; auto.
        - apply (K_nodup _ _ _ _ HK2).
        - intros _ q Hq _. apply Hreqs2. exact Hq. }
      assert (Hne3 : forall x, x <> m -> status_of s3 x = status_of s2 x).
      { intros x Hx. unfold s3. apply status_set_status_neq. auto. }
      assert (Hold3 : forall x, In x stack -> status_of s3 x = status_of s x).
      { intros x Hx. assert (x <> m) by (intro; subst; contradiction).
        rewrite Hne3 by assumption. rewrite Hbelow2 by assumption. unfold s1. apply status_set_status_neq. auto. }
      assert (Hmono3 : forall x, nonun (status_of s x) = true -> nonun (status_of s3 x) = true).
      { intros x Hx. destruct (Nat.eq_dec x m) as [->|Hxm]; [unfold s3; rewrite status_set_status_eq; reflexivity|].
        rewrite Hne3 by assumption. apply Hmono2. unfold s1. rewrite status_set_status_neq by auto. assumption. }
      assert (Hseg3 : forall x, In x (seg ++ [m]) -> exists a, status_of s3 x = PreLinked a).
      { intros x Hx. rewrite in_snoc in Hx. destruct Hx as [Hx| ->].
        - assert (x <> m).
          { intros ->. pose proof (K_nodup _ _ _ _ HK2) as Hnd. rewrite Hst2 in Hnd.
            apply NoDup_remove_2 in Hnd. apply Hnd. apply in_or_app; auto. }
          rewrite Hne3 by assumption. auto.
        - exists a2. unfold s3. apply status_set_status_eq. }
      destruct (a2 =? idx) eqn:Eeq.
      + (* pop everything above and including m *)
        pose proof (K_nodup _ _ _ _ HK3) as Hnd. rewrite Hst2 in Hnd.
        assert (Hnd1 : NoDup (seg ++ [m])).
        { replace (seg ++ m :: stack) with ((seg ++ [m]) ++ stack) in Hnd by (rewrite <- app_assoc; reflexivity).
          eapply NoDup_app_l; eauto. }
        assert (Hnd2 : ~ In m seg).
        { intro Hin. apply NoDup_remove_2 in Hnd. apply Hnd. apply in_or_app; auto. }
        destruct (pop_link_spec m s3 seg stack Hnd2 Hnd1 Hseg3) as (s4 & Hpop & Haux4 & Hlog4 & Hin4 & Hout4).
        rewrite Hst2, Hpop in H. inversion H; subst s' stack' r.
        assert (HK4 : LK g s0 s4 stack).
        { eapply (LK_pop g s0 s3 s4 seg m stack); eauto. rewrite <- Hst2. assumption. }
        assert (Hnotp : forall x, In x stack -> ~ In x (seg ++ [m])).
        { intros x Hx Hp. eapply (NoDup_app_disjoint _ (seg ++ [m]) stack x); eauto. rewrite <- app_assoc. exact Hnd. }
        exists idx2, []. simpl.
        split; [reflexivity|]. split; [reflexivity|]. split; [assumption|].
        split; [destruct (Hin4 m) as (a & ->); [rewrite in_snoc; auto|reflexivity]|].
        split; [intros x Hx; rewrite Hout4 by (apply Hnotp; assumption); auto|].
        split; [intros x []|]. split; [|auto].
        intros x Hx. apply Hmono3 in Hx. destruct (in_dec Nat.eq_dec x (seg ++ [m])) as [Hp|Hp].
        * destruct (Hin4 x Hp) as (a & ->). reflexivity.
        * rewrite Hout4 by assumption. assumption.
      + inversion H; subst s' stack' r.
        exists idx2, (seg ++ [m]).
        split; [reflexivity|]. split; [rewrite Hst2, <- app_assoc; reflexivity|]. split; [assumption|].
        split; [unfold s3; rewrite status_set_status_eq; reflexivity|].
        split; [assumption|]. split; [assumption|]. split; [assumption|].
        right. exists a2. split; [unfold s3; apply status_set_status_eq|]. apply Nat.eqb_neq in Eeq. lia.
    - (* Evaluating: excluded by the invariant *)
      exfalso. pose proof (K_new _ _ _ _ HK m) as Hn. pose proof (K_old _ _ _ _ HK m) as Ho.
      pose proof (K_set0 _ _ _ _ HK m) as Hs0.
      destruct (status_of s0 m) eqn:E0; try contradiction.
      + specialize (Hn eq_refl). rewrite Em in Hn. discriminate.
      + specialize (Ho eq_refl). congruence.
      + specialize (Ho eq_refl). congruence.
  Qed.

  (* Link(): from a settled Ready state, a link of m (always successful here) gives a settled Ready state in which m
     is evaluable; nothing is logged, loaded or evaluated; modules that were not unlinked keep their status *)
  Lemma link_spec : forall fuel s m s' r,
    Ready g s -> settled s -> m < length g -> length g < fuel -> link fuel g s m = (s', r) ->
    r = ROk tt /\ Ready g s' /\ settled s' /\ evaluable (status_of s' m) = true /\
    gs_log s' = gs_log s /\ same_aux s s' /\
    (forall x, nonun (status_of s x) = true -> status_of s' x = status_of s x).
  Proof.
    intros fuel s m s' r HR Hset Hm Hfuel H. unfold link in H.
    assert (HK0 : LK g s s []).
    { constructor; auto.
      - intros x [].
      - intros x a [E|E]; pose proof (Hset x) as Hx; rewrite E in Hx; contradiction.
      - constructor.
      - intros x Hx. destruct (status_of s x); try discriminate; reflexivity.
      - intros x Hx. apply (R_bound _ _ HR). pose proof (Hset x) as Hs.
        destruct (status_of s x); try contradiction; try discriminate; reflexivity.
      - intros x q Hx Hq. pose proof (Hset x) as Hs.
        assert (He : evaluable (status_of s x) = true) by (destruct (status_of s x); try contradiction; reflexivity).
        pose proof (R_closed _ _ HR x q He Hq) as Hq'. destruct (status_of s q); try discriminate; reflexivity.
      - split; [reflexivity|apply same_aux_refl]. }
    destruct (inner_link fuel g s [] 0 m) as [[s1 st1] r1] eqn:E1.
    assert (Hf0 : length g < fuel + length (@nil nat)) by (simpl; lia).
    destruct (lk_spec_all fuel s s [] 0 m s1 st1 r1 HK0 Hm Hf0 E1)
      as (idx' & new & -> & Hst1 & HK1 & Hmn & _ & Hnew & Hmono & Hroot).
    rewrite app_nil_r in Hst1. subst st1.
    assert (Hnil : new = []) by (destruct Hroot as [Hr|(a & _ & Ha)]; [assumption|lia]).
    subst new.
    assert (Hst : match status_of s m with
                  | Unlinked | Linked _ | EvaluatingAsync _ _ _ _ | Evaluated _ _ _ => True | _ => False end).
    { pose proof (Hset m) as Hsm. destruct (status_of s m); auto. }
    assert (Hres : (s', r) = (s1, ROk tt)).
    { destruct (status_of s m); try contradiction; symmetry; exact H. }
    inversion Hres; subst s' r. clear H Hres.
    (* no Linking / PreLinked left *)
    assert (Hset1 : settled s1).
    { intros x. destruct (status_of s1 x) eqn:E; auto.
      - apply (K_on _ _ _ _ HK1 x anc). auto.
      - apply (K_on _ _ _ _ HK1 x anc). auto.
      - pose proof (K_new _ _ _ _ HK1 x) as Hn. pose proof (K_old _ _ _ _ HK1 x) as Ho. pose proof (Hset x) as Hs.
        destruct (status_of s x) eqn:E0; try contradiction.
        + specialize (Hn eq_refl). rewrite E in Hn. discriminate.
        + specialize (Ho eq_refl). congruence.
        + specialize (Ho eq_refl). congruence.
      - pose proof (K_new _ _ _ _ HK1 x) as Hn. pose proof (K_old _ _ _ _ HK1 x) as Ho. pose proof (Hset x) as Hs.
        destruct (status_of s x) eqn:E0; try contradiction.
        + specialize (Hn eq_refl). rewrite E in Hn. discriminate.
        + specialize (Ho eq_refl). congruence.
        + specialize (Ho eq_refl). congruence. }
    assert (Hold : forall x, nonun (status_of s x) = true -> status_of s1 x = status_of s x) by (apply (K_old _ _ _ _ HK1)).
    assert (Hslog : slog s1 = slog s) by (unfold slog; rewrite (proj1 (K_log _ _ _ _ HK1)); reflexivity).
    assert (Hevd : forall x t c e, status_of s1 x = Evaluated t c e -> status_of s x = Evaluated t c e).
    { intros x t c e E. pose proof (K_new _ _ _ _ HK1 x) as Hn. pose proof (Hset x) as Hs.
      destruct (status_of s x) eqn:E0; try contradiction.
      - specialize (Hn eq_refl). rewrite E in Hn. discriminate.
      - rewrite Hold in E by (rewrite E0; reflexivity). congruence.
      - rewrite Hold in E by (rewrite E0; reflexivity). congruence. }
    assert (Hevd' : forall x t c e, status_of s x = Evaluated t c e -> status_of s1 x = Evaluated t c e).
    { intros x t c e E. rewrite Hold by (rewrite E; reflexivity). assumption. }
    split; [reflexivity|]. split; [|split; [assumption|split; [|split; [apply (K_log _ _ _ _ HK1)|split; [apply (K_log _ _ _ _ HK1)|assumption]]]]].
    - constructor; rewrite ?Hslog.
      + intros x. pose proof (Hset1 x) as Hx. destruct (status_of s1 x); auto.
      + intros x q Hx Hq. pose proof (Hset1 x) as Hsx. pose proof (Hset1 q) as Hsq.
        destruct (status_of s1 x) eqn:Ex; try contradiction; try discriminate Hx.
        * assert (Hn : nonun (status_of s1 q) = true) by (eapply (K_closed _ _ _ _ HK1); eauto; rewrite Ex; exact I).
          destruct (status_of s1 q); try contradiction; try discriminate; reflexivity.
        * apply Hevd in Ex. assert (He : evaluable (status_of s x) = true) by (rewrite Ex; reflexivity).
          pose proof (R_closed _ _ HR x q He Hq) as Hq'. rewrite Hold; [assumption|].
          destruct (status_of s q); try discriminate; reflexivity.
      + intros x Hx. apply (K_bound _ _ _ _ HK1). destruct (status_of s1 x); try discriminate; reflexivity.
      + intros x t c E. apply Hevd in E. destruct (R_ok _ _ HR _ _ _ E) as ((t' & H1) & H2 & H3 & H4).
        split; [exists t'; apply Hevd'; assumption|]. split; [assumption|]. split; [assumption|].
        intros z Hz. specialize (H4 z Hz). destruct (status_of s z) eqn:Ez; try discriminate. destruct err; try discriminate.
        rewrite (Hevd' _ _ _ _ Ez). reflexivity.
      + intros x t c e E. apply Hevd in E.
        destruct (R_bad _ _ HR _ _ _ _ E) as (H1 & t0 & H2 & H3 & H4 & (t' & H5) & H6 & H7).
        split; [assumption|]. exists t0. repeat split; auto. exists t'. apply Hevd'. assumption.
      + apply (R_nodup _ _ HR).
      + apply (R_df _ _ HR).
      + intros x Hx. pose proof (R_dom _ _ HR x Hx) as He. rewrite Hold; [assumption|].
        destruct (status_of s x); try discriminate; reflexivity.
    - pose proof (Hset1 m) as Hsm. destruct (status_of s1 m); try contradiction; try discriminate; reflexivity.
  Qed.
End Link.
