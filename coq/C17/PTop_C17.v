(* C17 lemmas, part 4: Evaluate() on a synchronous graph, from a state between two evaluations to the next one. *)
From Coq Require Import List Arith Bool Lia Sorting.Sorted.
From C17 Require Import Modules Spec_C17 PBase_C17 PInv_C17 PEval_C17.
Import ListNotations.

(* ------------------------------------------------------------------------------------------ *)
(* marking the stack after an abrupt completion *)

Lemma mark_errored_sync : forall e stack s,
  (forall x, In x stack -> exists tlc anc, status_of s x = Evaluating tlc x anc None) -> NoDup stack ->
  exists s', mark_errored s stack e = (s', None) /\ same_aux s s' /\ gs_log s' = gs_log s /\
    (forall x, In x stack -> status_of s' x = Evaluated (tlc_of (status_of s x)) x (Some e)) /\
    (forall x, ~ In x stack -> status_of s' x = status_of s x).
Proof.
  intros e stack. induction stack as [|a stack IH]; intros s Hst Hnd.
  - exists s. simpl. split; [reflexivity|]. split; [apply same_aux_refl|]. split; [reflexivity|]. split; [intros x []|auto].
  - simpl. destruct (Hst a) as (tlc & anc & E); [simpl; auto|]. rewrite E.
    inversion Hnd as [|? ? Ha Hnd']; subst.
    set (s1 := set_status s a (Evaluated tlc a (Some e))).
    destruct (IH s1) as (s' & Hm & Haux & Hlog & Hin & Hout).
    + intros x Hx. destruct (Hst x) as (t & an & Ex); [simpl; auto|]. exists t, an.
      unfold s1. rewrite status_set_status_neq; [assumption|]. intro; subst; contradiction.
    + assumption.
    + exists s'. split; [exact Hm|]. split; [eapply same_aux_trans; [apply same_aux_set_status|exact Haux]|].
      split; [rewrite Hlog; reflexivity|]. split.
      * intros x [<-|Hx].
        -- rewrite Hout by assumption. rewrite E. unfold s1. apply status_set_status_eq.
        -- rewrite (Hin x Hx). unfold s1. rewrite status_set_status_neq; [reflexivity|]. intro; subst; contradiction.
      * intros x Hx. rewrite Hout by (intro; apply Hx; simpl; auto).
        unfold s1. apply status_set_status_neq. intro; subst; apply Hx; simpl; auto.
Qed.

(* ------------------------------------------------------------------------------------------ *)
(* Ready <-> the invariant with an empty stack *)

Lemma Ready_ext : forall g s s', (forall x, status_of s' x = status_of s x) -> slog s' = slog s ->
  Ready g s -> Ready g s'.
Proof.
  intros g s s' Hst Hlog [R1 R2 R3 R4 R5 R6 R7 R8]. constructor; rewrite ?Hlog.
  - intros x. rewrite Hst. apply R1.
  - intros x r. rewrite !Hst. apply R2.
  - intros x. rewrite Hst. apply R3.
  - intros x t c. rewrite Hst. intros E. destruct (R4 _ _ _ E) as ((t' & H1) & H2 & H3 & H4).
    split; [exists t'; rewrite Hst; assumption|]. split; [assumption|]. split; [assumption|].
    intros z Hz. rewrite Hst. auto.
  - intros x t c e. rewrite Hst. intros E. destruct (R5 _ _ _ _ E) as (H1 & t0 & H2 & H3 & H4 & (t' & H5) & H6 & H7).
    split; [assumption|]. exists t0. repeat split; auto. exists t'. rewrite Hst. assumption.
  - assumption.
  - assumption.
  - intros x. rewrite Hst. apply R8.
Qed.

Lemma GI_of_Ready : forall g bf s vis ix, Ready g s -> represents s vis -> (forall x, badf s x = bf x) ->
  GI g bf s [] ix 0 vis.
Proof.
  intros g bf s vis ix [R1 R2 R3 R4 R5 R6 R7 R8] Hvis Hbf. constructor; auto.
  - intros x [].
  - intros x t c a o E. specialize (R1 x). rewrite E in R1. destruct R1.
  - constructor.
  - intros x t c a p E. specialize (R1 x). rewrite E in R1. destruct R1.
  - intros x [].
Qed.

Lemma Ready_of_GI_nil : forall g bf s ix idx vis, GI g bf s [] ix idx vis -> Ready g s.
Proof.
  intros g bf s ix idx vis H. constructor.
  - intros x. destruct (status_of s x) eqn:E; auto.
    + apply (G_ev _ _ _ _ _ _ _ H) in E. destruct E.
    + exfalso. eapply G_noasync; eauto.
  - eapply G_closed; eauto.
  - eapply G_bound; eauto.
  - eapply G_ok; eauto.
  - eapply G_bad; eauto.
  - eapply G_nodup; eauto.
  - eapply G_df; eauto.
  - eapply G_dom; eauto.
Qed.

Lemma Ready_of_Abort : forall g bf s stack ix idx vis t s',
  Abort g bf s stack ix idx vis t ->
  slog s' = slog s ->
  (forall x, In x stack -> status_of s' x = Evaluated (tlc_of (status_of s x)) x (Some (EThrow t))) ->
  (forall x, ~ In x stack -> status_of s' x = status_of s x) ->
  Ready g s' /\ represents s' vis.
Proof.
  intros g bf s stack ix idx vis t s' [HG Ht Hr Hw Hs He] Hlog Hin Hout.
  assert (Hstk : forall x, In x stack -> exists tl an, status_of s x = Evaluating tl x an None).
  { intros x Hx. destruct (G_stack _ _ _ _ _ _ _ HG x Hx) as (tl & an & E & _). eauto. }
  assert (Hev : forall x, evaluable (status_of s' x) = evaluable (status_of s x)).
  { intros x. destruct (in_dec Nat.eq_dec x stack) as [Hp|Hp].
    - rewrite (Hin x Hp). destruct (Hstk x Hp) as (tl & an & ->). reflexivity.
    - rewrite Hout by assumption. reflexivity. }
  assert (Hen : forall x, entered (status_of s' x) = entered (status_of s x)).
  { intros x. destruct (in_dec Nat.eq_dec x stack) as [Hp|Hp].
    - rewrite (Hin x Hp). destruct (Hstk x Hp) as (tl & an & ->). reflexivity.
    - rewrite Hout by assumption. reflexivity. }
  assert (Hed : forall x tl c e, status_of s x = Evaluated tl c e -> status_of s' x = Evaluated tl c e).
  { intros x tl c e E. rewrite Hout; [assumption|]. intro Hp. destruct (Hstk x Hp) as (tl' & an & E'). congruence. }
  assert (Ht' : exists tl, status_of s' t = Evaluated tl t (Some (EThrow t))).
  { destruct Hw as [Hw|(tl & Hw)]; [rewrite (Hin t Hw); eauto|exists tl; apply Hed; assumption]. }
  split; [constructor|].
  - intros x. destruct (in_dec Nat.eq_dec x stack) as [Hp|Hp].
    + rewrite (Hin x Hp). exact I.
    + rewrite Hout by assumption. destruct (status_of s x) eqn:E; auto.
      * apply (G_ev _ _ _ _ _ _ _ HG) in E. contradiction.
      * exfalso. eapply G_noasync; eauto.
  - intros x r. rewrite !Hev. eapply G_closed; eauto.
  - intros x. rewrite Hev. eapply G_bound; eauto.
  - intros x tl c E. destruct (in_dec Nat.eq_dec x stack) as [Hp|Hp]; [rewrite (Hin x Hp) in E; discriminate|].
    rewrite Hout in E by assumption. rewrite Hlog.
    destruct (G_ok _ _ _ _ _ _ _ HG _ _ _ E) as ((t' & H1) & H2 & H3 & H4).
    split; [exists t'; apply Hed; assumption|]. split; [assumption|]. split; [assumption|].
    intros z Hz. specialize (H4 z Hz). destruct (status_of s z) eqn:Ez; try discriminate. destruct err; try discriminate.
    rewrite (Hed _ _ _ _ Ez). reflexivity.
  - intros x tl c e E. rewrite Hlog. destruct (in_dec Nat.eq_dec x stack) as [Hp|Hp].
    + rewrite (Hin x Hp) in E. inversion E; subst. split; [reflexivity|]. exists t. repeat split; auto.
    + rewrite Hout in E by assumption.
      destruct (G_bad _ _ _ _ _ _ _ HG _ _ _ _ E) as (H1 & t0 & H2 & H3 & H4 & (t' & H5) & H6 & H7).
      split; [assumption|]. exists t0. repeat split; auto. exists t'. apply Hed. assumption.
  - rewrite Hlog. eapply G_nodup; eauto.
  - rewrite Hlog. eapply G_df; eauto.
  - intros x. rewrite Hlog, Hen. eapply G_dom; eauto.
  - intros x. rewrite Hev, Hen. eapply G_vis; eauto.
Qed.

Lemma represents_exists : forall g s, Ready g s -> exists vis, represents s vis.
Proof.
  intros g s HR. exists (filter (fun x => entered (status_of s x)) (seq 0 (length g))).
  intros x Hx. rewrite filter_In, in_seq. pose proof (R_bound _ _ HR x Hx). intuition lia.
Qed.

(* ------------------------------------------------------------------------------------------ *)
(* promises *)

Lemma settle_at_length : forall l c v, length (settle_at l c v) = length l.
Proof.
  induction l as [|p l IH]; intros c v; [destruct c; reflexivity|].
  destruct c; simpl; [destruct p; reflexivity|]. destruct p; simpl; rewrite IH; reflexivity.
Qed.

Lemma nth_settle_at : forall l c v c', nth c' (settle_at l c v) PPending =
  if c' =? c then match nth c l PPending with PPending => (if c <? length l then v else PPending) | p => p end
  else nth c' l PPending.
Proof.
  induction l as [|p l IH]; intros c v c'.
  - destruct c, c'; simpl; try reflexivity. destruct (c' =? c); reflexivity.
  - destruct c as [|c]; destruct c' as [|c']; simpl.
    + destruct p; reflexivity.
    + destruct p; reflexivity.
    + destruct p; reflexivity.
    + destruct p; simpl; rewrite IH; change (S c' =? S c) with (c' =? c); change (S c <? S (length l)) with (c <? length l);
        reflexivity.
Qed.

Lemma promise_state_new : forall s, let '(s', c) := new_promise s in
  c = length (gs_proms s) /\ promise_state s' c = PPending /\
  (forall c', c' < c -> promise_state s' c' = promise_state s c') /\
  (forall x, status_of s' x = status_of s x) /\ slog s' = slog s /\ length (gs_proms s') = S c /\
  gs_loads s' = gs_loads s /\ gs_jobs s' = gs_jobs s /\ gs_acount s' = gs_acount s.
Proof.
  intros s. unfold new_promise, promise_state. simpl. split; [reflexivity|]. split.
  - rewrite app_nth2 by lia. rewrite Nat.sub_diag. reflexivity.
  - split; [intros c' Hc; apply app_nth1; assumption|]. split; [reflexivity|]. split; [reflexivity|].
    split; [rewrite app_length; simpl; lia|]. auto.
Qed.

Lemma promise_state_settle : forall s c v, promise_state s c = PPending -> c < length (gs_proms s) ->
  promise_state (settle s c v) c = v /\ (forall c', c' <> c -> promise_state (settle s c v) c' = promise_state s c') /\
  (forall x, status_of (settle s c v) x = status_of s x) /\ slog (settle s c v) = slog s /\
  length (gs_proms (settle s c v)) = length (gs_proms s).
Proof.
  intros s c v Hp Hc. unfold promise_state, settle in *. simpl. split; [|split; [|split; [|split]]].
  - rewrite nth_settle_at, Nat.eqb_refl, Hp. apply Nat.ltb_lt in Hc. rewrite Hc. reflexivity.
  - intros c' Hne. rewrite nth_settle_at. apply Nat.eqb_neq in Hne. rewrite Hne. reflexivity.
  - reflexivity.
  - reflexivity.
  - apply settle_at_length.
Qed.

(* ------------------------------------------------------------------------------------------ *)
(* Evaluate() *)

(* the local function `go` of Modules.evaluate *)
Definition ev_go (cf : cfg) (fuel : nat) (g : graph) (s : gstate) (md : nat) : gstate * res nat :=
    let '(s, c) := new_promise s in
    match inner_evaluate cf fuel g (Some c) s [] 0 md with
    | (s, stack, ROk _) =>
        match status_of s md with
        | EvaluatingAsync _ _ _ _ =>
            match stack with [] => (s, ROk c) | _ => (s, RPanic (POther 51)) end
        | Evaluated _ _ None =>
            let s := settle s c PFulfilled in
            match stack with [] => (s, ROk c) | _ => (s, RPanic (POther 51)) end
        | _ => (s, RPanic (POther 52))
        end
    | (s, stack, RErr e) =>
        match mark_errored s stack e with
        | (s, Some p) => (s, RPanic p)
        | (s, None) =>
            match status_of s md with
            | Evaluated _ _ (Some _) => (settle s c (PRejected e), ROk c)
            | _ => (s, RPanic (POther 53))
            end
        end
    | (s, _, RPanic p) => (s, RPanic p)
    | (s, _, RFuel) => (s, RFuel)
    end.

Lemma evaluate_eq : forall cf fuel g s m, evaluate cf fuel g s m =
  match status_of s m with
  | Linked _ => ev_go cf fuel g s m
  | EvaluatingAsync (Some c) _ _ _ | Evaluated (Some c) _ _ => (s, ROk c)
  | EvaluatingAsync None croot _ _ | Evaluated None croot _ => ev_go cf fuel g s croot
  | _ => (s, RPanic (POther 54))
  end.
Proof. reflexivity. Qed.

(* what one call of `go` achieves *)
Record go_post (g : graph) (s : gstate) (vis : list nat) (md : nat) (s' : gstate) (r : res nat) : Prop := mkGoPost {
  GP_res : r = ROk (length (gs_proms s));
  GP_ready : Ready g s';
  GP_order : exists vis' l thr, dfs g (badf s) vis md vis' l thr /\ slog s' = slog s ++ l /\ represents s' vis' /\
               recorded s' md = Some (option_map EThrow thr) /\
               promise_state s' (length (gs_proms s)) = outcome_of (option_map EThrow thr);
  GP_tlc : is_white (status_of s md) = true -> tlc_of (status_of s' md) = Some (length (gs_proms s));
  GP_old : forall x, entered (status_of s x) = true -> status_of s' x = status_of s x;
  GP_white : forall x, is_white (status_of s' x) = true -> status_of s' x = status_of s x;
  GP_evaluable : forall x, evaluable (status_of s x) = true -> evaluable (status_of s' x) = true;
  GP_uneval : forall x, evaluable (status_of s x) = false -> status_of s' x = status_of s x;
  GP_proms : length (gs_proms s') = S (length (gs_proms s)) /\
             forall c', c' < length (gs_proms s) -> promise_state s' c' = promise_state s c';
  GP_aux : gs_loads s' = gs_loads s /\ gs_jobs s' = gs_jobs s /\ gs_acount s' = gs_acount s
}.

Lemma keeps_old : forall g s s', Ready g s -> keeps s s' ->
  forall x, entered (status_of s x) = true -> status_of s' x = status_of s x.
Proof.
  intros g s s' HR (H1 & _) x Hx. pose proof (R_settled _ _ HR x) as Hs.
  destruct (status_of s x) eqn:E; try discriminate Hx; [destruct Hs|]. rewrite (H1 _ _ _ _ E). reflexivity.
Qed.

Lemma go_linked : forall cf g, sync g -> forall fuel s md a s' r vis,
  Ready g s -> status_of s md = Linked a -> represents s vis -> length g < fuel ->
  ev_go cf fuel g s md = (s', r) -> go_post g s vis md s' r.
Proof.
  intros cf g Hsync fuel s md a s' r vis HR Hmd Hvis Hfuel Hgo.
  unfold ev_go in Hgo. pose proof (promise_state_new s) as Hnp.
  destruct (new_promise s) as [sa c] eqn:Enp.
  destruct Hnp as (Hc & Hpend & Holdp & Hsta & Hloga & Hlena & Hloads & Hjobs & Hacount).
  assert (HRa : Ready g sa) by (eapply Ready_ext; eauto).
  assert (Hvisa : represents sa vis) by (intros x; rewrite Hsta; apply Hvis).
  assert (Hbfa : forall x, badf sa x = badf s x) by (intros x; unfold badf; rewrite Hsta; reflexivity).
  pose proof (GI_of_Ready g (badf s) sa vis (fun _ => 0) HRa Hvisa Hbfa) as HG.
  destruct (inner_evaluate cf fuel g (Some c) sa [] 0 md) as [[s1 st1] r1] eqn:Eie.
  assert (Heva : evaluable (status_of sa md) = true) by (rewrite Hsta, Hmd; reflexivity).
  assert (Hf : length g < fuel + length (@nil nat)) by (simpl; lia).
  destruct (ie_spec_all cf g Hsync fuel (badf s) (Some c) sa [] (fun _ => 0) 0 vis md s1 st1 r1 HG
              (fun x (H : In x []) => match H with end) Heva Hf Eie)
    as (ix' & idx' & vis' & l & thr & new & Hst1 & Hlog1 & Hdfs & Haux & _ & _ & _ & _ & Hkeep & Htlc & Hres).
  rewrite app_nil_r in Hst1. subst st1.
  assert (Hwa : is_white (status_of sa md) = true) by (rewrite Hsta, Hmd; reflexivity).
  specialize (Htlc Hwa).
  assert (Hkeep0 : keeps s s1) by (eapply keeps_trans; [apply keeps_same; exact Hsta|exact Hkeep]).
  destruct Haux as (Hl1 & Hp1 & Hj1 & Ha1).
  assert (Hpend1 : promise_state s1 c = PPending) by (unfold promise_state in *; rewrite Hp1; assumption).
  assert (Hc1 : c < length (gs_proms s1)) by (rewrite Hp1, Hlena; lia).
  destruct thr as [t|].
  - (* rejected *)
    destruct Hres as (-> & HA & Hmdin).
    destruct (mark_errored_sync (EThrow t) new s1) as (s2 & Hmark & Haux2 & Hlog2 & Hin2 & Hout2).
    { intros x Hx. destruct (G_stack _ _ _ _ _ _ _ (A_gi _ _ _ _ _ _ _ _ HA) x Hx) as (tl & an & E & _). eauto. }
    { eapply GI_stack_nodup. eapply A_gi; eauto. }
    rewrite Hmark in Hgo.
    assert (Hslog2 : slog s2 = slog s1) by (unfold slog; rewrite Hlog2; reflexivity).
    destruct (Ready_of_Abort g (badf s) s1 new ix' idx' vis' t s2 HA Hslog2 Hin2 Hout2) as [HR2 Hvis2].
    assert (Hmd2 : exists tl cr, status_of s2 md = Evaluated tl cr (Some (EThrow t))).
    { destruct Hmdin as [Hmdin|(tl & cr & E)]; [rewrite (Hin2 md Hmdin); eauto|].
      destruct (in_dec Nat.eq_dec md new) as [Hp|Hp]; [rewrite (Hin2 md Hp); eauto|rewrite Hout2 by assumption; eauto]. }
    destruct Hmd2 as (tl2 & cr2 & Emd2). rewrite Emd2 in Hgo. inversion Hgo; subst s' r.
    destruct Haux2 as (Hl2 & Hp2 & Hj2 & Ha2).
    assert (Hpend2 : promise_state s2 c = PPending) by (unfold promise_state in *; rewrite Hp2; assumption).
    assert (Hc2 : c < length (gs_proms s2)) by (rewrite Hp2; assumption).
    destruct (promise_state_settle s2 c (PRejected (EThrow t)) Hpend2 Hc2) as (Hps & Hpo & Hsts & Hlogs & Hlens).
    assert (Hkeep2 : keeps s s2).
    { eapply keeps_trans; [exact Hkeep0|]. apply (keeps_except s1 s2 (fun x => In x new)).
      - intros x Hx. rewrite (Hin2 x Hx).
        destruct (G_stack _ _ _ _ _ _ _ (A_gi _ _ _ _ _ _ _ _ HA) x Hx) as (tl & an & E & _). rewrite E.
        split; [discriminate|split; [reflexivity|split; reflexivity]].
      - exact Hout2.
      - intros x. destruct (in_dec Nat.eq_dec x new); auto. }
    constructor.
    + rewrite Hc. reflexivity.
    + eapply Ready_ext; eauto.
    + exists vis', l, (Some t). split; [assumption|]. split; [rewrite Hlogs, Hslog2, Hlog1, Hloga; reflexivity|].
      split; [intros x; rewrite Hsts; apply Hvis2|]. rewrite <- Hc.
      split; [unfold recorded; rewrite Hsts, Emd2; reflexivity|assumption].
    + intros _. rewrite Hsts, <- Hc.
      destruct (in_dec Nat.eq_dec md new) as [Hp|Hp]; [rewrite (Hin2 md Hp); simpl; assumption|].
      rewrite Hout2 by assumption. assumption.
    + intros x Hx. rewrite Hsts. eapply keeps_old; eauto.
    + intros x. rewrite Hsts. apply Hkeep2.
    + intros x. rewrite Hsts. apply Hkeep2.
    + intros x. rewrite Hsts. apply Hkeep2.
    + rewrite Hlens, Hp2, Hp1, Hlena, <- Hc. split; [reflexivity|].
      intros c' Hc'. rewrite Hpo by lia. unfold promise_state in *. rewrite Hp2, Hp1. apply Holdp. assumption.
    + simpl. rewrite Hl2, Hl1, Hj2, Hj1, Ha2, Ha1. auto.
  - (* fulfilled *)
    destruct Hres as (-> & HG1 & Hcase).
    destruct Hcase as [[-> [Hok|[]]]|(_ & _ & (w & [] & _))].
    destruct (status_of s1 md) as [| | | |? ? ? ?|? ? ? ?|tl1 cr1 e1] eqn:Emd1; try discriminate Hok.
    destruct e1; [discriminate|]. inversion Hgo; subst s' r.
    destruct (promise_state_settle s1 c PFulfilled Hpend1 Hc1) as (Hps & Hpo & Hsts & Hlogs & Hlens).
    pose proof (Ready_of_GI_nil _ _ _ _ _ _ HG1) as HR1.
    constructor.
    + rewrite Hc. reflexivity.
    + eapply Ready_ext; eauto.
    + exists vis', l, None. split; [assumption|]. split; [rewrite Hlogs, Hlog1, Hloga; reflexivity|].
      split; [intros x; rewrite Hsts; apply (G_vis _ _ _ _ _ _ _ HG1)|]. rewrite <- Hc.
      split; [unfold recorded; rewrite Hsts, Emd1; reflexivity|assumption].
    + intros _. rewrite Hsts, <- Hc, Emd1. assumption.
    + intros x Hx. rewrite Hsts. eapply keeps_old; eauto.
    + intros x. rewrite Hsts. apply Hkeep0.
    + intros x. rewrite Hsts. apply Hkeep0.
    + intros x. rewrite Hsts. apply Hkeep0.
    + rewrite Hlens, Hp1, Hlena, <- Hc. split; [reflexivity|].
      intros c' Hc'. rewrite Hpo by lia. unfold promise_state in *. rewrite Hp1. apply Holdp. assumption.
    + simpl. rewrite Hl1, Hj1, Ha1. auto.
Qed.

Lemma go_evaluated : forall cf fuel g s md tl cr e s' r, 0 < fuel -> status_of s md = Evaluated tl cr e ->
  ev_go cf fuel g s md = (s', r) ->
  r = ROk (length (gs_proms s)) /\ (forall x, status_of s' x = status_of s x) /\ slog s' = slog s /\
  promise_state s' (length (gs_proms s)) = outcome_of e /\
  length (gs_proms s') = S (length (gs_proms s)) /\
  (forall c', c' < length (gs_proms s) -> promise_state s' c' = promise_state s c') /\
  gs_loads s' = gs_loads s /\ gs_jobs s' = gs_jobs s /\ gs_acount s' = gs_acount s.
Proof.
  intros cf fuel g s md tl cr e s' r Hfuel Hmd Hgo. destruct fuel as [|f]; [lia|].
  unfold ev_go in Hgo. pose proof (promise_state_new s) as Hnp.
  destruct (new_promise s) as [sa c] eqn:Enp.
  destruct Hnp as (Hc & Hpend & Holdp & Hsta & Hloga & Hlena & Hloads & Hjobs & Hacount).
  rewrite inner_evaluate_S in Hgo. rewrite Hsta, Hmd in Hgo.
  assert (Hca : c < length (gs_proms sa)) by lia.
  destruct e as [e|].
  - simpl in Hgo. rewrite Hsta, Hmd in Hgo. inversion Hgo; subst s' r.
    destruct (promise_state_settle sa c (PRejected e) Hpend Hca) as (Hps & Hpo & Hsts & Hlogs & Hlens).
    rewrite <- Hc. split; [reflexivity|]. split; [intros x; rewrite Hsts; auto|]. split; [congruence|].
    split; [assumption|]. split; [congruence|]. split; [intros c' Hc'; rewrite Hpo by lia; auto|]. simpl. auto.
  - rewrite Hsta, Hmd in Hgo. inversion Hgo; subst s' r.
    destruct (promise_state_settle sa c PFulfilled Hpend Hca) as (Hps & Hpo & Hsts & Hlogs & Hlens).
    rewrite <- Hc. split; [reflexivity|]. split; [intros x; rewrite Hsts; auto|]. split; [congruence|].
    split; [assumption|]. split; [congruence|]. split; [intros c' Hc'; rewrite Hpo by lia; auto|]. simpl. auto.
Qed.

(* a module that is not being entered for the first time: the walk does nothing *)
Lemma dfs_of_evaluated : forall g s vis m tl cr e, Ready g s -> represents s vis ->
  status_of s m = Evaluated tl cr e ->
  exists thr, dfs g (badf s) vis m vis [] thr /\ e = option_map EThrow thr.
Proof.
  intros g s vis m tl cr e HR Hvis Hm. destruct e as [e|].
  - destruct (R_bad _ _ HR _ _ _ _ Hm) as (_ & t & -> & _). exists (Some t). split; [|reflexivity].
    apply dfs_bad. unfold badf. rewrite Hm. reflexivity.
  - exists None. split; [|reflexivity]. apply dfs_seen.
    + unfold badf. rewrite Hm. reflexivity.
    + apply Hvis; rewrite Hm; reflexivity.
Qed.

(* everything the property theorems need about one call of Evaluate() *)
Record ev_post (g : graph) (s : gstate) (m : nat) (s' : gstate) (r : res nat) : Prop := mkEvPost {
  EP_res : exists c e, r = ROk c /\ recorded s' m = Some e /\
             (tlc_of (status_of s m) = None -> c = length (gs_proms s) /\ promise_state s' c = outcome_of e) /\
             (forall c0, tlc_of (status_of s m) = Some c0 -> c = c0 /\ s' = s);
  EP_ready : Ready g s';
  EP_order : forall vis, represents s vis ->
             exists vis' l thr, dfs g (badf s) vis m vis' l thr /\ slog s' = slog s ++ l /\ represents s' vis' /\
               recorded s' m = Some (option_map EThrow thr);
  EP_tlc : forall a, status_of s m = Linked a -> tlc_of (status_of s' m) = Some (length (gs_proms s));
  EP_old : forall x, entered (status_of s x) = true -> status_of s' x = status_of s x;
  EP_evaluable : forall x, evaluable (status_of s x) = true -> evaluable (status_of s' x) = true;
  EP_uneval : forall x, evaluable (status_of s x) = false -> status_of s' x = status_of s x;
  EP_aux : gs_loads s' = gs_loads s /\ gs_jobs s' = gs_jobs s /\ gs_acount s' = gs_acount s
}.

Lemma evaluate_spec : forall cf g, sync g -> forall fuel s m s' r,
  Ready g s -> evaluable (status_of s m) = true -> length g < fuel ->
  evaluate cf fuel g s m = (s', r) -> ev_post g s m s' r.
Proof.
  intros cf g Hsync fuel s m s' r HR Hev Hfuel Hgo. rewrite evaluate_eq in Hgo.
  pose proof (R_settled _ _ HR m) as Hset.
  destruct (status_of s m) as [| | |a|? ? ? ?|? ? ? ?|tl cr e] eqn:Em; try discriminate Hev; try (destruct Hset).
  - (* first evaluation *)
    destruct (represents_exists g s HR) as (vis0 & Hvis0).
    pose proof (go_linked cf g Hsync fuel s m a s' r vis0 HR Em Hvis0 Hfuel Hgo) as [G1 G2 G3 G4 G5 G6 G7 G7' G8 G9].
    destruct G3 as (vis0' & l0 & thr0 & _ & _ & _ & Hrec0 & Hprom0).
    constructor; auto.
    + exists (length (gs_proms s)), (option_map EThrow thr0). split; [assumption|]. split; [assumption|].
      split; [intros _; split; [reflexivity|assumption]|]. intros c0 Hc0. rewrite Em in Hc0. discriminate.
    + intros vis Hvis.
      pose proof (go_linked cf g Hsync fuel s m a s' r vis HR Em Hvis Hfuel Hgo) as [_ _ G3' _ _ _ _ _ _ _].
      destruct G3' as (vis' & l & thr & H1 & H2 & H3 & H4 & _). exists vis', l, thr. auto.
    + intros a' _. apply G4. rewrite Em. reflexivity.
  - (* evaluated before *)
    assert (Hfuel0 : 0 < fuel) by lia.
    destruct tl as [c0|].
    + (* its own capability is returned *)
      inversion Hgo; subst s' r. constructor; auto.
      * exists c0, e. unfold recorded. rewrite Em. split; [reflexivity|]. split; [reflexivity|].
        simpl. split; [discriminate|]. intros c1 Hc1. inversion Hc1; auto.
      * intros vis Hvis. destruct (dfs_of_evaluated g s vis m _ _ _ HR Hvis Em) as (thr & Hd & ->).
        exists vis, [], thr. rewrite app_nil_r. unfold recorded. rewrite Em. auto.
      * intros a Ha. congruence.
    + (* DEVIATION: a fresh capability, InnerModuleEvaluation on the cycle root *)
      assert (Hcr : exists tl', status_of s cr = Evaluated tl' cr e).
      { destruct e as [e|].
        - destruct (R_bad _ _ HR _ _ _ _ Em) as (-> & _). eauto.
        - destruct (R_ok _ _ HR _ _ _ Em) as ((tl' & H) & _). eauto. }
      destruct Hcr as (tl' & Ecr).
      destruct (go_evaluated cf fuel g s cr tl' cr e s' r Hfuel0 Ecr Hgo)
        as (-> & Hst & Hlog & Hprom & Hlen & Holdp & Haux).
      constructor; auto.
      * exists (length (gs_proms s)), e. unfold recorded. rewrite Hst, Em. split; [reflexivity|]. split; [reflexivity|].
        simpl. split; [auto|]. intros c0 Hc0. discriminate.
      * eapply Ready_ext; eauto.
      * intros vis Hvis. destruct (dfs_of_evaluated g s vis m _ _ _ HR Hvis Em) as (thr & Hd & ->).
        exists vis, [], thr. rewrite app_nil_r. unfold recorded. rewrite Hst, Em.
        split; [assumption|]. split; [assumption|]. split; [intros x; rewrite Hst; apply Hvis|reflexivity].
      * intros a Ha. congruence.
      * intros x. rewrite Hst. auto.
Qed.
