(* C17 deepening, part 1: an invariant of the evaluation machinery that holds for ALL graphs, with or without
   top-level await (has_tla), across Evaluate() calls and promise-job drains, on every variant of Modules.cfg in which a
   module keeps its own pending_async_dependencies (cf_own_pending = true: the repaired tree).
   It yields: every body starts at most once and ends at most once. *)
From Coq Require Import List Arith Bool Lia.
From C17 Require Import Modules Spec_C17 PBase_C17.
Import ListNotations.

Definition started (s : gstate) (m : nat) : Prop := In (RStart m) (slog s).
Definition ended (s : gstate) (m : nat) : Prop := In (REnd m) (slog s).
Definition fresh (st : status) : bool :=
  match st with Unlinked | Linking _ | PreLinked _ | Linked _ => true | _ => false end.
Definition tlcof (st : status) : option nat :=
  match st with Evaluating t _ _ _ | EvaluatingAsync t _ _ _ | Evaluated t _ _ => t | _ => None end.
Fixpoint resume_mods (l : list job) : list nat :=
  match l with
  | [] => []
  | JResume m _ :: r => m :: resume_mods r
  | _ :: r => resume_mods r
  end.
Definition pendS (s : gstate) (x : nat) : nat := ms_pend (getm s x).

Record AI (s : gstate) : Prop := mkAI {
  A_nodup : NoDup (slog s);
  A_fresh : forall x, started s x -> fresh (status_of s x) = false;
  A_end : forall x, ended s x -> started s x;
  A_async : forall x t c o p, status_of s x = EvaluatingAsync t c o (S p) -> ~ started s x;
  A_ev : forall x t c a o, status_of s x = Evaluating t c a (Some o) -> 0 < pendS s x -> ~ started s x;
  A_jobs : NoDup (resume_mods (gs_jobs s)) /\
           forall m, In m (resume_mods (gs_jobs s)) -> started s m /\ ~ ended s m
}.

(* what a step may do to the rest of the world *)
Definition ext (s s' : gstate) : Prop :=
  (exists l, slog s' = slog s ++ l /\ forall e, In e l -> fresh (status_of s (ev_mod e)) = true) /\
  (forall x, fresh (status_of s x) = false ->
     fresh (status_of s' x) = false /\ tlcof (status_of s' x) = tlcof (status_of s x)).

Lemma ext_refl : forall s, ext s s.
Proof. intros s. split; [exists []; rewrite app_nil_r; split; [reflexivity|intros e []]|auto]. Qed.

Lemma ext_trans : forall a b c, ext a b -> ext b c -> ext a c.
Proof.
  intros a b c [(l1 & H1 & E1) N1] [(l2 & H2 & E2) N2]. split.
  - exists (l1 ++ l2). split; [rewrite H2, H1, app_assoc; reflexivity|].
    intros e He. apply in_app_or in He. destruct He as [He|He]; [auto|].
    specialize (E2 e He). destruct (fresh (status_of a (ev_mod e))) eqn:F; [reflexivity|].
    destruct (N1 _ F) as [F' _]. congruence.
  - intros x Hx. destruct (N1 x Hx) as [F1 T1]. destruct (N2 x F1) as [F2 T2]. split; [assumption|congruence].
Qed.

(* states with the same observations *)
Lemma AI_same : forall s s', slog s' = slog s -> (forall x, status_of s' x = status_of s x) ->
  (forall x, pendS s' x = pendS s x) -> resume_mods (gs_jobs s') = resume_mods (gs_jobs s) -> AI s -> AI s'.
Proof.
  intros s s' Hl Hs Hp Hj [A1 A2 A3 A4 A5 [A6 A7]].
  constructor; unfold started, ended in *; rewrite ?Hl, ?Hj; auto.
  - intros x. rewrite Hs. auto.
  - intros x t c o p. rewrite Hs. eauto.
  - intros x t c a o. rewrite Hs, Hp. eauto.
Qed.

Lemma ext_same : forall s s', slog s' = slog s -> (forall x, status_of s' x = status_of s x) -> ext s s'.
Proof.
  intros s s' Hl Hs. split; [exists []; rewrite app_nil_r; split; [assumption|intros e []]|].
  intros x Hx. rewrite Hs. auto.
Qed.

Lemma pendS_set_status : forall s m st x, pendS (set_status s m st) x = pendS s x.
Proof.
  intros. unfold pendS, set_status. rewrite getm_setm. destruct (m =? x) eqn:E; [apply Nat.eqb_eq in E; subst|]; reflexivity.
Qed.

Lemma AI_set_status : forall s x st, AI s ->
  (started s x -> fresh st = false) ->
  (forall t c o p, st = EvaluatingAsync t c o (S p) -> ~ started s x) ->
  (forall t c a o, st = Evaluating t c a (Some o) -> 0 < pendS s x -> ~ started s x) ->
  AI (set_status s x st).
Proof.
  intros s x st [A1 A2 A3 A4 A5 A6] C2 C4 C5.
  constructor; unfold started, ended in *; rewrite ?slog_set_status; auto.
  - intros y Hy. rewrite status_set_status. destruct (x =? y) eqn:E; [apply Nat.eqb_eq in E; subst; auto|auto].
  - intros y t c o p. rewrite status_set_status. destruct (x =? y) eqn:E; [apply Nat.eqb_eq in E; subst; eauto|eauto].
  - intros y t c a o. rewrite status_set_status, pendS_set_status.
    destruct (x =? y) eqn:E; [apply Nat.eqb_eq in E; subst; eauto|eauto].
Qed.

Lemma ext_set_status : forall s x st, (fresh (status_of s x) = false -> fresh st = false /\ tlcof st = tlcof (status_of s x)) ->
  ext s (set_status s x st).
Proof.
  intros s x st H. split; [exists []; rewrite app_nil_r; split; [reflexivity|intros e []]|].
  intros y Hy. rewrite status_set_status. destruct (x =? y) eqn:E; [apply Nat.eqb_eq in E; subst; auto|auto].
Qed.

Lemma status_set_pend' : forall s m p x, status_of (set_pend s m p) x = status_of s x.
Proof. intros. apply status_set_pend. Qed.

Lemma pendS_set_pend : forall s m p x, pendS (set_pend s m p) x = if m =? x then p else pendS s x.
Proof. intros. unfold pendS, set_pend. rewrite getm_setm. destruct (m =? x); reflexivity. Qed.

Lemma AI_set_pend : forall s m p, AI s ->
  (forall t c a o, status_of s m = Evaluating t c a (Some o) -> 0 < p -> ~ started s m) ->
  AI (set_pend s m p).
Proof.
  intros s m p [A1 A2 A3 A4 A5 A6] C.
  constructor; unfold started, ended in *; auto.
  - intros x. rewrite status_set_pend. auto.
  - intros x t c o q. rewrite status_set_pend. eauto.
  - intros x t c a o. rewrite status_set_pend, pendS_set_pend.
    destruct (m =? x) eqn:E; [apply Nat.eqb_eq in E; subst; eauto|eauto].
Qed.

(* logging *)
Lemma AI_start : forall s s' x, AI s -> slog s' = slog s ++ [RStart x] -> (forall y, status_of s' y = status_of s y) ->
  (forall y, pendS s' y = pendS s y) -> resume_mods (gs_jobs s') = resume_mods (gs_jobs s) ->
  ~ started s x -> fresh (status_of s x) = false ->
  (forall t c o p, status_of s x <> EvaluatingAsync t c o (S p)) ->
  (forall t c a o, status_of s x = Evaluating t c a (Some o) -> pendS s x = 0) ->
  AI s'.
Proof.
  intros s s' x [A1 A2 A3 A4 A5 [A6 A7]] Hl Hs Hp Hj Hn Hf H4 H5.
  constructor; unfold started, ended in *; rewrite ?Hl, ?Hj.
  - apply NoDup_snoc; assumption.
  - intros y. rewrite Hs, in_snoc. intros [Hy|Hy]; [auto|]. inversion Hy; subst. assumption.
  - intros y. rewrite !in_snoc. intros [Hy|Hy]; [auto|discriminate].
  - intros y t c o p. rewrite Hs, in_snoc. intros E [Hy|Hy]; [eapply A4; eauto|]. inversion Hy; subst. eapply H4; eauto.
  - intros y t c a o. rewrite Hs, Hp, in_snoc. intros E Hpos [Hy|Hy]; [eapply A5; eauto|].
    inversion Hy; subst. rewrite (H5 _ _ _ _ E) in Hpos. lia.
  - split; [assumption|]. intros m Hm. destruct (A7 m Hm) as [H1 H2]. rewrite !in_snoc. split; [auto|].
    intros [H|H]; [auto|discriminate].
Qed.

Lemma AI_end : forall s s' x, AI s -> slog s' = slog s ++ [REnd x] -> (forall y, status_of s' y = status_of s y) ->
  (forall y, pendS s' y = pendS s y) -> resume_mods (gs_jobs s') = resume_mods (gs_jobs s) ->
  started s x -> ~ ended s x -> ~ In x (resume_mods (gs_jobs s)) -> AI s'.
Proof.
  intros s s' x [A1 A2 A3 A4 A5 [A6 A7]] Hl Hs Hp Hj Hst Hne Hnr.
  constructor; unfold started, ended in *; rewrite ?Hl, ?Hj.
  - apply NoDup_snoc; assumption.
  - intros y. rewrite Hs, in_snoc. intros [Hy|Hy]; [auto|discriminate].
  - intros y. rewrite !in_snoc. intros [Hy|Hy]; [auto|]. inversion Hy; subst. auto.
  - intros y t c o p. rewrite Hs, in_snoc. intros E [Hy|Hy]; [eapply A4; eauto|discriminate].
  - intros y t c a o. rewrite Hs, Hp, in_snoc. intros E Hpos [Hy|Hy]; [eapply A5; eauto|discriminate].
  - split; [assumption|]. intros m Hm. destruct (A7 m Hm) as [H1 H2]. rewrite !in_snoc. split; [auto|].
    intros [H|H]; [auto|]. inversion H; subst. contradiction.
Qed.

Lemma resume_mods_app : forall a b, resume_mods (a ++ b) = resume_mods a ++ resume_mods b.
Proof. induction a as [|j a IH]; intros b; simpl; [reflexivity|]. destruct j; simpl; rewrite IH; reflexivity. Qed.

Lemma AI_enqueue_resume : forall s m k, AI s -> started s m -> ~ ended s m -> ~ In m (resume_mods (gs_jobs s)) ->
  AI (enqueue s (JResume m k)).
Proof.
  intros s m k [A1 A2 A3 A4 A5 [A6 A7]] Hs He Hn.
  constructor.
  - exact A1.
  - exact A2.
  - exact A3.
  - exact A4.
  - exact A5.
  - simpl. rewrite resume_mods_app. simpl. split.
    + apply NoDup_snoc; assumption.
    + intros x. rewrite in_snoc. intros [Hx| ->]; [apply A7; assumption|split; assumption].
Qed.

Lemma AI_enqueue_other : forall s j, AI s -> (forall m k, j <> JResume m k) -> AI (enqueue s j).
Proof.
  intros s j H Hj. apply (AI_same s); [reflexivity|reflexivity|reflexivity| |exact H].
  simpl. rewrite resume_mods_app. destruct j; simpl; try (rewrite app_nil_r; reflexivity). exfalso. eapply Hj; eauto.
Qed.

(* ------------------------------------------------------------------------------------------ *)
(* ExecuteModule *)

Definition startable (s : gstate) (x : nat) : Prop :=
  ~ started s x /\ fresh (status_of s x) = false /\
  (forall t c o p, status_of s x <> EvaluatingAsync t c o (S p)) /\
  (forall t c a o, status_of s x = Evaluating t c a (Some o) -> pendS s x = 0).

Definition onlylog (s s' : gstate) (x : nat) : Prop :=
  (forall y, status_of s' y = status_of s y) /\ (forall y, pendS s' y = pendS s y) /\
  exists l, slog s' = slog s ++ l /\ forall e, In e l -> ev_mod e = x.

Lemma onlylog_refl : forall s x, onlylog s s x.
Proof. intros. split; [auto|]. split; [auto|]. exists []. rewrite app_nil_r. split; [reflexivity|intros e []]. Qed.

Lemma pendS_set_phase : forall s m p x, pendS (set_phase s m p) x = pendS s x.
Proof.
  intros. unfold pendS, set_phase. rewrite getm_setm. destruct (m =? x) eqn:E; [apply Nat.eqb_eq in E; subst|]; reflexivity.
Qed.

Lemma body_start_obs : forall g s m, slog (body_start g s m) = slog s ++ [RStart m] /\
  (forall y, status_of (body_start g s m) y = status_of s y) /\ (forall y, pendS (body_start g s m) y = pendS s y) /\
  gs_jobs (body_start g s m) = gs_jobs s.
Proof.
  intros. unfold body_start. split; [|split; [|split]].
  - unfold slog. simpl. rewrite map_app. reflexivity.
  - intros y. rewrite status_set_phase, status_add_log, status_set_phase. reflexivity.
  - intros y. rewrite pendS_set_phase. unfold pendS, add_log, getm. simpl. fold (getm (set_phase s m 1) y).
    change (ms_pend (getm (set_phase s m 1) y)) with (pendS (set_phase s m 1) y). apply pendS_set_phase.
  - reflexivity.
Qed.

Lemma body_end_obs : forall g s m, slog (body_end g s m) = slog s ++ [REnd m] /\
  (forall y, status_of (body_end g s m) y = status_of s y) /\ (forall y, pendS (body_end g s m) y = pendS s y) /\
  gs_jobs (body_end g s m) = gs_jobs s.
Proof.
  intros. unfold body_end. split; [|split; [|split]].
  - unfold slog. simpl. rewrite map_app. reflexivity.
  - intros y. rewrite status_add_log, status_set_phase. reflexivity.
  - intros y. unfold pendS, add_log, getm. simpl. fold (getm (set_phase s m 3) y).
    change (ms_pend (getm (set_phase s m 3) y)) with (pendS (set_phase s m 3) y). apply pendS_set_phase.
  - reflexivity.
Qed.

Lemma startable_facts : forall s x, AI s -> startable s x -> ~ ended s x /\ ~ In x (resume_mods (gs_jobs s)).
Proof.
  intros s x H (Hn & _). split.
  - intro He. apply Hn. apply (A_end _ H). assumption.
  - intro Hin. apply Hn. apply (proj2 (A_jobs _ H) x Hin).
Qed.

Lemma AI_body_start : forall g s x, AI s -> startable s x ->
  AI (body_start g s x) /\ started (body_start g s x) x /\ ~ ended (body_start g s x) x /\
  ~ In x (resume_mods (gs_jobs (body_start g s x))).
Proof.
  intros g s x H Hst. destruct (startable_facts s x H Hst) as [Hne Hnr].
  destruct Hst as (Hn & Hf & H4 & H5).
  destruct (body_start_obs g s x) as (Hl & Hs & Hp & Hj).
  split; [eapply AI_start; eauto; rewrite Hj; reflexivity|].
  unfold started, ended. rewrite Hl, Hj, !in_snoc. split; [auto|]. split; [|assumption].
  intros [H1|H1]; [contradiction|discriminate].
Qed.

Lemma execute_sync_AI : forall g s x s' r, AI s -> startable s x -> execute_sync g s x = (s', r) ->
  AI s' /\ onlylog s s' x.
Proof.
  intros g s x s' r H Hst He. unfold execute_sync in He.
  assert (Hgo : (let s1 := body_start g s x in
                 if mi_pre (info g x) || mi_post (info g x) then (s1, RErr (EThrow x)) else (body_end g s1 x, ROk tt)) = (s', r) ->
                AI s' /\ onlylog s s' x).
  { cbv zeta. intros E. destruct (AI_body_start g s x H Hst) as (H1 & Hs1 & He1 & Hr1).
    destruct (body_start_obs g s x) as (Hl & Hs & Hp & Hj).
    destruct (mi_pre (info g x) || mi_post (info g x)); inversion E; subst.
    - split; [assumption|]. split; [assumption|]. split; [assumption|]. exists [RStart x]. split; [assumption|].
      intros e [<-|[]]. reflexivity.
    - destruct (body_end_obs g (body_start g s x) x) as (Hl2 & Hs2 & Hp2 & Hj2). split.
      + eapply AI_end; eauto; rewrite Hj2; reflexivity.
      + split; [intros y; rewrite Hs2; auto|]. split; [intros y; rewrite Hp2; auto|].
        exists [RStart x; REnd x]. split; [rewrite Hl2, Hl, <- app_assoc; reflexivity|].
        intros e [<-|[<-|[]]]; reflexivity. }
  destruct (status_of s x); try (inversion He; subst; split; [assumption|apply onlylog_refl]); apply Hgo; exact He.
Qed.

Lemma execute_async_AI : forall g s x s' r, AI s -> startable s x -> execute_async g s x = (s', r) ->
  AI s' /\ onlylog s s' x.
Proof.
  intros g s x s' r H Hst He. unfold execute_async in He.
  assert (Hgo : (if negb (has_tla g x) then (s, RPanic (POther 11))
                 else let s1 := body_start g s x in
                   if mi_pre (info g x) then (enqueue s1 (JRejected x (EThrow x)), ROk tt)
                   else (enqueue s1 (JResume x (pred (mi_awaits (info g x)))), ROk tt)) = (s', r) ->
                AI s' /\ onlylog s s' x).
  { intros E. destruct (negb (has_tla g x)); [inversion E; subst; split; [assumption|apply onlylog_refl]|].
    cbv zeta in E. destruct (AI_body_start g s x H Hst) as (H1 & Hs1 & He1 & Hr1).
    destruct (body_start_obs g s x) as (Hl & Hs & Hp & Hj).
    assert (Hol : forall j, onlylog s (enqueue (body_start g s x) j) x).
    { intros j. split; [exact Hs|]. split; [exact Hp|]. exists [RStart x]. split; [exact Hl|]. intros e [<-|[]]. reflexivity. }
    destruct (mi_pre (info g x)); inversion E; subst.
    - split; [apply AI_enqueue_other; [assumption|intros; discriminate]|apply Hol].
    - split; [apply AI_enqueue_resume; assumption|apply Hol]. }
  destruct (status_of s x); try (inversion He; subst; split; [assumption|apply onlylog_refl]); apply Hgo; exact He.
Qed.

Lemma onlylog_ext : forall s s' x, onlylog s s' x -> fresh (status_of s x) = true -> ext s s'.
Proof.
  intros s s' x (Hs & _ & l & Hl & He) Hf. split.
  - exists l. split; [assumption|]. intros e Hin. rewrite (He e Hin). assumption.
  - intros y Hy. rewrite Hs. auto.
Qed.

(* ------------------------------------------------------------------------------------------ *)
(* InnerModuleEvaluation, any graph *)

Section Walk.
  Variable cf : cfg.
  Hypothesis Hown : cf_own_pending cf = true.
  Variable g : graph.

  Lemma pop_scc_AI : forall m pend stack s s' st' p, AI s -> pop_scc cf m pend s stack = (s', st', p) ->
    AI s' /\ ext s s' /\ (forall y, pendS s' y = pendS s y).
  Proof.
    intros m pend stack. induction stack as [|r rest IH]; intros s s' st' p H Hp; simpl in Hp.
    - inversion Hp; subst. split; [assumption|]. split; [apply ext_refl|auto].
    - destruct (status_of s r) as [| | | |tlc croot anc aorder| |] eqn:Er;
        try (inversion Hp; subst; split; [assumption|]; split; [apply ext_refl|auto]).
      rewrite Hown in Hp.
      set (st := match aorder with
                 | Some o => EvaluatingAsync tlc (if r =? m then croot else m) o (ms_pend (getm s r))
                 | None => Evaluated tlc (if r =? m then croot else m) None end).
      assert (Hs1 : AI (set_status s r st) /\ ext s (set_status s r st)).
      { split.
        - apply AI_set_status; [assumption| | |].
          + intros _. unfold st. destruct aorder; reflexivity.
          + intros t c o q E. unfold st in E. destruct aorder as [o'|]; [|discriminate]. inversion E.
            eapply (A_ev _ H); eauto. unfold pendS. lia.
          + intros t c a o E. unfold st in E. destruct aorder; discriminate.
        - apply ext_set_status. intros _. rewrite Er. unfold st. destruct aorder; auto. }
      destruct Hs1 as [HA1 HE1].
      assert (Heq : (match aorder with
                     | Some o => set_status s r (EvaluatingAsync tlc (if r =? m then croot else m) o (ms_pend (getm s r)))
                     | None => set_status s r (Evaluated tlc (if r =? m then croot else m) None) end) = set_status s r st).
      { unfold st. destruct aorder; reflexivity. }
      rewrite Heq in Hp.
      destruct (r =? m).
      + inversion Hp; subst. split; [assumption|]. split; [assumption|]. intros y. apply pendS_set_status.
      + destruct (IH _ _ _ _ HA1 Hp) as (H2 & E2 & P2). split; [assumption|]. split; [eapply ext_trans; eauto|].
        intros y. rewrite P2. apply pendS_set_status.
  Qed.

  Lemma mark_errored_AI : forall e stack s s' p, AI s -> mark_errored s stack e = (s', p) -> AI s' /\ ext s s'.
  Proof.
    intros e stack. induction stack as [|r rest IH]; intros s s' p H Hp; simpl in Hp.
    - inversion Hp; subst. split; [assumption|apply ext_refl].
    - assert (Hgo : forall tlc croot, tlcof (status_of s r) = tlc -> fresh (status_of s r) = false ->
                 mark_errored (set_status s r (Evaluated tlc croot (Some e))) rest e = (s', p) -> AI s' /\ ext s s').
      { intros tlc croot Ht Hf Hm.
        assert (HA1 : AI (set_status s r (Evaluated tlc croot (Some e)))).
        { apply AI_set_status; [assumption|reflexivity|discriminate|discriminate]. }
        destruct (IH _ _ _ HA1 Hm) as [H2 E2]. split; [assumption|].
        eapply ext_trans; [|exact E2]. apply ext_set_status. intros _. simpl. auto. }
      destruct (status_of s r) eqn:Er; try (inversion Hp; subst; split; [assumption|apply ext_refl]);
        eapply Hgo; eauto.
  Qed.

  (* structural facts on a normal return: the stack grew by modules that were fresh at entry, and no other module's
     status was touched (m: the module whose request loop is running, or none) *)
  Definition struct_ok (om : option nat) (s : gstate) (stack : list nat) (s' : gstate) (stack' : list nat) : Prop :=
    (exists new, stack' = new ++ stack /\ forall x, In x new -> fresh (status_of s x) = true) /\
    (forall x, fresh (status_of s x) = false -> om <> Some x -> status_of s' x = status_of s x) /\
    (forall m t c a o, om = Some m -> status_of s m = Evaluating t c a o -> exists a', status_of s' m = Evaluating t c a' o).

  Definition rec_ok (rec : rec_t) : Prop :=
    forall s stack idx r s' stack' res, AI s -> rec s stack idx r = (s', stack', res) ->
      AI s' /\ ext s s' /\ (forall i, res = ROk i -> struct_ok None s stack s' stack').

  Lemma ext_fresh_mono : forall a b x, ext a b -> fresh (status_of b x) = true -> fresh (status_of a x) = true.
  Proof.
    intros a b x [_ N] Hb. destruct (fresh (status_of a x)) eqn:F; [reflexivity|]. destruct (N x F). congruence.
  Qed.

  Lemma eval_requests_AI : forall rec, rec_ok rec ->
    forall m reqs s stack idx pend s' stack' res, AI s ->
      eval_requests rec m reqs s stack idx pend = (s', stack', res) ->
      AI s' /\ ext s s' /\ (forall i, res = ROk i -> struct_ok (Some m) s stack s' stack').
  Proof.
    intros rec Hrec m reqs. induction reqs as [|r rest IH]; intros s stack idx pend s' stack' res H He; simpl in He.
    - inversion He; subst. split; [assumption|]. split; [apply ext_refl|]. intros _ _.
      split; [exists []; split; [reflexivity|intros x []]|]. split; [auto|]. intros; subst; eauto.
    - destruct (rec s stack idx r) as [[s1 st1] r1] eqn:E1.
      destruct (Hrec _ _ _ _ _ _ _ H E1) as (H1 & X1 & S1).
      assert (Hbad : forall resx, (forall i, resx <> ROk i) -> (s1, st1, resx) = (s', stack', res) ->
                AI s' /\ ext s s' /\ (forall i, res = ROk i -> struct_ok (Some m) s stack s' stack')).
      { intros resx Hn E. inversion E; subst. split; [assumption|]. split; [assumption|]. intros i Hi. exfalso. eapply Hn; eauto. }
      destruct r1 as [idx1|e1|p1|]; try solve [eapply Hbad; [|exact He]; intros; discriminate].
      destruct (S1 idx1 eq_refl) as ((new1 & Hst1 & Hnew1) & Hkeep1 & _).
      (* continuation with a state that has AI, extends s1, and differs from s1 at most in m's ancestor index *)
      assert (Hcont : forall s2 pend2, AI s2 -> ext s1 s2 ->
                 (forall x, x <> m -> status_of s2 x = status_of s1 x) ->
                 (forall t c a o, status_of s1 m = Evaluating t c a o -> exists a', status_of s2 m = Evaluating t c a' o) ->
                 eval_requests rec m rest s2 st1 idx1 pend2 = (s', stack', res) ->
                 AI s' /\ ext s s' /\ (forall i, res = ROk i -> struct_ok (Some m) s stack s' stack')).
      { intros s2 pend2 H2 X2 Hne2 Hm2 Hr. destruct (IH _ _ _ _ _ _ _ H2 Hr) as (H3 & X3 & S3). split; [assumption|].
        assert (X02 : ext s s2) by (eapply ext_trans; eauto).
        split; [eapply ext_trans; eauto|].
        intros i Hi. destruct (S3 i Hi) as ((new3 & Hst3 & Hnew3) & Hkeep3 & Hm3).
        split; [|split].
        - exists (new3 ++ new1). split; [rewrite Hst3, Hst1, app_assoc; reflexivity|].
          intros x Hx. apply in_app_or in Hx. destruct Hx as [Hx|Hx]; [|auto].
          eapply ext_fresh_mono; [exact X02|auto].
        - intros x Hf Hx. assert (x <> m) by congruence.
          rewrite Hkeep3; [|destruct X02 as [_ N]; apply (N x Hf)|assumption].
          rewrite Hne2 by assumption. apply Hkeep1; [assumption|discriminate].
        - intros m0 t c a o Hm0 Es. inversion Hm0; subst m0.
          assert (Es1 : status_of s1 m = Evaluating t c a o).
          { rewrite Hkeep1; [assumption|rewrite Es; reflexivity|discriminate]. }
          destruct (Hm2 _ _ _ _ Es1) as (a2 & Es2). destruct (Hm3 m t c a2 o eq_refl Es2) as (a3 & Es3). eauto. }
      assert (Hsame : forall s2, (forall x, status_of s2 x = status_of s1 x) ->
                 (forall x, x <> m -> status_of s2 x = status_of s1 x) /\
                 (forall t c a o, status_of s1 m = Evaluating t c a o -> exists a', status_of s2 m = Evaluating t c a' o)).
      { intros s2 Hs. split; [auto|]. intros t c a o E. exists a. rewrite Hs. assumption. }
      assert (Hpush : forall a b, AI (push_aparent s1 a b) /\ ext s1 (push_aparent s1 a b) /\
                                  forall x, status_of (push_aparent s1 a b) x = status_of s1 x).
      { intros a b. unfold push_aparent, set_aparents.
        assert (Hs : forall x, status_of (setm s1 a (mkMs (ms_status (getm s1 a)) (ms_loaded (getm s1 a))
                        (ms_aparents (getm s1 a) ++ [b]) (ms_phase (getm s1 a)) (ms_pend (getm s1 a)))) x = status_of s1 x).
        { intros x. unfold status_of. rewrite getm_setm. destruct (a =? x) eqn:E; [apply Nat.eqb_eq in E; subst|]; reflexivity. }
        split; [|split; [apply ext_same; [reflexivity|exact Hs]|exact Hs]].
        apply (AI_same s1); try reflexivity; [exact Hs| |assumption].
        intros x. unfold pendS. rewrite getm_setm. destruct (a =? x) eqn:E; [apply Nat.eqb_eq in E; subst|]; reflexivity. }
      destruct (status_of s1 r) as [| | | |rt rc ranc raorder|rt croot ro rp|rt croot re] eqn:Er;
        try solve [eapply Hbad; [|exact He]; intros; discriminate].
      + (* Evaluating *)
        destruct (negb (mem r st1)); [eapply Hbad; [|exact He]; intros; discriminate|].
        destruct (status_of s1 m) as [| | | |tlc cr anc ao| |] eqn:Em;
          try solve [eapply Hbad; [|exact He]; intros; discriminate].
        set (s2 := set_status s1 m (Evaluating tlc cr (Nat.min anc ranc) ao)) in *.
        assert (HA2 : AI s2).
        { apply AI_set_status; [assumption|reflexivity|discriminate|].
          intros t c a o E. inversion E; subst. eapply (A_ev _ H1); eauto. }
        assert (XA2 : ext s1 s2) by (apply ext_set_status; intros _; rewrite Em; auto).
        assert (Hne2 : forall x, x <> m -> status_of s2 x = status_of s1 x).
        { intros x Hx. unfold s2. apply status_set_status_neq. auto. }
        assert (Hm2 : forall t c a o, Evaluating tlc cr anc ao = Evaluating t c a o -> exists a', status_of s2 m = Evaluating t c a' o).
        { intros t c a o E. inversion E; subst. unfold s2. rewrite status_set_status_eq. eauto. }
        destruct raorder.
        * assert (H3 : AI (push_aparent s2 r m) /\ ext s2 (push_aparent s2 r m) /\
                       forall x, status_of (push_aparent s2 r m) x = status_of s2 x).
          { unfold push_aparent, set_aparents.
            assert (Hs : forall x, status_of (setm s2 r (mkMs (ms_status (getm s2 r)) (ms_loaded (getm s2 r))
                        (ms_aparents (getm s2 r) ++ [m]) (ms_phase (getm s2 r)) (ms_pend (getm s2 r)))) x = status_of s2 x).
            { intros x. unfold status_of. rewrite getm_setm. destruct (r =? x) eqn:E; [apply Nat.eqb_eq in E; subst|]; reflexivity. }
            split; [|split; [apply ext_same; [reflexivity|exact Hs]|exact Hs]].
            apply (AI_same s2); try reflexivity; [exact Hs| |exact HA2].
            intros x. unfold pendS. rewrite getm_setm. destruct (r =? x) eqn:E; [apply Nat.eqb_eq in E; subst|]; reflexivity. }
          destruct H3 as (HA3 & XA3 & HS3).
          eapply Hcont; [exact HA3|eapply ext_trans; eauto| | |exact He].
          -- intros x Hx. rewrite HS3. auto.
          -- intros t c a o E. destruct (Hm2 _ _ _ _ E) as (a' & E'). exists a'. rewrite HS3. assumption.
        * eapply Hcont; [exact HA2|exact XA2|exact Hne2|exact Hm2|exact He].
      + (* EvaluatingAsync *)
        destruct (status_of s1 croot) as [| | | | |? ? ? ?|? ? e0] eqn:Ec;
          try solve [eapply Hbad; [|exact He]; intros; discriminate].
        * destruct (Hpush croot m) as (HA & XA & HS). destruct (Hsame _ HS). eapply Hcont; eauto.
        * destruct e0; [eapply Hbad; [|exact He]; intros; discriminate|].
          destruct (Hsame s1 (fun x => eq_refl)). eapply Hcont; eauto. apply ext_refl.
      + (* Evaluated *)
        destruct (status_of s1 croot) as [| | | | |? ? ? ?|? ? e0] eqn:Ec;
          try solve [eapply Hbad; [|exact He]; intros; discriminate].
        * destruct (Hpush croot m) as (HA & XA & HS). destruct (Hsame _ HS). eapply Hcont; eauto.
        * destruct e0; [eapply Hbad; [|exact He]; intros; discriminate|].
          destruct (Hsame s1 (fun x => eq_refl)). eapply Hcont; eauto. apply ext_refl.
  Qed.
End Walk.

From C17 Require Import PInv_C17 PEval_C17.

Section Walk2.
  Variable cf : cfg.
  Hypothesis Hown : cf_own_pending cf = true.
  Variable g : graph.

  Lemma pop_scc_struct : forall m pend stack s s' st' p, pop_scc cf m pend s stack = (s', st', p) ->
    slog s' = slog s /\
    exists pre, stack = pre ++ st' /\ (forall x, ~ In x pre -> status_of s' x = status_of s x) /\
      ((pre = [] /\ p <> None) \/ exists seg last, pre = seg ++ [last] /\ ~ In m seg /\ (p = None -> last = m)).
  Proof.
    intros m pend stack. induction stack as [|r rest IH]; intros s s' st' p Hp; simpl in Hp.
    - inversion Hp; subst. split; [reflexivity|]. exists []. split; [reflexivity|]. split; [auto|]. left. split; [reflexivity|discriminate].
    - destruct (status_of s r) as [| | | |tlc croot anc aorder| |] eqn:Er;
        try solve [inversion Hp; subst; split; [reflexivity|]; exists [r]; split; [reflexivity|]; split; [auto|];
                   right; exists [], r; split; [reflexivity|]; split; [intros []|discriminate]].
      set (s1 := match aorder with
                 | Some o => set_status s r (EvaluatingAsync tlc (if r =? m then croot else m) o
                                               (if cf_own_pending cf then ms_pend (getm s r) else pend))
                 | None => set_status s r (Evaluated tlc (if r =? m then croot else m) None) end) in *.
      assert (Hs1 : forall x, x <> r -> status_of s1 x = status_of s x).
      { intros x Hx. unfold s1. destruct aorder; apply status_set_status_neq; auto. }
      assert (Hl1 : slog s1 = slog s) by (unfold s1; destruct aorder; reflexivity).
      destruct (r =? m) eqn:Erm.
      + apply Nat.eqb_eq in Erm. subst r. inversion Hp; subst. split; [assumption|]. exists [m]. split; [reflexivity|]. split.
        * intros x Hx. apply Hs1. intro; subst; apply Hx; simpl; auto.
        * right. exists [], m. split; [reflexivity|]. split; [intros []|reflexivity].
      + apply Nat.eqb_neq in Erm. destruct (IH _ _ _ _ Hp) as (Hl & pre & Hst & Hk & Hn).
        split; [congruence|].
        exists (r :: pre). split; [simpl; rewrite Hst; reflexivity|]. split.
        * intros x Hx. rewrite Hk by (intro; apply Hx; simpl; auto). apply Hs1. intro; subst; apply Hx; simpl; auto.
        * right. destruct Hn as [[-> Hpn]|(seg & last & -> & Hm & Hlast)].
          -- exists [], r. split; [reflexivity|]. split; [intros []|]. intros Hc. contradiction.
          -- exists (r :: seg), last. split; [reflexivity|]. split; [|assumption].
             intros [Hc|Hc]; [congruence|contradiction].
  Qed.

  Lemma prefix_upto : forall (seg : list nat) last st4 new m stack,
    seg ++ last :: st4 = new ++ m :: stack -> ~ In m seg -> ~ In m new ->
    (forall x, In x (seg ++ [last]) -> In x (new ++ [m])) /\ (last = m -> st4 = stack).
  Proof.
    induction seg as [|b seg IH]; intros last st4 new m stack E Hs Hn.
    - destruct new as [|a new]; simpl in E; inversion E; subst.
      + split; [intros x [<-|[]]; simpl; auto|auto].
      + split; [intros x [<-|[]]; simpl; auto|]. intros ->. exfalso. apply Hn. simpl; auto.
    - destruct new as [|a new]; simpl in E; inversion E; subst.
      + exfalso. apply Hs. simpl; auto.
      + destruct (IH last st4 new m stack H1) as [H2 H3].
        * intro; apply Hs; simpl; auto.
        * intro; apply Hn; simpl; auto.
        * split; [|assumption]. intros x [<-|Hx]; [simpl; auto|]. right. apply H2. assumption.
  Qed.

  Definition ie_ok (f : nat) : Prop :=
    forall cap s stack idx m s' stack' res, AI s -> inner_evaluate cf f g cap s stack idx m = (s', stack', res) ->
      AI s' /\ ext s s' /\ (forall i, res = ROk i -> struct_ok None s stack s' stack') /\
      (res <> RFuel -> forall a, status_of s m = Linked a ->
         fresh (status_of s' m) = false /\ tlcof (status_of s' m) = cap).

  Lemma ext_not_started : forall a b x, ext a b -> fresh (status_of a x) = false ->
    (started b x -> started a x) /\ (ended b x -> ended a x).
  Proof.
    intros a b x [(l & Hl & He) _] Hf. unfold started, ended. rewrite Hl.
    split; intros Hin; apply in_app_or in Hin; (destruct Hin as [Hin|Hin]; [assumption|]);
      apply He in Hin; simpl in Hin; congruence.
  Qed.

  Lemma struct_none_refl : forall s stack, struct_ok None s stack s stack.
  Proof.
    intros. split; [exists []; split; [reflexivity|intros x []]|]. split; [auto|]. intros; discriminate.
  Qed.

  Lemma ie_ok_all : forall f, ie_ok f.
  Proof.
    induction f as [|f IH]; intros cap s stack idx m s' stack' res H Hie.
    { simpl in Hie. inversion Hie; subst. split; [assumption|]. split; [apply ext_refl|]. split; [intros; discriminate|].
      intros Hc. exfalso. apply Hc. reflexivity. }
    rewrite inner_evaluate_S in Hie.
    assert (Himm : forall resx, (s, stack, resx) = (s', stack', res) -> fresh (status_of s m) = false ->
              AI s' /\ ext s s' /\ (forall i, res = ROk i -> struct_ok None s stack s' stack') /\
              (res <> RFuel -> forall a, status_of s m = Linked a ->
                 fresh (status_of s' m) = false /\ tlcof (status_of s' m) = cap)).
    { intros resx E Hf. inversion E; subst. split; [assumption|]. split; [apply ext_refl|].
      split; [intros; apply struct_none_refl|]. intros _ a Ea. rewrite Ea in Hf. discriminate. }
    destruct (status_of s m) as [| | |la|? ? ? ?|? ? ? ?|? ? em] eqn:Em;
      try solve [eapply Himm; [exact Hie|reflexivity]];
      try solve [destruct em; eapply Himm; [exact Hie|reflexivity]];
      try solve [inversion Hie; subst; split; [assumption|]; split; [apply ext_refl|]; split; [intros; discriminate|];
                 intros _ a Ea; discriminate].
    (* Linked *)
    cbv zeta in Hie.
    set (s1 := set_status s m (Evaluating cap m idx None)) in *.
    assert (HA1 : AI s1) by (apply AI_set_status; [assumption|reflexivity|discriminate|discriminate]).
    assert (X1 : ext s s1) by (apply ext_set_status; rewrite Em; discriminate).
    assert (Hns : ~ started s m).
    { intro Hs. apply (A_fresh _ H) in Hs. rewrite Em in Hs. discriminate. }
    assert (Em1 : status_of s1 m = Evaluating cap m idx None) by (unfold s1; apply status_set_status_eq).
    assert (Hne1 : forall x, x <> m -> status_of s1 x = status_of s x).
    { intros x Hx. unfold s1. apply status_set_status_neq. auto. }
    assert (Hrec : rec_ok (fun s st i r => inner_evaluate cf f g None s st i r)).
    { intros s0 st0 i0 r0 s0' st0' res0 H0 E0. destruct (IH None _ _ _ _ _ _ _ H0 E0) as (A & B & C & _). auto. }
    destruct (eval_requests (fun s st i r => inner_evaluate cf f g None s st i r) m (requests g m) s1 (m :: stack) (S idx) 0)
      as [[s2 st2] r2] eqn:Eloop.
    destruct (eval_requests_AI _ Hrec m (requests g m) s1 (m :: stack) (S idx) 0 s2 st2 r2 HA1 Eloop) as (HA2 & X2 & S2).
    assert (X02 : ext s s2) by (eapply ext_trans; eauto).
    assert (Hm2f : fresh (status_of s2 m) = false /\ tlcof (status_of s2 m) = cap).
    { destruct X2 as [_ N]. destruct (N m) as [F T]; [rewrite Em1; reflexivity|]. rewrite Em1 in T. auto. }
    (* whatever happens from here on: m stays evaluated-ish with its capability *)
    assert (Hfin : forall s3, AI s3 -> ext s2 s3 ->
              AI s3 /\ ext s s3 /\
              (res <> RFuel -> forall a, Linked la = Linked a -> fresh (status_of s3 m) = false /\ tlcof (status_of s3 m) = cap)).
    { intros s3 H3 X3. split; [assumption|]. split; [eapply ext_trans; eauto|]. intros _ a _.
      destruct X3 as [_ N]. destruct (N m (proj1 Hm2f)) as [F T]. split; [assumption|]. rewrite T. apply Hm2f. }
    assert (Hbad : forall s3 st3 resx, (forall i, resx <> ROk i) -> AI s3 -> ext s2 s3 -> (s3, st3, resx) = (s', stack', res) ->
              AI s' /\ ext s s' /\ (forall i, res = ROk i -> struct_ok None s stack s' stack') /\
              (res <> RFuel -> forall a, Linked la = Linked a -> fresh (status_of s' m) = false /\ tlcof (status_of s' m) = cap)).
    { intros s3 st3 resx Hn H3 X3 E. inversion E; subst. destruct (Hfin s' H3 X3) as (A & B & C).
      split; [assumption|]. split; [assumption|]. split; [|assumption]. intros i Hi. exfalso. eapply Hn; eauto. }
    destruct r2 as [[idx2 pend]|e2|p2|]; try solve [eapply (Hbad s2 st2); [| |apply ext_refl|exact Hie]; [intros; discriminate|assumption]].
    destruct (S2 _ eq_refl) as ((new & Hst2 & Hnew) & Hkeep2 & Hm2).
    destruct (Hm2 m _ _ _ _ eq_refl Em1) as (anc2 & Em2).
    assert (Hns2 : ~ started s2 m).
    { intro Hs. apply Hns. apply (ext_not_started s1 s2 m X2) in Hs; [|rewrite Em1; reflexivity]. exact Hs. }
    (* Q: what holds of every state from here on *)
    set (Q := fun sx : gstate => AI sx /\ ext s sx /\
                (forall x, fresh (status_of s x) = false -> status_of sx x = status_of s x) /\
                (forall x, In x new -> fresh (status_of s x) = true) /\
                tlcof (status_of sx m) = cap /\ fresh (status_of sx m) = false).
    assert (Hnew0 : forall x, In x new -> fresh (status_of s x) = true).
    { intros x Hx. eapply ext_fresh_mono; [exact X1|auto]. }
    assert (Q2 : Q s2).
    { split; [assumption|]. split; [assumption|]. split; [|split; [assumption|split; apply Hm2f]].
      intros x Hf. assert (x <> m) by (intro; subst; rewrite Em in Hf; discriminate).
      rewrite Hkeep2; [apply Hne1; assumption|rewrite Hne1 by assumption; assumption|congruence]. }
    assert (Qstep : forall sa sb l, Q sa -> AI sb -> slog sb = slog sa ++ l -> (forall e, In e l -> ev_mod e = m) ->
              (forall x, fresh (status_of s x) = false -> status_of sb x = status_of sa x) ->
              tlcof (status_of sb m) = cap -> fresh (status_of sb m) = false -> Q sb).
    { intros sa sb l (A & (B1 & B2) & C & D & E & F) HAb Hl Hev Hst Ht Hf.
      split; [assumption|]. split; [|split; [|split; [assumption|split; assumption]]].
      - split.
        + destruct B1 as (l0 & Hl0 & He0). exists (l0 ++ l). split; [rewrite Hl, Hl0, app_assoc; reflexivity|].
          intros e He. apply in_app_or in He. destruct He as [He|He]; [auto|]. rewrite (Hev e He), Em. reflexivity.
        + intros x Hx. rewrite Hst by assumption. apply B2. assumption.
      - intros x Hx. rewrite Hst by assumption. apply C. assumption. }
    assert (Qfin : forall sx stx resx, Q sx -> (forall i, resx = ROk i -> exists nw, stx = nw ++ stack /\ forall x, In x nw -> fresh (status_of s x) = true) ->
              (sx, stx, resx) = (s', stack', res) ->
              AI s' /\ ext s s' /\ (forall i, res = ROk i -> struct_ok None s stack s' stack') /\
              (res <> RFuel -> forall a, Linked la = Linked a -> fresh (status_of s' m) = false /\ tlcof (status_of s' m) = cap)).
    { intros sx stx resx (A & B & C & D & E & F) Hstk Heq. inversion Heq; subst.
      split; [assumption|]. split; [assumption|]. split; [|intros; auto].
      intros i Hi. split; [apply (Hstk i Hi)|]. split; [intros x Hx _; apply C; assumption|intros; discriminate]. }
    rewrite Hown in Hie.
    set (sp := set_pend s2 m pend) in *.
    assert (Hsp : forall x, status_of sp x = status_of s2 x) by (intros; apply status_set_pend).
    assert (Qp : Q sp).
    { apply (Qstep s2 sp []); auto.
      - apply AI_set_pend; [assumption|intros; assumption].
      - rewrite app_nil_r. reflexivity.
      - intros e [].
      - rewrite Hsp. apply Hm2f.
      - rewrite Hsp. apply Hm2f. }
    assert (Hnsp : ~ started sp m) by exact Hns2.
    assert (Hpp : pendS sp m = pend) by (unfold sp; rewrite pendS_set_pend, Nat.eqb_refl; reflexivity).
    assert (Emp : status_of sp m = Evaluating cap m anc2 None) by (rewrite Hsp; assumption).
    assert (Hmnew : ~ In m new).
    { intro Hin. apply Hnew in Hin. rewrite Em1 in Hin. discriminate. }
    (* after the execution step *)
    assert (Hafter : forall se, Q se -> (exists ao, status_of se m = Evaluating cap m anc2 ao) ->
              match status_of se m with
              | Evaluating _ _ anc _ =>
                  if idx <? anc then (se, st2, RPanic (POther 42))
                  else if anc =? idx then
                    match pop_scc cf m pend se st2 with
                    | (s, stack, None) => (s, stack, ROk idx2)
                    | (s, stack, Some p) => (s, stack, RPanic p)
                    end
                  else (se, st2, ROk idx2)
              | _ => (se, st2, RPanic (POther 43))
              end = (s', stack', res) ->
              AI s' /\ ext s s' /\ (forall i, res = ROk i -> struct_ok None s stack s' stack') /\
              (res <> RFuel -> forall a, Linked la = Linked a -> fresh (status_of s' m) = false /\ tlcof (status_of s' m) = cap)).
    { intros se Qe (ao & Eme) Hr. rewrite Eme in Hr.
      destruct (idx <? anc2); [eapply Qfin; [exact Qe| |exact Hr]; intros; discriminate|].
      destruct (anc2 =? idx).
      - destruct (pop_scc cf m pend se st2) as [[s4 st4] p4] eqn:Epop.
        pose proof Qe as (Ae & Be & Ce & De & Ee & Fe).
        destruct (pop_scc_AI cf Hown m pend st2 se s4 st4 p4 Ae Epop) as (A4 & X4 & P4).
        destruct (pop_scc_struct m pend st2 se s4 st4 p4 Epop) as (Hl4 & pre & Hpre & Hk4 & Hn4).
        assert (Hprefix : (forall x, In x pre -> In x (new ++ [m])) /\ (p4 = None -> st4 = stack)).
        { destruct Hn4 as [[-> Hpn]|(seg & last & -> & Hseg & Hlast)].
          - split; [intros x []|intros Hc; contradiction].
          - rewrite Hst2 in Hpre. rewrite <- app_assoc in Hpre. simpl in Hpre. symmetry in Hpre.
            destruct (prefix_upto seg last st4 new m stack Hpre Hseg Hmnew) as [H1 H2]. split; [assumption|].
            intros Hp4. apply H2. apply Hlast. assumption. }
        destruct Hprefix as [Hpre1 Hpre2].
        assert (Q4 : Q s4).
        { apply (Qstep se s4 []); auto.
          - rewrite app_nil_r. assumption.
          - intros e [].
          - intros x Hx. apply Hk4. intro Hin. apply Hpre1 in Hin. rewrite in_snoc in Hin.
            destruct Hin as [Hin| ->]; [apply Hnew0 in Hin; congruence|rewrite Em in Hx; discriminate].
          - destruct X4 as [_ N]. destruct (N m Fe) as [_ T]. rewrite T. assumption.
          - destruct X4 as [_ N]. apply (N m Fe). }
        destruct p4 as [pp|].
        + eapply Qfin; [exact Q4| |exact Hr]. intros; discriminate.
        + eapply Qfin; [exact Q4| |exact Hr]. intros i _. exists []. split; [rewrite (Hpre2 eq_refl); reflexivity|intros x []].
      - eapply Qfin; [exact Qe| |exact Hr]. intros i _. exists (new ++ [m]). split; [rewrite Hst2, <- app_assoc; reflexivity|].
        intros x Hx. rewrite in_snoc in Hx. destruct Hx as [Hx| ->]; [apply Hnew0; assumption|rewrite Em; reflexivity]. }
    (* the two ways of executing *)
    destruct ((0 <? pend) || has_tla g m) eqn:Ebr.
    - rewrite Emp in Hie.
      set (s3 := incr_acount (set_status sp m (Evaluating cap m anc2 (Some (gs_acount sp))))) in *.
      assert (Hs3 : forall x, status_of s3 x = status_of (set_status sp m (Evaluating cap m anc2 (Some (gs_acount sp)))) x) by reflexivity.
      assert (Em3 : status_of s3 m = Evaluating cap m anc2 (Some (gs_acount sp))) by (rewrite Hs3; apply status_set_status_eq).
      assert (HA3 : AI s3).
      { apply (AI_same (set_status sp m (Evaluating cap m anc2 (Some (gs_acount sp))))); try reflexivity.
        apply AI_set_status; [apply Qp|reflexivity|discriminate|intros; assumption]. }
      assert (Q3 : Q s3).
      { apply (Qstep sp s3 []); auto.
        - rewrite app_nil_r. reflexivity.
        - intros e [].
        - intros x Hx. rewrite Hs3. apply status_set_status_neq. intro Hc. rewrite <- Hc in Hx. rewrite Em in Hx. discriminate.
        - rewrite Em3. reflexivity.
        - rewrite Em3. reflexivity. }
      destruct (pend =? 0) eqn:Ep0.
      + apply Nat.eqb_eq in Ep0.
        destruct (execute_async g s3 m) as [se re] eqn:Eex.
        assert (Hstb : startable s3 m).
        { split; [exact Hnsp|]. split; [rewrite Em3; reflexivity|]. split; [intros t c o p; rewrite Em3; discriminate|].
          intros t c a o _. change (pendS (set_status sp m (Evaluating cap m anc2 (Some (gs_acount sp)))) m = 0).
          rewrite pendS_set_status, Hpp. assumption. }
        destruct (execute_async_AI g s3 m se re HA3 Hstb Eex) as (HAe & (Hse & Hpe & le & Hle & Heve)).
        assert (Qe : Q se).
        { apply (Qstep s3 se le); auto.
          - rewrite Hse, Em3. reflexivity.
          - rewrite Hse, Em3. reflexivity. }
        destruct re as [u|e|p|]; try solve [eapply Qfin; [exact Qe| |exact Hie]; intros; discriminate].
        apply (Hafter se Qe); [exists (Some (gs_acount sp)); rewrite Hse; exact Em3|exact Hie].
      + apply (Hafter s3 Q3); [eauto|exact Hie].
    - rewrite orb_false_iff in Ebr. destruct Ebr as [Ep0 _]. apply Nat.ltb_ge in Ep0.
      destruct (execute_sync g sp m) as [se re] eqn:Eex.
      assert (Hstb : startable sp m).
      { split; [exact Hnsp|]. split; [rewrite Emp; reflexivity|]. split; [intros t c o p; rewrite Emp; discriminate|].
        intros t c a o E. rewrite Emp in E. discriminate. }
      destruct (execute_sync_AI g sp m se re (proj1 Qp) Hstb Eex) as (HAe & (Hse & Hpe & le & Hle & Heve)).
      assert (Qe : Q se).
      { apply (Qstep sp se le); auto.
        - rewrite Hse, Emp. reflexivity.
        - rewrite Hse, Emp. reflexivity. }
      destruct re as [u|e|p|]; try solve [eapply Qfin; [exact Qe| |exact Hie]; intros; discriminate].
      apply (Hafter se Qe); [exists None; rewrite Hse; exact Emp|exact Hie].
    - (* Evaluated *)
      destruct em; simpl in Hie; (eapply Himm; [exact Hie|reflexivity]).
  Qed.
End Walk2.
