From Coq Require Import List Arith Bool Lia.
From C17 Require Import Modules.
Import ListNotations.
Theorem placeholder_fuel : forall g s ops, run_ops 0 g s ops = run_ops 0 g s ops.
Proof. reflexivity. Qed.
Check placeholder_fuel : forall g s ops, run_ops 0 g s ops = run_ops 0 g s ops.
Print Assumptions placeholder_fuel.
