(* C17 — property theorems (pinned).  Model: Modules.v (transliteration of boa's module/source.rs);
   vocabulary: Spec_C17.v.  All statements are about `evaluate` = SourceTextModule::evaluate on graphs without
   top-level await (`sync g`), for every graph (any number of modules, cycles, self-imports, shared dependencies,
   throwing bodies), every entry module, and every state `Ready g s` between two evaluations (what linking
   establishes, theorem ready_preserved shows every evaluation re-establishes it: so they hold after any number of
   evaluations, theorem ready_after_any_sequence).  `length g < fuel` is the explicit fuel bound: the fuel of the
   model only has to exceed the number of modules.  `cf` selects the current or the repaired variant of the two
   asynchronous deviations (Modules.cfg): every theorem holds for both. *)
From Coq Require Import List Arith Bool Lia.
From C17 Require Import Modules Spec_C17 Proofs_C17.
From C17 Require Import DeepAsync_C17 DeepJobs_C17 DeepThm_C17.
Import ListNotations.

(* Evaluate() on a synchronous graph never panics (no Rust assert!/unreachable!/expect fires), never runs out of
   fuel, and returns a promise *)
Theorem evaluate_sync_total : forall cf g fuel s m s' r,
  sync g -> Ready g s -> evaluable (status_of s m) = true -> length g < fuel ->
  evaluate cf fuel g s m = (s', r) -> exists c, r = ROk c.
Proof. exact L_total. Qed.
Check evaluate_sync_total : forall cf g fuel s m s' r,
  sync g -> Ready g s -> evaluable (status_of s m) = true -> length g < fuel ->
  evaluate cf fuel g s m = (s', r) -> exists c, r = ROk c.
Print Assumptions evaluate_sync_total.

(* the between-evaluations invariant is re-established, linked modules stay evaluable *)
Theorem ready_preserved : forall cf g fuel s m s' r,
  sync g -> Ready g s -> evaluable (status_of s m) = true -> length g < fuel ->
  evaluate cf fuel g s m = (s', r) ->
  Ready g s' /\ forall x, evaluable (status_of s x) = true -> evaluable (status_of s' x) = true.
Proof. exact L_ready. Qed.
Check ready_preserved : forall cf g fuel s m s' r,
  sync g -> Ready g s -> evaluable (status_of s m) = true -> length g < fuel ->
  evaluate cf fuel g s m = (s', r) ->
  Ready g s' /\ forall x, evaluable (status_of s x) = true -> evaluable (status_of s' x) = true.
Print Assumptions ready_preserved.

Theorem ready_after_any_sequence : forall cf g fuel, sync g -> length g < fuel -> forall ms s,
  Ready g s -> (forall m, In m ms -> evaluable (status_of s m) = true) ->
  Ready g (eval_seq cf fuel g s ms).
Proof. exact L_seq. Qed.
Check ready_after_any_sequence : forall cf g fuel, sync g -> length g < fuel -> forall ms s,
  Ready g s -> (forall m, In m ms -> evaluable (status_of s m) = true) ->
  Ready g (eval_seq cf fuel g s ms).
Print Assumptions ready_after_any_sequence.

(* each body starts at most once and ends at most once — over the whole history (Ready carries the log) *)
Theorem each_body_at_most_once : forall cf g fuel s m s' r,
  sync g -> Ready g s -> evaluable (status_of s m) = true -> length g < fuel ->
  evaluate cf fuel g s m = (s', r) -> NoDup (slog s').
Proof. exact L_once. Qed.
Check each_body_at_most_once : forall cf g fuel s m s' r,
  sync g -> Ready g s -> evaluable (status_of s m) = true -> length g < fuel ->
  evaluate cf fuel g s m = (s', r) -> NoDup (slog s').
Print Assumptions each_body_at_most_once.

(* a body starts only after every non-cyclic dependency has ended *)
Theorem deps_first : forall cf g fuel s m s' r,
  sync g -> Ready g s -> evaluable (status_of s m) = true -> length g < fuel ->
  evaluate cf fuel g s m = (s', r) ->
  forall l1 x l2 d, slog s' = l1 ++ RStart x :: l2 -> ncdep g x d -> In (REnd d) l1.
Proof. exact L_deps_first. Qed.
Check deps_first : forall cf g fuel s m s' r,
  sync g -> Ready g s -> evaluable (status_of s m) = true -> length g < fuel ->
  evaluate cf fuel g s m = (s', r) ->
  forall l1 x l2 d, slog s' = l1 ++ RStart x :: l2 -> ncdep g x d -> In (REnd d) l1.
Print Assumptions deps_first.

(* the bodies run in the specification's depth-first post-order, and the recorded outcome is the walk's result *)
Theorem order_is_dfs_postorder : forall cf g fuel s m s' r,
  sync g -> Ready g s -> evaluable (status_of s m) = true -> length g < fuel ->
  evaluate cf fuel g s m = (s', r) ->
  forall vis, represents s vis ->
  exists vis' l thr, dfs g (badf s) vis m vis' l thr /\ slog s' = slog s ++ l /\ represents s' vis' /\
    recorded s' m = Some (option_map EThrow thr).
Proof. exact L_order. Qed.
Check order_is_dfs_postorder : forall cf g fuel s m s' r,
  sync g -> Ready g s -> evaluable (status_of s m) = true -> length g < fuel ->
  evaluate cf fuel g s m = (s', r) ->
  forall vis, represents s vis ->
  exists vis' l thr, dfs g (badf s) vis m vis' l thr /\ slog s' = slog s ++ l /\ represents s' vis' /\
    recorded s' m = Some (option_map EThrow thr).
Print Assumptions order_is_dfs_postorder.

(* an error rejects exactly the dependents: the entry is rejected iff it can reach a throwing module; a recorded
   error is the throw of a module the rejected module depends on (whose body started and never ended); a module
   recorded as fulfilled has its whole dependency closure fulfilled and ended *)
Theorem error_rejects_exactly_dependents : forall cf g fuel s m s' r,
  sync g -> Ready g s -> evaluable (status_of s m) = true -> length g < fuel ->
  evaluate cf fuel g s m = (s', r) ->
  exists e, recorded s' m = Some e /\
    (e = None <-> forall d, reach g m d -> throws g d = false) /\
    (forall x err, recorded s' x = Some (Some err) ->
       exists t, err = EThrow t /\ throws g t = true /\ reach g x t /\
                 In (RStart t) (slog s') /\ ~ In (REnd t) (slog s')) /\
    (forall x, recorded s' x = Some None ->
       forall d, reach g x d -> recorded s' d = Some None /\ In (REnd d) (slog s')).
Proof. exact L_errors. Qed.
Check error_rejects_exactly_dependents : forall cf g fuel s m s' r,
  sync g -> Ready g s -> evaluable (status_of s m) = true -> length g < fuel ->
  evaluate cf fuel g s m = (s', r) ->
  exists e, recorded s' m = Some e /\
    (e = None <-> forall d, reach g m d -> throws g d = false) /\
    (forall x err, recorded s' x = Some (Some err) ->
       exists t, err = EThrow t /\ throws g t = true /\ reach g x t /\
                 In (RStart t) (slog s') /\ ~ In (REnd t) (slog s')) /\
    (forall x, recorded s' x = Some None ->
       forall d, reach g x d -> recorded s' d = Some None /\ In (REnd d) (slog s')).
Print Assumptions error_rejects_exactly_dependents.

(* the promise returned for a module without its own capability is fresh and settled with the recorded outcome *)
Theorem promise_is_recorded_outcome : forall cf g fuel s m s' r,
  sync g -> Ready g s -> evaluable (status_of s m) = true -> length g < fuel ->
  evaluate cf fuel g s m = (s', r) ->
  forall c, r = ROk c -> tlc_of (status_of s m) = None ->
  exists e, recorded s' m = Some e /\ promise_state s' c = outcome_of e /\ c = length (gs_proms s).
Proof. exact L_outcome. Qed.
Check promise_is_recorded_outcome : forall cf g fuel s m s' r,
  sync g -> Ready g s -> evaluable (status_of s m) = true -> length g < fuel ->
  evaluate cf fuel g s m = (s', r) ->
  forall c, r = ROk c -> tlc_of (status_of s m) = None ->
  exists e, recorded s' m = Some e /\ promise_state s' c = outcome_of e /\ c = length (gs_proms s).
Print Assumptions promise_is_recorded_outcome.

(* evaluating an entry module again returns the same promise and changes nothing at all *)
Theorem evaluate_idempotent : forall cf g fuel s m s' r,
  sync g -> Ready g s -> evaluable (status_of s m) = true -> length g < fuel ->
  evaluate cf fuel g s m = (s', r) ->
  forall a, status_of s m = Linked a -> evaluate cf fuel g s' m = (s', r).
Proof. exact L_idempotent_first. Qed.
Check evaluate_idempotent : forall cf g fuel s m s' r,
  sync g -> Ready g s -> evaluable (status_of s m) = true -> length g < fuel ->
  evaluate cf fuel g s m = (s', r) ->
  forall a, status_of s m = Linked a -> evaluate cf fuel g s' m = (s', r).
Print Assumptions evaluate_idempotent.

(* evaluating any already evaluated module (entry or dependency): no body runs, no status changes, nothing is
   loaded; the promise is the module's own one, or a fresh one settled with the recorded outcome *)
Theorem evaluate_returns_recorded_outcome : forall cf g fuel s m s' r tl cr e,
  sync g -> Ready g s -> status_of s m = Evaluated tl cr e -> length g < fuel ->
  evaluate cf fuel g s m = (s', r) ->
  slog s' = slog s /\ (forall x, status_of s' x = status_of s x) /\ gs_loads s' = gs_loads s /\
  exists c, r = ROk c /\ (tl = None -> promise_state s' c = outcome_of e) /\
            (forall c0, tl = Some c0 -> c = c0 /\ s' = s).
Proof. exact L_recorded. Qed.
Check evaluate_returns_recorded_outcome : forall cf g fuel s m s' r tl cr e,
  sync g -> Ready g s -> status_of s m = Evaluated tl cr e -> length g < fuel ->
  evaluate cf fuel g s m = (s', r) ->
  slog s' = slog s /\ (forall x, status_of s' x = status_of s x) /\ gs_loads s' = gs_loads s /\
  exists c, r = ROk c /\ (tl = None -> promise_state s' c = outcome_of e) /\
            (forall c0, tl = Some c0 -> c = c0 /\ s' = s).
Print Assumptions evaluate_returns_recorded_outcome.

(* Link() then Evaluate(), for any list of entry modules, starting from the engine's initial state (every module
   unlinked, nothing logged): nothing ever panics or runs out of fuel, every step ends with a promise, the final state is
   Ready (so every theorem above applies to every intermediate evaluation) and each entry's recorded outcome is
   "rejected iff it reaches a throwing module". *)
Theorem link_evaluate_any_sequence : forall cf g fuel, sync g -> nolinkerr g -> wf g -> length g < fuel ->
  forall ms s s' ok, Ready g s -> settled s -> (forall m, In m ms -> m < length g) ->
  link_evaluate_seq cf fuel g s ms = (s', ok) -> ok = true /\ Ready g s' /\ settled s'.
Proof. exact link_evaluate_seq_spec. Qed.
Check link_evaluate_any_sequence : forall cf g fuel, sync g -> nolinkerr g -> wf g -> length g < fuel ->
  forall ms s s' ok, Ready g s -> settled s -> (forall m, In m ms -> m < length g) ->
  link_evaluate_seq cf fuel g s ms = (s', ok) -> ok = true /\ Ready g s' /\ settled s'.
Print Assumptions link_evaluate_any_sequence.

Theorem link_evaluate_outcome : forall cf g fuel s m s' o,
  sync g -> nolinkerr g -> wf g -> Ready g s -> settled s -> m < length g -> length g < fuel ->
  link_evaluate cf fuel g s m = (s', o) ->
  Ready g s' /\ settled s' /\ exists c e, o = Some c /\ recorded s' m = Some e /\
    (e = None <-> forall d, reach g m d -> throws g d = false).
Proof. exact link_evaluate_spec. Qed.
Check link_evaluate_outcome : forall cf g fuel s m s' o,
  sync g -> nolinkerr g -> wf g -> Ready g s -> settled s -> m < length g -> length g < fuel ->
  link_evaluate cf fuel g s m = (s', o) ->
  Ready g s' /\ settled s' /\ exists c e, o = Some c /\ recorded s' m = Some e /\
    (e = None <-> forall d, reach g m d -> throws g d = false).
Print Assumptions link_evaluate_outcome.

Theorem initial_state_ready : forall g, Ready g gs0 /\ settled gs0.
Proof. exact Ready_gs0. Qed.
Check initial_state_ready : forall g, Ready g gs0 /\ settled gs0.
Print Assumptions initial_state_ready.

(* LoadRequestedModules (any graph, also with top-level await; LInv in PLoad_C17.v): in the loader call log every
   call is an edge of the graph, no resolvable (referrer, specifier) pair occurs twice, and every resolved pair is
   recorded in the referrer's [[LoadedModules]].  Holds initially and is preserved by every load operation, however it
   ends (fulfilled, rejected by a missing module, out of fuel).  Not proved: that linking and evaluation leave the
   loader log and [[LoadedModules]] alone (only `load_job` touches them in Modules.v). *)
Theorem loaded_once : forall g fuel s m s' r, LInv g s -> load fuel g s m = (s', r) -> LInv g s'.
Proof. exact load_spec. Qed.
Check loaded_once : forall g fuel s m s' r, LInv g s -> load fuel g s m = (s', r) -> LInv g s'.
Print Assumptions loaded_once.

Theorem loaded_once_initially : forall g, LInv g gs0.
Proof. exact LInv_gs0. Qed.
Check loaded_once_initially : forall g, LInv g gs0.
Print Assumptions loaded_once_initially.

(* Link() establishes the hypothesis of the evaluation theorems: on a graph whose modules all resolve their imports
   (`nolinkerr`: InitializeEnvironment never throws) and whose requests name existing modules (`wf`), from a Ready state
   in which no module is in the middle of linking (`settled`), Link() of any module m never panics, needs only
   fuel > |modules|, leaves a settled Ready state in which m can be evaluated, logs nothing and leaves every module
   that was already linked or evaluated untouched.  (The Rust's extra PreLinked state — DEVIATION 4 of Modules.v — only
   matters when InitializeEnvironment throws: findings link-error-*.) *)
Theorem link_establishes_ready : forall g, nolinkerr g -> wf g -> forall fuel s m s' r,
  Ready g s -> settled s -> m < length g -> length g < fuel -> link fuel g s m = (s', r) ->
  r = ROk tt /\ Ready g s' /\ settled s' /\ evaluable (status_of s' m) = true /\
  gs_log s' = gs_log s /\ same_aux s s' /\
  (forall x, nonun (status_of s x) = true -> status_of s' x = status_of s x).
Proof. exact link_spec. Qed.
Check link_establishes_ready : forall g, nolinkerr g -> wf g -> forall fuel s m s' r,
  Ready g s -> settled s -> m < length g -> length g < fuel -> link fuel g s m = (s', r) ->
  r = ROk tt /\ Ready g s' /\ settled s' /\ evaluable (status_of s' m) = true /\
  gs_log s' = gs_log s /\ same_aux s s' /\
  (forall x, nonun (status_of s x) = true -> status_of s' x = status_of s x).
Print Assumptions link_establishes_ready.

(* the hypotheses are satisfiable: for every graph whose requests name existing modules, the state in which every
   module is linked and nothing has run is Ready; the driver's fuel is large enough *)
Theorem ready_all_linked : forall g, (forall x r, x < length g -> In r (requests g x) -> r < length g) ->
  Ready g (all_linked g).
Proof. exact Ready_all_linked. Qed.
Check ready_all_linked : forall g, (forall x r, x < length g -> In r (requests g x) -> r < length g) ->
  Ready g (all_linked g).
Print Assumptions ready_all_linked.

Theorem default_fuel_enough : forall g, length g < default_fuel g.
Proof. intros g. unfold default_fuel. lia. Qed.
Check default_fuel_enough : forall g, length g < default_fuel g.
Print Assumptions default_fuel_enough.

(* ------------------------------------------------------------------------------------------------------------ *)
(* Deepening round: graphs WITH top-level await.  `AI` (DeepAsync_C17.v) is an invariant of the whole evaluation
   machinery — InnerModuleEvaluation with its asynchronous arms, ExecuteAsyncModule, the promise jobs, AsyncModule-
   ExecutionFulfilled/Rejected, GatherAvailableAncestors — over the log, the statuses, the per-module pending counts and
   the resume jobs in the queue.  It holds for every graph, on every variant of Modules.cfg in which a module keeps its
   own pending_async_dependencies (the repaired tree, `cfR`); on the old variant it is false (a popped cycle member that
   is already executing gets the root's positive count and is executed a second time when that count reaches 0). *)

(* every body starts at most once and ends at most once, and only ends after it started — over ANY interleaving of
   Evaluate() calls (any entry modules) and promise-job drains, for ANY graph (top-level await, cycles, throws),
   whatever the individual operations return (even a panic or fuel exhaustion leaves the invariant intact) *)
Theorem each_body_at_most_once_async : forall cf g fuel ops s, cf_own_pending cf = true -> AI s ->
  NoDup (slog (run_aops cf fuel g s ops)) /\
  forall x, In (REnd x) (slog (run_aops cf fuel g s ops)) -> In (RStart x) (slog (run_aops cf fuel g s ops)).
Proof. exact L_once_async. Qed.
Check each_body_at_most_once_async : forall cf g fuel ops s, cf_own_pending cf = true -> AI s ->
  NoDup (slog (run_aops cf fuel g s ops)) /\
  forall x, In (REnd x) (slog (run_aops cf fuel g s ops)) -> In (RStart x) (slog (run_aops cf fuel g s ops)).
Print Assumptions each_body_at_most_once_async.

(* the invariant holds in every state in which nothing has been logged and no job is queued: the initial state, any
   state right after linking *)
Theorem async_invariant_initially : forall s, gs_log s = [] -> gs_jobs s = [] -> AI s.
Proof. exact AI_quiet_state. Qed.
Check async_invariant_initially : forall s, gs_log s = [] -> gs_jobs s = [] -> AI s.
Print Assumptions async_invariant_initially.

Theorem async_invariant_preserved : forall cf g fuel, cf_own_pending cf = true ->
  (forall s m s' r, AI s -> evaluate cf fuel g s m = (s', r) -> AI s') /\
  (forall s s' r, AI s -> run_jobs cf fuel g s = (s', r) -> AI s').
Proof. intros cf g fuel H. split; [intros; eapply evaluate_AI; eauto|intros; eapply run_jobs_AI; eauto]. Qed.
Check async_invariant_preserved : forall cf g fuel, cf_own_pending cf = true ->
  (forall s m s' r, AI s -> evaluate cf fuel g s m = (s', r) -> AI s') /\
  (forall s s' r, AI s -> run_jobs cf fuel g s = (s', r) -> AI s').
Print Assumptions async_invariant_preserved.

(* evaluating an entry module again — while its graph is still evaluating asynchronously, or after it settled —
   returns the recorded promise and changes nothing *)
Theorem evaluate_idempotent_async : forall cf g fuel s m a s' c, cf_own_pending cf = true -> AI s ->
  status_of s m = Linked a -> evaluate cf fuel g s m = (s', ROk c) -> evaluate cf fuel g s' m = (s', ROk c).
Proof. intros cf g fuel s m a s' c H. apply evaluate_idem_async. exact H. Qed.
Check evaluate_idempotent_async : forall cf g fuel s m a s' c, cf_own_pending cf = true -> AI s ->
  status_of s m = Linked a -> evaluate cf fuel g s m = (s', ROk c) -> evaluate cf fuel g s' m = (s', ROk c).
Print Assumptions evaluate_idempotent_async.

(* the repaired finding tla-cycle-never-settles: on the old variant (cfg0) the cycle m1 <-> m2 above the top-level-await
   module m0 leaves the evaluation promise pending for ever; on the repaired variant it is fulfilled *)
Theorem tla_cycle_never_settles_old_refuted :
  snd (run_op cfg0 (default_fuel g_witness) g_witness gs0 2) = OPending /\
  snd (run_op cfR (default_fuel g_witness) g_witness gs0 2) = OFulfilled.
Proof. exact L_refuted. Qed.
Check tla_cycle_never_settles_old_refuted :
  snd (run_op cfg0 (default_fuel g_witness) g_witness gs0 2) = OPending /\
  snd (run_op cfR (default_fuel g_witness) g_witness gs0 2) = OFulfilled.
Print Assumptions tla_cycle_never_settles_old_refuted.

(* BOUNDED (finite domain, fully enumerated by vm_compute; the bound is in the name): all 32768 graphs over exactly 3
   modules without throwing bodies — every ordered subset of {0,1,2} as request list, each module with or without a
   top-level await — settle: load; link; evaluate; drain fulfils the promise, for every entry *)
Theorem settles_partial_3_modules : forall g, In g graphs3 -> forall m, m < 3 ->
  snd (run_op cfR (default_fuel g) g gs0 m) = OFulfilled.
Proof. exact L_settles3. Qed.
Check settles_partial_3_modules : forall g, In g graphs3 -> forall m, m < 3 ->
  snd (run_op cfR (default_fuel g) g gs0 m) = OFulfilled.
Print Assumptions settles_partial_3_modules.

(* BOUNDED: all 262144 graphs over exactly 3 modules, each module with or without a top-level await and with or without a
   throwing body, entry 0 (the set is closed under renaming): the outcome is "rejected by a reachable throwing module, or
   fulfilled when none is reachable" (never pending, never a panic), and in the log every body starts only after all of
   its non-cyclic dependencies have ended *)
Theorem error_rejects_and_deps_first_async_partial_3_modules : forall g, In g graphs3t ->
  outcome_ok g 0 (snd (run_op cfR (default_fuel g) g gs0 0)) = true /\
  dfb g [] (slog (fst (run_op cfR (default_fuel g) g gs0 0))) = true.
Proof. exact L_full3. Qed.
Check error_rejects_and_deps_first_async_partial_3_modules : forall g, In g graphs3t ->
  outcome_ok g 0 (snd (run_op cfR (default_fuel g) g gs0 0)) = true /\
  dfb g [] (slog (fst (run_op cfR (default_fuel g) g gs0 0))) = true.
Print Assumptions error_rejects_and_deps_first_async_partial_3_modules.

(* a diamond under a two-cycle with a throwing leaf: 0 -> 1 -> {0, 2, 3}, 2 -> 3, 3 throws *)
Example ex_graph : graph :=
  [mkMod [1] [] false 0 false false; mkMod [0; 2; 3] [] false 0 false false;
   mkMod [3] [] false 0 false false; mkMod [] [] true 0 false false].
Example ex_sync : sync ex_graph.
Proof. intros m. do 4 (destruct m as [|m]; [reflexivity|]). destruct m; reflexivity. Qed.
Example ex_run :
  let '(s', r) := evaluate cfg0 (default_fuel ex_graph) ex_graph (all_linked ex_graph) 0 in
  slog s' = [RStart 3] /\ recorded s' 0 = Some (Some (EThrow 3)) /\ recorded s' 2 = Some (Some (EThrow 3)) /\
  r = ROk 0 /\ promise_state s' 0 = PRejected (EThrow 3).
Proof. vm_compute. repeat split. Qed.
