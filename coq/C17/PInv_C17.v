(* C17 lemmas, part 2: the invariant of the synchronous InnerModuleEvaluation (a Tarjan-style walk) and its
   preservation by the primitive steps: push, ancestor-index update, ExecuteModule, pop of a component. *)
From Coq Require Import List Arith Bool Lia Sorting.Sorted.
From C17 Require Import Modules Spec_C17 PBase_C17.
Import ListNotations.

Definition anc_of (st : status) : nat := match st with Evaluating _ _ a _ => a | _ => 0 end.
Definition ancS (s : gstate) (x : nat) : nat := anc_of (status_of s x).
Definition tlc_of (st : status) : option nat :=
  match st with Evaluating t _ _ _ | EvaluatingAsync t _ _ _ | Evaluated t _ _ => t | _ => None end.
Definition upd (ix : nat -> nat) (m v : nat) : nat -> nat := fun x => if x =? m then v else ix x.

(* Global invariant, valid between any two steps of one Evaluate() call.
   stack: the SCC stack (head = top); ix: ghost depth-first index of the stacked modules ([[DFSIndex]] is a local
   variable in the Rust); idx: the running index; vis: the modules entered so far; bf: the errors recorded before
   this call. *)
Record GI (g : graph) (bf : nat -> option nat) (s : gstate) (stack : list nat) (ix : nat -> nat) (idx : nat)
          (vis : list nat) : Prop := mkGI {
  G_stack : forall x, In x stack ->
              exists tlc anc, status_of s x = Evaluating tlc x anc None /\ anc <= ix x /\ ix x < idx;
  G_ev : forall x tlc cr anc ao, status_of s x = Evaluating tlc cr anc ao -> In x stack;
  G_sorted : ixsorted ix stack;
  G_noasync : forall x tlc cr ao p, status_of s x <> EvaluatingAsync tlc cr ao p;
  G_closed : forall x r, evaluable (status_of s x) = true -> edge g x r -> evaluable (status_of s r) = true;
  G_bound : forall x, evaluable (status_of s x) = true -> x < length g;
  G_ok : forall x tlc cr, status_of s x = Evaluated tlc cr None ->
           (exists tlc', status_of s cr = Evaluated tlc' cr None) /\ throws g x = false /\ In (REnd x) (slog s) /\
           forall z, edge g x z -> okst (status_of s z) = true;
  G_bad : forall x tlc cr e, status_of s x = Evaluated tlc cr (Some e) ->
           cr = x /\ exists t, e = EThrow t /\ throws g t = true /\ reach g x t /\
             (exists tlc', status_of s t = Evaluated tlc' t (Some (EThrow t))) /\
             In (RStart t) (slog s) /\ ~ In (REnd t) (slog s);
  G_wit : forall x, In x stack -> exists w, In w stack /\ ix w <= ancS s x /\ reach g x w;
  G_vis : represents s vis;
  G_badf : forall x, badf s x = bf x;
  G_nodup : NoDup (slog s);
  G_df : DF g (slog s);
  G_dom : forall x, In (RStart x) (slog s) \/ In (REnd x) (slog s) -> entered (status_of s x) = true
}.

(* a request z of a module with ancestor index a has been dealt with *)
Definition reqok (s : gstate) (stack : list nat) (ix : nat -> nat) (a z : nat) : Prop :=
  okst (status_of s z) = true \/ (In z stack /\ a <= ix z).

(* x is on the stack, its body has run to the end, canc bounds its ancestor index from below *)
Record Fin (g : graph) (s : gstate) (stack : list nat) (ix : nat -> nat) (canc x : nat) : Prop := mkFin {
  Fin_end : In (REnd x) (slog s);
  Fin_nothrow : throws g x = false;
  Fin_anc : canc <= ancS s x;
  Fin_req : forall z, edge g x z -> reqok s stack ix (ancS s x) z
}.

(* Frame invariant: inside the request loop of cur; seg = modules pushed after cur, done = requests processed *)
Record FI (g : graph) (s : gstate) (stack : list nat) (ix : nat -> nat) (cur : nat) (seg below done : list nat)
  : Prop := mkFI {
  F_stack : stack = seg ++ cur :: below;
  F_reach : forall x, In x stack -> reach g x cur;
  F_seg : forall x, In x seg -> Fin g s stack ix (ancS s cur) x;
  F_done : forall z, In z done -> reqok s stack ix (ancS s cur) z;
  F_noev : ~ In (RStart cur) (slog s) /\ ~ In (REnd cur) (slog s)
}.

(* the walk has been aborted by the throw of t *)
Record Abort (g : graph) (bf : nat -> option nat) (s : gstate) (stack : list nat) (ix : nat -> nat) (idx : nat)
          (vis : list nat) (t : nat) : Prop := mkAbort {
  A_gi : GI g bf s stack ix idx vis;
  A_throws : throws g t = true;
  A_reach : forall x, In x stack -> reach g x t;
  A_who : In t stack \/ exists tlc, status_of s t = Evaluated tlc t (Some (EThrow t));
  A_start : In (RStart t) (slog s);
  A_noend : ~ In (REnd t) (slog s)
}.

(* ------------------------------------------------------------------------------------------ *)
(* small facts *)

Lemma evaluable_cases : forall st, evaluable st = true ->
  (exists a, st = Linked a) \/ (exists t c a o, st = Evaluating t c a o) \/ (exists t c e, st = Evaluated t c e).
Proof. intros [] H; try discriminate; eauto 8. Qed.

Lemma GI_stack_nodup : forall g bf s stack ix idx vis, GI g bf s stack ix idx vis -> NoDup stack.
Proof. intros. eapply ixsorted_NoDup. eapply G_sorted; eauto. Qed.

Lemma GI_stack_length : forall g bf s stack ix idx vis, GI g bf s stack ix idx vis -> length stack <= length g.
Proof.
  intros g bf s stack ix idx vis H. apply NoDup_bound_length; [eapply GI_stack_nodup; eauto|].
  intros x Hx. destruct (G_stack _ _ _ _ _ _ _ H x Hx) as (t & a & E & _).
  apply (G_bound _ _ _ _ _ _ _ H x). rewrite E. reflexivity.
Qed.

(* everything reachable from a module that is evaluated without error is evaluated without error and has ended *)
Lemma ok_closure : forall g bf s stack ix idx vis, GI g bf s stack ix idx vis ->
  forall x d, reach g x d -> okst (status_of s x) = true ->
  okst (status_of s d) = true /\ In (REnd d) (slog s) /\ throws g d = false.
Proof.
  intros g bf s stack ix idx vis H x d Hr. induction Hr as [x|x y z Hxy Hyz IH]; intros Hx.
  - destruct (status_of s x) eqn:E; try discriminate. destruct err; try discriminate.
    destruct (G_ok _ _ _ _ _ _ _ H _ _ _ E) as (_ & Ht & He & _). simpl. auto.
  - apply IH. destruct (status_of s x) eqn:E; try discriminate. destruct err; try discriminate.
    destruct (G_ok _ _ _ _ _ _ _ H _ _ _ E) as (_ & _ & _ & Hz). auto.
Qed.

Lemma reqok_mono : forall s stack ix a a' z, a' <= a -> reqok s stack ix a z -> reqok s stack ix a' z.
Proof. unfold reqok. intros s stack ix a a' z Hle [H|[H1 H2]]; [auto|right; split; [assumption|lia]]. Qed.

(* transporting reqok / Fin to a later state *)
Lemma reqok_step : forall s s' stack stack' ix ix' a z,
  (forall x, okst (status_of s x) = true -> okst (status_of s' x) = true) ->
  (forall x, In x stack -> In x stack' /\ ix' x = ix x) ->
  reqok s stack ix a z -> reqok s' stack' ix' a z.
Proof.
  unfold reqok. intros s s' stack stack' ix ix' a z Hok Hst [H|[H1 H2]]; [auto|].
  right. destruct (Hst z H1) as [H3 H4]. split; [assumption|]. rewrite H4. assumption.
Qed.

Lemma Fin_step : forall g s s' stack stack' ix ix' canc canc' x,
  (forall y, okst (status_of s y) = true -> okst (status_of s' y) = true) ->
  (forall y, In y stack -> In y stack' /\ ix' y = ix y) ->
  (exists l, slog s' = slog s ++ l) ->
  ancS s' x = ancS s x -> canc' <= canc ->
  Fin g s stack ix canc x -> Fin g s' stack' ix' canc' x.
Proof.
  intros g s s' stack stack' ix ix' canc canc' x Hok Hst [l Hl] Ha Hc [F1 F2 F3 F4]. constructor.
  - rewrite Hl. apply in_or_app; auto.
  - assumption.
  - rewrite Ha. lia.
  - intros z Hz. rewrite Ha. eapply reqok_step; eauto.
Qed.

(* ------------------------------------------------------------------------------------------ *)
(* statuses that a step may not touch: recorded outcomes stay, nothing becomes unevaluated again *)

Definition keeps (s s' : gstate) : Prop :=
  (forall x t c e, status_of s x = Evaluated t c e -> status_of s' x = Evaluated t c e) /\
  (forall x, is_white (status_of s' x) = true -> status_of s' x = status_of s x) /\
  (forall x, evaluable (status_of s x) = true -> evaluable (status_of s' x) = true) /\
  (forall x, evaluable (status_of s x) = false -> status_of s' x = status_of s x).

Lemma keeps_refl : forall s, keeps s s.
Proof. split; [|split; [|split]]; auto. Qed.
Lemma keeps_trans : forall a b c, keeps a b -> keeps b c -> keeps a c.
Proof.
  intros a b c (H1 & H2 & H5 & H7) (H3 & H4 & H6 & H8). split; [eauto|]. split; [|split; [auto|]].
  - intros x Hx. pose proof (H4 x Hx) as E. rewrite E in Hx. rewrite E. apply H2. assumption.
  - intros x Hx. pose proof (H7 x Hx) as E. rewrite <- E in Hx. rewrite (H8 x Hx). assumption.
Qed.
Lemma keeps_same : forall s s', (forall x, status_of s' x = status_of s x) -> keeps s s'.
Proof. intros s s' H. split; [|split; [|split]]; intros; rewrite H in *; auto. Qed.
Lemma keeps_except : forall s s' (P : nat -> Prop),
  (forall x, P x -> (forall t c e, status_of s x <> Evaluated t c e) /\ is_white (status_of s' x) = false /\
                    evaluable (status_of s' x) = true /\ evaluable (status_of s x) = true) ->
  (forall x, ~ P x -> status_of s' x = status_of s x) -> (forall x, P x \/ ~ P x) -> keeps s s'.
Proof.
  intros s s' P HP HN Hdec. split; [|split; [|split]].
  - intros x t c e E. destruct (Hdec x) as [Hx|Hx]; [exfalso; eapply (proj1 (HP x Hx)); eauto|rewrite HN; auto].
  - intros x Hw. destruct (Hdec x) as [Hx|Hx]; [rewrite (proj1 (proj2 (HP x Hx))) in Hw; discriminate|auto].
  - intros x He. destruct (Hdec x) as [Hx|Hx]; [apply (HP x Hx)|rewrite HN; auto].
  - intros x He. destruct (Hdec x) as [Hx|Hx]; [|auto]. destruct (HP x Hx) as (_ & _ & _ & H). congruence.
Qed.
Lemma keeps_set_status : forall s m st,
  (forall t c e, status_of s m <> Evaluated t c e) -> is_white st = false -> evaluable st = true ->
  evaluable (status_of s m) = true ->
  keeps s (set_status s m st).
Proof.
  intros s m st H1 H2 H3 H4. apply (keeps_except s _ (fun x => x = m)).
  - intros x ->. rewrite status_set_status_eq. auto.
  - intros x Hx. apply status_set_status_neq. auto.
  - intros x. destruct (Nat.eq_dec x m); auto.
Qed.

(* ------------------------------------------------------------------------------------------ *)
(* step 1: push   (Linked -> Evaluating, index assigned) *)

Lemma upd_eq : forall ix m v, upd ix m v m = v.
Proof. intros. unfold upd. rewrite Nat.eqb_refl. reflexivity. Qed.
Lemma upd_neq : forall ix m v x, x <> m -> upd ix m v x = ix x.
Proof. intros. unfold upd. apply Nat.eqb_neq in H. rewrite H. reflexivity. Qed.

Ltac st_cases m x :=
  destruct (Nat.eq_dec m x) as [<-|?Hne];
  [rewrite ?status_set_status_eq in * | rewrite ?status_set_status_neq in * by assumption].

Lemma GI_push : forall g bf s stack ix idx vis m a cap,
  GI g bf s stack ix idx vis -> status_of s m = Linked a ->
  GI g bf (set_status s m (Evaluating cap m idx None)) (m :: stack) (upd ix m idx) (S idx) (m :: vis).
Proof.
  intros g bf s stack ix idx vis m a cap H Hm.
  assert (Hnin : ~ In m stack).
  { intro Hin. destruct (G_stack _ _ _ _ _ _ _ H m Hin) as (t & an & E & _). congruence. }
  assert (Hev : forall x, evaluable (status_of (set_status s m (Evaluating cap m idx None)) x) = evaluable (status_of s x)).
  { intros x. st_cases m x; [rewrite Hm|]; reflexivity. }
  assert (Hok : forall x, okst (status_of (set_status s m (Evaluating cap m idx None)) x) = okst (status_of s x)).
  { intros x. st_cases m x; [rewrite Hm|]; reflexivity. }
  constructor.
  - intros x [<-|Hx].
    + rewrite status_set_status_eq, upd_eq. exists cap, idx. repeat split; lia.
    + assert (x <> m) by (intro; subst; contradiction).
      rewrite status_set_status_neq by auto. rewrite upd_neq by assumption.
      destruct (G_stack _ _ _ _ _ _ _ H x Hx) as (t & an & E & H1 & H2). exists t, an. repeat split; auto.
  - intros x t c an ao. st_cases m x; [simpl; auto|]. intros E. right. eapply G_ev; eauto.
  - unfold ixsorted. constructor.
    + eapply ixsorted_ext; [|eapply G_sorted; eauto]. intros x Hx. apply upd_neq. intro; subst; contradiction.
    + rewrite Forall_forall. intros x Hx. rewrite upd_eq, upd_neq by (intro; subst; contradiction).
      destruct (G_stack _ _ _ _ _ _ _ H x Hx) as (t & an & E & H1 & H2). assumption.
  - intros x t c ao p. st_cases m x; [discriminate|]. eapply G_noasync; eauto.
  - intros x r. rewrite !Hev. eapply G_closed; eauto.
  - intros x. rewrite Hev. eapply G_bound; eauto.
  - intros x t c. st_cases m x; [discriminate|]. intros E.
    destruct (G_ok _ _ _ _ _ _ _ H _ _ _ E) as ((t' & Hc) & H2 & H3 & H4). split; [|split; [|split]]; auto.
    + exists t'. rewrite status_set_status_neq; [assumption|]. intro; subst. congruence.
    + intros z Hz. rewrite Hok. auto.
  - intros x t c e. st_cases m x; [discriminate|]. intros E.
    destruct (G_bad _ _ _ _ _ _ _ H _ _ _ _ E) as (H1 & t0 & H2 & H3 & H4 & (t' & H5) & H6 & H7).
    split; [assumption|]. exists t0. repeat split; auto.
    exists t'. rewrite status_set_status_neq; [assumption|]. intro; subst. congruence.
  - intros x [<-|Hx].
    + exists m. split; [simpl; auto|]. split; [|apply reach_refl].
      unfold ancS. rewrite status_set_status_eq, upd_eq. simpl. lia.
    + assert (x <> m) by (intro; subst; contradiction).
      destruct (G_wit _ _ _ _ _ _ _ H x Hx) as (w & Hw & H1 & H2). exists w. split; [simpl; auto|]. split; [|assumption].
      unfold ancS. rewrite status_set_status_neq by auto. rewrite upd_neq by (intro; subst; contradiction). assumption.
  - intros x. rewrite Hev. intros Hx. st_cases m x.
    + simpl. split; auto.
    + pose proof (G_vis _ _ _ _ _ _ _ H x Hx) as Hv. simpl. split.
      * intros [->|Hin]; [contradiction|]. apply Hv; assumption.
      * intros He. right. apply Hv; assumption.
  - intros x. rewrite <- (G_badf _ _ _ _ _ _ _ H x). unfold badf. st_cases m x; [rewrite Hm|]; reflexivity.
  - rewrite slog_set_status. eapply G_nodup; eauto.
  - rewrite slog_set_status. eapply G_df; eauto.
  - intros x. rewrite slog_set_status. intros Hx. st_cases m x; [reflexivity|]. eapply G_dom; eauto.
Qed.

(* ------------------------------------------------------------------------------------------ *)
(* step 2: ancestor-index update of the current module after a request that is still on the stack *)

Lemma GI_anc : forall g bf s stack ix idx vis m tlc anc r,
  GI g bf s stack ix idx vis -> status_of s m = Evaluating tlc m anc None ->
  In r stack -> edge g m r ->
  GI g bf (set_status s m (Evaluating tlc m (Nat.min anc (ancS s r)) None)) stack ix idx vis.
Proof.
  intros g bf s stack ix idx vis m tlc anc r H Hm Hr Hmr.
  set (s' := set_status s m (Evaluating tlc m (Nat.min anc (ancS s r)) None)).
  assert (Hmin : In m stack) by (eapply G_ev; eauto).
  assert (Hev : forall x, evaluable (status_of s' x) = evaluable (status_of s x)).
  { intros x. unfold s'. st_cases m x; [rewrite Hm|]; reflexivity. }
  assert (Hok : forall x, okst (status_of s' x) = okst (status_of s x)).
  { intros x. unfold s'. st_cases m x; [rewrite Hm|]; reflexivity. }
  assert (Hen : forall x, entered (status_of s' x) = entered (status_of s x)).
  { intros x. unfold s'. st_cases m x; [rewrite Hm|]; reflexivity. }
  assert (Hne : forall x, x <> m -> status_of s' x = status_of s x).
  { intros x Hx. unfold s'. apply status_set_status_neq. auto. }
  assert (Hed : forall x t c e, status_of s x = Evaluated t c e -> status_of s' x = Evaluated t c e).
  { intros x t c e E. rewrite Hne; [assumption|]. intro; subst. congruence. }
  assert (Hed' : forall x t c e, status_of s' x = Evaluated t c e -> status_of s x = Evaluated t c e).
  { intros x t c e. unfold s'. st_cases m x; [discriminate|auto]. }
  assert (Hsl : slog s' = slog s) by reflexivity.
  constructor; rewrite ?Hsl.
  - intros x Hx. destruct (Nat.eq_dec x m) as [->|Hxm].
    + unfold s'. rewrite status_set_status_eq.
      destruct (G_stack _ _ _ _ _ _ _ H m Hx) as (t & an & E & H1 & H2). rewrite Hm in E. inversion E; subst.
      exists t, (Nat.min an (ancS s r)). repeat split; lia.
    + rewrite Hne by assumption. eapply G_stack; eauto.
  - intros x t c an ao. destruct (Nat.eq_dec x m) as [->|Hxm]; [auto|]. rewrite Hne by assumption. eapply G_ev; eauto.
  - eapply G_sorted; eauto.
  - intros x t c ao p. destruct (Nat.eq_dec x m) as [->|Hxm].
    + unfold s'. rewrite status_set_status_eq. discriminate.
    + rewrite Hne by assumption. eapply G_noasync; eauto.
  - intros x q. rewrite !Hev. eapply G_closed; eauto.
  - intros x. rewrite Hev. eapply G_bound; eauto.
  - intros x t c E. apply Hed' in E.
    destruct (G_ok _ _ _ _ _ _ _ H _ _ _ E) as ((t' & Hc) & H2 & H3 & H4). split; [|split; [|split]]; auto.
    + exists t'. apply Hed. assumption.
    + intros z Hz. rewrite Hok. auto.
  - intros x t c e E. apply Hed' in E.
    destruct (G_bad _ _ _ _ _ _ _ H _ _ _ _ E) as (H1 & t0 & H2 & H3 & H4 & (t' & H5) & H6 & H7).
    split; [assumption|]. exists t0. repeat split; auto. exists t'. apply Hed. assumption.
  - intros x Hx. destruct (Nat.eq_dec x m) as [->|Hxm].
    + unfold ancS at 1. unfold s'. rewrite status_set_status_eq. simpl.
      destruct (Nat.min_spec anc (ancS s r)) as [[Hlt ->]|[Hle ->]].
      * destruct (G_wit _ _ _ _ _ _ _ H m Hx) as (w & Hw & H1 & H2). exists w. repeat split; auto.
        unfold ancS in H1. rewrite Hm in H1. simpl in H1. assumption.
      * destruct (G_wit _ _ _ _ _ _ _ H r Hr) as (w & Hw & H1 & H2). exists w. repeat split; auto.
        eapply reach_step; eauto.
    + destruct (G_wit _ _ _ _ _ _ _ H x Hx) as (w & Hw & H1 & H2). exists w. repeat split; auto.
      unfold ancS. rewrite Hne by assumption. assumption.
  - intros x. rewrite Hev, Hen. eapply G_vis; eauto.
  - intros x. rewrite <- (G_badf _ _ _ _ _ _ _ H x). unfold badf.
    destruct (Nat.eq_dec x m) as [->|Hxm]; [|rewrite Hne by assumption; reflexivity].
    unfold s'. rewrite status_set_status_eq, Hm. reflexivity.
  - eapply G_nodup; eauto.
  - eapply G_df; eauto.
  - intros x Hx. rewrite Hen. eapply G_dom; eauto.
Qed.

(* ------------------------------------------------------------------------------------------ *)
(* step 3: ExecuteModule of the current module (statuses unchanged, events appended) *)

Lemma GI_log : forall g bf s s' stack ix idx vis m l,
  GI g bf s stack ix idx vis -> (forall x, status_of s' x = status_of s x) -> slog s' = slog s ++ l ->
  In m stack -> l = [RStart m] \/ l = [RStart m; REnd m] ->
  ~ In (RStart m) (slog s) -> ~ In (REnd m) (slog s) ->
  (forall d, ncdep g m d -> In (REnd d) (slog s)) ->
  GI g bf s' stack ix idx vis.
Proof.
  intros g bf s s' stack ix idx vis m l H Hst Hl Hm Hlm Hns Hne Hdf.
  assert (Hmono : forall e, In e (slog s) -> In e (slog s')) by (intros; rewrite Hl; apply in_or_app; auto).
  assert (Hnew : forall e, In e (slog s') -> In e (slog s) \/ ev_mod e = m).
  { intros e. rewrite Hl, in_app_iff. intros [He|He]; [auto|]. right.
    destruct Hlm as [->| ->]; simpl in He; intuition (subst; reflexivity). }
  destruct (G_stack _ _ _ _ _ _ _ H m Hm) as (tm & am & Em & _).
  constructor.
  - intros x Hx. rewrite Hst. eapply G_stack; eauto.
  - intros x t c an ao. rewrite Hst. eapply G_ev; eauto.
  - eapply G_sorted; eauto.
  - intros x t c ao p. rewrite Hst. eapply G_noasync; eauto.
  - intros x q. rewrite !Hst. eapply G_closed; eauto.
  - intros x. rewrite Hst. eapply G_bound; eauto.
  - intros x t c. rewrite Hst. intros E.
    destruct (G_ok _ _ _ _ _ _ _ H _ _ _ E) as ((t' & Hc) & H2 & H3 & H4). split; [|split; [|split]]; auto.
    + exists t'. rewrite Hst. assumption.
    + intros z Hz. rewrite Hst. auto.
  - intros x t c e. rewrite Hst. intros E.
    destruct (G_bad _ _ _ _ _ _ _ H _ _ _ _ E) as (H1 & t0 & H2 & H3 & H4 & (t' & H5) & H6 & H7).
    split; [assumption|]. exists t0. repeat split; auto.
    + exists t'. rewrite Hst. assumption.
    + intros Hin. apply Hnew in Hin. destruct Hin as [Hin|Hin]; [contradiction|]. simpl in Hin. subst. congruence.
  - intros x Hx. destruct (G_wit _ _ _ _ _ _ _ H x Hx) as (w & Hw & H1 & H2). exists w. repeat split; auto.
    unfold ancS. rewrite Hst. assumption.
  - intros x. rewrite Hst. eapply G_vis; eauto.
  - intros x. rewrite <- (G_badf _ _ _ _ _ _ _ H x). unfold badf. rewrite Hst. reflexivity.
  - rewrite Hl. pose proof (G_nodup _ _ _ _ _ _ _ H) as Hnd.
    destruct Hlm as [->| ->].
    + apply NoDup_snoc; assumption.
    + change [RStart m; REnd m] with ([RStart m] ++ [REnd m]). rewrite app_assoc.
      apply NoDup_snoc; [apply NoDup_snoc; assumption|]. rewrite in_snoc. intros [?|?]; [contradiction|discriminate].
  - rewrite Hl. pose proof (G_df _ _ _ _ _ _ _ H) as Hd.
    destruct Hlm as [->| ->].
    + apply DF_start; assumption.
    + change [RStart m; REnd m] with ([RStart m] ++ [REnd m]). rewrite app_assoc.
      apply DF_end. apply DF_start; assumption.
  - intros x Hx. rewrite Hst.
    assert (Hc : (In (RStart x) (slog s) \/ In (REnd x) (slog s)) \/ x = m).
    { destruct Hx as [Hx|Hx]; apply Hnew in Hx; simpl in Hx; intuition. }
    destruct Hc as [Hc| ->]; [eapply G_dom; eauto|]. rewrite Em. reflexivity.
Qed.

Lemma execute_sync_spec : forall g s m tlc cr anc ao,
  status_of s m = Evaluating tlc cr anc ao ->
  exists s', execute_sync g s m = (s', if throws g m then RErr (EThrow m) else ROk tt) /\
    (forall x, status_of s' x = status_of s x) /\ same_aux s s' /\
    slog s' = slog s ++ body_events g m.
Proof.
  intros. unfold execute_sync. rewrite H. unfold body_events, throws.
  destruct (mi_pre (info g m) || mi_post (info g m)).
  - eexists; split; [reflexivity|]. split; [|split].
    + intros. unfold body_start. rewrite status_set_phase, status_add_log, status_set_phase. reflexivity.
    + unfold same_aux, body_start; simpl; auto.
    + unfold slog, body_start. simpl. rewrite map_app. reflexivity.
  - eexists; split; [reflexivity|]. split; [|split].
    + intros. unfold body_end, body_start.
      rewrite status_add_log, status_set_phase, status_set_phase, status_add_log, status_set_phase. reflexivity.
    + unfold same_aux, body_end, body_start; simpl; auto.
    + unfold slog, body_end, body_start. simpl. rewrite !map_app. simpl. rewrite <- app_assoc. reflexivity.
Qed.

(* ------------------------------------------------------------------------------------------ *)
(* step 4: popping a complete component *)

Lemma pop_scc_sync : forall cf m s new below,
  ~ In m new ->
  (forall x, In x (new ++ [m]) -> exists tlc anc, status_of s x = Evaluating tlc x anc None) ->
  NoDup (new ++ [m]) ->
  exists s', pop_scc cf m 0 s (new ++ m :: below) = (s', below, None) /\
    same_aux s s' /\ gs_log s' = gs_log s /\
    (forall x, In x (new ++ [m]) -> status_of s' x = Evaluated (tlc_of (status_of s x)) m None) /\
    (forall x, ~ In x (new ++ [m]) -> status_of s' x = status_of s x).
Proof.
  intros cf m s new. revert s. induction new as [|a new IH]; intros s below Hnin Hst Hnd.
  - simpl. destruct (Hst m) as (tlc & anc & E); [simpl; auto|]. rewrite E. rewrite Nat.eqb_refl.
    eexists. split; [reflexivity|]. split; [apply same_aux_set_status|]. split; [reflexivity|]. split.
    + intros x [<-|[]]. rewrite E. apply status_set_status_eq.
    + intros x Hx. apply status_set_status_neq. intro; subst; apply Hx; simpl; auto.
  - simpl. destruct (Hst a) as (tlc & anc & E); [simpl; auto|]. rewrite E.
    assert (Ham : a <> m) by (intro; subst; apply Hnin; simpl; auto).
    apply Nat.eqb_neq in Ham as Ham'. rewrite Ham'.
    set (s1 := set_status s a (Evaluated tlc m None)).
    inversion Hnd as [|? ? Ha Hnd']; subst.
    destruct (IH s1 below) as (s' & Hp & Haux & Hlog & Hin & Hout).
    + intro; apply Hnin; simpl; auto.
    + intros x Hx. destruct (Hst x) as (t & an & Ex); [simpl; auto|].
      exists t, an. unfold s1. rewrite status_set_status_neq; [assumption|]. intro; subst; contradiction.
    + assumption.
    + exists s'. split; [exact Hp|]. split; [eapply same_aux_trans; [apply same_aux_set_status|exact Haux]|].
      split; [rewrite Hlog; reflexivity|]. split.
      * intros x [<-|Hx].
        -- rewrite Hout by assumption. rewrite E. unfold s1. apply status_set_status_eq.
        -- rewrite (Hin x Hx). unfold s1. rewrite status_set_status_neq; [reflexivity|].
           intro; subst. apply Ha. assumption.
      * intros x Hx. rewrite Hout by (intro; apply Hx; simpl; auto).
        unfold s1. apply status_set_status_neq. intro; subst; apply Hx; simpl; auto.
Qed.

Lemma GI_pop : forall g bf s s' stack ix idx vis m seg below,
  GI g bf s stack ix idx vis -> stack = seg ++ m :: below ->
  ancS s m = ix m ->
  (forall x, In x seg -> Fin g s stack ix (ancS s m) x) ->
  In (REnd m) (slog s) -> throws g m = false ->
  (forall z, edge g m z -> reqok s stack ix (ancS s m) z) ->
  slog s' = slog s ->
  (forall x, In x (seg ++ [m]) -> exists tlc, status_of s' x = Evaluated tlc m None) ->
  (forall x, ~ In x (seg ++ [m]) -> status_of s' x = status_of s x) ->
  GI g bf s' below ix idx vis.
Proof.
  intros g bf s s' stack ix idx vis m seg below H Hstack Hanc Hseg Hend Hnt Hreq Hlog Hin Hout.
  pose proof (G_sorted _ _ _ _ _ _ _ H) as Hsort. rewrite Hstack in Hsort.
  destruct (ixsorted_app _ _ _ _ Hsort) as (Hs1 & Hs2 & Hs3 & Hs4).
  pose proof (ixsorted_NoDup _ _ Hsort) as Hnd.
  assert (Hpin : forall x, In x (seg ++ [m]) -> In x stack).
  { intros x Hx. rewrite Hstack. rewrite in_snoc in Hx. apply in_or_app. simpl. intuition. }
  assert (Hpst : forall x, In x (seg ++ [m]) -> exists t an, status_of s x = Evaluating t x an None).
  { intros x Hx. destruct (G_stack _ _ _ _ _ _ _ H x (Hpin x Hx)) as (t & an & E & _). eauto. }
  assert (Hbelow : forall x, In x below -> ~ In x (seg ++ [m])).
  { intros x Hx Hp. rewrite in_snoc in Hp. destruct Hp as [Hp| ->].
    - specialize (Hs4 _ _ Hp Hx). lia.
    - specialize (Hs2 _ Hx). lia. }
  assert (Hixp : forall x, In x (seg ++ [m]) -> ix m <= ix x).
  { intros x Hx. rewrite in_snoc in Hx. destruct Hx as [Hx| ->]; [specialize (Hs1 _ Hx)|]; lia. }
  assert (Hev : forall x, evaluable (status_of s' x) = evaluable (status_of s x)).
  { intros x. destruct (in_dec Nat.eq_dec x (seg ++ [m])) as [Hp|Hp].
    - destruct (Hin x Hp) as (t & ->). destruct (Hpst x Hp) as (t' & an & ->). reflexivity.
    - rewrite Hout by assumption. reflexivity. }
  assert (Hen : forall x, entered (status_of s' x) = entered (status_of s x)).
  { intros x. destruct (in_dec Nat.eq_dec x (seg ++ [m])) as [Hp|Hp].
    - destruct (Hin x Hp) as (t & ->). destruct (Hpst x Hp) as (t' & an & ->). reflexivity.
    - rewrite Hout by assumption. reflexivity. }
  assert (Hokm : forall x, okst (status_of s x) = true -> okst (status_of s' x) = true).
  { intros x Hx. destruct (in_dec Nat.eq_dec x (seg ++ [m])) as [Hp|Hp].
    - destruct (Hin x Hp) as (t & ->). reflexivity.
    - rewrite Hout by assumption. assumption. }
  assert (Hed : forall x t c e, status_of s x = Evaluated t c e -> status_of s' x = Evaluated t c e).
  { intros x t c e E. rewrite Hout; [assumption|]. intro Hp. destruct (Hpst x Hp) as (t' & an & E'). congruence. }
  (* requests of a popped module are evaluated without error after the pop *)
  assert (Hreqp : forall x a, In x (seg ++ [m]) -> ix m <= a ->
             forall z, reqok s stack ix a z -> okst (status_of s' z) = true).
  { intros x a Hx Ha z [Hz|[Hz1 Hz2]]; [auto|].
    assert (Hzp : In z (seg ++ [m])).
    { rewrite Hstack in Hz1. apply in_app_or in Hz1. rewrite in_snoc. destruct Hz1 as [Hz1|[<-|Hz1]]; auto.
      specialize (Hs2 _ Hz1). lia. }
    destruct (Hin z Hzp) as (t & ->). reflexivity. }
  constructor.
  - intros x Hx. rewrite Hout by (apply Hbelow; assumption).
    apply (G_stack _ _ _ _ _ _ _ H). rewrite Hstack. apply in_or_app. simpl. auto.
  - intros x t c an ao E.
    destruct (in_dec Nat.eq_dec x (seg ++ [m])) as [Hp|Hp].
    + destruct (Hin x Hp) as (t' & E'). congruence.
    + rewrite Hout in E by assumption. pose proof (G_ev _ _ _ _ _ _ _ H _ _ _ _ _ E) as Hx.
      rewrite Hstack in Hx. apply in_app_or in Hx. destruct Hx as [Hx|[<-|Hx]]; auto;
        exfalso; apply Hp; rewrite in_snoc; auto.
  - assumption.
  - intros x t c ao p. destruct (in_dec Nat.eq_dec x (seg ++ [m])) as [Hp|Hp].
    + destruct (Hin x Hp) as (t' & ->). discriminate.
    + rewrite Hout by assumption. eapply G_noasync; eauto.
  - intros x q. rewrite !Hev. eapply G_closed; eauto.
  - intros x. rewrite Hev. eapply G_bound; eauto.
  - intros x t c E. destruct (in_dec Nat.eq_dec x (seg ++ [m])) as [Hp|Hp].
    + destruct (Hin x Hp) as (t' & E'). rewrite E in E'. inversion E'; subst.
      split; [|split; [|split]].
      * apply Hin. rewrite in_snoc. auto.
      * rewrite in_snoc in Hp. destruct Hp as [Hp| ->]; [apply (Fin_nothrow _ _ _ _ _ _ (Hseg x Hp))|assumption].
      * rewrite Hlog. rewrite in_snoc in Hp. destruct Hp as [Hp| ->]; [apply (Fin_end _ _ _ _ _ _ (Hseg x Hp))|assumption].
      * intros z Hz. rewrite in_snoc in Hp. destruct Hp as [Hp| ->].
        -- pose proof (Hseg x Hp) as HF. eapply (Hreqp x (ancS s x)).
           ++ rewrite in_snoc; auto.
           ++ pose proof (Fin_anc _ _ _ _ _ _ HF). lia.
           ++ apply (Fin_req _ _ _ _ _ _ HF). assumption.
        -- eapply (Hreqp m (ancS s m)); [rewrite in_snoc; auto|lia|auto].
    + rewrite Hout in E by assumption.
      destruct (G_ok _ _ _ _ _ _ _ H _ _ _ E) as ((t' & Hc) & H2 & H3 & H4). split; [|split; [|split]]; auto.
      * exists t'. apply Hed. assumption.
      * rewrite Hlog. assumption.
  - intros x t c e E. destruct (in_dec Nat.eq_dec x (seg ++ [m])) as [Hp|Hp].
    + destruct (Hin x Hp) as (t' & E'). congruence.
    + rewrite Hout in E by assumption.
      destruct (G_bad _ _ _ _ _ _ _ H _ _ _ _ E) as (H1 & t0 & H2 & H3 & H4 & (t' & H5) & H6 & H7).
      split; [assumption|]. exists t0. rewrite Hlog. repeat split; auto. exists t'. apply Hed. assumption.
  - intros x Hx. assert (Hxs : In x stack) by (rewrite Hstack; apply in_or_app; simpl; auto).
    destruct (G_wit _ _ _ _ _ _ _ H x Hxs) as (w & Hw & H1 & H2).
    destruct (G_stack _ _ _ _ _ _ _ H x Hxs) as (t & an & E & H3 & H4).
    exists w. split; [|split; [|assumption]].
    + rewrite Hstack in Hw. apply in_app_or in Hw.
      assert (Hlt : ix w < ix m).
      { unfold ancS in H1. rewrite E in H1. simpl in H1. specialize (Hs2 _ Hx). lia. }
      destruct Hw as [Hw|[<-|Hw]]; [specialize (Hs1 _ Hw); lia|lia|assumption].
    + unfold ancS. rewrite Hout by (apply Hbelow; assumption). assumption.
  - intros x. rewrite Hev, Hen. eapply G_vis; eauto.
  - intros x. rewrite <- (G_badf _ _ _ _ _ _ _ H x). unfold badf.
    destruct (in_dec Nat.eq_dec x (seg ++ [m])) as [Hp|Hp].
    + destruct (Hin x Hp) as (t & ->). destruct (Hpst x Hp) as (t' & an & ->). reflexivity.
    + rewrite Hout by assumption. reflexivity.
  - rewrite Hlog. eapply G_nodup; eauto.
  - rewrite Hlog. eapply G_df; eauto.
  - intros x. rewrite Hlog, Hen. eapply G_dom; eauto.
Qed.

(* ------------------------------------------------------------------------------------------ *)
(* the invariants only look at statuses and at the log *)

Lemma GI_same : forall g bf s s' stack ix idx vis,
  (forall x, status_of s' x = status_of s x) -> slog s' = slog s ->
  GI g bf s stack ix idx vis -> GI g bf s' stack ix idx vis.
Proof.
  intros g bf s s' stack ix idx vis Hst Hlog H. constructor; rewrite ?Hlog.
  - intros x Hx. rewrite Hst. eapply G_stack; eauto.
  - intros x t c an ao. rewrite Hst. eapply G_ev; eauto.
  - eapply G_sorted; eauto.
  - intros x t c ao p. rewrite Hst. eapply G_noasync; eauto.
  - intros x q. rewrite !Hst. eapply G_closed; eauto.
  - intros x. rewrite Hst. eapply G_bound; eauto.
  - intros x t c. rewrite Hst. intros E.
    destruct (G_ok _ _ _ _ _ _ _ H _ _ _ E) as ((t' & Hc) & H2 & H3 & H4). split; [|split; [|split]]; auto.
    + exists t'. rewrite Hst. assumption.
    + intros z Hz. rewrite Hst. auto.
  - intros x t c e. rewrite Hst. intros E.
    destruct (G_bad _ _ _ _ _ _ _ H _ _ _ _ E) as (H1 & t0 & H2 & H3 & H4 & (t' & H5) & H6 & H7).
    split; [assumption|]. exists t0. repeat split; auto. exists t'. rewrite Hst. assumption.
  - intros x Hx. destruct (G_wit _ _ _ _ _ _ _ H x Hx) as (w & Hw & H1 & H2). exists w. repeat split; auto.
    unfold ancS. rewrite Hst. assumption.
  - intros x. rewrite Hst. eapply G_vis; eauto.
  - intros x. rewrite <- (G_badf _ _ _ _ _ _ _ H x). unfold badf. rewrite Hst. reflexivity.
  - eapply G_nodup; eauto.
  - eapply G_df; eauto.
  - intros x. rewrite Hst. eapply G_dom; eauto.
Qed.

Lemma FI_same : forall g s s' stack ix cur seg below done,
  (forall x, status_of s' x = status_of s x) -> slog s' = slog s ->
  FI g s stack ix cur seg below done -> FI g s' stack ix cur seg below done.
Proof.
  intros g s s' stack ix cur seg below done Hst Hlog [F1 F2 F3 F4 F5].
  assert (Ha : forall x, ancS s' x = ancS s x) by (intros; unfold ancS; rewrite Hst; reflexivity).
  constructor; auto.
  - intros x Hx. eapply (Fin_step g s s' stack stack ix ix); [| |exists []; rewrite app_nil_r; exact Hlog| | |apply F3; exact Hx].
    + intros y Hy. rewrite Hst. assumption.
    + auto.
    + apply Ha.
    + rewrite Ha. lia.
  - intros z Hz. rewrite Ha. eapply (reqok_step s s' stack stack ix ix); [| |apply F4; exact Hz].
    + intros y Hy. rewrite Hst. assumption.
    + auto.
  - rewrite Hlog. assumption.
Qed.
