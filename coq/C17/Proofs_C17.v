(* C17 lemmas.  Part 1: state access, the reference depth-first evaluation, and the refinement
   InnerModuleEvaluation (model of the Rust) -> reference, for graphs without top-level await. *)
From Coq Require Import List Arith Bool Lia Relations.
From C17 Require Import Modules.
Import ListNotations.

(* ------------------------------------------------------------------------------------------ *)
(* state access *)

Lemma getm_setm : forall s m v m', getm (setm s m v) m' = if m =? m' then v else getm s m'.
Proof. intros. unfold getm, setm. simpl. reflexivity. Qed.

Lemma status_set_status : forall s m st m',
  status_of (set_status s m st) m' = if m =? m' then st else status_of s m'.
Proof.
  intros. unfold status_of, set_status. rewrite getm_setm. destruct (m =? m'); reflexivity.
Qed.
Lemma status_set_status_eq : forall s m st, status_of (set_status s m st) m = st.
Proof. intros. rewrite status_set_status, Nat.eqb_refl. reflexivity. Qed.
Lemma status_set_status_neq : forall s m st m', m <> m' -> status_of (set_status s m st) m' = status_of s m'.
Proof. intros. rewrite status_set_status. apply Nat.eqb_neq in H. rewrite H. reflexivity. Qed.

Lemma status_set_phase : forall s m p m', status_of (set_phase s m p) m' = status_of s m'.
Proof.
  intros. unfold status_of, set_phase. rewrite getm_setm.
  destruct (m =? m') eqn:E; [apply Nat.eqb_eq in E; subst|]; reflexivity.
Qed.
Lemma status_add_log : forall s e m, status_of (add_log s e) m = status_of s m.
Proof. reflexivity. Qed.

Lemma mem_In : forall x l, mem x l = true <-> In x l.
Proof.
  intros. unfold mem. rewrite existsb_exists. split.
  - intros [y [H1 H2]]. apply Nat.eqb_eq in H2. subst. assumption.
  - intros. exists x. split; [assumption | apply Nat.eqb_refl].
Qed.
Lemma mem_false : forall x l, mem x l = false <-> ~ In x l.
Proof.
  intros. rewrite <- mem_In. destruct (mem x l); intuition congruence.
Qed.

(* the fields that the synchronous evaluation never touches *)
Definition same_aux (s s' : gstate) : Prop :=
  gs_loads s' = gs_loads s /\ gs_proms s' = gs_proms s /\ gs_jobs s' = gs_jobs s /\ gs_acount s' = gs_acount s.
Lemma same_aux_refl : forall s, same_aux s s.
Proof. unfold same_aux; auto. Qed.
Lemma same_aux_trans : forall a b c, same_aux a b -> same_aux b c -> same_aux a c.
Proof. unfold same_aux; intros a b c (?&?&?&?) (?&?&?&?); repeat split; congruence. Qed.
Lemma same_aux_set_status : forall s m st, same_aux s (set_status s m st).
Proof. unfold same_aux; auto. Qed.
Lemma same_aux_set_phase : forall s m p, same_aux s (set_phase s m p).
Proof. unfold same_aux; auto. Qed.
Lemma same_aux_add_log : forall s e, same_aux s (add_log s e).
Proof. unfold same_aux; auto. Qed.

(* ------------------------------------------------------------------------------------------ *)
(* the reference: plain depth-first evaluation with a visited set, request order, abort at the first throw *)

Definition sync (g : graph) : Prop := forall m, mi_awaits (info g m) = 0.
Definition throws (g : graph) (m : nat) : bool := mi_pre (info g m) || mi_post (info g m).

Inductive revent := RStart (m : nat) | REnd (m : nat).
Definition strip (e : event) : revent :=
  match e with EvStart m _ => RStart m | EvEnd m _ => REnd m end.

Definition ref_t := list nat -> nat -> list nat * list revent * option nat.

Fixpoint ref_reqs (rec : ref_t) (reqs : list nat) (vis : list nat) : list nat * list revent * option nat :=
  match reqs with
  | [] => (vis, [], None)
  | r :: rest =>
      match rec vis r with
      | (vis', l, Some t) => (vis', l, Some t)
      | (vis', l, None) =>
          match ref_reqs rec rest vis' with
          | (vis'', l', o) => (vis'', l ++ l', o)
          end
      end
  end.

Fixpoint ref_dfs (fuel : nat) (g : graph) (vis : list nat) (m : nat) : list nat * list revent * option nat :=
  match fuel with
  | 0 => (vis, [], None)
  | S f =>
      if mem m vis then (vis, [], None)
      else
        match ref_reqs (ref_dfs f g) (requests g m) (m :: vis) with
        | (vis', l, Some t) => (vis', l, Some t)
        | (vis', l, None) =>
            if throws g m then (vis', l ++ [RStart m], Some m)
            else (vis', l ++ [RStart m; REnd m], None)
        end
  end.

(* ------------------------------------------------------------------------------------------ *)
(* invariant of the synchronous evaluation *)

Definition evaluable (st : status) : bool :=
  match st with Linked _ | Evaluating _ _ _ _ | Evaluated _ _ _ => true | _ => false end.
Definition is_white (st : status) : bool := match st with Linked _ => true | _ => false end.

Record J (g : graph) (s : gstate) (stack vis : list nat) : Prop := mkJ {
  J_stack : forall x, In x stack -> exists tlc anc, status_of s x = Evaluating tlc x anc None;
  J_ev : forall x tlc cr anc ao, status_of s x = Evaluating tlc cr anc ao -> In x stack;
  J_nodup : NoDup stack;
  J_closed : forall x r, evaluable (status_of s x) = true -> In r (requests g x) -> evaluable (status_of s r) = true;
  J_done : forall x tlc cr e, status_of s x = Evaluated tlc cr e ->
             e = None /\ exists tlc', status_of s cr = Evaluated tlc' cr None;
  J_vis : forall x, evaluable (status_of s x) = true -> (In x vis <-> is_white (status_of s x) = false)
}.

(* popping a component whose members are all plain `Evaluating` *)
Lemma pop_scc_sync : forall m s new below,
  ~ In m new ->
  (forall x, In x (new ++ [m]) -> exists tlc anc, status_of s x = Evaluating tlc x anc None) ->
  NoDup (new ++ [m]) ->
  exists s', pop_scc m 0 s (new ++ m :: below) = (s', below, None) /\
    same_aux s s' /\ gs_log s' = gs_log s /\
    (forall x, In x (new ++ [m]) -> exists tlc, status_of s' x = Evaluated tlc m None) /\
    (forall x, ~ In x (new ++ [m]) -> status_of s' x = status_of s x).
Proof.
  intros m s new. revert s. induction new as [|a new IH]; intros s below Hnin Hst Hnd.
  - simpl. destruct (Hst m) as (tlc & anc & E); [simpl; auto|]. rewrite E. rewrite Nat.eqb_refl.
    eexists. split; [reflexivity|]. split; [apply same_aux_set_status|]. split; [reflexivity|]. split.
    + intros x [<-|[]]. exists tlc. apply status_set_status_eq.
    + intros x Hx. apply status_set_status_neq. intro; subst; apply Hx; simpl; auto.
  - simpl. destruct (Hst a) as (tlc & anc & E); [simpl; auto|]. rewrite E.
    assert (Ham : a <> m) by (intro; subst; apply Hnin; simpl; auto).
    apply Nat.eqb_neq in Ham as Ham'. rewrite Ham'.
    set (s1 := set_status s a (Evaluated tlc m None)).
    inversion Hnd as [|? ? Ha Hnd']; subst.
    destruct (IH s1 below) as (s' & Hp & Haux & Hlog & Hin & Hout).
    + intro; apply Hnin; simpl; auto.
    + intros x Hx. destruct (Hst x) as (t & an & Ex); [simpl; auto|].
      exists t, an. unfold s1. rewrite status_set_status_neq; [assumption|]. intro; subst; contradiction.
    + assumption.
    + exists s'. split; [exact Hp|]. split; [eapply same_aux_trans; [apply same_aux_set_status|exact Haux]|].
      split; [rewrite Hlog; reflexivity|]. split.
      * intros x [<-|Hx]; [|apply Hin; assumption].
        rewrite Hout by assumption. exists tlc. unfold s1. apply status_set_status_eq.
      * intros x Hx. rewrite Hout by (intro; apply Hx; simpl; auto).
        unfold s1. apply status_set_status_neq. intro; subst; apply Hx; simpl; auto.
Qed.

Lemma execute_sync_spec : forall g s m tlc cr anc ao,
  status_of s m = Evaluating tlc cr anc ao ->
  exists s', execute_sync g s m = (s', if throws g m then RErr (EThrow m) else ROk tt) /\
    (forall x, status_of s' x = status_of s x) /\ same_aux s s' /\
    map strip (gs_log s') = map strip (gs_log s) ++ (if throws g m then [RStart m] else [RStart m; REnd m]).
Proof.
  intros. unfold execute_sync. rewrite H. unfold throws.
  destruct (mi_pre (info g m) || mi_post (info g m)).
  - eexists; split; [reflexivity|]. split; [|split].
    + intros. unfold body_start. rewrite status_set_phase, status_add_log, status_set_phase. reflexivity.
    + unfold same_aux, body_start; simpl; auto.
    + unfold body_start. simpl. rewrite map_app. reflexivity.
  - eexists; split; [reflexivity|]. split; [|split].
    + intros. unfold body_end, body_start.
      rewrite status_add_log, status_set_phase, status_set_phase, status_add_log, status_set_phase. reflexivity.
    + unfold same_aux, body_end, body_start; simpl; auto.
    + unfold body_end, body_start. simpl. rewrite !map_app. simpl. rewrite <- app_assoc. reflexivity.
Qed.

Definition ie_post (g : graph) (s : gstate) (stack vis : list nat) (s' : gstate) (stack' : list nat)
           (vis' : list nat) (rl : list revent) : Prop :=
  map strip (gs_log s') = map strip (gs_log s) ++ rl /\ same_aux s s' /\
  J g s' stack' vis' /\ (exists new, stack' = new ++ stack) /\
  (forall x, evaluable (status_of s' x) = evaluable (status_of s x)).

Definition ie_spec (f : nat) (g : graph) : Prop :=
  forall cap s stack idx m vis s' stack' r,
    J g s stack vis -> evaluable (status_of s m) = true ->
    inner_evaluate f g cap s stack idx m = (s', stack', r) ->
    r = RFuel \/
    exists vis' rl thr,
      ref_dfs f g vis m = (vis', rl, thr) /\
      ie_post g s stack vis s' stack' vis' rl /\
      (forall x, In x stack -> status_of s' x = status_of s x) /\
      match thr with
      | None => (exists idx', r = ROk idx') /\ is_white (status_of s' m) = false
      | Some t => r = RErr (EThrow t)
      end.

Lemma J_set_anc : forall g s stack vis m tlc anc anc',
  J g s stack vis -> status_of s m = Evaluating tlc m anc None ->
  J g (set_status s m (Evaluating tlc m anc' None)) stack vis.
Proof.
  intros g s stack vis m tlc anc anc' HJ Hm.
  assert (Hin : In m stack) by (eapply J_ev; eauto).
  constructor.
  - intros x Hx. destruct (Nat.eq_dec m x) as [<-|Hne].
    + rewrite status_set_status_eq. eauto.
    + rewrite status_set_status_neq by assumption. eapply J_stack; eauto.
  - intros x t c a o. destruct (Nat.eq_dec m x) as [<-|Hne].
    + intros _. assumption.
    + rewrite status_set_status_neq by assumption. eapply J_ev; eauto.
  - eapply J_nodup; eauto.
  - intros x r. rewrite !status_set_status.
    destruct (m =? x) eqn:E1; destruct (m =? r) eqn:E2; simpl; intros; auto.
    + apply Nat.eqb_eq in E1; subst. eapply J_closed; eauto. rewrite Hm. reflexivity.
    + eapply J_closed; eauto.
  - intros x t c e. destruct (Nat.eq_dec m x) as [<-|Hne].
    + rewrite status_set_status_eq. discriminate.
    + rewrite status_set_status_neq by assumption. intros Hx.
      destruct (J_done _ _ _ _ HJ _ _ _ _ Hx) as (He & t' & Hc). split; [assumption|].
      exists t'. destruct (Nat.eq_dec m c) as [<-|Hne2]; [congruence|].
      rewrite status_set_status_neq by assumption. assumption.
  - intros x. destruct (Nat.eq_dec m x) as [<-|Hne].
    + rewrite status_set_status_eq. simpl. intros _. pose proof (J_vis _ _ _ _ HJ m). rewrite Hm in H. simpl in H. auto.
    + rewrite status_set_status_neq by assumption. eapply J_vis; eauto.
Qed.

Lemma er_refine : forall f g, sync g -> ie_spec f g ->
  forall reqs m s stack idx vis s' stack' r,
    J g s stack vis -> In m stack ->
    (forall q, In q reqs -> evaluable (status_of s q) = true) ->
    eval_requests (fun s st i r => inner_evaluate f g None s st i r) m reqs s stack idx 0 = (s', stack', r) ->
    r = RFuel \/
    exists vis' rl thr,
      ref_reqs (ref_dfs f g) reqs vis = (vis', rl, thr) /\
      ie_post g s stack vis s' stack' vis' rl /\
      (forall x, In x stack -> x <> m -> status_of s' x = status_of s x) /\
      (forall tlc anc, status_of s m = Evaluating tlc m anc None ->
         exists anc', anc' <= anc /\ status_of s' m = Evaluating tlc m anc' None) /\
      match thr with
      | None => exists idx', r = ROk (idx', 0)
      | Some t => r = RErr (EThrow t)
      end.
Proof.
  intros f g Hsync IH reqs. induction reqs as [|q rest IHr]; intros m s stack idx vis s' stack' r HJ Hm Hev Her.
  - simpl in Her. inversion Her; subst. right. exists vis, [], None. split; [reflexivity|].
    split; [|split; [|split]].
    + unfold ie_post. rewrite app_nil_r. split; [reflexivity|]. split; [apply same_aux_refl|].
      split; [assumption|]. split; [exists []; reflexivity|]. reflexivity.
    + auto.
    + intros. exists anc. split; [lia|assumption].
    + eauto.
  - simpl in Her.
    destruct (inner_evaluate f g None s stack idx q) as [[s1 st1] r1] eqn:E1.
    assert (Hq : evaluable (status_of s q) = true) by (apply Hev; simpl; auto).
    destruct (IH None s stack idx q vis s1 st1 r1 HJ Hq E1) as [->|(vis1 & rl1 & thr1 & Href1 & Hpost1 & Hun1 & Hres1)].
    { inversion Her; subst. left; reflexivity. }
    destruct Hpost1 as (Hlog1 & Haux1 & HJ1 & (new1 & Hst1) & Hevp1).
    simpl. rewrite Href1.
    destruct thr1 as [t|].
    { subst r1. inversion Her; subst. right. exists vis1, rl1, (Some t). split; [reflexivity|].
      split; [|split; [|split]].
      - unfold ie_post. split; [assumption|]. split; [assumption|]. split; [assumption|]. split; [eauto|assumption].
      - intros; apply Hun1; assumption.
      - intros tlc anc Hsm. exists anc. split; [lia|]. rewrite Hun1; assumption.
      - reflexivity. }
    destruct Hres1 as ((idx1 & ->) & Hnw).
    assert (Hm1 : In m st1) by (rewrite Hst1; apply in_or_app; auto).
    destruct (J_stack _ _ _ _ HJ m Hm) as (tlcm & ancm & Hsm).
    assert (Hsm1 : status_of s1 m = Evaluating tlcm m ancm None) by (rewrite Hun1; assumption).
    assert (Hev1 : forall q', In q' rest -> evaluable (status_of s1 q') = true).
    { intros q' Hq'. rewrite Hevp1. apply Hev. simpl; auto. }
    assert (Hq1 : evaluable (status_of s1 q) = true) by (rewrite Hevp1; assumption).
    (* the continuation, for a state s2 that differs from s1 at most in m's ancestor index *)
    assert (Hcont : forall s2 anc2, anc2 <= ancm ->
               s2 = set_status s1 m (Evaluating tlcm m anc2 None) \/ (s2 = s1 /\ anc2 = ancm) ->
               eval_requests (fun s st i r => inner_evaluate f g None s st i r) m rest s2 st1 idx1 0 = (s', stack', r) ->
               r = RFuel \/
               exists vis' rl thr,
                 (let (p, o) := ref_reqs (ref_dfs f g) rest vis1 in let (vis'', l') := p in (vis'', rl1 ++ l', o)) = (vis', rl, thr) /\
                 ie_post g s stack vis s' stack' vis' rl /\
                 (forall x, In x stack -> x <> m -> status_of s' x = status_of s x) /\
                 (forall tlc anc, status_of s m = Evaluating tlc m anc None ->
                    exists anc', anc' <= anc /\ status_of s' m = Evaluating tlc m anc' None) /\
                 match thr with
                 | None => exists idx', r = ROk (idx', 0)
                 | Some t => r = RErr (EThrow t)
                 end).
    { intros s2 anc2 Hle Hs2 Hrest.
      assert (HJ2 : J g s2 st1 vis1).
      { destruct Hs2 as [->|[-> _]]; [eapply J_set_anc; eauto|assumption]. }
      assert (Hst2 : forall x, x <> m -> status_of s2 x = status_of s1 x).
      { intros x Hx. destruct Hs2 as [->|[-> _]]; [apply status_set_status_neq; auto|reflexivity]. }
      assert (Hsm2 : status_of s2 m = Evaluating tlcm m anc2 None).
      { destruct Hs2 as [->|[-> ->]]; [apply status_set_status_eq|assumption]. }
      assert (Hevp2 : forall x, evaluable (status_of s2 x) = evaluable (status_of s1 x)).
      { intros x. destruct (Nat.eq_dec x m) as [->|Hx]; [rewrite Hsm2, Hsm1; reflexivity|rewrite Hst2; auto]. }
      assert (Haux2 : same_aux s1 s2).
      { destruct Hs2 as [->|[-> _]]; [apply same_aux_set_status|apply same_aux_refl]. }
      assert (Hlog2 : gs_log s2 = gs_log s1).
      { destruct Hs2 as [->|[-> _]]; reflexivity. }
      destruct (IHr m s2 st1 idx1 vis1 s' stack' r HJ2 Hm1) as [->|(vis' & rl & thr & Href & Hpost & Hun & Hmst & Hres)];
        [intros q' Hq'; rewrite Hevp2; auto|exact Hrest|left; reflexivity|].
      right. rewrite Href. exists vis', (rl1 ++ rl), thr. split; [reflexivity|].
      destruct Hpost as (Hlog & Haux & HJ' & (new & Hst') & Hevp).
      split; [|split; [|split]].
      - unfold ie_post. split; [rewrite Hlog, Hlog2, Hlog1, app_assoc; reflexivity|].
        split; [eapply same_aux_trans; [exact Haux1|eapply same_aux_trans; [exact Haux2|exact Haux]]|].
        split; [assumption|]. split.
        + exists (new ++ new1). rewrite Hst', Hst1, app_assoc. reflexivity.
        + intros x. rewrite Hevp, Hevp2, Hevp1. reflexivity.
      - intros x Hx Hne. rewrite Hun; [|rewrite Hst1; apply in_or_app; auto|assumption].
        rewrite Hst2 by assumption. apply Hun1; assumption.
      - intros tlc anc Hs. rewrite Hsm in Hs. inversion Hs; subst.
        destruct (Hmst tlc anc2 Hsm2) as (anc' & Hle' & Hs'). exists anc'. split; [lia|assumption].
      - assumption. }
    destruct (status_of s1 q) eqn:Esq; try discriminate Hq1.
    + (* still Linked: impossible *) simpl in Hnw. discriminate.
    + (* Evaluating: on the stack *)
      assert (Hqin : In q st1) by (eapply J_ev; eauto).
      destruct (J_stack _ _ _ _ HJ1 q Hqin) as (tq & aq & Eq'). rewrite Esq in Eq'. inversion Eq'; subst.
      apply mem_In in Hqin. rewrite Hqin in Her. simpl in Her. rewrite Hsm1 in Her.
      apply (Hcont (set_status s1 m (Evaluating tlcm m (Nat.min ancm aq) None)) (Nat.min ancm aq)); [lia|left; reflexivity|exact Her].
    + (* Evaluated *)
      destruct (J_done _ _ _ _ HJ1 _ _ _ _ Esq) as (-> & t' & Hcr). rewrite Hcr in Her.
      apply (Hcont s1 ancm); [lia|right; auto|exact Her].
Qed.
