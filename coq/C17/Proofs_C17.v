(* C17 lemmas, part 5: the property statements for synchronous graphs, derived from evaluate_spec.
   (Parts 1-4: PBase_C17, PInv_C17, PEval_C17, PTop_C17; part 6, loading: PLoad_C17; part 7, linking: PLink_C17.) *)
From Coq Require Import List Arith Bool Lia.
From C17 Require Import Modules Spec_C17.
From C17 Require Export PBase_C17 PInv_C17 PEval_C17 PTop_C17 PLoad_C17 PLink_C17.
Import ListNotations.

Section OneEvaluation.
  Variables (cf : cfg) (g : graph) (fuel : nat) (s : gstate) (m : nat) (s' : gstate) (r : res nat).
  Hypothesis Hsync : sync g.
  Hypothesis Hready : Ready g s.
  Hypothesis Hlinked : evaluable (status_of s m) = true.
  Hypothesis Hfuel : length g < fuel.
  Hypothesis Hev : evaluate cf fuel g s m = (s', r).

  Let P : ev_post g s m s' r := evaluate_spec cf g Hsync fuel s m s' r Hready Hlinked Hfuel Hev.

  Lemma L_total : exists c, r = ROk c.
  Proof. destruct (EP_res _ _ _ _ _ P) as (c & e & H & _). eauto. Qed.

  Lemma L_ready : Ready g s' /\ forall x, evaluable (status_of s x) = true -> evaluable (status_of s' x) = true.
  Proof. split; [apply (EP_ready _ _ _ _ _ P)|apply (EP_evaluable _ _ _ _ _ P)]. Qed.

  Lemma L_once : NoDup (slog s').
  Proof. apply R_nodup with (g := g). apply (EP_ready _ _ _ _ _ P). Qed.

  Lemma L_deps_first : forall l1 x l2 d, slog s' = l1 ++ RStart x :: l2 -> ncdep g x d -> In (REnd d) l1.
  Proof.
    intros l1 x l2 d Hl Hd. eapply DF_app_inv; [|exact Hl|exact Hd].
    apply R_df. apply (EP_ready _ _ _ _ _ P).
  Qed.

  Lemma L_order : forall vis, represents s vis ->
    exists vis' l thr, dfs g (badf s) vis m vis' l thr /\ slog s' = slog s ++ l /\ represents s' vis' /\
      recorded s' m = Some (option_map EThrow thr).
  Proof. apply (EP_order _ _ _ _ _ P). Qed.

  Lemma recorded_ok_closure : forall x, recorded s' x = Some None ->
    forall d, reach g x d -> recorded s' d = Some None /\ In (REnd d) (slog s') /\ throws g d = false.
  Proof.
    pose proof (EP_ready _ _ _ _ _ P) as HR.
    intros x Hx d Hr. induction Hr as [x|x y z Hxy Hyz IH].
    - unfold recorded in Hx. destruct (status_of s' x) eqn:E; try discriminate. inversion Hx; subst.
      destruct (R_ok _ _ HR _ _ _ E) as (_ & Ht & He & _). unfold recorded. rewrite E. auto.
    - apply IH. unfold recorded in Hx. destruct (status_of s' x) eqn:E; try discriminate. inversion Hx; subst.
      destruct (R_ok _ _ HR _ _ _ E) as (_ & _ & _ & Hz). specialize (Hz y Hxy).
      unfold recorded. destruct (status_of s' y); try discriminate. destruct err; try discriminate. reflexivity.
  Qed.

  Lemma L_errors :
    exists e, recorded s' m = Some e /\
      (e = None <-> forall d, reach g m d -> throws g d = false) /\
      (forall x err, recorded s' x = Some (Some err) ->
         exists t, err = EThrow t /\ throws g t = true /\ reach g x t /\
                   In (RStart t) (slog s') /\ ~ In (REnd t) (slog s')) /\
      (forall x, recorded s' x = Some None ->
         forall d, reach g x d -> recorded s' d = Some None /\ In (REnd d) (slog s')).
  Proof.
    pose proof (EP_ready _ _ _ _ _ P) as HR.
    assert (Hbad : forall x err, recorded s' x = Some (Some err) ->
         exists t, err = EThrow t /\ throws g t = true /\ reach g x t /\
                   In (RStart t) (slog s') /\ ~ In (REnd t) (slog s')).
    { intros x err Hx. unfold recorded in Hx. destruct (status_of s' x) eqn:E; try discriminate. inversion Hx; subst.
      destruct (R_bad _ _ HR _ _ _ _ E) as (_ & t & H1 & H2 & H3 & _ & H5 & H6). exists t. auto. }
    destruct (EP_res _ _ _ _ _ P) as (c & e & _ & Hrec & _). exists e. split; [assumption|].
    split; [|split; [assumption|]].
    - split.
      + intros -> d Hd. apply (recorded_ok_closure m Hrec d Hd).
      + intros Hall. destruct e as [err|]; [|reflexivity].
        destruct (Hbad m err Hrec) as (t & _ & Ht & Hmt & _). rewrite (Hall t Hmt) in Ht. discriminate.
    - intros x Hx d Hd. destruct (recorded_ok_closure x Hx d Hd) as (H1 & H2 & _). auto.
  Qed.

  Lemma L_outcome : forall c, r = ROk c -> tlc_of (status_of s m) = None ->
    exists e, recorded s' m = Some e /\ promise_state s' c = outcome_of e /\ c = length (gs_proms s).
  Proof.
    intros c -> Ht. destruct (EP_res _ _ _ _ _ P) as (c' & e & Hr & Hrec & Hfresh & _). inversion Hr; subst c'.
    destruct (Hfresh Ht) as [H1 H2]. exists e. auto.
  Qed.

  (* evaluating again: the same promise, the same state, nothing runs, nothing is loaded *)
  Lemma L_idempotent_first : forall a, status_of s m = Linked a -> evaluate cf fuel g s' m = (s', r).
  Proof.
    intros a Ha. pose proof (EP_tlc _ _ _ _ _ P a Ha) as Ht.
    destruct (EP_res _ _ _ _ _ P) as (c & e & -> & Hrec & Hfresh & _).
    assert (Hnone : tlc_of (status_of s m) = None) by (rewrite Ha; reflexivity).
    destruct (Hfresh Hnone) as [-> _].
    rewrite evaluate_eq. unfold recorded in Hrec.
    destruct (status_of s' m) eqn:E; try discriminate. simpl in Ht. subst tlc. reflexivity.
  Qed.
End OneEvaluation.

(* a second evaluation in general (also for a module first evaluated as a dependency) *)
Lemma L_recorded : forall cf g fuel s m s' r tl cr e,
  sync g -> Ready g s -> status_of s m = Evaluated tl cr e -> length g < fuel ->
  evaluate cf fuel g s m = (s', r) ->
  slog s' = slog s /\ (forall x, status_of s' x = status_of s x) /\ gs_loads s' = gs_loads s /\
  exists c, r = ROk c /\ (tl = None -> promise_state s' c = outcome_of e) /\ (forall c0, tl = Some c0 -> c = c0 /\ s' = s).
Proof.
  intros cf g fuel s m s' r tl cr e Hsync HR Em Hfuel Hev.
  assert (Hl : evaluable (status_of s m) = true) by (rewrite Em; reflexivity).
  pose proof (evaluate_spec cf g Hsync fuel s m s' r HR Hl Hfuel Hev) as P.
  destruct (represents_exists g s HR) as (vis & Hvis).
  destruct (EP_order _ _ _ _ _ P vis Hvis) as (vis' & l & thr & Hd & Hlog & _ & Hrec).
  assert (Hl0 : l = []).
  { destruct (dfs_of_evaluated g s vis m _ _ _ HR Hvis Em) as (thr0 & Hd0 & _).
    inversion Hd; subst; try reflexivity.
    - exfalso. apply H0. apply Hvis; rewrite Em; reflexivity.
    - exfalso. apply H0. apply Hvis; rewrite Em; reflexivity. }
  subst l. rewrite app_nil_r in Hlog. split; [assumption|].
  pose proof (EP_ready _ _ _ _ _ P) as HR'.
  assert (Hst : forall x, status_of s' x = status_of s x).
  { destruct (EP_res _ _ _ _ _ P) as (c & e' & _ & _ & _ & Hsome).
    rewrite evaluate_eq, Em in Hev. destruct tl as [c0|].
    - inversion Hev; subst. reflexivity.
    - assert (Hcr : exists tl', status_of s cr = Evaluated tl' cr e).
      { destruct e as [e|].
        - destruct (R_bad _ _ HR _ _ _ _ Em) as (-> & _). eauto.
        - destruct (R_ok _ _ HR _ _ _ Em) as ((tl' & H) & _). eauto. }
      destruct Hcr as (tl' & Ecr).
      assert (Hf0 : 0 < fuel) by lia.
      apply (go_evaluated cf fuel g s cr tl' cr e s' r Hf0 Ecr Hev). }
  split; [assumption|]. split; [apply (EP_aux _ _ _ _ _ P)|].
  destruct (EP_res _ _ _ _ _ P) as (c & e' & -> & Hrec' & Hfresh & Hsome). exists c. split; [reflexivity|].
  assert (e' = e).
  { unfold recorded in Hrec'. rewrite Hst, Em in Hrec'. inversion Hrec'. reflexivity. }
  subst e'. rewrite Em in Hfresh, Hsome. simpl in Hfresh, Hsome. split.
  - intros ->. apply Hfresh. reflexivity.
  - intros c0 ->. apply Hsome. reflexivity.
Qed.

(* ------------------------------------------------------------------------------------------ *)
(* any number of evaluations, any entry modules *)

Fixpoint eval_seq (cf : cfg) (fuel : nat) (g : graph) (s : gstate) (ms : list nat) : gstate :=
  match ms with
  | [] => s
  | m :: rest => eval_seq cf fuel g (fst (evaluate cf fuel g s m)) rest
  end.

Lemma L_seq : forall cf g fuel, sync g -> length g < fuel -> forall ms s,
  Ready g s -> (forall m, In m ms -> evaluable (status_of s m) = true) ->
  Ready g (eval_seq cf fuel g s ms).
Proof.
  intros cf g fuel Hsync Hfuel ms. induction ms as [|m rest IH]; intros s HR Hms; [assumption|].
  simpl. destruct (evaluate cf fuel g s m) as [s' r] eqn:E. simpl.
  assert (Hm : evaluable (status_of s m) = true) by (apply Hms; simpl; auto).
  destruct (L_ready cf g fuel s m s' r Hsync HR Hm Hfuel E) as [HR' Hev'].
  apply IH; [assumption|]. intros x Hx. apply Hev'. apply Hms. simpl; auto.
Qed.

(* ------------------------------------------------------------------------------------------ *)
(* the hypotheses are satisfiable: every module linked, nothing evaluated yet *)

Definition all_linked (g : graph) : gstate :=
  mkGs (map (fun i => (i, mkMs (Linked 0) [] [] 0 0)) (seq 0 (length g))) [] [] [] [] 0.

Lemma alookup_linked : forall n k x,
  alookup (map (fun i => (i, mkMs (Linked 0) [] [] 0 0)) (seq k n)) x =
  if (k <=? x) && (x <? k + n) then mkMs (Linked 0) [] [] 0 0 else ms0.
Proof.
  induction n as [|n IH]; intros k x; simpl.
  - destruct (Nat.leb_spec k x), (Nat.ltb_spec x (k + 0)); simpl; try reflexivity; lia.
  - destruct (Nat.eqb_spec k x).
    + subst. destruct (Nat.leb_spec x x), (Nat.ltb_spec x (x + S n)); simpl; try reflexivity; lia.
    + rewrite IH.
      destruct (Nat.leb_spec (S k) x), (Nat.ltb_spec x (S k + n)), (Nat.leb_spec k x), (Nat.ltb_spec x (k + S n));
        simpl; try reflexivity; lia.
Qed.

Lemma status_all_linked : forall g x, status_of (all_linked g) x = if x <? length g then Linked 0 else Unlinked.
Proof.
  intros g x. unfold status_of, getm, all_linked. simpl. rewrite alookup_linked. simpl.
  destruct (x <? length g); reflexivity.
Qed.

Lemma Ready_all_linked : forall g, (forall x r, x < length g -> In r (requests g x) -> r < length g) ->
  Ready g (all_linked g).
Proof.
  intros g Hwf.
  assert (Hev : forall x, evaluable (status_of (all_linked g) x) = true <-> x < length g).
  { intros x. rewrite status_all_linked. destruct (x <? length g) eqn:E.
    - apply Nat.ltb_lt in E. simpl. intuition.
    - apply Nat.ltb_ge in E. simpl. split; [discriminate|lia]. }
  constructor.
  - intros x. rewrite status_all_linked. destruct (x <? length g); exact I.
  - intros x r Hx Hr. apply Hev. apply Hev in Hx. eapply Hwf; eauto.
  - intros x Hx. apply Hev. assumption.
  - intros x t c. rewrite status_all_linked. destruct (x <? length g); discriminate.
  - intros x t c e. rewrite status_all_linked. destruct (x <? length g); discriminate.
  - constructor.
  - constructor.
  - intros x [[]|[]].
Qed.

(* ------------------------------------------------------------------------------------------ *)
(* Link() followed by Evaluate(), any number of times, from the initial state *)

Lemma settled_after_evaluate : forall cf g fuel s m s' r,
  sync g -> Ready g s -> settled s -> evaluable (status_of s m) = true -> length g < fuel ->
  evaluate cf fuel g s m = (s', r) -> settled s'.
Proof.
  intros cf g fuel s m s' r Hsync HR Hset Hm Hfuel Hev.
  pose proof (evaluate_spec cf g Hsync fuel s m s' r HR Hm Hfuel Hev) as P.
  intros x. destruct (evaluable (status_of s x)) eqn:E.
  - pose proof (EP_evaluable _ _ _ _ _ P x E) as E'. pose proof (R_settled _ _ (EP_ready _ _ _ _ _ P) x) as Hs.
    destruct (status_of s' x); try discriminate; auto.
  - rewrite (EP_uneval _ _ _ _ _ P x E). apply Hset.
Qed.

(* one load_link_evaluate without the load phase; None = a panic, an error or fuel exhaustion in one of the phases *)
Definition link_evaluate (cf : cfg) (fuel : nat) (g : graph) (s : gstate) (m : nat) : gstate * option nat :=
  match link fuel g s m with
  | (s1, ROk _) => match evaluate cf fuel g s1 m with
                   | (s2, ROk c) => (s2, Some c)
                   | (s2, _) => (s2, None)
                   end
  | (s1, _) => (s1, None)
  end.
Fixpoint link_evaluate_seq (cf : cfg) (fuel : nat) (g : graph) (s : gstate) (ms : list nat) : gstate * bool :=
  match ms with
  | [] => (s, true)
  | m :: rest => match link_evaluate cf fuel g s m with
                 | (s', Some _) => link_evaluate_seq cf fuel g s' rest
                 | (s', None) => (s', false)
                 end
  end.

Lemma link_evaluate_spec : forall cf g fuel s m s' o,
  sync g -> nolinkerr g -> wf g -> Ready g s -> settled s -> m < length g -> length g < fuel ->
  link_evaluate cf fuel g s m = (s', o) ->
  Ready g s' /\ settled s' /\ exists c e, o = Some c /\ recorded s' m = Some e /\
    (e = None <-> forall d, reach g m d -> throws g d = false).
Proof.
  intros cf g fuel s m s' o Hsync Hnle Hwf HR Hset Hm Hfuel H. unfold link_evaluate in H.
  destruct (link fuel g s m) as [s1 r1] eqn:El.
  destruct (link_spec g Hnle Hwf fuel s m s1 r1 HR Hset Hm Hfuel El) as (-> & HR1 & Hset1 & Hev1 & _).
  destruct (evaluate cf fuel g s1 m) as [s2 r2] eqn:Ee.
  destruct (L_total cf g fuel s1 m s2 r2 Hsync HR1 Hev1 Hfuel Ee) as (c & ->).
  inversion H; subst s' o.
  split; [apply (L_ready cf g fuel s1 m s2 (ROk c) Hsync HR1 Hev1 Hfuel Ee)|].
  split; [eapply settled_after_evaluate; eauto|].
  destruct (L_errors cf g fuel s1 m s2 (ROk c) Hsync HR1 Hev1 Hfuel Ee) as (e & Hrec & Hiff & _).
  exists c, e. auto.
Qed.

Lemma Ready_gs0 : forall g, Ready g gs0 /\ settled gs0.
Proof.
  intros g. split; [|intros x; exact I]. constructor.
  - intros x. exact I.
  - intros x r Hx. discriminate.
  - intros x Hx. discriminate.
  - intros x t c E. discriminate.
  - intros x t c e E. discriminate.
  - constructor.
  - constructor.
  - intros x [[]|[]].
Qed.

Lemma link_evaluate_seq_spec : forall cf g fuel, sync g -> nolinkerr g -> wf g -> length g < fuel ->
  forall ms s s' ok, Ready g s -> settled s -> (forall m, In m ms -> m < length g) ->
  link_evaluate_seq cf fuel g s ms = (s', ok) -> ok = true /\ Ready g s' /\ settled s'.
Proof.
  intros cf g fuel Hsync Hnle Hwf Hfuel ms. induction ms as [|m rest IH]; intros s s' ok HR Hset Hms H; simpl in H.
  - inversion H; subst. auto.
  - destruct (link_evaluate cf fuel g s m) as [s1 o] eqn:E.
    assert (Hm : m < length g) by (apply Hms; simpl; auto).
    destruct (link_evaluate_spec cf g fuel s m s1 o Hsync Hnle Hwf HR Hset Hm Hfuel E) as (HR1 & Hset1 & c & e & -> & _).
    eapply IH; eauto. intros x Hx. apply Hms. simpl; auto.
Qed.
