(* C17 deepening, part 2: Evaluate() and the promise-job drain preserve the invariant AI (any graph, any number of
   top-level awaits), hence every body starts and ends at most once; evaluating an entry again returns the recorded
   promise and leaves the state untouched. *)
From Coq Require Import List Arith Bool Lia.
From C17 Require Import Modules Spec_C17 PBase_C17 PInv_C17 PEval_C17 PTop_C17 PLoad_C17 DeepAsync_C17.
Import ListNotations.

Lemma AI_obs : forall s s', slog s' = slog s -> (forall x, getm s' x = getm s x) -> gs_jobs s' = gs_jobs s -> AI s -> AI s'.
Proof.
  intros s s' Hl Hg Hj H. apply (AI_same s); auto.
  - intros x. unfold status_of. rewrite Hg. reflexivity.
  - intros x. unfold pendS. rewrite Hg. reflexivity.
  - rewrite Hj. reflexivity.
Qed.

Lemma AI_settle : forall s c v, AI s -> AI (settle s c v).
Proof. intros. apply (AI_obs s); auto. Qed.

Lemma getm_set_aparents : forall s m l x, status_of (set_aparents s m l) x = status_of s x /\ pendS (set_aparents s m l) x = pendS s x.
Proof.
  intros. unfold status_of, pendS, set_aparents. rewrite getm_setm.
  destruct (m =? x) eqn:E; [apply Nat.eqb_eq in E; subst|]; auto.
Qed.

Lemma AI_set_aparents : forall s m l, AI s -> AI (set_aparents s m l).
Proof.
  intros s m l H. apply (AI_same s); try reflexivity; [| |assumption]; intros x; apply getm_set_aparents.
Qed.

Section Eval.
  Variable cf : cfg.
  Hypothesis Hown : cf_own_pending cf = true.
  Variable g : graph.

  Lemma ev_go_AI : forall fuel s md s' r, AI s -> ev_go cf fuel g s md = (s', r) ->
    AI s' /\ (forall a c, status_of s md = Linked a -> r = ROk c ->
                fresh (status_of s' md) = false /\ tlcof (status_of s' md) = Some c /\
                match status_of s' md with Evaluating _ _ _ _ => False | _ => True end).
  Proof.
    intros fuel s md s' r H Hgo. unfold ev_go in Hgo.
    pose proof (promise_state_new s) as Hnp. destruct (new_promise s) as [sa c] eqn:Enp.
    destruct Hnp as (_ & _ & _ & Hsta & Hloga & _ & _ & Hjobs & _).
    assert (HAa : AI sa).
    { unfold new_promise in Enp. inversion Enp; subst. apply (AI_obs s); auto. }
    destruct (inner_evaluate cf fuel g (Some c) sa [] 0 md) as [[s1 st1] r1] eqn:Eie.
    destruct (ie_ok_all cf Hown g fuel (Some c) sa [] 0 md s1 st1 r1 HAa Eie) as (HA1 & X1 & _ & Hm1).
    destruct r1 as [i1|e1|p1|].
    - assert (Hm : forall a, status_of s md = Linked a -> fresh (status_of s1 md) = false /\ tlcof (status_of s1 md) = Some c).
      { intros a Ea. apply (Hm1 ltac:(discriminate) a). rewrite Hsta. assumption. }
      destruct (status_of s1 md) as [| | | | |t0 c0 o0 p0|t0 c0 e0] eqn:E1;
        try solve [inversion Hgo; subst; split; [assumption|intros; discriminate]].
      + destruct st1; inversion Hgo; subst; (split; [assumption|]); [|intros; discriminate].
        intros a c' Ea Hr. inversion Hr; subst c'. destruct (Hm a Ea) as [F T]. rewrite E1. auto.
      + destruct e0; [inversion Hgo; subst; split; [assumption|intros; discriminate]|].
        assert (HAs : AI (settle s1 c PFulfilled)) by (apply AI_settle; assumption).
        destruct st1; inversion Hgo; subst; (split; [assumption|]); [|intros; discriminate].
        intros a c' Ea Hr. inversion Hr; subst c'. destruct (Hm a Ea) as [F T].
        change (status_of (settle s1 c PFulfilled) md) with (status_of s1 md). rewrite E1. auto.
    - destruct (mark_errored s1 st1 e1) as [s2 p2] eqn:Em.
      destruct (mark_errored_AI e1 st1 s1 s2 p2 HA1 Em) as [HA2 X2].
      destruct p2; [inversion Hgo; subst; split; [assumption|intros; discriminate]|].
      destruct (status_of s2 md) as [| | | | | |t0 c0 e0] eqn:E2;
        try solve [inversion Hgo; subst; split; [assumption|intros; discriminate]].
      destruct e0; [|inversion Hgo; subst; split; [assumption|intros; discriminate]].
      inversion Hgo; subst. split; [apply AI_settle; assumption|].
      intros a c' Ea Hr. inversion Hr; subst c'.
      destruct (Hm1 ltac:(discriminate) a) as [F T]; [rewrite Hsta; assumption|].
      destruct X2 as [_ N]. destruct (N md F) as [F2 T2].
      change (status_of (settle s2 c (PRejected e1)) md) with (status_of s2 md). rewrite E2. rewrite E2 in T2. simpl in *.
      split; [reflexivity|]. split; [congruence|exact I].
    - inversion Hgo; subst. split; [assumption|intros; discriminate].
    - inversion Hgo; subst. split; [assumption|intros; discriminate].
  Qed.

  Lemma evaluate_AI : forall fuel s m s' r, AI s -> evaluate cf fuel g s m = (s', r) -> AI s'.
  Proof.
    intros fuel s m s' r H He. rewrite evaluate_eq in He.
    destruct (status_of s m) as [| | |a| |t c o p|t c e]; try solve [inversion He; subst; assumption].
    - eapply ev_go_AI; eauto.
    - destruct t; [inversion He; subst; assumption|eapply ev_go_AI; eauto].
    - destruct t; [inversion He; subst; assumption|eapply ev_go_AI; eauto].
  Qed.

  Lemma evaluate_idem_async : forall fuel s m a s' c, AI s -> status_of s m = Linked a ->
    evaluate cf fuel g s m = (s', ROk c) -> evaluate cf fuel g s' m = (s', ROk c).
  Proof.
    intros fuel s m a s' c H Em He. rewrite evaluate_eq, Em in He.
    destruct (ev_go_AI fuel s m s' (ROk c) H He) as [_ Hm]. destruct (Hm a c Em eq_refl) as (F & T & Hne).
    rewrite evaluate_eq. destruct (status_of s' m); try discriminate F; simpl in T; try contradiction; subst; reflexivity.
  Qed.
End Eval.

(* ------------------------------------------------------------------------------------------ *)
(* the promise jobs *)

Section Jobs.
  Variable cf : cfg.
  Variable g : graph.

  (* a step that neither logs nor touches the job queue nor the pending counts, and may only turn statuses into
     `evaluated` with an error *)
  Definition rej_step (s s' : gstate) : Prop :=
    slog s' = slog s /\ gs_jobs s' = gs_jobs s /\ (forall x, pendS s' x = pendS s x) /\
    (forall x, status_of s' x = status_of s x \/ exists t c e, status_of s' x = Evaluated t c (Some e)).

  Lemma rej_step_refl : forall s, rej_step s s.
  Proof. intros. repeat split; auto. Qed.
  Lemma rej_step_trans : forall a b c, rej_step a b -> rej_step b c -> rej_step a c.
  Proof.
    intros a b c (L1 & J1 & P1 & S1) (L2 & J2 & P2 & S2). split; [congruence|]. split; [congruence|].
    split; [intros; rewrite P2; auto|]. intros x. destruct (S2 x) as [E|E]; [rewrite E; apply S1|auto].
  Qed.

  Lemma async_rejected_AI : forall fuel s m e s' p, AI s -> async_rejected fuel g s m e = (s', p) ->
    AI s' /\ rej_step s s'.
  Proof.
    induction fuel as [|f IH]; intros s m e s' p H Hr; simpl in Hr.
    { inversion Hr; subst. split; [assumption|apply rej_step_refl]. }
    destruct (status_of s m) as [| | | | |tlc croot o pd|t0 c0 e0] eqn:Em;
      try solve [inversion Hr; subst; split; [assumption|apply rej_step_refl]].
    2:{ destruct e0; inversion Hr; subst; split; try assumption; apply rej_step_refl. }
    set (s1 := set_status s m (Evaluated tlc croot (Some e))) in *.
    assert (HA1 : AI s1) by (apply AI_set_status; [assumption|reflexivity|discriminate|discriminate]).
    assert (R1 : rej_step s s1).
    { split; [reflexivity|]. split; [reflexivity|]. split; [intros; apply pendS_set_status|].
      intros x. unfold s1. rewrite status_set_status. destruct (m =? x); eauto. }
    assert (Hloop : forall ps s2 s3 p3, AI s2 -> rej_step s s2 ->
              (fix loop (ps : list nat) (s : gstate) : gstate * option panic :=
                 match ps with
                 | [] => (s, None)
                 | p :: rest => match async_rejected f g s p e with
                                | (s, None) => loop rest s
                                | (s, Some pn) => (s, Some pn)
                                end
                 end) ps s2 = (s3, p3) -> AI s3 /\ rej_step s s3).
    { induction ps as [|q ps IHp]; intros s2 s3 p3 H2 R2 Hl.
      - inversion Hl; subst. auto.
      - destruct (async_rejected f g s2 q e) as [s4 p4] eqn:E4. destruct (IH _ _ _ _ _ H2 E4) as [H4 R4].
        destruct p4; [inversion Hl; subst; split; [assumption|eapply rej_step_trans; eauto]|].
        eapply IHp; [exact H4|eapply rej_step_trans; eauto|exact Hl]. }
    assert (Hobs : forall sx, AI sx -> rej_step s sx ->
              AI (set_aparents sx m []) /\ rej_step s (set_aparents sx m [])).
    { intros sx Hx Rx. split; [apply AI_set_aparents; assumption|].
      eapply rej_step_trans; [exact Rx|]. split; [reflexivity|]. split; [reflexivity|].
      split; intros x; [apply getm_set_aparents|left; apply getm_set_aparents]. }
    destruct tlc as [c|].
    - destruct (croot =? m).
      + assert (Hs : AI (settle s1 c (PRejected e)) /\ rej_step s (settle s1 c (PRejected e))).
        { split; [apply AI_settle; assumption|]. eapply rej_step_trans; [exact R1|]. repeat split; auto. }
        destruct Hs as [Hs1 Hs2]. destruct (Hobs _ Hs1 Hs2) as [Ho1 Ho2].
        eapply Hloop; [exact Ho1|exact Ho2|exact Hr].
      + inversion Hr; subst. auto.
    - destruct (Hobs _ HA1 R1) as [Ho1 Ho2]. eapply Hloop; [exact Ho1|exact Ho2|exact Hr].
  Qed.

  (* the exec list of GatherAvailableAncestors: not started, pending count 0 *)
  Definition execok (s : gstate) (exec : list nat) : Prop :=
    NoDup exec /\ forall x, In x exec -> ~ started s x /\ exists t c o, status_of s x = EvaluatingAsync t c o 0.

  Definition quiet (s s' : gstate) : Prop := slog s' = slog s /\ gs_jobs s' = gs_jobs s.

  Lemma gather_AI : forall fuel s m exec s' exec' p, AI s -> execok s exec ->
    gather cf fuel g s m exec = (s', exec', p) -> AI s' /\ execok s' exec' /\ quiet s s'.
  Proof.
    induction fuel as [|f IH]; intros s m exec s' exec' p H He Hg; simpl in Hg.
    { inversion Hg; subst. split; [assumption|]. split; [assumption|split; reflexivity]. }
    set (s0 := if cf_gather_keeps cf then s else set_aparents s m []) in *.
    assert (H0 : AI s0 /\ execok s0 exec /\ quiet s s0).
    { unfold s0. destruct (cf_gather_keeps cf); [split; [assumption|split; [assumption|split; reflexivity]]|].
      split; [apply AI_set_aparents; assumption|]. split; [|split; reflexivity].
      destruct He as [Hn Hx]. split; [assumption|]. intros x Hin. destruct (Hx x Hin) as [A (t & c & o & E)].
      split; [exact A|]. exists t, c, o. rewrite (proj1 (getm_set_aparents s m [] x)). assumption. }
    destruct H0 as (HA0 & HE0 & HQ0).
    assert (Hloop : forall ps s2 ex2 s3 ex3 p3, AI s2 -> execok s2 ex2 -> quiet s s2 ->
              (fix loop (ps : list nat) (s : gstate) (exec : list nat) : gstate * list nat * option panic :=
                 match ps with
                 | [] => (s, exec, None)
                 | p :: rest =>
                     if mem p exec then loop rest s exec
                     else
                       match cycle_root_of (status_of s p) with
                       | None => loop rest s exec
                       | Some cr =>
                           match evaluation_error (status_of s cr) with
                           | Some _ => loop rest s exec
                           | None =>
                               match status_of s p with
                               | EvaluatingAsync tlc c o pend =>
                                   match pend with
                                   | 0 => (s, exec, Some PGatherPendingZero)
                                   | S pend' =>
                                       let s := set_status s p (EvaluatingAsync tlc c o pend') in
                                       match pend' with
                                       | 0 =>
                                           let exec := exec ++ [p] in
                                           if has_tla g p then loop rest s exec
                                           else
                                             match gather cf f g s p exec with
                                             | (s, exec, None) => loop rest s exec
                                             | (s, exec, Some pn) => (s, exec, Some pn)
                                             end
                                       | S _ => loop rest s exec
                                       end
                                   end
                               | _ => (s, exec, Some PGatherNotAsync)
                               end
                           end
                       end
                 end) ps s2 ex2 = (s3, ex3, p3) -> AI s3 /\ execok s3 ex3 /\ quiet s s3).
    { induction ps as [|q ps IHp]; intros s2 ex2 s3 ex3 p3 H2 E2 Q2 Hl.
      - inversion Hl; subst. auto.
      - destruct (mem q ex2) eqn:Emem; [eapply IHp; eauto|].
        destruct (cycle_root_of (status_of s2 q)) as [cr|]; [|eapply IHp; eauto].
        destruct (evaluation_error (status_of s2 cr)); [eapply IHp; eauto|].
        destruct (status_of s2 q) as [| | | | |tlc c o pend|] eqn:Eq; try solve [inversion Hl; subst; auto].
        destruct pend as [|pend']; [inversion Hl; subst; auto|].
        cbv zeta in Hl.
        set (s4 := set_status s2 q (EvaluatingAsync tlc c o pend')) in *.
        assert (Hnq : ~ In q ex2) by (intro Hin; apply mem_In in Hin; congruence).
        assert (Hnsq : ~ started s2 q) by (eapply (A_async _ H2); eauto).
        assert (HA4 : AI s4).
        { apply AI_set_status; [assumption|reflexivity| |discriminate].
          intros t c' o' p' E. assumption. }
        assert (HQ4 : quiet s s4) by (destruct Q2; split; assumption).
        assert (HE4 : execok s4 ex2).
        { destruct E2 as [Hn Hx]. split; [assumption|]. intros x Hin. destruct (Hx x Hin) as [A (t & c' & o' & E)].
          split; [exact A|]. exists t, c', o'. unfold s4. rewrite status_set_status_neq; [assumption|].
          intro; subst; contradiction. }
        destruct pend' as [|pend''].
        + assert (HE5 : execok s4 (ex2 ++ [q])).
          { destruct HE4 as [Hn Hx]. split; [apply NoDup_snoc; assumption|].
            intros x Hin. rewrite in_snoc in Hin. destruct Hin as [Hin| ->]; [auto|].
            split; [exact Hnsq|]. exists tlc, c, o. unfold s4. apply status_set_status_eq. }
          destruct (has_tla g q); [eapply IHp; eauto|].
          destruct (gather cf f g s4 q (ex2 ++ [q])) as [[s5 ex5] p5] eqn:Eg.
          destruct (IH _ _ _ _ _ _ HA4 HE5 Eg) as (HA5 & HE5' & HQ5).
          assert (HQ05 : quiet s s5) by (destruct HQ4, HQ5; split; congruence).
          destruct p5; [inversion Hl; subst; auto|]. eapply IHp; eauto.
        + eapply IHp; eauto. }
    eapply Hloop; eauto.
  Qed.
End Jobs.

Lemma insert_by_in : forall k x acc y, In y (map snd (insert_by k x acc)) <-> y = x \/ In y (map snd acc).
Proof.
  intros k x acc. induction acc as [|[k' z] acc IH]; intros y; simpl; [intuition|].
  destruct (k <? k'); simpl; [intuition|]. rewrite IH. intuition.
Qed.

Lemma insert_by_nodup : forall k x acc, NoDup (map snd acc) -> ~ In x (map snd acc) -> NoDup (map snd (insert_by k x acc)).
Proof.
  intros k x acc. induction acc as [|[k' z] acc IH]; intros Hn Hx; simpl.
  - constructor; [intros []|constructor].
  - destruct (k <? k'); simpl.
    + constructor; assumption.
    + simpl in Hn. inversion Hn; subst. constructor.
      * rewrite insert_by_in. intros [->|Hin]; [apply Hx; simpl; auto|contradiction].
      * apply IH; [assumption|]. intro; apply Hx; simpl; auto.
Qed.

Lemma sort_exec_spec : forall s l acc sorted, sort_exec s l acc = Some sorted ->
  NoDup (l ++ map snd acc) -> NoDup sorted /\ forall y, In y sorted <-> In y l \/ In y (map snd acc).
Proof.
  intros s l. induction l as [|x l IH]; intros acc sorted Hs Hn; simpl in Hs.
  - inversion Hs; subst. simpl in Hn. split; [assumption|]. intros y. simpl. intuition.
  - destruct (aorder_of s x) as [k|]; [|discriminate]. simpl in Hn. inversion Hn; subst.
    destruct (IH _ _ Hs) as [G1 G2].
    + apply NoDup_app_replace with (B := map snd acc) (j := x).
      * assumption.
      * apply insert_by_nodup; [eapply NoDup_app_r; eauto|]. intro; apply H1; apply in_or_app; auto.
      * intros y Hy. apply insert_by_in in Hy. tauto.
      * assumption.
    + split; [assumption|]. intros y. rewrite G2, insert_by_in. simpl. intuition.
Qed.

Section Jobs2.
  Variable cf : cfg.
  Variable g : graph.

  (* the sorted exec list while it is being executed: not started; pending 0 or already rejected *)
  Definition runok (s : gstate) (l : list nat) : Prop :=
    NoDup l /\ forall x, In x l -> ~ started s x /\
      ((exists t c o, status_of s x = EvaluatingAsync t c o 0) \/ exists t c e, status_of s x = Evaluated t c e).

  Lemma runok_onlylog : forall s s' x l, runok s (x :: l) -> onlylog s s' x -> runok s' l.
  Proof.
    intros s s' x l [Hn Hx] (Hs & _ & lg & Hl & He). inversion Hn; subst. split; [assumption|].
    intros y Hy. destruct (Hx y) as [A B]; [simpl; auto|]. split.
    - unfold started. rewrite Hl. intro Hin. apply in_app_or in Hin. destruct Hin as [Hin|Hin]; [contradiction|].
      apply He in Hin. simpl in Hin. subst. contradiction.
    - rewrite Hs. assumption.
  Qed.

  Lemma runok_rej : forall s s' l, runok s l -> rej_step s s' -> runok s' l.
  Proof.
    intros s s' l [Hn Hx] (Hl & _ & _ & Hs). split; [assumption|]. intros y Hy. destruct (Hx y Hy) as [A B]. split.
    - unfold started. rewrite Hl. assumption.
    - destruct (Hs y) as [E|(t & c & e & E)]; [rewrite E; assumption|right; eauto].
  Qed.

  Lemma runok_tail : forall s x l, runok s (x :: l) -> runok s l.
  Proof. intros s x l [Hn Hx]. inversion Hn; subst. split; [assumption|]. intros; apply Hx; simpl; auto. Qed.

  Lemma async_fulfilled_AI : forall fuel s m s' p, AI s -> async_fulfilled cf fuel g s m = (s', p) -> AI s'.
  Proof.
    intros fuel s m s' p H Hf. unfold async_fulfilled in Hf.
    destruct (status_of s m) as [| | | | |tlc croot o pd|t0 c0 e0] eqn:Em; try solve [inversion Hf; subst; assumption].
    2:{ destruct e0; inversion Hf; subst; assumption. }
    set (s1 := set_status s m (Evaluated tlc croot None)) in *.
    assert (HA1 : AI s1) by (apply AI_set_status; [assumption|reflexivity|discriminate|discriminate]).
    assert (Hmain : forall s2, AI s2 ->
              match gather cf fuel g s2 m [] with
              | (s, _, Some p) => (s, Some p)
              | (s, exec, None) =>
                  match sort_exec s exec [] with
                  | None => (s, Some (POther 71))
                  | Some sorted =>
                      (fix loop (l : list nat) (s : gstate) : gstate * option panic :=
                         match l with
                         | [] => (s, None)
                         | x :: rest =>
                             match status_of s x with
                             | Evaluated _ _ (Some _) => loop rest s
                             | Evaluated _ _ None => (s, Some PAssertErrorIsSome)
                             | _ =>
                                 if has_tla g x then
                                   match execute_async g s x with
                                   | (s, ROk _) => loop rest s
                                   | (s, RPanic p) => (s, Some p)
                                   | (s, _) => (s, Some (POther 72))
                                   end
                                 else
                                   match execute_sync g s x with
                                   | (s, RErr e) =>
                                       match async_rejected fuel g s (if cf_reject_m cf then x else m) e with
                                       | (s, None) => loop rest s
                                       | (s, Some p) => (s, Some p)
                                       end
                                   | (s, ROk _) =>
                                       match status_of s x with
                                       | EvaluatingAsync tlc' croot' _ _ =>
                                           let s := set_status s x (Evaluated tlc' croot' None) in
                                           match tlc' with
                                           | Some c => if croot' =? x then loop rest (settle s c PFulfilled)
                                                       else (s, Some (POther 73))
                                           | None => loop rest s
                                           end
                                       | _ => (s, Some (POther 74))
                                       end
                                   | (s, RPanic p) => (s, Some p)
                                   | (s, RFuel) => (s, Some (POther 97))
                                   end
                             end
                         end) sorted s
                  end
              end = (s', p) -> AI s').
    { intros s2 H2 Hm.
      destruct (gather cf fuel g s2 m []) as [[s3 exec] p3] eqn:Eg.
      destruct (gather_AI cf g fuel s2 m [] s3 exec p3 H2) as (H3 & [Hnd Hex] & _); [split; [constructor|intros x []]|exact Eg|].
      destruct p3; [inversion Hm; subst; assumption|].
      destruct (sort_exec s3 exec []) as [sorted|] eqn:Es; [|inversion Hm; subst; assumption].
      destruct (sort_exec_spec s3 exec [] sorted Es) as [Hsn Hsi]; [simpl; rewrite app_nil_r; assumption|].
      assert (Hrun : runok s3 sorted).
      { split; [assumption|]. intros x Hx. apply Hsi in Hx. simpl in Hx. destruct Hx as [Hx|[]].
        destruct (Hex x Hx) as [A B]. split; [assumption|left; assumption]. }
      clear Hsn Hsi Es Hnd Hex Eg.
      revert s3 H3 Hrun Hm. induction sorted as [|x rest IHl]; intros s3 H3 Hrun Hm.
      - inversion Hm; subst. assumption.
      - assert (Hskip : runok s3 rest) by (eapply runok_tail; eauto).
        destruct Hrun as [Hrn Hrx]. destruct (Hrx x) as [Hnsx Hstx]; [simpl; auto|].
        assert (Hrun : runok s3 (x :: rest)) by (split; assumption).
        destruct Hstx as [(tx & cx & ox & Ex)|(tx & cx & e & Ex)].
        2:{ rewrite Ex in Hm. destruct e; [eapply IHl; eauto|inversion Hm; subst; assumption]. }
        rewrite Ex in Hm.
        assert (Hstb : startable s3 x).
        { split; [assumption|]. split; [rewrite Ex; reflexivity|]. split; [intros; rewrite Ex; discriminate|].
          intros; rewrite Ex in *; discriminate. }
        destruct (has_tla g x).
        + destruct (execute_async g s3 x) as [s4 r4] eqn:Ee.
          destruct (execute_async_AI g s3 x s4 r4 H3 Hstb Ee) as [H4 O4].
          destruct r4; try solve [inversion Hm; subst; assumption].
          eapply IHl; [exact H4|eapply runok_onlylog; eauto|exact Hm].
        + destruct (execute_sync g s3 x) as [s4 r4] eqn:Ee.
          destruct (execute_sync_AI g s3 x s4 r4 H3 Hstb Ee) as [H4 O4].
          assert (Hr4 : runok s4 rest) by (eapply runok_onlylog; eauto).
          destruct r4 as [u|e|pp|]; try solve [inversion Hm; subst; assumption].
          * destruct (status_of s4 x) as [| | | | |tlc' croot' o' p'|] eqn:E4; try solve [inversion Hm; subst; assumption].
            cbv zeta in Hm.
            set (s5 := set_status s4 x (Evaluated tlc' croot' None)) in *.
            assert (H5 : AI s5) by (apply AI_set_status; [assumption|reflexivity|discriminate|discriminate]).
            assert (Hr5 : runok s5 rest).
            { destruct Hr4 as [Hn4 Hx4]. split; [assumption|]. intros y Hy. destruct (Hx4 y Hy) as [A B].
              split; [exact A|]. unfold s5. rewrite status_set_status_neq; [assumption|].
              intro; subst. inversion Hrn; subst. contradiction. }
            destruct tlc' as [cc|].
            -- destruct (croot' =? x); [|inversion Hm; subst; assumption].
               eapply IHl; [apply AI_settle; exact H5| |exact Hm].
               destruct Hr5 as [Hn5 Hx5]. split; [assumption|]. intros y Hy. apply Hx5. assumption.
            -- eapply IHl; eauto.
          * destruct (async_rejected fuel g s4 (if cf_reject_m cf then x else m) e) as [s5 p5] eqn:Er.
            destruct (async_rejected_AI g fuel s4 _ e s5 p5 H4 Er) as [H5 R5].
            destruct p5; [inversion Hm; subst; assumption|].
            eapply IHl; [exact H5|eapply runok_rej; eauto|exact Hm]. }
    destruct tlc as [c|].
    - destruct (croot =? m); [|inversion Hf; subst; assumption].
      apply (Hmain (settle s1 c PFulfilled)); [apply AI_settle; assumption|exact Hf].
    - apply (Hmain s1); assumption.
  Qed.

  Lemma resume_tail : forall s j rest, AI s -> gs_jobs s = j :: rest -> AI (set_jobs s rest) /\
    (forall m k, j = JResume m k -> started s m /\ ~ ended s m /\ ~ In m (resume_mods rest)).
  Proof.
    intros s j rest [A1 A2 A3 A4 A5 [A6 A7]] Hj. rewrite Hj in A6, A7. split.
    - constructor; auto. simpl. destruct j; simpl in *; try (split; assumption).
      inversion A6; subst. split; [assumption|]. intros x Hx. apply A7. auto.
    - intros m k ->. simpl in *. inversion A6; subst. destruct (A7 m) as [B C]; auto.
  Qed.

  Lemma run_job_AI : forall fuel s j rest s' p, AI s -> gs_jobs s = j :: rest ->
    run_job cf fuel g (set_jobs s rest) j = (s', p) -> AI s'.
  Proof.
    intros fuel s j rest s' p H Hj Hr. destruct (resume_tail s j rest H Hj) as [H1 Hres].
    destruct j as [m k|m|m e]; simpl in Hr.
    - destruct (Hres m k eq_refl) as (Hs & He & Hn).
      destruct k as [|k].
      + inversion Hr; subst. unfold body_finish.
        destruct (mi_post (info g m)); [apply AI_enqueue_other; [assumption|intros; discriminate]|].
        apply AI_enqueue_other; [|intros; discriminate].
        destruct (body_end_obs g (set_jobs s rest) m) as (Hl & Hst & Hp & Hjb).
        eapply AI_end; eauto; rewrite Hjb; reflexivity.
      + inversion Hr; subst. apply AI_enqueue_resume; assumption.
    - eapply async_fulfilled_AI; eauto.
    - eapply async_rejected_AI; eauto.
  Qed.

  Lemma run_jobs_AI : forall fuel s s' r, AI s -> run_jobs cf fuel g s = (s', r) -> AI s'.
  Proof.
    induction fuel as [|f IH]; intros s s' r H Hr; simpl in Hr; [inversion Hr; subst; assumption|].
    destruct (gs_jobs s) as [|j rest] eqn:Ej; [inversion Hr; subst; assumption|].
    destruct (run_job cf (S f) g (set_jobs s rest) j) as [s1 p1] eqn:E1.
    pose proof (run_job_AI (S f) s j rest s1 p1 H Ej E1) as H1.
    destruct p1 as [pn|]; [|eapply IH; eauto].
    assert (s' = s1) as ->; [|assumption].
    destruct pn as [| | | |n]; try (inversion Hr; reflexivity).
    do 100 (destruct n as [|n]; [inversion Hr; reflexivity|]). inversion Hr; reflexivity.
  Qed.
End Jobs2.
