(* C17 deepening, part 3: the statements about graphs with top-level await. *)
From Coq Require Import List Arith Bool Lia.
From C17 Require Import Modules Spec_C17 PBase_C17 DeepAsync_C17 DeepJobs_C17.
Import ListNotations.

(* the repaired tree *)
Definition cfR : cfg := mkCfg true true true.

(* any interleaving of Evaluate() calls and promise-job drains *)
Inductive aop := AEval (m : nat) | ADrain.
Fixpoint run_aops (cf : cfg) (fuel : nat) (g : graph) (s : gstate) (ops : list aop) : gstate :=
  match ops with
  | [] => s
  | AEval m :: rest => run_aops cf fuel g (fst (evaluate cf fuel g s m)) rest
  | ADrain :: rest => run_aops cf fuel g (fst (run_jobs cf fuel g s)) rest
  end.

Lemma AI_quiet_state : forall s, gs_log s = [] -> gs_jobs s = [] -> AI s.
Proof.
  intros s Hl Hj. assert (Hs : slog s = []) by (unfold slog; rewrite Hl; reflexivity).
  constructor; unfold started, ended; rewrite ?Hs, ?Hj; simpl.
  - constructor.
  - intros x [].
  - intros x [].
  - intros x t c o p _ [].
  - intros x t c a o _ _ [].
  - split; [constructor|intros m []].
Qed.

Lemma run_aops_AI : forall cf g fuel, cf_own_pending cf = true -> forall ops s, AI s -> AI (run_aops cf fuel g s ops).
Proof.
  intros cf g fuel Hown ops. induction ops as [|o ops IH]; intros s H; simpl; [assumption|].
  destruct o as [m|].
  - destruct (evaluate cf fuel g s m) as [s1 r1] eqn:E. simpl. apply IH. eapply evaluate_AI; eauto.
  - destruct (run_jobs cf fuel g s) as [s1 r1] eqn:E. simpl. apply IH. eapply run_jobs_AI; eauto.
Qed.

Lemma L_once_async : forall cf g fuel ops s, cf_own_pending cf = true -> AI s ->
  NoDup (slog (run_aops cf fuel g s ops)) /\
  forall x, In (REnd x) (slog (run_aops cf fuel g s ops)) -> In (RStart x) (slog (run_aops cf fuel g s ops)).
Proof.
  intros cf g fuel ops s Hown H. pose proof (run_aops_AI cf g fuel Hown ops s H) as HA.
  split; [apply (A_nodup _ HA)|apply (A_end _ HA)].
Qed.

(* the finding that was repaired: on the old tree a cycle above a top-level-await module never settles *)
Definition g_witness : graph :=
  [mkMod [] [] false 1 false false; mkMod [0; 2] [] false 0 false false; mkMod [0; 1] [] false 0 false false].
Lemma L_refuted : snd (run_op cfg0 (default_fuel g_witness) g_witness gs0 2) = OPending /\
                  snd (run_op cfR (default_fuel g_witness) g_witness gs0 2) = OFulfilled.
Proof. vm_compute. split; reflexivity. Qed.

(* all graphs over exactly 3 modules without throwing bodies: every ordered subset of {0,1,2} as request list
   (self imports included), each module with or without one top-level await *)
Definition subs3 : list (list nat) :=
  [[]; [0]; [1]; [2]; [0;1]; [1;0]; [0;2]; [2;0]; [1;2]; [2;1];
   [0;1;2]; [0;2;1]; [1;0;2]; [1;2;0]; [2;0;1]; [2;1;0]].
Definition mods3 : list modinfo :=
  flat_map (fun d => [mkMod d [] false 0 false false; mkMod d [] false 1 false false]) subs3.
Definition graphs3 : list graph :=
  flat_map (fun a => flat_map (fun b => map (fun c => [a; b; c]) mods3) mods3) mods3.
Definition fulfilled (o : outcome) : bool := match o with OFulfilled => true | _ => false end.
Definition settles_check (g : graph) : bool :=
  forallb (fun m => fulfilled (snd (run_op cfR (default_fuel g) g gs0 m))) [0; 1; 2].
Lemma L_settles3_bool : forallb settles_check graphs3 = true.
Proof. vm_compute. reflexivity. Qed.

(* ------------------------------------------------------------------------------------------ *)
(* bounded statements (exactly 3 modules, exhaustive): outcome and order with top-level await and throwing bodies *)

Definition stepb (g : graph) (l : list nat) : list nat := l ++ flat_map (fun x => requests g x) l.
(* modules reachable from m (reflexive), over 3 modules: 3 rounds suffice *)
Definition reachl (g : graph) (m : nat) : list nat := stepb g (stepb g (stepb g [m])).
Definition reachb (g : graph) (m d : nat) : bool := mem d (reachl g m).
Definition throwsb (g : graph) (m : nat) : bool := mi_pre (info g m) || mi_post (info g m).

Definition outcome_ok (g : graph) (m : nat) (o : outcome) : bool :=
  match o with
  | OFulfilled => negb (existsb (throwsb g) (reachl g m))
  | ORejected (EThrow t) => throwsb g t && reachb g m t
  | _ => false
  end.

Definition rev_eqb (a b : revent) : bool :=
  match a, b with RStart x, RStart y => x =? y | REnd x, REnd y => x =? y | _, _ => false end.
(* deps-first on a log: at every start of x, every d reachable through a request r of x that does not lead back to x
   has ended *)
Fixpoint dfb (g : graph) (seen : list revent) (l : list revent) : bool :=
  match l with
  | [] => true
  | RStart x :: rest =>
      forallb (fun r => reachb g r x ||
                        forallb (fun d => existsb (rev_eqb (REnd d)) seen) (reachl g r)) (requests g x)
      && dfb g (RStart x :: seen) rest
  | e :: rest => dfb g (e :: seen) rest
  end.

Definition mods3t : list modinfo :=
  flat_map (fun d => [mkMod d [] false 0 false false; mkMod d [] false 1 false false;
                      mkMod d [] false 0 true false; mkMod d [] false 1 true false]) subs3.
Definition graphs3t : list graph :=
  flat_map (fun a => flat_map (fun b => map (fun c => [a; b; c]) mods3t) mods3t) mods3t.
Definition full_check (g : graph) : bool :=
  let '(s, o) := run_op cfR (default_fuel g) g gs0 0 in
  outcome_ok g 0 o && dfb g [] (slog s).
Lemma L_full3_bool : forallb full_check graphs3t = true.
Proof. vm_compute. reflexivity. Qed.

Lemma L_settles3 : forall g, In g graphs3 -> forall m, m < 3 ->
  snd (run_op cfR (default_fuel g) g gs0 m) = OFulfilled.
Proof.
  intros g Hg m Hm. pose proof L_settles3_bool as H. rewrite forallb_forall in H. specialize (H g Hg).
  unfold settles_check in H. rewrite forallb_forall in H.
  assert (Hin : In m [0; 1; 2]) by (simpl; lia). specialize (H m Hin).
  destruct (snd (run_op cfR (default_fuel g) g gs0 m)); try discriminate. reflexivity.
Qed.

Lemma L_full3 : forall g, In g graphs3t ->
  outcome_ok g 0 (snd (run_op cfR (default_fuel g) g gs0 0)) = true /\
  dfb g [] (slog (fst (run_op cfR (default_fuel g) g gs0 0))) = true.
Proof.
  intros g Hg. pose proof L_full3_bool as H. rewrite forallb_forall in H. specialize (H g Hg).
  unfold full_check in H. destruct (run_op cfR (default_fuel g) g gs0 0) as [s o]. simpl.
  apply andb_true_iff in H. exact H.
Qed.
