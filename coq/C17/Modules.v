(* C17 model: module graph loading / linking / evaluation, transliterated from
   /repo/core/engine/src/module/source.rs and module/mod.rs (which follow ECMA-262 16.2.1.5).
   Definitions only (executable, fuelled).  Where the Rust deviates from the specification the
   Rust is modelled and the place is marked  DEVIATION.

   Conventions
   - a module is a natural number (its position in the graph description); `m >= length g` is a
     specifier that is not registered with the loader
   - the SCC stack has its top at the head of the list
   - every function returns the state it reached even on an abrupt completion (the Rust mutates in place)
   - Rust `unreachable!`, `assert!`, `debug_assert!` (the harness is a debug build), `expect` are
     modelled as `RPanic tag` *)
From Coq Require Import List Arith Bool Lia.
Import ListNotations.

(* ------------------------------------------------------------------------------------------ *)
(* Two places where the Rust deviates from ECMA-262 have a proposed repair (fixes.d/C17-*.patch).  The model carries
   both behaviours; the check determines which one the working tree has (probe cases) and runs the model with the
   matching configuration.  `cfg0` is the tree the model was written against. *)
Record cfg := mkCfg {
  cf_reject_m : bool;      (* AsyncModuleExecutionFulfilled 12.c.ii.1 rejects m (spec) instead of `module` *)
  cf_own_pending : bool;   (* ModuleStatus::Evaluating carries the module's own pending_async_dependencies *)
  cf_gather_keeps : bool   (* GatherAvailableAncestors reads [[AsyncParentModules]] without emptying it (spec) *)
}.
Definition cfg0 := mkCfg false false false.

(* ------------------------------------------------------------------------------------------ *)
(* graph description *)

Record modinfo := mkMod {
  mi_decls   : list nat;   (* targets of the import / export-from declarations, in source order *)
  mi_reads   : list nat;   (* modules whose exported `v` is read when the body prints *)
  mi_pre     : bool;       (* `throw` before the awaits *)
  mi_awaits  : nat;        (* number of top-level `await`s *)
  mi_post    : bool;       (* `throw` after the awaits *)
  mi_linkerr : bool        (* InitializeEnvironment throws a SyntaxError (unresolvable import) *)
}.

Definition graph := list modinfo.
Definition dummy_mod := mkMod [] [] false 0 false false.
Definition info (g : graph) (m : nat) : modinfo := nth m g dummy_mod.

Definition mem (x : nat) (l : list nat) : bool := existsb (Nat.eqb x) l.

(* IndexSet insertion: first occurrence wins, order of first occurrences kept *)
Fixpoint dedup_acc (seen l : list nat) : list nat :=
  match l with
  | [] => []
  | x :: r => if mem x seen then dedup_acc seen r else x :: dedup_acc (x :: seen) r
  end.
Definition dedup (l : list nat) : list nat := dedup_acc [] l.

Definition requests (g : graph) (m : nat) : list nat := dedup (mi_decls (info g m)).
Definition has_tla (g : graph) (m : nat) : bool := 0 <? mi_awaits (info g m).
Definition registered (g : graph) (m : nat) : bool := m <? length g.

(* ------------------------------------------------------------------------------------------ *)
(* state *)

Inductive error := EThrow (m : nat) | ESyntax | EType.

Inductive panic :=
| PLinkNotLinking        (* link(): unreachable!("i. Assert: m.[[Status]] is linking.") *)
| PAssertErrorIsSome     (* debug_assert!(error.is_some()) in AsyncModuleExecution{Fulfilled,Rejected} *)
| PGatherNotAsync        (* gather_available_ancestors: unreachable!("i. Assert: m.[[Status]] is evaluating-async.") *)
| PGatherPendingZero     (* gather_available_ancestors: assert!( *pending_async_dependencies > 0) *)
| POther (n : nat).      (* any other unreachable!/assert!/expect; n names the place *)

(* enum ModuleStatus, with its payloads (environment/context/source omitted) *)
Inductive status :=
| Unlinked
| Linking (anc : nat)
| PreLinked (anc : nat)
| Linked (anc : nat)
| Evaluating (tlc : option nat) (croot : nat) (anc : nat) (aorder : option nat)
| EvaluatingAsync (tlc : option nat) (croot : nat) (aorder : nat) (pend : nat)
| Evaluated (tlc : option nat) (croot : nat) (err : option error).

Record mstate := mkMs {
  ms_status   : status;
  ms_loaded   : list nat;   (* [[LoadedModules]]: specifiers already resolved for this referrer *)
  ms_aparents : list nat;   (* [[AsyncParentModules]] *)
  ms_phase    : nat;        (* exported `v`: 0 body not started, 1 started (var initialised), 2 after v=1, 3 after v=2 *)
  ms_pend     : nat         (* Evaluating.pending_async_dependencies (only with cf_own_pending) *)
}.
Definition ms0 := mkMs Unlinked [] [] 0 0.

Inductive event := EvStart (m : nat) (reads : list nat) | EvEnd (m : nat) (reads : list nat).
Inductive pstate := PPending | PFulfilled | PRejected (e : error).
Inductive job := JResume (m k : nat) | JFulfilled (m : nat) | JRejected (m : nat) (e : error).

Record gstate := mkGs {
  gs_mods   : list (nat * mstate);   (* association list, latest binding first; absent = ms0 *)
  gs_log    : list event;            (* body execution log, oldest first *)
  gs_loads  : list (nat * nat);      (* ModuleLoader::load_imported_module calls (referrer, specifier), oldest first *)
  gs_proms  : list pstate;           (* promise capabilities created by evaluate() *)
  gs_jobs   : list job;              (* promise job queue, FIFO, head = next *)
  gs_acount : nat                    (* ASYNC_EVAL_QUEUE_INDEX (ModuleAsyncEvaluationCount) *)
}.
Definition gs0 := mkGs [] [] [] [] [] 0.

Fixpoint alookup (l : list (nat * mstate)) (m : nat) : mstate :=
  match l with
  | [] => ms0
  | (k, v) :: r => if k =? m then v else alookup r m
  end.
Definition getm (s : gstate) (m : nat) : mstate := alookup (gs_mods s) m.
Definition setm (s : gstate) (m : nat) (v : mstate) : gstate :=
  mkGs ((m, v) :: gs_mods s) (gs_log s) (gs_loads s) (gs_proms s) (gs_jobs s) (gs_acount s).

Definition status_of (s : gstate) (m : nat) : status := ms_status (getm s m).
Definition set_status (s : gstate) (m : nat) (st : status) : gstate :=
  let x := getm s m in setm s m (mkMs st (ms_loaded x) (ms_aparents x) (ms_phase x) (ms_pend x)).
Definition set_phase (s : gstate) (m : nat) (p : nat) : gstate :=
  let x := getm s m in setm s m (mkMs (ms_status x) (ms_loaded x) (ms_aparents x) p (ms_pend x)).
Definition set_pend (s : gstate) (m : nat) (p : nat) : gstate :=
  let x := getm s m in setm s m (mkMs (ms_status x) (ms_loaded x) (ms_aparents x) (ms_phase x) p).
Definition set_aparents (s : gstate) (m : nat) (l : list nat) : gstate :=
  let x := getm s m in setm s m (mkMs (ms_status x) (ms_loaded x) l (ms_phase x) (ms_pend x)).
Definition add_loaded (s : gstate) (m r : nat) : gstate :=
  let x := getm s m in
  if mem r (ms_loaded x) then s
  else setm s m (mkMs (ms_status x) (ms_loaded x ++ [r]) (ms_aparents x) (ms_phase x) (ms_pend x)).
Definition push_aparent (s : gstate) (r m : nat) : gstate :=
  set_aparents s r (ms_aparents (getm s r) ++ [m]).

Definition add_log (s : gstate) (e : event) : gstate :=
  mkGs (gs_mods s) (gs_log s ++ [e]) (gs_loads s) (gs_proms s) (gs_jobs s) (gs_acount s).
Definition add_load (s : gstate) (a b : nat) : gstate :=
  mkGs (gs_mods s) (gs_log s) (gs_loads s ++ [(a, b)]) (gs_proms s) (gs_jobs s) (gs_acount s).
Definition enqueue (s : gstate) (j : job) : gstate :=
  mkGs (gs_mods s) (gs_log s) (gs_loads s) (gs_proms s) (gs_jobs s ++ [j]) (gs_acount s).
Definition set_jobs (s : gstate) (l : list job) : gstate :=
  mkGs (gs_mods s) (gs_log s) (gs_loads s) (gs_proms s) l (gs_acount s).
Definition incr_acount (s : gstate) : gstate :=
  mkGs (gs_mods s) (gs_log s) (gs_loads s) (gs_proms s) (gs_jobs s) (S (gs_acount s)).
Definition new_promise (s : gstate) : gstate * nat :=
  (mkGs (gs_mods s) (gs_log s) (gs_loads s) (gs_proms s ++ [PPending]) (gs_jobs s) (gs_acount s),
   length (gs_proms s)).
Fixpoint settle_at (l : list pstate) (c : nat) (v : pstate) : list pstate :=
  match l, c with
  | [], _ => []
  | PPending :: r, 0 => v :: r
  | p :: r, 0 => p :: r                 (* already settled: resolve/reject are no-ops *)
  | p :: r, S c' => p :: settle_at r c' v
  end.
Definition settle (s : gstate) (c : nat) (v : pstate) : gstate :=
  mkGs (gs_mods s) (gs_log s) (gs_loads s) (settle_at (gs_proms s) c v) (gs_jobs s) (gs_acount s).
Definition promise_state (s : gstate) (c : nat) : pstate := nth c (gs_proms s) PPending.

Inductive res (A : Type) :=
| ROk (a : A)
| RErr (e : error)      (* JsResult::Err *)
| RPanic (p : panic)
| RFuel.
Arguments ROk {A} a.
Arguments RErr {A} e.
Arguments RPanic {A} p.
Arguments RFuel {A}.

(* ------------------------------------------------------------------------------------------ *)
(* ExecuteModule: the generated module bodies *)

Definition read_phases (s : gstate) (g : graph) (m : nat) : list nat :=
  map (fun t => ms_phase (getm s t)) (mi_reads (info g m)).

(* print("start:m:"+reads); v = 1   (the var is initialised when the body starts: phase 1) *)
Definition body_start (g : graph) (s : gstate) (m : nat) : gstate :=
  let s := set_phase s m 1 in
  let s := add_log s (EvStart m (read_phases s g m)) in
  set_phase s m 2.
(* v = 2; print("end:m:"+reads) *)
Definition body_end (g : graph) (s : gstate) (m : nat) : gstate :=
  let s := set_phase s m 3 in
  add_log s (EvEnd m (read_phases s g m)).

(* execute(module, None): synchronous body.  Only called for modules without top-level await. *)
Definition execute_sync (g : graph) (s : gstate) (m : nat) : gstate * res unit :=
  match status_of s m with
  | Evaluating _ _ _ _ | EvaluatingAsync _ _ _ _ =>
      let s := body_start g s m in
      if mi_pre (info g m) || mi_post (info g m) then (s, RErr (EThrow m))
      else (body_end g s m, ROk tt)
  | _ => (s, RPanic (POther 10))   (* unreachable!("`execute` should only be called for evaluating modules.") *)
  end.

(* the part of an async body after the k remaining awaits have resumed *)
Definition body_finish (g : graph) (s : gstate) (m : nat) : gstate :=
  if mi_post (info g m) then enqueue s (JRejected m (EThrow m))
  else enqueue (body_end g s m) (JFulfilled m).

(* ExecuteAsyncModule: PerformPromiseThen(capability, onFulfilled, onRejected) then run the body up to its
   first await.  Settling the capability enqueues the reaction job JFulfilled / JRejected. *)
Definition execute_async (g : graph) (s : gstate) (m : nat) : gstate * res unit :=
  match status_of s m with
  | Evaluating _ _ _ _ | EvaluatingAsync _ _ _ _ =>
      if negb (has_tla g m) then (s, RPanic (POther 11))          (* debug_assert!(self.code.has_tla) *)
      else
        let s := body_start g s m in
        if mi_pre (info g m) then (enqueue s (JRejected m (EThrow m)), ROk tt)
        else (enqueue s (JResume m (pred (mi_awaits (info g m)))), ROk tt)
  | _ => (s, RPanic (POther 12))
  end.

(* ------------------------------------------------------------------------------------------ *)
(* InnerModuleEvaluation *)

Definition rec_t := gstate -> list nat -> nat -> nat -> gstate * list nat * res nat.

(* step 11: the loop over [[RequestedModules]]; `pend` is the local pending_async_dependencies *)
Fixpoint eval_requests (rec : rec_t) (m : nat) (reqs : list nat) (s : gstate) (stack : list nat)
         (index pend : nat) : gstate * list nat * res (nat * nat) :=
  match reqs with
  | [] => (s, stack, ROk (index, pend))
  | r :: rest =>
      match rec s stack index r with
      | (s, stack, ROk index) =>
          match status_of s r with
          | Evaluating _ _ ranc raorder =>
              if negb (mem r stack) then (s, stack, RPanic (POther 20))   (* debug_assert: evaluating iff on stack *)
              else
              match status_of s m with
              | Evaluating tlc cr anc ao =>
                  let s := set_status s m (Evaluating tlc cr (Nat.min anc ranc) ao) in
                  match raorder with
                  | Some _ => eval_requests rec m rest (push_aparent s r m) stack index (S pend)
                  | None => eval_requests rec m rest s stack index pend
                  end
              | _ => (s, stack, RPanic (POther 21))     (* js_expect("self should still be in the evaluating state") *)
              end
          | EvaluatingAsync _ croot _ _ | Evaluated _ croot _ =>
              match status_of s croot with
              | EvaluatingAsync _ _ _ _ =>
                  eval_requests rec m rest (push_aparent s croot m) stack index (S pend)
              | Evaluated _ _ (Some e) => (s, stack, RErr e)
              | Evaluated _ _ None => eval_requests rec m rest s stack index pend
              | _ => (s, stack, RPanic (POther 22))
              end
          | _ => (s, stack, RPanic (POther 23))
          end
      | (s, stack, RErr e) => (s, stack, RErr e)
      | (s, stack, RPanic p) => (s, stack, RPanic p)
      | (s, stack, RFuel) => (s, stack, RFuel)
      end
  end.

(* step 16: pop the strongly connected component rooted at m.
   DEVIATION (cf_own_pending = false): a popped member that becomes evaluating-async receives `pend`, the
   pending-dependency count of the *root* m (a local variable of m's call), not its own count (the spec keeps
   [[PendingAsyncDependencies]] per module). *)
Fixpoint pop_scc (cf : cfg) (m pend : nat) (s : gstate) (stack : list nat) : gstate * list nat * option panic :=
  match stack with
  | [] => (s, [], Some (POther 30))       (* js_expect("should at least have `self` in the stack") *)
  | r :: rest =>
      match status_of s r with
      | Evaluating tlc croot _ aorder =>
          let cr := if r =? m then croot else m in
          let s := match aorder with
                   | Some o => set_status s r (EvaluatingAsync tlc cr o
                                                 (if cf_own_pending cf then ms_pend (getm s r) else pend))
                   | None => set_status s r (Evaluated tlc cr None)
                   end in
          if r =? m then (s, rest, None) else pop_scc cf m pend s rest
      | _ => (s, rest, Some (POther 31))
      end
  end.

Fixpoint inner_evaluate (cf : cfg) (fuel : nat) (g : graph) (cap : option nat)
         (s : gstate) (stack : list nat) (index m : nat) : gstate * list nat * res nat :=
  match fuel with
  | 0 => (s, stack, RFuel)
  | S f =>
      match status_of s m with
      | Evaluating _ _ _ _ | EvaluatingAsync _ _ _ _ => (s, stack, ROk index)
      | Evaluated _ _ (Some e) => (s, stack, RErr e)
      | Evaluated _ _ None => (s, stack, ROk index)
      | Linked _ =>
          let s := set_status s m (Evaluating cap m index None) in
          let module_index := index in
          let stack := m :: stack in
          match eval_requests (fun s st i r => inner_evaluate cf f g None s st i r) m (requests g m)
                              s stack (S index) 0 with
          | (s, stack, ROk (index, pend)) =>
              let s := if cf_own_pending cf then set_pend s m pend else s in
              let '(s, r) :=
                if (0 <? pend) || has_tla g m then
                  match status_of s m with
                  | Evaluating tlc cr anc None =>
                      let s := incr_acount (set_status s m (Evaluating tlc cr anc (Some (gs_acount s)))) in
                      if pend =? 0 then execute_async g s m else (s, ROk tt)
                  | Evaluating _ _ _ (Some _) => (s, RPanic (POther 40))   (* debug_assert!(async_evaluation_order.is_none()) *)
                  | _ => (s, RPanic (POther 41))
                  end
                else execute_sync g s m in
              match r with
              | ROk _ =>
                  match status_of s m with
                  | Evaluating _ _ anc _ =>
                      if module_index <? anc then (s, stack, RPanic (POther 42))   (* assert!(ancestor_index <= module_index) *)
                      else if anc =? module_index then
                        match pop_scc cf m pend s stack with
                        | (s, stack, None) => (s, stack, ROk index)
                        | (s, stack, Some p) => (s, stack, RPanic p)
                        end
                      else (s, stack, ROk index)
                  | _ => (s, stack, RPanic (POther 43))
                  end
              | RErr e => (s, stack, RErr e)
              | RPanic p => (s, stack, RPanic p)
              | RFuel => (s, stack, RFuel)
              end
          | (s, stack, RErr e) => (s, stack, RErr e)
          | (s, stack, RPanic p) => (s, stack, RPanic p)
          | (s, stack, RFuel) => (s, stack, RFuel)
          end
      | _ => (s, stack, RPanic (POther 44))   (* unreachable!("2. Assert: module.[[Status]] is one of linked, evaluating-async, or evaluated.") *)
      end
  end.

(* Evaluate(): returns the promise (an index into gs_proms).
   DEVIATION: for a module that is evaluating-async / evaluated the Rust returns the [[TopLevelCapability]] of
   the module itself, not that of its cycle root (spec step 3-4); when the module has none, a fresh
   capability is created and InnerModuleEvaluation runs on the cycle root. *)
Fixpoint mark_errored (s : gstate) (stack : list nat) (e : error) : gstate * option panic :=
  match stack with
  | [] => (s, None)
  | r :: rest =>
      match status_of s r with
      | Evaluating tlc croot _ _ | EvaluatingAsync tlc croot _ _ =>
          mark_errored (set_status s r (Evaluated tlc croot (Some e))) rest e
      | _ => (s, Some (POther 50))
      end
  end.

Definition evaluate (cf : cfg) (fuel : nat) (g : graph) (s : gstate) (m : nat) : gstate * res nat :=
  let go (s : gstate) (md : nat) :=
    let '(s, c) := new_promise s in
    match inner_evaluate cf fuel g (Some c) s [] 0 md with
    | (s, stack, ROk _) =>
        match status_of s md with
        | EvaluatingAsync _ _ _ _ =>
            match stack with [] => (s, ROk c) | _ => (s, RPanic (POther 51)) end
        | Evaluated _ _ None =>
            let s := settle s c PFulfilled in
            match stack with [] => (s, ROk c) | _ => (s, RPanic (POther 51)) end
        | _ => (s, RPanic (POther 52))
        end
    | (s, stack, RErr e) =>
        match mark_errored s stack e with
        | (s, Some p) => (s, RPanic p)
        | (s, None) =>
            match status_of s md with
            | Evaluated _ _ (Some _) => (settle s c (PRejected e), ROk c)
            | _ => (s, RPanic (POther 53))
            end
        end
    | (s, _, RPanic p) => (s, RPanic p)
    | (s, _, RFuel) => (s, RFuel)
    end in
  match status_of s m with
  | Linked _ => go s m
  | EvaluatingAsync (Some c) _ _ _ | Evaluated (Some c) _ _ => (s, ROk c)
  | EvaluatingAsync None croot _ _ | Evaluated None croot _ => go s croot
  | _ => (s, RPanic (POther 54))
  end.

(* ------------------------------------------------------------------------------------------ *)
(* async completion handlers *)

Definition cycle_root_of (st : status) : option nat :=
  match st with
  | Evaluating _ c _ _ | EvaluatingAsync _ c _ _ | Evaluated _ c _ => Some c
  | _ => None
  end.
Definition evaluation_error (st : status) : option error :=
  match st with Evaluated _ _ e => e | _ => None end.

(* GatherAvailableAncestors; execList is a set.
   DEVIATION (cf_gather_keeps = false): the parent list is taken (std::mem::take), so a synchronous parent that is then
   executed from AsyncModuleExecutionFulfilled and throws has no [[AsyncParentModules]] left to reject. *)
Fixpoint gather (cf : cfg) (fuel : nat) (g : graph) (s : gstate) (m : nat) (exec : list nat)
  : gstate * list nat * option panic :=
  match fuel with
  | 0 => (s, exec, Some (POther 99))
  | S f =>
      let parents := ms_aparents (getm s m) in
      let s := if cf_gather_keeps cf then s else set_aparents s m [] in
      (fix loop (ps : list nat) (s : gstate) (exec : list nat) : gstate * list nat * option panic :=
         match ps with
         | [] => (s, exec, None)
         | p :: rest =>
             if mem p exec then loop rest s exec
             else
               match cycle_root_of (status_of s p) with
               | None => loop rest s exec
               | Some cr =>
                   match evaluation_error (status_of s cr) with
                   | Some _ => loop rest s exec
                   | None =>
                       match status_of s p with
                       | EvaluatingAsync tlc c o pend =>
                           match pend with
                           | 0 => (s, exec, Some PGatherPendingZero)
                           | S pend' =>
                               let s := set_status s p (EvaluatingAsync tlc c o pend') in
                               match pend' with
                               | 0 =>
                                   let exec := exec ++ [p] in
                                   if has_tla g p then loop rest s exec
                                   else
                                     match gather cf f g s p exec with
                                     | (s, exec, None) => loop rest s exec
                                     | (s, exec, Some pn) => (s, exec, Some pn)
                                     end
                               | S _ => loop rest s exec
                               end
                           end
                       | _ => (s, exec, Some PGatherNotAsync)
                       end
                   end
               end
         end) parents s exec
  end.

(* AsyncModuleExecutionRejected *)
Fixpoint async_rejected (fuel : nat) (g : graph) (s : gstate) (m : nat) (e : error) : gstate * option panic :=
  match fuel with
  | 0 => (s, Some (POther 98))
  | S f =>
      match status_of s m with
      | Evaluated _ _ (Some _) => (s, None)
      | Evaluated _ _ None => (s, Some PAssertErrorIsSome)
      | EvaluatingAsync tlc croot _ _ =>
          let s := set_status s m (Evaluated tlc croot (Some e)) in
          let r := match tlc with
                   | Some c => if croot =? m then (settle s c (PRejected e), None) else (s, Some (POther 60))
                   | None => (s, None)
                   end in
          match r with
          | (s, Some p) => (s, Some p)
          | (s, None) =>
              let parents := ms_aparents (getm s m) in
              let s := set_aparents s m [] in
              (fix loop (ps : list nat) (s : gstate) : gstate * option panic :=
                 match ps with
                 | [] => (s, None)
                 | p :: rest =>
                     match async_rejected f g s p e with
                     | (s, None) => loop rest s
                     | (s, Some pn) => (s, Some pn)
                     end
                 end) parents s
          end
      | _ => (s, Some (POther 61))
      end
  end.

(* insertion sort of execList by [[AsyncEvaluationOrder]] (sort_by_cached_key; the keys are distinct) *)
Definition aorder_of (s : gstate) (m : nat) : option nat :=
  match status_of s m with EvaluatingAsync _ _ o _ => Some o | _ => None end.
Fixpoint insert_by (k : nat) (x : nat) (l : list (nat * nat)) : list (nat * nat) :=
  match l with
  | [] => [(k, x)]
  | (k', y) :: r => if k <? k' then (k, x) :: l else (k', y) :: insert_by k x r
  end.
Fixpoint sort_exec (s : gstate) (l : list nat) (acc : list (nat * nat)) : option (list nat) :=
  match l with
  | [] => Some (map snd acc)
  | x :: r => match aorder_of s x with
              | Some k => sort_exec s r (insert_by k x acc)
              | None => None
              end
  end.

(* AsyncModuleExecutionFulfilled
   DEVIATION (step 12.c.ii.1, cf_reject_m = false): when a synchronous ancestor m' of the list throws, the Rust calls
   AsyncModuleExecutionRejected(module, error) with the *fulfilled* module instead of m'; that module is already
   evaluated without error, so the debug assertion `error.is_some()` fires (debug build: panic; release build: m' stays
   evaluating-async for ever). *)
Definition async_fulfilled (cf : cfg) (fuel : nat) (g : graph) (s : gstate) (m : nat) : gstate * option panic :=
  match status_of s m with
  | Evaluated _ _ (Some _) => (s, None)
  | Evaluated _ _ None => (s, Some PAssertErrorIsSome)
  | EvaluatingAsync tlc croot _ _ =>
      let s := set_status s m (Evaluated tlc croot None) in
      let r := match tlc with
               | Some c => if croot =? m then (settle s c PFulfilled, None) else (s, Some (POther 70))
               | None => (s, None)
               end in
      match r with
      | (s, Some p) => (s, Some p)
      | (s, None) =>
          match gather cf fuel g s m [] with
          | (s, _, Some p) => (s, Some p)
          | (s, exec, None) =>
              match sort_exec s exec [] with
              | None => (s, Some (POther 71))
              | Some sorted =>
                  (fix loop (l : list nat) (s : gstate) : gstate * option panic :=
                     match l with
                     | [] => (s, None)
                     | x :: rest =>
                         match status_of s x with
                         | Evaluated _ _ (Some _) => loop rest s
                         | Evaluated _ _ None => (s, Some PAssertErrorIsSome)
                         | _ =>
                             if has_tla g x then
                               match execute_async g s x with
                               | (s, ROk _) => loop rest s
                               | (s, RPanic p) => (s, Some p)
                               | (s, _) => (s, Some (POther 72))
                               end
                             else
                               match execute_sync g s x with
                               | (s, RErr e) =>
                                   match async_rejected fuel g s (if cf_reject_m cf then x else m) e with
                                   | (s, None) => loop rest s
                                   | (s, Some p) => (s, Some p)
                                   end
                               | (s, ROk _) =>
                                   match status_of s x with
                                   | EvaluatingAsync tlc' croot' _ _ =>
                                       let s := set_status s x (Evaluated tlc' croot' None) in
                                       match tlc' with
                                       | Some c => if croot' =? x then loop rest (settle s c PFulfilled)
                                                   else (s, Some (POther 73))
                                       | None => loop rest s
                                       end
                                   | _ => (s, Some (POther 74))
                                   end
                               | (s, RPanic p) => (s, Some p)
                               | (s, RFuel) => (s, Some (POther 97))
                               end
                         end
                     end) sorted s
              end
          end
      end
  | _ => (s, Some (POther 75))
  end.

Definition run_job (cf : cfg) (fuel : nat) (g : graph) (s : gstate) (j : job) : gstate * option panic :=
  match j with
  | JResume m 0 => (body_finish g s m, None)
  | JResume m (S k) => (enqueue s (JResume m k), None)
  | JFulfilled m => async_fulfilled cf fuel g s m
  | JRejected m e => async_rejected fuel g s m e
  end.

(* Context::run_jobs: FIFO until the queue is empty *)
Fixpoint run_jobs (cf : cfg) (fuel : nat) (g : graph) (s : gstate) : gstate * res unit :=
  match fuel with
  | 0 => (s, RFuel)
  | S f =>
      match gs_jobs s with
      | [] => (s, ROk tt)
      | j :: rest =>
          match run_job cf fuel g (set_jobs s rest) j with
          | (s, None) => run_jobs cf f g s
          | (s, Some (POther 97)) | (s, Some (POther 98)) | (s, Some (POther 99)) => (s, RFuel)
          | (s, Some p) => (s, RPanic p)
          end
      end
  end.

(* ------------------------------------------------------------------------------------------ *)
(* InnerModuleLinking / Link *)

Definition init_environment (g : graph) (s : gstate) (m : nat) : gstate * res unit :=
  if mi_linkerr (info g m) then (s, RErr ESyntax)
  else match status_of s m with
       | Linking anc => (set_status s m (PreLinked anc), ROk tt)
       | _ => (s, RPanic (POther 80))
       end.

(* DEVIATION: the Rust has an extra state PreLinked (environment initialised, still on the stack).  Step 9.c.iii
   only looks at `Linking`, so the [[DFSAncestorIndex]] of a required module that has already finished its own
   InnerModuleLinking but is still on the stack (PreLinked) is NOT propagated (the spec keeps such a module
   `linking`).  Components can therefore be popped to `linked` before the cycle they belong to is complete. *)
Fixpoint link_requests (rec : rec_t) (m : nat) (reqs : list nat) (s : gstate) (stack : list nat) (index : nat)
  : gstate * list nat * res nat :=
  match reqs with
  | [] => (s, stack, ROk index)
  | r :: rest =>
      match rec s stack index r with
      | (s, stack, ROk index) =>
          match status_of s r with
          | Linking ranc =>
              if negb (mem r stack) then (s, stack, RPanic (POther 81))
              else match status_of s m with
                   | Linking anc => link_requests rec m rest (set_status s m (Linking (Nat.min anc ranc))) stack index
                   | PreLinked anc => link_requests rec m rest (set_status s m (PreLinked (Nat.min anc ranc))) stack index
                   | Linked anc => link_requests rec m rest (set_status s m (Linked (Nat.min anc ranc))) stack index
                   | Evaluating t c anc o => link_requests rec m rest (set_status s m (Evaluating t c (Nat.min anc ranc) o)) stack index
                   | _ => (s, stack, RPanic (POther 82))
                   end
          | PreLinked _ | Linked _ | EvaluatingAsync _ _ _ _ | Evaluated _ _ _ => link_requests rec m rest s stack index
          | _ => (s, stack, RPanic (POther 83))
          end
      | other => other
      end
  end.

Fixpoint pop_link (m : nat) (s : gstate) (stack : list nat) : gstate * list nat * option panic :=
  match stack with
  | [] => (s, [], Some (POther 84))
  | r :: rest =>
      match status_of s r with
      | PreLinked anc =>
          let s := set_status s r (Linked anc) in
          if r =? m then (s, rest, None) else pop_link m s rest
      | _ => (s, rest, Some (POther 85))     (* "can only transition to `Linked` from the `PreLinked` state" *)
      end
  end.

Fixpoint inner_link (fuel : nat) (g : graph) (s : gstate) (stack : list nat) (index m : nat)
  : gstate * list nat * res nat :=
  match fuel with
  | 0 => (s, stack, RFuel)
  | S f =>
      match status_of s m with
      | Linking _ | PreLinked _ | Linked _ | EvaluatingAsync _ _ _ _ | Evaluated _ _ _ => (s, stack, ROk index)
      | Unlinked =>
          let s := set_status s m (Linking index) in
          let module_index := index in
          let stack := m :: stack in
          match link_requests (inner_link f g) m (requests g m) s stack (S index) with
          | (s, stack, ROk index) =>
              match init_environment g s m with
              | (s, ROk _) =>
                  match status_of s m with
                  | PreLinked anc =>
                      if anc =? module_index then
                        match pop_link m s stack with
                        | (s, stack, None) => (s, stack, ROk index)
                        | (s, stack, Some p) => (s, stack, RPanic p)
                        end
                      else (s, stack, ROk index)
                  | _ => (s, stack, RPanic (POther 86))
                  end
              | (s, RErr e) => (s, stack, RErr e)
              | (s, RPanic p) => (s, stack, RPanic p)
              | (s, RFuel) => (s, stack, RFuel)
              end
          | other => other
          end
      | Evaluating _ _ _ _ => (s, stack, RPanic (POther 87))   (* unreachable!("3. Assert: module.[[Status]] is unlinked.") *)
      end
  end.

Fixpoint unlink_stack (s : gstate) (stack : list nat) : gstate * option panic :=
  match stack with
  | [] => (s, None)
  | r :: rest =>
      match status_of s r with
      | Linking _ => unlink_stack (set_status s r Unlinked) rest
      | _ => (s, Some PLinkNotLinking)
      end
  end.

(* Link(): the stack is walked bottom to top in the Rust; the order only matters for which member panics first *)
Definition link (fuel : nat) (g : graph) (s : gstate) (m : nat) : gstate * res unit :=
  match status_of s m with
  | Unlinked | Linked _ | EvaluatingAsync _ _ _ _ | Evaluated _ _ _ =>
      match inner_link fuel g s [] 0 m with
      | (s, stack, ROk _) =>
          match stack with [] => (s, ROk tt) | _ => (s, RPanic (POther 88)) end
      | (s, stack, RErr e) =>
          match unlink_stack s (rev stack) with
          | (s, None) => (s, RErr e)
          | (s, Some p) => (s, RPanic p)
          end
      | (s, _, RPanic p) => (s, RPanic p)
      | (s, _, RFuel) => (s, RFuel)
      end
  | _ => (s, RPanic (POther 89))       (* debug_assert on entry *)
  end.

(* ------------------------------------------------------------------------------------------ *)
(* LoadRequestedModules / InnerModuleLoading *)

Record lstate := mkLs {
  ls_loading : bool;
  ls_pending : nat;
  ls_visited : list nat;
  ls_queue   : list (nat * nat);           (* async jobs enqueued, not yet handed to the FutureGroup *)
  ls_slab    : list (option (nat * nat));  (* FutureGroup: slab of futures ... *)
  ls_free    : list nat;                   (* ... and its free list (last freed first) *)
  ls_result  : option (option error)       (* the load promise: None pending, Some None fulfilled, Some (Some e) rejected *)
}.
Definition ls0 := mkLs true 1 [] [] [] [] None.
Definition ls_set_loading (l : lstate) b := mkLs b (ls_pending l) (ls_visited l) (ls_queue l) (ls_slab l) (ls_free l) (ls_result l).
Definition ls_set_pending (l : lstate) n := mkLs (ls_loading l) n (ls_visited l) (ls_queue l) (ls_slab l) (ls_free l) (ls_result l).
Definition ls_visit (l : lstate) m := mkLs (ls_loading l) (ls_pending l) (m :: ls_visited l) (ls_queue l) (ls_slab l) (ls_free l) (ls_result l).
Definition ls_enqueue (l : lstate) j := mkLs (ls_loading l) (ls_pending l) (ls_visited l) (ls_queue l ++ [j]) (ls_slab l) (ls_free l) (ls_result l).
Definition ls_settle (l : lstate) r :=
  mkLs (ls_loading l) (ls_pending l) (ls_visited l) (ls_queue l) (ls_slab l) (ls_free l)
       (match ls_result l with None => Some r | x => x end).

(* Module::inner_load (mod.rs) with SourceTextModule::inner_load (source.rs) inlined *)
Fixpoint inner_load (fuel : nat) (g : graph) (s : gstate) (l : lstate) (m : nat) : gstate * lstate * option panic :=
  match fuel with
  | 0 => (s, l, Some (POther 96))
  | S f =>
      if negb (ls_loading l) then (s, l, Some (POther 90))     (* assert!(state.loading.get()) *)
      else
        let visit :=
          match status_of s m with
          | Unlinked => negb (mem m (ls_visited l))
          | _ => false
          end in
        let r :=
          if visit then
            let l := ls_visit l m in
            let reqs := requests g m in
            let l := ls_set_pending l (ls_pending l + length reqs) in
            (fix loop (rs : list nat) (s : gstate) (l : lstate) : gstate * lstate * option panic :=
               match rs with
               | [] => (s, l, None)
               | r :: rest =>
                   let '(s, l, p) :=
                     if mem r (ms_loaded (getm s m)) then inner_load f g s l r
                     else (s, ls_enqueue l (m, r), None) in
                   match p with
                   | Some pn => (s, l, Some pn)
                   | None => if negb (ls_loading l) then (s, l, None) else loop rest s l
                   end
               end) reqs s l
          else (s, l, None) in
        match r with
        | (s, l, Some p) => (s, l, Some p)
        | (s, l, None) =>
            if negb (ls_loading l) then (s, l, None)
            else match ls_pending l with
                 | 0 => (s, l, Some (POther 91))       (* assert!(state.pending_modules.get() >= 1) *)
                 | S n =>
                     let l := ls_set_pending l n in
                     match n with
                     | 0 => (s, ls_settle (ls_set_loading l false) None, None)
                     | _ => (s, l, None)
                     end
                 end
        end
  end.

(* finish_loading_imported_module: the body of one async job *)
Definition load_job (fuel : nat) (g : graph) (s : gstate) (l : lstate) (j : nat * nat) : gstate * lstate * option panic :=
  let '(m, r) := j in
  let s := add_load s m r in
  if registered g r then
    let s := add_loaded s m r in
    if negb (ls_loading l) then (s, l, None) else inner_load fuel g s l r
  else
    if negb (ls_loading l) then (s, l, None)
    else (s, ls_settle (ls_set_loading l false) (Some EType), None).

(* futures_concurrency::FutureGroup as used by SimpleJobExecutor::run_jobs_async: new jobs go into the slab
   (reusing the most recently freed slot first), one ready future is completed per loop turn, lowest key first *)
Fixpoint slab_set {A} (sl : list (option A)) (i : nat) (v : option A) : list (option A) :=
  match sl, i with
  | [], _ => []
  | _ :: r, 0 => v :: r
  | x :: r, S i' => x :: slab_set r i' v
  end.
Fixpoint slab_insert_all (q : list (nat * nat)) (sl : list (option (nat * nat))) (fr : list nat)
  : list (option (nat * nat)) * list nat :=
  match q with
  | [] => (sl, fr)
  | j :: rest =>
      match fr with
      | i :: fr' => slab_insert_all rest (slab_set sl i (Some j)) fr'
      | [] => slab_insert_all rest (sl ++ [Some j]) []
      end
  end.
Fixpoint slab_first {A} (sl : list (option A)) (i : nat) : option (nat * A) :=
  match sl with
  | [] => None
  | Some j :: _ => Some (i, j)
  | None :: r => slab_first r (S i)
  end.

Fixpoint load_loop (fuel : nat) (g : graph) (s : gstate) (l : lstate) : gstate * lstate * res unit :=
  match fuel with
  | 0 => (s, l, RFuel)
  | S f =>
      let '(sl, fr) := slab_insert_all (ls_queue l) (ls_slab l) (ls_free l) in
      match slab_first sl 0 with
      | None => (s, l, ROk tt)
      | Some (i, j) =>
          let l := mkLs (ls_loading l) (ls_pending l) (ls_visited l) [] (slab_set sl i None) (i :: fr) (ls_result l) in
          match load_job fuel g s l j with
          | (s, l, None) => load_loop f g s l
          | (s, l, Some (POther 96)) => (s, l, RFuel)
          | (s, l, Some p) => (s, l, RPanic p)
          end
      end
  end.

Definition load (fuel : nat) (g : graph) (s : gstate) (m : nat) : gstate * res (option (option error)) :=
  match inner_load fuel g s ls0 m with
  | (s, l, Some (POther 96)) => (s, RFuel)
  | (s, l, Some p) => (s, RPanic p)
  | (s, l, None) =>
      match load_loop fuel g s l with
      | (s, l, ROk _) => (s, ROk (ls_result l))
      | (s, _, RErr e) => (s, RErr e)
      | (s, _, RPanic p) => (s, RPanic p)
      | (s, _, RFuel) => (s, RFuel)
      end
  end.

(* ------------------------------------------------------------------------------------------ *)
(* Module::load_link_evaluate + Context::run_jobs *)

Inductive outcome := OFulfilled | OPending | ORejected (e : error) | OPanic (p : panic) | OFuel.

Definition run_op (cf : cfg) (fuel : nat) (g : graph) (s : gstate) (m : nat) : gstate * outcome :=
  match load fuel g s m with
  | (s, RFuel) => (s, OFuel)
  | (s, RPanic p) => (s, OPanic p)
  | (s, RErr e) => (s, ORejected e)
  | (s, ROk None) => (s, OPending)
  | (s, ROk (Some (Some e))) => (s, ORejected e)
  | (s, ROk (Some None)) =>
      match link fuel g s m with
      | (s, RFuel) => (s, OFuel)
      | (s, RPanic p) => (s, OPanic p)
      | (s, RErr e) => (s, ORejected e)
      | (s, ROk _) =>
          match evaluate cf fuel g s m with
          | (s, RFuel) => (s, OFuel)
          | (s, RPanic p) => (s, OPanic p)
          | (s, RErr e) => (s, ORejected e)
          | (s, ROk c) =>
              match run_jobs cf fuel g s with
              | (s, RFuel) => (s, OFuel)
              | (s, RPanic p) => (s, OPanic p)
              | (s, RErr e) => (s, ORejected e)
              | (s, ROk _) =>
                  (s, match promise_state s c with
                      | PPending => OPending
                      | PFulfilled => OFulfilled
                      | PRejected e => ORejected e
                      end)
              end
          end
      end
  end.

(* a case: the ops in order; after a panic the case stops (the harness does the same) *)
Fixpoint run_ops (cf : cfg) (fuel : nat) (g : graph) (s : gstate) (ops : list nat) : list (gstate * outcome) :=
  match ops with
  | [] => []
  | m :: rest =>
      let '(s', o) := run_op cf fuel g s m in
      (s', o) :: match o with
                 | OPanic _ | OFuel => []
                 | _ => run_ops cf fuel g s' rest
                 end
  end.

(* the explicit fuel bound used by the drivers and by `fuel_sufficient` *)
Definition default_fuel (g : graph) : nat := 4 * length g * length g + 4 * length g + 64.
