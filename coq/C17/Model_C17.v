(* The executable model of C17 lives in Modules.v (the name used by DESIGN.md); this file re-exports it under the
   name the builder conventions expect. *)
From C17 Require Export Modules.
