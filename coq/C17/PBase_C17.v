(* C17 lemmas, part 1: state access, lists, reachability, logs, and the effect of the primitive steps of the
   synchronous evaluation (set_status, ExecuteModule, popping a component, marking the stack as errored). *)
From Coq Require Import List Arith Bool Lia Sorting.Sorted.
From C17 Require Import Modules Spec_C17.
Import ListNotations.

(* ------------------------------------------------------------------------------------------ *)
(* state access *)

Lemma getm_setm : forall s m v m', getm (setm s m v) m' = if m =? m' then v else getm s m'.
Proof. intros. unfold getm, setm. simpl. reflexivity. Qed.

Lemma status_set_status : forall s m st m',
  status_of (set_status s m st) m' = if m =? m' then st else status_of s m'.
Proof.
  intros. unfold status_of, set_status. rewrite getm_setm. destruct (m =? m'); reflexivity.
Qed.
Lemma status_set_status_eq : forall s m st, status_of (set_status s m st) m = st.
Proof. intros. rewrite status_set_status, Nat.eqb_refl. reflexivity. Qed.
Lemma status_set_status_neq : forall s m st m', m <> m' -> status_of (set_status s m st) m' = status_of s m'.
Proof. intros. rewrite status_set_status. apply Nat.eqb_neq in H. rewrite H. reflexivity. Qed.

Lemma status_set_phase : forall s m p m', status_of (set_phase s m p) m' = status_of s m'.
Proof.
  intros. unfold status_of, set_phase. rewrite getm_setm.
  destruct (m =? m') eqn:E; [apply Nat.eqb_eq in E; subst|]; reflexivity.
Qed.
Lemma status_set_pend : forall s m p m', status_of (set_pend s m p) m' = status_of s m'.
Proof.
  intros. unfold status_of, set_pend. rewrite getm_setm.
  destruct (m =? m') eqn:E; [apply Nat.eqb_eq in E; subst|]; reflexivity.
Qed.
Lemma status_add_log : forall s e m, status_of (add_log s e) m = status_of s m.
Proof. reflexivity. Qed.
Lemma slog_set_status : forall s m st, slog (set_status s m st) = slog s.
Proof. reflexivity. Qed.

Lemma mem_In : forall x l, mem x l = true <-> In x l.
Proof.
  intros. unfold mem. rewrite existsb_exists. split.
  - intros [y [H1 H2]]. apply Nat.eqb_eq in H2. subst. assumption.
  - intros. exists x. split; [assumption | apply Nat.eqb_refl].
Qed.

(* the fields that the synchronous evaluation never touches *)
Definition same_aux (s s' : gstate) : Prop :=
  gs_loads s' = gs_loads s /\ gs_proms s' = gs_proms s /\ gs_jobs s' = gs_jobs s /\ gs_acount s' = gs_acount s.
Lemma same_aux_refl : forall s, same_aux s s.
Proof. unfold same_aux; auto. Qed.
Lemma same_aux_trans : forall a b c, same_aux a b -> same_aux b c -> same_aux a c.
Proof. unfold same_aux; intros a b c (?&?&?&?) (?&?&?&?); repeat split; congruence. Qed.
Lemma same_aux_set_status : forall s m st, same_aux s (set_status s m st).
Proof. unfold same_aux; auto. Qed.

(* ------------------------------------------------------------------------------------------ *)
(* lists *)

Lemma in_snoc : forall (A : Type) (l : list A) a x, In x (l ++ [a]) <-> In x l \/ x = a.
Proof. intros. rewrite in_app_iff. simpl. intuition. Qed.

Lemma NoDup_snoc : forall (A : Type) (l : list A) a, NoDup l -> ~ In a l -> NoDup (l ++ [a]).
Proof.
  intros A l a Hnd Hn. induction l as [|b l IH]; simpl.
  - constructor; [intros []|constructor].
  - inversion Hnd; subst. constructor.
    + rewrite in_snoc. intros [H|H]; [contradiction|]. subst. apply Hn. simpl; auto.
    + apply IH; [assumption|]. intro; apply Hn; simpl; auto.
Qed.

Lemma NoDup_bound_length : forall (l : list nat) n, NoDup l -> (forall x, In x l -> x < n) -> length l <= n.
Proof.
  intros l n Hnd Hb.
  rewrite <- (seq_length n 0). apply NoDup_incl_length; [assumption|].
  intros x Hx. apply in_seq. specialize (Hb x Hx). lia.
Qed.

Lemma NoDup_app_l : forall (A : Type) (a b : list A), NoDup (a ++ b) -> NoDup a.
Proof.
  intros A a. induction a as [|c a IH]; intros b H; [constructor|].
  simpl in H. inversion H; subst. constructor; [|eapply IH; eauto].
  intro Hin. apply H2. apply in_or_app; auto.
Qed.

Lemma NoDup_app_r : forall (A : Type) (a b : list A), NoDup (a ++ b) -> NoDup b.
Proof.
  intros A a. induction a as [|c a IH]; intros b H; [assumption|].
  simpl in H. inversion H; subst. eapply IH; eauto.
Qed.

Lemma NoDup_app_disjoint : forall (A : Type) (a b : list A) x, NoDup (a ++ b) -> In x a -> In x b -> False.
Proof.
  intros A a. induction a as [|c a IH]; intros b x Hnd Ha Hb; [destruct Ha|].
  simpl in Hnd. inversion Hnd; subst. destruct Ha as [->|Ha].
  - apply H1. apply in_or_app; auto.
  - eapply IH; eauto.
Qed.

(* ------------------------------------------------------------------------------------------ *)
(* reachability *)

Lemma reach_edge : forall g x y, edge g x y -> reach g x y.
Proof. intros. eapply reach_step; [eassumption|apply reach_refl]. Qed.
Lemma reach_trans : forall g x y z, reach g x y -> reach g y z -> reach g x z.
Proof. intros g x y z H. induction H; intros; [assumption|]. eapply reach_step; eauto. Qed.

(* ------------------------------------------------------------------------------------------ *)
(* stacks ordered by depth-first index (top = head = largest index) *)

Definition ixsorted (ix : nat -> nat) (stack : list nat) : Prop :=
  StronglySorted (fun a b => ix b < ix a) stack.

Lemma ixsorted_app : forall ix a m b, ixsorted ix (a ++ m :: b) ->
  (forall x, In x a -> ix m < ix x) /\ (forall x, In x b -> ix x < ix m) /\ ixsorted ix b /\
  (forall x y, In x a -> In y b -> ix y < ix x).
Proof.
  intros ix a. induction a as [|c a IH]; intros m b H; simpl in *.
  - apply StronglySorted_inv in H. destruct H as [Hs Hf]. rewrite Forall_forall in Hf.
    split; [intros x []|]. split; [assumption|]. split; [assumption|]. intros x y [].
  - apply StronglySorted_inv in H. destruct H as [Hs Hf]. rewrite Forall_forall in Hf.
    destruct (IH m b Hs) as (H1 & H2 & H3 & H4). split; [|split; [|split]].
    + intros x [<-|Hx]; [apply Hf; apply in_or_app; simpl; auto|auto].
    + assumption.
    + assumption.
    + intros x y [<-|Hx] Hy; [apply Hf; apply in_or_app; simpl; auto|auto].
Qed.

Lemma ixsorted_NoDup : forall ix l, ixsorted ix l -> NoDup l.
Proof.
  intros ix l H. induction H as [|a l Hs IH Hf]; constructor; [|assumption].
  rewrite Forall_forall in Hf. intro Hin. specialize (Hf a Hin). lia.
Qed.

Lemma ixsorted_ext : forall ix ix' l, (forall x, In x l -> ix' x = ix x) -> ixsorted ix l -> ixsorted ix' l.
Proof.
  intros ix ix' l He H. induction H as [|a l Hs IH Hf]; [constructor|].
  constructor.
  - apply IH. intros; apply He; simpl; auto.
  - rewrite Forall_forall in *. intros x Hx. rewrite (He x), (He a) by (simpl; auto). auto.
Qed.

(* ------------------------------------------------------------------------------------------ *)
(* logs *)

Definition ev_mod (e : revent) : nat := match e with RStart m | REnd m => m end.

Lemma DF_app_inv : forall g l x l1 l2, DF g l -> l = l1 ++ RStart x :: l2 ->
  forall d, ncdep g x d -> In (REnd d) l1.
Proof.
  intros g l x l1 l2 H. revert l1 l2. induction H as [|l y H IH|l y H IH Hy]; intros l1 l2 E d Hd.
  - destruct l1; discriminate.
  - destruct l2 as [|z l2].
    + apply app_inj_tail in E. destruct E as [_ E]. discriminate.
    + destruct (exists_last (l := z :: l2)) as (l2' & w & E2); [discriminate|]. rewrite E2 in E.
      rewrite app_comm_cons, app_assoc in E. apply app_inj_tail in E. destruct E as [E _].
      eapply IH; eauto.
  - destruct l2 as [|z l2].
    + apply app_inj_tail in E. destruct E as [-> E]. inversion E; subst. auto.
    + destruct (exists_last (l := z :: l2)) as (l2' & w & E2); [discriminate|]. rewrite E2 in E.
      rewrite app_comm_cons, app_assoc in E. apply app_inj_tail in E. destruct E as [E _].
      eapply IH; eauto.
Qed.
