(* C17: the vocabulary of the property theorems (specification side).
   Nothing here is executable model code: graphs and states come from Modules.v; this file defines what
   "dependency", "body ran", "depth-first post-order", "recorded outcome" and "a state between two
   evaluations" mean. *)
From Coq Require Import List Arith Bool Lia.
From C17 Require Import Modules.
Import ListNotations.

(* a synchronous graph: no module has a top-level await *)
Definition sync (g : graph) : Prop := forall m, mi_awaits (info g m) = 0.
(* the body of m throws *)
Definition throws (g : graph) (m : nat) : bool := mi_pre (info g m) || mi_post (info g m).

(* dependency edges: the [[RequestedModules]] list *)
Definition edge (g : graph) (a b : nat) : Prop := In b (requests g a).
Inductive reach (g : graph) : nat -> nat -> Prop :=
| reach_refl : forall x, reach g x x
| reach_step : forall x y z, edge g x y -> reach g y z -> reach g x z.
(* d is a non-cyclic dependency of m: reachable through a request r of m that does not lead back to m *)
Definition ncdep (g : graph) (m d : nat) : Prop :=
  exists r, edge g m r /\ reach g r d /\ ~ reach g r m.

(* the body execution log with the printed values stripped *)
Inductive revent := RStart (m : nat) | REnd (m : nat).
Definition strip (e : event) : revent :=
  match e with EvStart m _ => RStart m | EvEnd m _ => REnd m end.
Definition slog (s : gstate) : list revent := map strip (gs_log s).

(* "every body starts only after its non-cyclic dependencies have finished", as a property of a log *)
Inductive DF (g : graph) : list revent -> Prop :=
| DF_nil : DF g []
| DF_end : forall l x, DF g l -> DF g (l ++ [REnd x])
| DF_start : forall l x, DF g l -> (forall d, ncdep g x d -> In (REnd d) l) -> DF g (l ++ [RStart x]).

(* status classes *)
Definition is_white (st : status) : bool := match st with Linked _ => true | _ => false end.
Definition entered (st : status) : bool :=
  match st with Evaluating _ _ _ _ | Evaluated _ _ _ => true | _ => false end.
Definition evaluable (st : status) : bool := is_white st || entered st.
Definition okst (st : status) : bool := match st with Evaluated _ _ None => true | _ => false end.
(* the recorded outcome of a module *)
Definition recorded (s : gstate) (m : nat) : option (option error) :=
  match status_of s m with Evaluated _ _ e => Some e | _ => None end.
Definition outcome_of (e : option error) : pstate :=
  match e with None => PFulfilled | Some x => PRejected x end.
(* the module whose throw is recorded as m's evaluation error *)
Definition badf (s : gstate) (m : nat) : option nat :=
  match status_of s m with Evaluated _ _ (Some (EThrow t)) => Some t | _ => None end.

(* The specification's order: InnerModuleEvaluation without the bookkeeping — depth-first over the request lists,
   a module is entered once (`vis` = modules already entered), a recorded error (`bad`) is rethrown, a body runs after
   its requests, the walk stops at the first throw.  Result: entered modules, events, thrower. *)
Definition body_events (g : graph) (m : nat) : list revent :=
  if throws g m then [RStart m] else [RStart m; REnd m].
Definition body_thr (g : graph) (m : nat) : option nat := if throws g m then Some m else None.

Inductive dfs (g : graph) (bad : nat -> option nat) : list nat -> nat -> list nat -> list revent -> option nat -> Prop :=
| dfs_bad : forall vis m t, bad m = Some t -> dfs g bad vis m vis [] (Some t)
| dfs_seen : forall vis m, bad m = None -> In m vis -> dfs g bad vis m vis [] None
| dfs_fail : forall vis m vis' l t, bad m = None -> ~ In m vis ->
    dfs_list g bad (m :: vis) (requests g m) vis' l (Some t) -> dfs g bad vis m vis' l (Some t)
| dfs_body : forall vis m vis' l, bad m = None -> ~ In m vis ->
    dfs_list g bad (m :: vis) (requests g m) vis' l None ->
    dfs g bad vis m vis' (l ++ body_events g m) (body_thr g m)
with dfs_list (g : graph) (bad : nat -> option nat) : list nat -> list nat -> list nat -> list revent -> option nat -> Prop :=
| dfsl_nil : forall vis, dfs_list g bad vis [] vis [] None
| dfsl_fail : forall vis r rest vis' l t,
    dfs g bad vis r vis' l (Some t) -> dfs_list g bad vis (r :: rest) vis' l (Some t)
| dfsl_cons : forall vis r rest vis1 l1 vis2 l2 thr,
    dfs g bad vis r vis1 l1 None -> dfs_list g bad vis1 rest vis2 l2 thr ->
    dfs_list g bad vis (r :: rest) vis2 (l1 ++ l2) thr.

(* `vis` lists exactly the entered modules of s (among the modules that can be evaluated at all) *)
Definition represents (s : gstate) (vis : list nat) : Prop :=
  forall x, evaluable (status_of s x) = true -> (In x vis <-> entered (status_of s x) = true).

(* A state between two calls of Evaluate() on a synchronous graph: what Link() establishes and what every
   Evaluate() re-establishes (theorem `ready_preserved`). *)
Record Ready (g : graph) (s : gstate) : Prop := mkReady {
  R_settled : forall x, match status_of s x with
                        | Evaluating _ _ _ _ | EvaluatingAsync _ _ _ _ => False | _ => True end;
  R_closed : forall x r, evaluable (status_of s x) = true -> edge g x r -> evaluable (status_of s r) = true;
  R_bound : forall x, evaluable (status_of s x) = true -> x < length g;
  R_ok : forall x tlc cr, status_of s x = Evaluated tlc cr None ->
           (exists tlc', status_of s cr = Evaluated tlc' cr None) /\ throws g x = false /\ In (REnd x) (slog s) /\
           forall z, edge g x z -> okst (status_of s z) = true;
  R_bad : forall x tlc cr e, status_of s x = Evaluated tlc cr (Some e) ->
           cr = x /\ exists t, e = EThrow t /\ throws g t = true /\ reach g x t /\
             (exists tlc', status_of s t = Evaluated tlc' t (Some (EThrow t))) /\
             In (RStart t) (slog s) /\ ~ In (REnd t) (slog s);
  R_nodup : NoDup (slog s);
  R_df : DF g (slog s);
  R_dom : forall x, In (RStart x) (slog s) \/ In (REnd x) (slog s) -> entered (status_of s x) = true
}.
