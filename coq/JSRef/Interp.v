(* The JSRef evaluator: expressions (big-step), pattern binding, function calls / construction,
   classes, and the explicit-continuation statement machine that lets generator and async bodies
   suspend.  Written from ECMA-262 (13-15, 10.2, 27.5); every re-entrant step goes through [self]. *)
From Coq Require Import ZArith NArith PArith List Bool String Floats.SpecFloat.
From JSRef Require Import Float Syntax Values Static Ops Promises.
Import ListNotations.
Open Scope m_scope.

Definition SHORT_CIRCUIT : value := VSym 0%N.      (* internal: optional-chain short circuit *)
Definition SYM_FIELDS : N := 7%N.                  (* internal slot: class instance field records *)

Definition nth_func (P : prog) (i : nat) : M func :=
  match nth_error (p_funcs P) i with Some f => ret f | None => unsupported 930%N end.
Definition nth_class (P : prog) (i : nat) : M classdef :=
  match nth_error (p_classes P) i with Some c => ret c | None => unsupported 931%N end.

Definition anon_fn_expr (P : prog) (e : expr) : bool :=
  match e with
  | EFunc i => match nth_error (p_funcs P) i with Some f => match f_name f with [] => true | _ => false end | None => false end
  | EClass i => match nth_error (p_classes P) i with Some c => match c_name c with [] => true | _ => false end | None => false end
  | _ => false
  end.

Definition key_name (k : pkey) (st : state) : str :=
  match k with
  | KStr s => s
  | KSym i => match assoc_n i (sym_descr st) with Some (Some d) => S "[" ++ d ++ S "]" | _ => [] end
  end.

Section WithSelf.
Variable P : prog.
Variable self : ops.

(* ---- function objects *)
Definition fn_proto_for (k : fkind) : loc :=
  match k with
  | FGenerator => L_GeneratorFunctionProto
  | FAsync | FAsyncArrow => L_AsyncFunctionProto
  | FAsyncGenerator => L_AsyncGeneratorFunctionProto
  | _ => L_FunctionProto
  end.

Definition make_function (env : envref) (fidx : nat) (home : option loc) (cls : option nat) (name : str) (fproto : option loc) : M value :=
  do f <- nth_func P fidx;;
  let proto := match fproto with Some p => p | None => fn_proto_for (f_kind f) end in
  let len := VNum (of_Z (Z.of_nat (expected_args (f_params f)))) in
  let nm := match f_kind f with FGetter => S "get " ++ name | FSetter => S "set " ++ name | _ => name end in
  do l <- new_obj (Some proto) (OFunction fidx env home cls)
            [(KStr s_length, PData len false false true); (KStr s_name, PData (VStr nm) false false true)];;
  match f_kind f with
  | FNormal =>
      do pl <- new_obj (Some L_ObjectProto) OOrdinary [(KStr s_constructor, PData (VObj l) true false true)];;
      do _ <- define_own l (KStr s_prototype) (data_desc (VObj pl) true false false);;
      ret (VObj l)
  | FGenerator =>
      do pl <- new_obj (Some L_GeneratorProto) OOrdinary [];;
      do _ <- define_own l (KStr s_prototype) (data_desc (VObj pl) true false false);;
      ret (VObj l)
  | FAsyncGenerator =>
      do pl <- new_obj (Some L_AsyncGeneratorProto) OOrdinary [];;
      do _ <- define_own l (KStr s_prototype) (data_desc (VObj pl) true false false);;
      ret (VObj l)
  | _ => ret (VObj l)
  end.

(* function / class expression, with the name supplied by NamedEvaluation when anonymous *)
Definition is_constructor (st : state) (v : value) : bool :=
  match v with
  | VObj l =>
      (fix go (fuel : nat) (l : loc) : bool :=
         match fuel with O => false | Datatypes.S f =>
           match get_obj st l with
           | Some o =>
               match o_kind o with
               | OFunction fi _ _ _ => match nth_error (p_funcs P) fi with Some fd => is_constructor_kind (f_kind fd) | None => false end
               | ONative n _ => match n with
                                | NObject | NArray | NError _ | NString | NNumber | NBoolean | NPromise | NSymbol | NBigInt => true
                                | _ => false end
               | OBound t _ _ => go f t
               | _ => false
               end
           | None => false
           end end) LABEL_FUEL l
  | _ => false
  end.

Definition set_env_this (r : envref) (t : this_state) : M unit :=
  do e <- the_env r;; fun st => ROk tt (set_env st r (with_this e t)).

(* ---- argument lists and spreads *)
Definition eval_args (c : ctx) (args : list arg) : M (list value) :=
  (fix go (l : list arg) (acc : list value) : M (list value) :=
     match l with
     | [] => ret (rev acc)
     | Arg e :: t => do v <- o_eval self c e;; go t (v :: acc)
     | ArgSpread e :: t => do v <- o_eval self c e;; do vs <- iterate_to_list self v;; go t (rev vs ++ acc)
     end) args [].

Definition eval_propkey (c : ctx) (k : propkey) : M pkey :=
  match k with
  | PKStr s => ret (KStr s)
  | PKNum b => ret (KStr (num_to_units (of_bits b)))
  | PKComputed e => do v <- o_eval self c e;; to_property_key self v
  end.

(* ---- classes *)
Definition home_of (fobj : loc) : M (option loc) :=
  do o <- the_obj fobj;;
  match o_kind o with OFunction _ _ h _ => ret h | _ => ret None end.

Definition initialize_instance_fields (inst : loc) (ctor : loc) : M unit :=
  do co <- the_obj ctor;;
  match find_prop (KSym SYM_FIELDS) (o_props co) with
  | Some (PData (VObj fl) _ _ _) =>
      do n <- length_of_array_like self fl;;
      (fix go (fuel : nat) (i : N) : M unit :=
         match fuel with O => ret tt | Datatypes.S f =>
           if N.leb n i then ret tt else
           do rec <- o_get self fl (KStr (n_to_str i)) (VObj fl);;
           match rec with
           | VObj rl =>
               do kv <- o_get self rl (KStr (S "k")) rec;;
               do iv <- o_get self rl (KStr (S "i")) rec;;
               do key <- to_property_key self kv;;
               do v <- (match iv with VUndef => ret VUndef | _ => o_call self iv (VObj inst) [] end);;
               do _ <- create_data_prop_or_throw inst key v;;
               go f (i + 1)%N
           | _ => go f (i + 1)%N
           end
         end) (N.to_nat n + 1)%nat 0%N
  | _ => ret tt
  end.

Definition class_define (c : ctx) (idx : nat) (name : str) : M value :=
  do cd <- nth_class P idx;;
  let cname := match c_name cd with [] => name | n => n end in
  do cenv <- new_decl_env (c_lex c);;
  do _ <- (match c_name cd with [] => ret tt | n => create_binding cenv n const_uninit end);;
  let cc := {| c_lex := cenv; c_var := c_var c; c_strict := true |} in
  do parents <- (match c_heritage cd with
                 | None => ret (Some L_ObjectProto, L_FunctionProto)
                 | Some he =>
                     do sv <- o_eval self cc he;;
                     match sv with
                     | VNull => ret (None, L_FunctionProto)
                     | VObj sl =>
                         do st <- get_state;;
                         if negb (is_constructor st sv) then type_error else
                         do pp <- o_get self sl (KStr s_prototype) sv;;
                         match pp with
                         | VObj ppl => ret (Some ppl, sl)
                         | VNull => ret (None, sl)
                         | _ => type_error
                         end
                     | _ => type_error
                     end
                 end);;
  let '(proto_parent, ctor_parent) := parents in
  do proto <- new_obj proto_parent OOrdinary [];;
  do ctor_idx <- (match c_ctor cd with Some i => ret i | None => unsupported 932%N end);;
  do fv <- make_function cenv ctor_idx (Some proto) (Some idx) cname (Some ctor_parent);;
  match fv with
  | VObj F =>
      do _ <- define_own F (KStr s_prototype) (data_desc (VObj proto) false false false);;
      do _ <- define_own proto (KStr s_constructor) (data_desc fv true false true);;
      (* members in order; instance fields collected, static fields deferred *)
      do fields <- (fix go (ms : list class_member) (inst : list (value * value)) (stat : list (pkey * value)) : M (list (value * value) * list (pkey * value)) :=
                      match ms with
                      | [] => ret (rev inst, rev stat)
                      | m :: t =>
                          let target := if cm_static m then F else proto in
                          do key <- eval_propkey cc (cm_key m);;
                          match cm_kind m with
                          | MMethod =>
                              do fi <- (match cm_fidx m with Some i => ret i | None => unsupported 933%N end);;
                              do st <- get_state;;
                              do mv <- make_function cenv fi (Some target) None (key_name key st) None;;
                              do _ <- define_or_throw target key (data_desc mv true false true);;
                              go t inst stat
                          | MGetter =>
                              do fi <- (match cm_fidx m with Some i => ret i | None => unsupported 933%N end);;
                              do st <- get_state;;
                              do mv <- make_function cenv fi (Some target) None (key_name key st) None;;
                              do _ <- define_or_throw target key {| d_value := None; d_get := Some mv; d_set := None; d_writable := None; d_enumerable := Some false; d_configurable := Some true |};;
                              go t inst stat
                          | MSetter =>
                              do fi <- (match cm_fidx m with Some i => ret i | None => unsupported 933%N end);;
                              do st <- get_state;;
                              do mv <- make_function cenv fi (Some target) None (key_name key st) None;;
                              do _ <- define_or_throw target key {| d_value := None; d_get := None; d_set := Some mv; d_writable := None; d_enumerable := Some false; d_configurable := Some true |};;
                              go t inst stat
                          | MField =>
                              do st <- get_state;;
                              do iv <- (match cm_fidx m with
                                        | Some i => make_function cenv i (Some target) None (key_name key st) None
                                        | None => ret VUndef end);;
                              if cm_static m then go t inst ((key, iv) :: stat)
                              else go t ((key_to_value key, iv) :: inst) stat
                          end
                      end) (c_members cd) [] [];;
      let '(inst, stat) := fields in
      do recs <- (fix mk (l : list (value * value)) (acc : list value) : M (list value) :=
                    match l with
                    | [] => ret (rev acc)
                    | (k, i) :: t =>
                        do rl <- new_obj None OOrdinary [(KStr (S "k"), data k); (KStr (S "i"), data i)];;
                        mk t (VObj rl :: acc)
                    end) inst [];;
      do fa <- array_from_list recs;;
      do Fo <- the_obj F;;
      do _ <- put_obj F (with_props Fo (o_props Fo ++ [(KSym SYM_FIELDS, PData fa false false false)]));;
      do _ <- (match c_name cd with [] => ret tt | n => initialize_binding self cenv n fv end);;
      do _ <- (fix go (l : list (pkey * value)) : M unit :=
                 match l with
                 | [] => ret tt
                 | (k, iv) :: t =>
                     do v <- (match iv with VUndef => ret VUndef | _ => o_call self iv fv [] end);;
                     do _ <- create_data_prop_or_throw F k v;;
                     go t
                 end) stat;;
      ret fv
  | _ => unsupported 934%N
  end.

(* evaluate e, giving anonymous function / class definitions the name [name] *)
Definition eval_named (c : ctx) (e : expr) (name : str) : M value :=
  match e with
  | EFunc i =>
      do f <- nth_func P i;;
      match f_name f with
      | [] => make_function (c_lex c) i None None name None
      | _ => o_eval self c e
      end
  | EClass i =>
      do cd <- nth_class P i;;
      match c_name cd with [] => class_define c i name | _ => o_eval self c e end
  | _ => o_eval self c e
  end.

(* ---- member reference evaluation *)
Definition eval_member_key (c : ctx) (e : expr) : M (value * pkey) :=     (* e is EMember / EIndex *)
  match e with
  | EMember o p _ => do ov <- o_eval self c o;; ret (ov, KStr p)
  | EIndex o k _ =>
      do ov <- o_eval self c o;; do kv <- o_eval self c k;;
      match ov with VUndef | VNull => type_error | _ => do key <- to_property_key self kv;; ret (ov, key) end
  | _ => unsupported 940%N
  end.

Definition super_base (c : ctx) : M (value * loc) :=        (* (this value, home.[[Prototype]]) *)
  do re <- this_env c;;
  match e_fobj (snd re) with
  | Some fo =>
      do h <- home_of fo;;
      match h with
      | Some hl =>
          do ho <- the_obj hl;;
          do tv <- (match e_this (snd re) with TInit v => ret v | _ => reference_error end);;
          match o_proto ho with Some b => ret (tv, b) | None => type_error end
      | None => unsupported 941%N
      end
  | None => unsupported 942%N
  end.

(* ---- pattern binding (BindingInitialization and DestructuringAssignmentEvaluation) *)
Definition put_target (c : ctx) (x : str) (v : value) (mode : bind_mode) : M unit :=
  match mode with
  | BInitLex => initialize_binding self (c_lex c) x v
  | BInitVar | BAssign => do r <- resolve_binding self c x;; put_resolved self c r x v
  end.

Definition closing_if {A} (b : bool) (it : value) (m : M A) : M A := if b then closing_on_throw self it m else m.

Definition bind_step (c : ctx) (p : pat) (v : value) (mode : bind_mode) : M unit :=
  match p with
  | PId x => put_target c x v mode
  | PExpr e =>
      match e with
      | EMember _ _ _ | EIndex _ _ _ => do ok <- eval_member_key c e;; put_value_prop self (fst ok) (snd ok) v (c_strict c)
      | ESuperMember p' => do tb <- super_base c;; do _ <- o_set self (snd tb) (KStr p') v (fst tb);; ret tt
      | EId x => put_target c x v BAssign
      | _ => unsupported 943%N
      end
  | PObj props rest =>
      match v with VUndef | VNull => type_error | _ =>
      do used <- (fix go (l : list (propkey * pat * option expr)) (used : list pkey) : M (list pkey) :=
                    match l with
                    | [] => ret (rev used)
                    | (k, q, d) :: t =>
                        do key <- eval_propkey c k;;
                        (* a member target is evaluated before the value is fetched *)
                        do pre <- (match q, mode with
                                   | PExpr ((EMember _ _ _ | EIndex _ _ _) as me), BAssign => do ok <- eval_member_key c me;; ret (Some ok)
                                   | _, _ => ret None end);;
                        do x <- get_v self v key;;
                        do x' <- (match x, d with
                                  | VUndef, Some de => (match q with PId n => eval_named c de n | _ => o_eval self c de end)
                                  | _, _ => ret x end);;
                        do _ <- (match pre with
                                 | Some ok => put_value_prop self (fst ok) (snd ok) x' (c_strict c)
                                 | None => o_bind self c q x' mode end);;
                        go t (key :: used)
                    end) props [];;
      match rest with
      | None => ret tt
      | Some rp =>
          do src <- to_object v;;
          do ro <- new_obj (Some L_ObjectProto) OOrdinary [];;
          do so <- the_obj src;;
          do _ <- (fix cp (ks : list pkey) : M unit :=
                     match ks with
                     | [] => ret tt
                     | k :: t =>
                         if existsb (pkey_eqb k) used then cp t else
                         do st <- get_state;;
                         match get_obj st src with
                         | Some so' =>
                             match get_own so' k with
                             | Some (PData _ _ true _) | Some (PAcc _ _ true _) =>
                                 do x <- o_get self src k (VObj src);;
                                 do _ <- create_data_prop ro k x;; cp t
                             | _ => cp t
                             end
                         | None => cp t
                         end
                     end) (own_keys so);;
          o_bind self c rp (VObj ro) mode
      end
      end
  | PArr elems rest =>
      do itnx <- get_iterator self v;;
      let '(it, nx) := itnx in
      (* done flag threaded; on a throw from binding while not done, the iterator is closed *)
      do done <- (fix go (l : list (option (pat * option expr))) (done : bool) : M bool :=
                    match l with
                    | [] => ret done
                    | None :: t =>
                        if done then go t true
                        else do s <- iterator_step self it nx;; go t (match s with None => true | Some _ => false end)
                    | Some (q, d) :: t =>
                        do pre <- closing_if (negb done) it
                                   (match q, mode with
                                    | PExpr ((EMember _ _ _ | EIndex _ _ _) as me), BAssign => do ok <- eval_member_key c me;; ret (Some ok)
                                    | _, _ => ret None end);;
                        do sd <- (if done then ret (None, true)
                                  else do s <- iterator_step self it nx;; ret (s, match s with None => true | Some _ => false end));;
                        let '(s, done') := sd in
                        let x := match s with Some x => x | None => VUndef end in
                        do _ <- closing_if (negb done') it
                                  (do x' <- (match x, d with
                                             | VUndef, Some de => (match q with PId n => eval_named c de n | _ => o_eval self c de end)
                                             | _, _ => ret x end);;
                                   match pre with
                                   | Some ok => put_value_prop self (fst ok) (snd ok) x' (c_strict c)
                                   | None => o_bind self c q x' mode end);;
                        go t done'
                    end) elems false;;
      match rest with
      | None => if done then ret tt else iterator_close_normal self it
      | Some rp =>
          do pre <- closing_if (negb done) it
                     (match rp, mode with
                      | PExpr ((EMember _ _ _ | EIndex _ _ _) as me), BAssign => do ok <- eval_member_key c me;; ret (Some ok)
                      | _, _ => ret None end);;
          do vs <- (if done then ret [] else
                    (fix drain (fuel : nat) (acc : list value) : M (list value) :=
                       match fuel with O => fun _ => RFuel | Datatypes.S f =>
                         do s <- iterator_step self it nx;;
                         match s with None => ret (rev acc) | Some x => drain f (x :: acc) end end) LOOP_FUEL []);;
          do arr <- array_from_list vs;;
          match pre with
          | Some ok => put_value_prop self (fst ok) (snd ok) arr (c_strict c)
          | None => o_bind self c rp arr mode end
      end
  end.

(* ---- object literal *)
Definition copy_data_properties (target : loc) (src : value) (excluded : list pkey) : M unit :=
  match src with
  | VUndef | VNull => ret tt
  | _ =>
      do sl <- to_object src;;
      do so <- the_obj sl;;
      (fix cp (ks : list pkey) : M unit :=
         match ks with
         | [] => ret tt
         | k :: t =>
             if existsb (pkey_eqb k) excluded then cp t else
             do st <- get_state;;
             match get_obj st sl with
             | Some so' =>
                 match get_own so' k with
                 | Some (PData _ _ true _) | Some (PAcc _ _ true _) =>
                     do x <- o_get self sl k (VObj sl);; do _ <- create_data_prop target k x;; cp t
                 | _ => cp t
                 end
             | None => cp t
             end
         end) (own_keys so)
  end.

Definition eval_object (c : ctx) (props : list propdef) : M value :=
  do ol <- new_obj (Some L_ObjectProto) OOrdinary [];;
  do _ <- (fix go (l : list propdef) : M unit :=
             match l with
             | [] => ret tt
             | PInit k e :: t =>
                 do key <- eval_propkey c k;;
                 do st <- get_state;;
                 do v <- (if anon_fn_expr P e then eval_named c e (key_name key st) else o_eval self c e);;
                 do _ <- create_data_prop_or_throw ol key v;; go t
             | PMethod k fi :: t =>
                 do key <- eval_propkey c k;; do st <- get_state;;
                 do fv <- make_function (c_lex c) fi (Some ol) None (key_name key st) None;;
                 do _ <- define_or_throw ol key (data_desc fv true true true);; go t
             | PGet k fi :: t =>
                 do key <- eval_propkey c k;; do st <- get_state;;
                 do fv <- make_function (c_lex c) fi (Some ol) None (key_name key st) None;;
                 do _ <- define_or_throw ol key {| d_value := None; d_get := Some fv; d_set := None; d_writable := None; d_enumerable := Some true; d_configurable := Some true |};;
                 go t
             | PSet k fi :: t =>
                 do key <- eval_propkey c k;; do st <- get_state;;
                 do fv <- make_function (c_lex c) fi (Some ol) None (key_name key st) None;;
                 do _ <- define_or_throw ol key {| d_value := None; d_get := None; d_set := Some fv; d_writable := None; d_enumerable := Some true; d_configurable := Some true |};;
                 go t
             | PSpread e :: t => do v <- o_eval self c e;; do _ <- copy_data_properties ol v [];; go t
             | PProto e :: t =>
                 do v <- o_eval self c e;;
                 do _ <- (match v with
                          | VObj pl => do o <- the_obj ol;; put_obj ol (with_proto o (Some pl))
                          | VNull => do o <- the_obj ol;; put_obj ol (with_proto o None)
                          | _ => ret tt end);;
                 go t
             end) props;;
  ret (VObj ol).

Definition eval_array (c : ctx) (elems : list arr_elem) : M value :=
  do al <- new_obj (Some L_ArrayProto) OArray [(KStr s_length, PData (VNum fzero) true false false)];;
  do n <- (fix go (l : list arr_elem) (i : N) : M N :=
             match l with
             | [] => ret i
             | AElem e :: t => do v <- o_eval self c e;; do _ <- create_data_prop al (KStr (n_to_str i)) v;; go t (i + 1)%N
             | AHole :: t => go t (i + 1)%N
             | ASpread e :: t =>
                 do v <- o_eval self c e;; do vs <- iterate_to_list self v;;
                 do j <- (fix put (vs : list value) (j : N) : M N :=
                            match vs with [] => ret j | x :: r => do _ <- create_data_prop al (KStr (n_to_str j)) x;; put r (j + 1)%N end) vs i;;
                 go t j
             end) elems 0%N;;
  do o <- the_obj al;;
  do _ <- put_obj al (with_props o (set_length_prop (o_props o) n true));;
  ret (VObj al).

(* ---- expressions *)
Definition nullish (v : value) := match v with VUndef | VNull => true | _ => false end.

Definition eval_callee (c : ctx) (f : expr) : M (value * value) :=       (* (function, this) *)
  match f with
  | EMember o p opt =>
      do ov <- o_eval self c o;;
      if opt && nullish ov then throwv SHORT_CIRCUIT else
      do fv <- get_v self ov (KStr p);; ret (fv, ov)
  | EIndex o k opt =>
      do ov <- o_eval self c o;;
      if opt && nullish ov then throwv SHORT_CIRCUIT else
      do kv <- o_eval self c k;;
      match ov with VUndef | VNull => type_error | _ =>
        do key <- to_property_key self kv;; do fv <- get_v self ov key;; ret (fv, ov) end
  | ESuperMember p => do tb <- super_base c;; do fv <- o_get self (snd tb) (KStr p) (fst tb);; ret (fv, fst tb)
  | ESuperIndex k =>
      do tb <- super_base c;; do kv <- o_eval self c k;; do key <- to_property_key self kv;;
      do fv <- o_get self (snd tb) key (fst tb);; ret (fv, fst tb)
  | EId x =>
      do r <- resolve_binding self c x;;
      match r with
      | RBEnv er =>
          do fv <- get_binding_value self er x (c_strict c);;
          do e <- the_env er;;
          ret (fv, match e_rec e with EObj o true => VObj o | _ => VUndef end)
      | RBUnresolvable => reference_error
      end
  | EParen (EMember _ _ _ as m) | EParen (EIndex _ _ _ as m) =>
      (* a parenthesised member expression keeps its this value *)
      do ok <- eval_member_key c m;; do fv <- get_v self (fst ok) (snd ok);; ret (fv, fst ok)
  | _ => do fv <- o_eval self c f;; ret (fv, VUndef)
  end.

Definition eval_step (c : ctx) (e : expr) : M value :=
  match e with
  | ENum b => ret (VNum (of_bits b))
  | EStr s => ret (VStr s)
  | EBool b => ret (VBool b)
  | ENull => ret VNull
  | EBigInt z => ret (VBigInt z)
  | EId x => get_identifier self c x
  | EThis => resolve_this c
  | ENewTarget => do re <- this_env c;; ret (e_newtarget (snd re))
  | EArray elems => eval_array c elems
  | EObject props => eval_object c props
  | EFunc i =>
      do f <- nth_func P i;;
      match f_name f, f_kind f with
      | (_ :: _) as n, (FNormal | FGenerator | FAsync | FAsyncGenerator) =>
          (* named function expression: its own name is bound in an intermediate scope *)
          do fe <- new_decl_env (c_lex c);;
          do _ <- create_binding fe n {| b_val := None; b_mut := false; b_strict := false; b_deletable := false |};;
          do fv <- make_function fe i None None n None;;
          do _ <- initialize_binding self fe n fv;;
          ret fv
      | n, _ => make_function (c_lex c) i None None n None
      end
  | EClass i => class_define c i []
  | EUnary UTypeof (EId x) =>
      do r <- resolve_binding self c x;;
      match r with
      | RBUnresolvable => ret (VStr s_undefined)
      | RBEnv er => do v <- get_binding_value self er x (c_strict c);; do st <- get_state;; ret (VStr (typeof_val st v))
      end
  | EUnary op a => do v <- o_eval self c a;; unary_op self op v
  | EDelete a =>
      match a with
      | EMember _ _ _ | EIndex _ _ _ =>
          do ok <- eval_member_key c a;;
          do ol <- to_object (fst ok);;
          do r <- delete_own ol (snd ok);;
          if negb r && c_strict c then type_error else ret (VBool r)
      | EId x =>
          do r <- resolve_binding self c x;;
          match r with
          | RBUnresolvable => ret (VBool true)
          | RBEnv er =>
              do en <- the_env er;;
              match e_rec en with
              | EObj o _ => do r <- delete_own o (KStr x);; ret (VBool r)
              | EDecl bs =>
                  match find_binding x bs with
                  | Some b => if b_deletable b
                              then (fun st => ROk (VBool true) (set_env st er (with_rec en (EDecl (filter (fun yb => negb (str_eqb (fst yb) x)) bs)))))
                              else ret (VBool false)
                  | None => ret (VBool true)
                  end
              end
          end
      | EParen a' => do _ <- o_eval self c a';; ret (VBool true)
      | _ => do _ <- o_eval self c a;; ret (VBool true)
      end
  | EBinary op a b => do va <- o_eval self c a;; do vb <- o_eval self c b;; binary_op self op va vb
  | ELogical op a b =>
      do va <- o_eval self c a;;
      match op with
      | LAnd => if to_boolean va then o_eval self c b else ret va
      | LOr => if to_boolean va then ret va else o_eval self c b
      | LCoalesce => if nullish va then o_eval self c b else ret va
      end
  | EAssign t rhs =>
      match t with
      | PId x =>
          do r <- resolve_binding self c x;;
          do v <- (if anon_fn_expr P rhs then eval_named c rhs x else o_eval self c rhs);;
          do _ <- put_resolved self c r x v;; ret v
      | PExpr ((EMember _ _ _ | EIndex _ _ _) as me) =>
          (* base and key expression are evaluated first, ToPropertyKey of the key after the right-hand side *)
          match me with
          | EIndex o k _ =>
              do ov <- o_eval self c o;; do kv <- o_eval self c k;;
              do v <- o_eval self c rhs;;
              match ov with VUndef | VNull => type_error | _ =>
                do key <- to_property_key self kv;;
                do _ <- put_value_prop self ov key v (c_strict c);; ret v end
          | _ =>
              do ok <- eval_member_key c me;; do v <- o_eval self c rhs;;
              do _ <- put_value_prop self (fst ok) (snd ok) v (c_strict c);; ret v
          end
      | PExpr (ESuperMember p') =>
          do tb <- super_base c;; do v <- o_eval self c rhs;;
          do ok <- o_set self (snd tb) (KStr p') v (fst tb);;
          if negb ok && c_strict c then type_error else ret v
      | PExpr (EParen (EId x)) | PExpr (EId x) =>
          do r <- resolve_binding self c x;; do v <- o_eval self c rhs;; do _ <- put_resolved self c r x v;; ret v
      | _ => do v <- o_eval self c rhs;; do _ <- o_bind self c t v BAssign;; ret v
      end
  | EOpAssign op t rhs =>
      match t with
      | EId x =>
          do r <- resolve_binding self c x;;
          do old <- (match r with RBEnv er => get_binding_value self er x (c_strict c) | RBUnresolvable => reference_error end);;
          do rv <- o_eval self c rhs;;
          do v <- binary_op self op old rv;;
          do _ <- put_resolved self c r x v;; ret v
      | EMember _ _ _ | EIndex _ _ _ =>
          do ok <- eval_member_key c t;;
          do old <- get_v self (fst ok) (snd ok);;
          do rv <- o_eval self c rhs;;
          do v <- binary_op self op old rv;;
          do _ <- put_value_prop self (fst ok) (snd ok) v (c_strict c);; ret v
      | ESuperMember p' =>
          do tb <- super_base c;;
          do old <- o_get self (snd tb) (KStr p') (fst tb);;
          do rv <- o_eval self c rhs;; do v <- binary_op self op old rv;;
          do _ <- o_set self (snd tb) (KStr p') v (fst tb);; ret v
      | _ => unsupported 950%N
      end
  | ELogAssign op t rhs =>
      let decide (old : value) := match op with LAnd => to_boolean old | LOr => negb (to_boolean old) | LCoalesce => nullish old end in
      match t with
      | EId x =>
          do r <- resolve_binding self c x;;
          do old <- (match r with RBEnv er => get_binding_value self er x (c_strict c) | RBUnresolvable => reference_error end);;
          if decide old then
            do v <- (if anon_fn_expr P rhs then eval_named c rhs x else o_eval self c rhs);;
            do _ <- put_resolved self c r x v;; ret v
          else ret old
      | EMember _ _ _ | EIndex _ _ _ =>
          do ok <- eval_member_key c t;;
          do old <- get_v self (fst ok) (snd ok);;
          if decide old then
            do v <- o_eval self c rhs;; do _ <- put_value_prop self (fst ok) (snd ok) v (c_strict c);; ret v
          else ret old
      | _ => unsupported 951%N
      end
  | EUpdate prefix inc t =>
      let upd (old : value) : M (value * value) :=
        do n <- to_numeric self old;;
        match n with
        | VNum f => ret (n, VNum (if inc then fadd f (of_Z 1) else fsub f (of_Z 1)))
        | VBigInt z => ret (n, VBigInt (if inc then z + 1 else z - 1)%Z)
        | _ => type_error
        end in
      match t with
      | EId x =>
          do r <- resolve_binding self c x;;
          do old <- (match r with RBEnv er => get_binding_value self er x (c_strict c) | RBUnresolvable => reference_error end);;
          do on <- upd old;;
          do _ <- put_resolved self c r x (snd on);;
          ret (if prefix then snd on else fst on)
      | EMember _ _ _ | EIndex _ _ _ =>
          do ok <- eval_member_key c t;;
          do old <- get_v self (fst ok) (snd ok);;
          do on <- upd old;;
          do _ <- put_value_prop self (fst ok) (snd ok) (snd on) (c_strict c);;
          ret (if prefix then snd on else fst on)
      | _ => unsupported 952%N
      end
  | ECond a b d => do va <- o_eval self c a;; if to_boolean va then o_eval self c b else o_eval self c d
  | ECall f args opt =>
      do ft <- eval_callee c f;;
      let '(fv, tv) := ft in
      if opt && nullish fv then throwv SHORT_CIRCUIT else
      do vs <- eval_args c args;;
      do st <- get_state;;
      if negb (is_callable st fv) then type_error else o_call self fv tv vs
  | ENew f args =>
      do fv <- o_eval self c f;;
      do vs <- eval_args c args;;
      do st <- get_state;;
      if negb (is_constructor st fv) then type_error else o_construct self fv vs fv
  | EMember o p opt =>
      do ov <- o_eval self c o;;
      if opt && nullish ov then throwv SHORT_CIRCUIT else get_v self ov (KStr p)
  | EIndex o k opt =>
      do ov <- o_eval self c o;;
      if opt && nullish ov then throwv SHORT_CIRCUIT else
      do kv <- o_eval self c k;;
      match ov with VUndef | VNull => type_error | _ => do key <- to_property_key self kv;; get_v self ov key end
  | ESuperMember p => do tb <- super_base c;; o_get self (snd tb) (KStr p) (fst tb)
  | ESuperIndex k => do tb <- super_base c;; do kv <- o_eval self c k;; do key <- to_property_key self kv;; o_get self (snd tb) key (fst tb)
  | ESuperCall args =>
      do re <- this_env c;;
      let '(tr, te) := re in
      match e_fobj te with
      | None => unsupported 953%N
      | Some fo =>
          do fobj <- the_obj fo;;
          do vs <- eval_args c args;;
          match o_proto fobj with
          | None => type_error
          | Some sc =>
              do st <- get_state;;
              if negb (is_constructor st (VObj sc)) then type_error else
              do r <- o_construct self (VObj sc) vs (e_newtarget te);;
              do te' <- the_env tr;;
              match e_this te' with
              | TInit _ => reference_error
              | _ =>
                  do _ <- set_env_this tr (TInit r);;
                  do _ <- (match r with VObj rl => initialize_instance_fields rl fo | _ => ret tt end);;
                  ret r
              end
          end
      end
  | ESeq a b => do _ <- o_eval self c a;; o_eval self c b
  | ETemplate strs es =>
      (fix go (ss : list str) (xs : list expr) (acc : str) : M value :=
         match ss, xs with
         | s :: ss', x :: xs' => do v <- o_eval self c x;; do t <- to_string self v;; go ss' xs' (acc ++ s ++ t)
         | s :: _, [] => ret (VStr (acc ++ s))
         | [], _ => ret (VStr acc)
         end) strs es []
  | EParen a => o_eval self c a
  | EOptChain a =>
      catchm (o_eval self c a) (fun v => match v with VSym 0%N => ret VUndef | _ => throwv v end)
  end.

(* ---- declaration instantiation *)
Definition instantiate_block_decls (c : ctx) (body : list stmt) (with_functions : bool) : M unit :=
  do _ <- (fix go (l : list (str * bool)) : M unit :=
             match l with
             | [] => ret tt
             | (x, is_const) :: t => do _ <- create_binding (c_lex c) x (if is_const then const_uninit else mutable_uninit);; go t
             end) (lex_decls body);;
  if with_functions then
    (fix go (l : list (str * nat)) : M unit :=
       match l with
       | [] => ret tt
       | (x, i) :: t =>
           do fv <- make_function (c_lex c) i None None x None;;
           do _ <- create_binding (c_lex c) x mutable_uninit;;
           do _ <- initialize_binding self (c_lex c) x fv;; go t
       end) (fun_decls body)
  else ret tt.

Definition new_block_ctx (c : ctx) : M ctx :=
  do r <- new_decl_env (c_lex c);; ret {| c_lex := r; c_var := c_var c; c_strict := c_strict c |}.

(* FunctionDeclarationInstantiation (10.2.11); returns the context for the body *)
Definition create_unmapped_arguments (args : list value) : M value :=
  let props := (fix go (l : list value) (i : N) : list (pkey * prop) :=
                  match l with [] => [] | v :: t => (KStr (n_to_str i), data v) :: go t (i + 1)%N end) args 0%N in
  do l <- new_obj (Some L_ObjectProto) OArguments
            (props ++ [(KStr s_length, PData (VNum (of_Z (Z.of_nat (List.length args)))) true false true)]);;
  do o <- the_obj l;;
  do _ <- put_obj l (with_props o (o_props o ++ [(KSym SYM_ITERATOR, PData VUndef true false true)]));;
  ret (VObj l).

Definition function_declaration_instantiation (f : func) (fenv : envref) (args : list value) : M ctx :=
  let strict := f_strict f in
  let pnames := dedup (param_names f) [] in
  let has_pe := has_param_exprs f in
  let c0 := {| c_lex := fenv; c_var := fenv; c_strict := strict |} in
  (* parameter bindings *)
  do _ <- (fix go (l : list str) : M unit :=
             match l with [] => ret tt | x :: t =>
               do _ <- create_binding fenv x (if has_pe then mutable_uninit else mutable_init VUndef);; go t end) pnames;;
  (* arguments object *)
  do _ <- (if f_uses_args f && negb (is_arrow (f_kind f)) && negb (mem_str s_arguments pnames) then
             do ao <- create_unmapped_arguments args;;
             do st <- get_state;;
             do itv <- o_get self L_ArrayProto (KStr (S "values")) (VObj L_ArrayProto);;
             do _ <- (match ao with VObj al => define_own al (KSym SYM_ITERATOR) (data_desc itv true false true) | _ => ret true end);;
             do _ <- create_binding fenv s_arguments (mutable_init ao);; ret tt
           else ret tt);;
  (* bind parameters from the argument list, left to right *)
  let mode := if has_pe then BInitLex else BInitVar in
  do rest_args <- (fix go (ps : list (pat * option expr)) (vs : list value) : M (list value) :=
                     match ps with
                     | [] => ret vs
                     | (p, d) :: t =>
                         let v := match vs with x :: _ => x | [] => VUndef end in
                         do v' <- (match v, d with
                                   | VUndef, Some de => (match p with PId n => eval_named c0 de n | _ => o_eval self c0 de end)
                                   | _, _ => ret v end);;
                         do _ <- o_bind self c0 p v' mode;;
                         go t (match vs with _ :: r => r | [] => [] end)
                     end) (f_params f) args;;
  do _ <- (match f_rest f with
           | Some rp => do arr <- array_from_list rest_args;; o_bind self c0 rp arr mode
           | None => ret tt end);;
  (* var declarations *)
  let vnames := dedup (var_names (f_body f) ++ map fst (fun_decls (f_body f))) [] in
  do venv <- (if negb has_pe then
                do _ <- (fix go (l : list str) : M unit :=
                           match l with [] => ret tt | x :: t =>
                             do _ <- (if mem_str x pnames || (str_eqb x s_arguments && f_uses_args f) then ret tt
                                      else create_binding fenv x (mutable_init VUndef));; go t end) vnames;;
                ret fenv
              else
                do ve <- new_decl_env fenv;;
                do _ <- (fix go (l : list str) : M unit :=
                           match l with [] => ret tt | x :: t =>
                             do init <- (if mem_str x pnames || (str_eqb x s_arguments && f_uses_args f)
                                         then get_binding_value self fenv x false else ret VUndef);;
                             do _ <- create_binding ve x (mutable_init init);; go t end) vnames;;
                ret ve);;
  (* lexical environment of the body *)
  do lenv <- (if strict then ret venv else new_decl_env venv);;
  let cb := {| c_lex := lenv; c_var := venv; c_strict := strict |} in
  do _ <- instantiate_block_decls cb (f_body f) false;;
  (* hoisted function declarations *)
  do _ <- (fix go (l : list (str * nat)) : M unit :=
             match l with
             | [] => ret tt
             | (x, i) :: t =>
                 do fv <- make_function lenv i None None x None;;
                 do _ <- set_mutable_binding self venv x fv false;; go t
             end) (fun_decls (f_body f));;
  ret cb.

(* ---- generators *)
Definition the_gen (gid : N) : M gen_state :=
  fun st => match assoc_n gid (gens st) with Some g => ROk g st | None => RUnsupported 960%N end.
Definition put_gen (gid : N) (g : gen_state) : M unit :=
  fun st => ROk tt (with_gens st (assoc_set_n gid g (gens st)) (next_gen st)).
Definition new_gen (g : gen_state) : M N :=
  fun st => let id := next_gen st in ROk id (with_gens st ((id, g) :: gens st) (id + 1)%N).

Definition gen_resume (gid : N) (r : resume) : M value :=
  do g <- the_gen gid;;
  match g_status g with
  | GExecuting => type_error
  | GCompleted =>
      match r with
      | RNext _ => create_iter_result VUndef true
      | RReturnIn v => create_iter_result v true
      | RThrowIn v => throwv v
      end
  | GSuspendedStart | GSuspendedYield =>
      let start := match g_status g with GSuspendedStart => true | _ => false end in
      match start, r with
      | true, RReturnIn v =>
          do _ <- put_gen gid {| g_status := GCompleted; g_frames := []; g_ctx := g_ctx g; g_async := g_async g |};;
          create_iter_result v true
      | true, RThrowIn v =>
          do _ <- put_gen gid {| g_status := GCompleted; g_frames := []; g_ctx := g_ctx g; g_async := g_async g |};;
          throwv v
      | _, _ =>
          let comp := match r with
                      | RNext v => CNormal (if start then None else Some v)
                      | RThrowIn v => CThrow v
                      | RReturnIn v => CReturn v end in
          do _ <- put_gen gid {| g_status := GExecuting; g_frames := []; g_ctx := g_ctx g; g_async := g_async g |};;
          do m <- o_run self (g_frames g) comp (g_ctx g);;
          match m with
          | MYield v raw k c' =>
              do _ <- put_gen gid {| g_status := GSuspendedYield; g_frames := k; g_ctx := c'; g_async := g_async g |};;
              if raw then ret v else create_iter_result v false
          | MDone comp' =>
              do _ <- put_gen gid {| g_status := GCompleted; g_frames := []; g_ctx := g_ctx g; g_async := g_async g |};;
              match comp' with
              | CReturn v => create_iter_result v true
              | CThrow v => throwv v
              | _ => create_iter_result VUndef true
              end
          | MAwait _ _ _ => unsupported 961%N
          end
      end
  end.

(* ---- async functions (27.7): the body is a coroutine like a generator's, its bottom frame [KAsyncDone pid]
   settles the result promise; [await] suspends it on a promise whose reactions (kind 1) resume it from the job queue *)
Definition await_value (gid : N) (v : value) : M unit :=
  do pid <- promise_resolve self v;;
  perform_then pid (Reaction (Some gid) VUndef false 1%N) (Reaction (Some gid) VUndef true 1%N).

Definition async_resume (gid : N) (r : resume) : M unit :=
  do g <- the_gen gid;;
  match g_status g with
  | GSuspendedStart | GSuspendedYield =>
      let start := match g_status g with GSuspendedStart => true | _ => false end in
      let comp := match r with
                  | RNext v => CNormal (if start then None else Some v)
                  | RThrowIn v => CThrow v
                  | RReturnIn v => CReturn v end in
      do _ <- put_gen gid {| g_status := GExecuting; g_frames := []; g_ctx := g_ctx g; g_async := true |};;
      do m <- o_run self (g_frames g) comp (g_ctx g);;
      match m with
      | MAwait v k c' =>
          do _ <- put_gen gid {| g_status := GSuspendedYield; g_frames := k; g_ctx := c'; g_async := true |};;
          await_value gid v
      | MDone _ => put_gen gid {| g_status := GCompleted; g_frames := []; g_ctx := g_ctx g; g_async := true |}
      | MYield _ _ _ _ => unsupported 961%N
      end
  | _ => unsupported 965%N
  end.

(* start an async function whose declarations have been instantiated in [cb]: returns the result promise object *)
Definition async_start (f : func) (cb : ctx) : M value :=
  do pp <- new_promise L_PromiseProto;;
  let body := match f_expr_body f with Some e => [SReturn (Some e)] | None => f_body f end in
  do gid <- new_gen {| g_status := GSuspendedStart; g_frames := [KSeq body None; KAsyncDone (fst pp)]; g_ctx := cb; g_async := true |};;
  do _ <- async_resume gid (RNext VUndef);;
  ret (VObj (snd pp)).

(* ---- jobs (27.2.2): NewPromiseReactionJob / NewPromiseResolveThenableJob *)
Definition run_job (j : job) : M unit :=
  match j with
  | JReaction (Reaction derived handler is_reject kind) arg =>
      if N.eqb kind 1 then
        match derived with
        | Some gid => async_resume gid (if is_reject then RThrowIn arg else RNext arg)
        | None => ret tt end
      else
        match handler with
        | VUndef =>
            match derived with
            | Some d => if is_reject then reject_promise d arg else resolve_promise self d arg
            | None => ret tt end
        | _ =>
            fun st =>
              match o_call self handler VUndef [arg] st with
              | ROk r st1 => (match derived with Some d => resolve_promise self d r | None => ret tt end) st1
              | RThrow e st1 => (match derived with Some d => reject_promise d e | None => ret tt end) st1
              | RFuel => RFuel
              | RUnsupported c => RUnsupported c
              end
        end
  | JResolveThenable pid thenable thenfn =>
      do fns <- create_resolving pid;;
      catchm (do _ <- o_call self thenfn thenable [fst fns; snd fns];; ret tt)
             (fun e => do _ <- o_call self (snd fns) VUndef [e];; ret tt)
  end.

(* drain the job queue, first in first out; jobs enqueued by a job run after the ones already waiting *)
Definition run_jobs : M unit :=
  (fix go (fuel : nat) : M unit :=
     match fuel with
     | O => fun _ => RFuel
     | Datatypes.S f =>
         do st <- get_state;;
         match jobs st with
         | [] => ret tt
         | j :: t => do _ <- put_state (with_jobs st t);; do _ <- run_job j;; go f
         end
     end) LOOP_FUEL.

(* ---- calls *)
Definition ordinary_this (strict : bool) (tv : value) : M value :=
  if strict then ret tv else
  match tv with
  | VUndef | VNull => ret (VObj L_Global)
  | VObj _ => ret tv
  | _ => do l <- to_object tv;; ret (VObj l)
  end.

Definition run_body (f : func) (cb : ctx) : M value :=
  match f_expr_body f with
  | Some e => o_eval self cb e
  | None =>
      do m <- o_run self [KSeq (f_body f) None] (CNormal None) cb;;
      match m with
      | MDone (CReturn v) => ret v
      | MDone (CThrow v) => throwv v
      | MDone _ => ret VUndef
      | _ => unsupported 962%N
      end
  end.

Definition call_closure (fo : loc) (fidx : nat) (env : envref) (cls : option nat) (tv : value) (args : list value)
                        (newtarget : value) (this_init : option this_state) : M (value * envref) :=
  do f <- nth_func P fidx;;
  do tstate <- (match this_init with
                | Some t => ret t
                | None => if is_arrow (f_kind f) then ret TNone
                          else do t <- ordinary_this (f_strict f) tv;; ret (TInit t) end);;
  do fenv <- (fun st => let '(r, st') := alloc_env st {| e_rec := EDecl []; e_outer := Some env; e_this := tstate;
                                                          e_fobj := (if is_arrow (f_kind f) then None else Some fo);
                                                          e_newtarget := newtarget |} in ROk r st');;
  do cb <- function_declaration_instantiation f fenv args;;
  if is_generator_kind (f_kind f) then
    if is_async_kind (f_kind f) then unsupported 963%N else
    do pv <- o_get self fo (KStr s_prototype) (VObj fo);;
    let proto := match pv with VObj pl => pl | _ => L_GeneratorProto end in
    do gid <- new_gen {| g_status := GSuspendedStart; g_frames := [KSeq (f_body f) None]; g_ctx := cb; g_async := false |};;
    do gl <- new_obj (Some proto) (OGenerator gid) [];;
    ret (VObj gl, fenv)
  else if is_async_kind (f_kind f) then do pv <- async_start f cb;; ret (pv, fenv)
  else do v <- run_body f cb;; ret (v, fenv).

End WithSelf.
