(* IEEE-754 binary64 for the reference semantics: the standard library's executable specification
   `SpecFloat` (software floats, pure Gallina) at prec 53 / emax 1024, plus exact conversions
   (bit patterns, integers, decimal text) written with integer arithmetic only. No primitive floats. *)
From Coq Require Import ZArith NArith List Bool Floats.SpecFloat.
Import ListNotations.
Local Open Scope Z_scope.

Definition prec := 53.
Definition emax := 1024.
Notation float := spec_float.

Definition fzero : float := S754_zero false.
Definition fnzero : float := S754_zero true.
Definition fnan : float := S754_nan.
Definition finf (s : bool) : float := S754_infinity s.

Definition fadd := SFadd prec emax.
Definition fsub := SFsub prec emax.
Definition fmul := SFmul prec emax.
Definition fdiv := SFdiv prec emax.
Definition fneg := SFopp.
Definition fabs := SFabs.
Definition fsqrt := SFsqrt prec emax.

Definition is_nan (x : float) := match x with S754_nan => true | _ => false end.
Definition is_zero (x : float) := match x with S754_zero _ => true | _ => false end.
Definition is_finite (x : float) := match x with S754_zero _ | S754_finite _ _ _ => true | _ => false end.
Definition sign_of (x : float) := match x with S754_zero s | S754_infinity s | S754_finite s _ _ => s | S754_nan => false end.

(* numeric comparison; None when unordered (a NaN operand) *)
Definition fcompare (x y : float) : option comparison := SFcompare x y.
Definition feqb (x y : float) : bool := match fcompare x y with Some Eq => true | _ => false end.
Definition fltb (x y : float) : bool := match fcompare x y with Some Lt => true | _ => false end.
Definition fleb (x y : float) : bool := match fcompare x y with Some Lt | Some Eq => true | _ => false end.

(* SameValue on numbers: NaN = NaN, +0 <> -0 *)
Definition same_value_num (x y : float) : bool :=
  match x, y with
  | S754_nan, S754_nan => true
  | S754_zero a, S754_zero b => Bool.eqb a b
  | _, _ => feqb x y
  end.

(* ---- bit patterns *)
Definition of_bits (b : N) : float :=
  let b := Z.of_N b in
  let s := Z.testbit b 63 in
  let e := Z.land (Z.shiftr b 52) 2047 in
  let m := Z.land b 4503599627370495 in
  if e =? 2047 then (if m =? 0 then S754_infinity s else S754_nan)
  else if e =? 0 then (match m with Zpos p => S754_finite s p (-1074) | _ => S754_zero s end)
  else match m + 4503599627370496 with Zpos p => S754_finite s p (e - 1075) | _ => S754_nan end.

Definition to_bits (x : float) : N :=
  let sb (s : bool) := if s then 9223372036854775808 else 0 in
  Z.to_N match x with
  | S754_zero s => sb s
  | S754_infinity s => sb s + 9218868437227405312
  | S754_nan => 9221120237041090560
  | S754_finite s m e =>
      if Zpos m <? 4503599627370496 then sb s + Zpos m
      else sb s + Z.shiftl (e + 1075) 52 + (Zpos m - 4503599627370496)
  end.

(* ---- integers *)
Definition of_Z (z : Z) : float := binary_normalize prec emax z 0 false.

(* exact value of a finite float as an integer quotient  num / 2^k  (k >= 0) or integer *)
Definition trunc_Z (x : float) : Z :=
  match x with
  | S754_finite s m e =>
      let v := if e <? 0 then Z.shiftr (Zpos m) (- e) else Z.shiftl (Zpos m) e in
      if s then - v else v
  | _ => 0
  end.

Definition is_integer (x : float) : bool :=
  match x with
  | S754_zero _ => true
  | S754_finite _ m e => if e <? 0 then Z.land (Zpos m) (Z.ones (- e)) =? 0 else true
  | _ => false
  end.

(* floor *)
Definition floor_Z (x : float) : Z :=
  let t := trunc_Z x in
  if sign_of x && negb (is_integer x) then t - 1 else t.

Definition to_int32 (x : float) : Z :=
  if is_finite x then
    let r := (trunc_Z x) mod 4294967296 in if r <? 2147483648 then r else r - 4294967296
  else 0.
Definition to_uint32 (x : float) : Z := if is_finite x then (trunc_Z x) mod 4294967296 else 0.

(* ToIntegerOrInfinity clamped to a big range: used for indices/lengths *)
Definition to_integer_clamped (x : float) (lo hi : Z) : Z :=
  match x with
  | S754_nan => 0
  | S754_infinity true => lo
  | S754_infinity false => hi
  | _ => Z.max lo (Z.min hi (trunc_Z x))
  end.

(* JS remainder (fmod): exact *)
Definition frem (x y : float) : float :=
  match x, y with
  | S754_nan, _ | _, S754_nan => S754_nan
  | S754_infinity _, _ => S754_nan
  | _, S754_zero _ => S754_nan
  | _, S754_infinity _ => x
  | S754_zero _, _ => x
  | S754_finite sx mx ex, S754_finite _ my ey =>
      let e := Z.min ex ey in
      let a := Z.shiftl (Zpos mx) (ex - e) in
      let b := Z.shiftl (Zpos my) (ey - e) in
      let r := Z.rem a b in
      match r with
      | Z0 => S754_zero sx
      | _ => binary_normalize prec emax (if sx then - r else r) e sx
      end
  end.

(* correctly rounded  (-1)^s * n / d  for positive n d *)
Definition round_ratio (s : bool) (n d : positive) : float :=
  let dn := Zpos (digits2_pos n) in
  let dd := Zpos (digits2_pos d) in
  let sh := Z.max 0 (66 + dd - dn) in
  let num := Z.shiftl (Zpos n) sh in
  let q := num / Zpos d in
  let r := num mod Zpos d in
  let loc := if r =? 0 then loc_Exact
             else match (2 * r) ?= Zpos d with Lt => loc_Inexact Lt | Eq => loc_Inexact Eq | Gt => loc_Inexact Gt end in
  binary_round_aux prec emax s q (- sh) loc.

(* m * 10^e10, correctly rounded *)
Definition of_decimal (s : bool) (m : Z) (e10 : Z) : float :=
  match m with
  | Zpos p =>
      if e10 <? -400 - Z.log2 (Zpos p) then S754_zero s            (* far below the smallest subnormal *)
      else if 400 <? e10 then S754_infinity s
      else if 0 <=? e10 then (let v := Zpos p * 10 ^ e10 in binary_normalize prec emax (if s then - v else v) 0 s)
      else match 10 ^ (- e10) with Zpos d => round_ratio s p d | _ => S754_nan end
  | _ => S754_zero s
  end.

(* ---- Number::toString (radix 10), ECMA-262 6.1.6.1.20: shortest digits that round-trip, closest *)

(* rounding interval of a positive finite double m*2^e as exact rationals over a common power of two:
   returns (lo_num, hi_num, den_exp, closed) meaning lo_num/2^k .. hi_num/2^k with v = (2m)*2^(e-1) *)
Definition interval (m : positive) (e : Z) : Z * Z * Z * bool :=
  (* neighbours: succ = m+1 at exponent e; pred: if m = 2^52 and e > -1074 then (2m-1) at e-1 else m-1 at e *)
  let v4 := 4 * Zpos m in                          (* scale by 2^(e-2) *)
  let hi := v4 + 2 in
  let lo := if (Zpos m =? 4503599627370496) && (-1074 <? e) then v4 - 1 else v4 - 2 in
  (lo, hi, e - 2, Z.even (Zpos m)).

(* does the decimal  n * 10^p  lie in the interval?  compares exact integers *)
Definition in_interval (iv : Z * Z * Z * bool) (n p : Z) : bool :=
  let '(lo, hi, k, closed) := iv in
  (* value = n*10^p ; bounds = lo*2^k, hi*2^k ; clear denominators *)
  let tp := if 0 <=? p then 10 ^ p else 1 in
  let tq := if 0 <=? p then 1 else 10 ^ (- p) in
  let a := if 0 <=? k then 1 else 2 ^ (- k) in
  let b := if 0 <=? k then 2 ^ k else 1 in
  (* n*tp/tq  vs  lo*b/a  <=>  n*tp*a  vs lo*b*tq *)
  let x := n * tp * a in
  let l := lo * b * tq in
  let h := hi * b * tq in
  if closed then (l <=? x) && (x <=? h) else (l <? x) && (x <? h).

(* floor(log10 (m*2^e)) by estimate and correction *)
Definition pow10 (p : Z) : Z := 10 ^ p.
Definition cmp_pow10 (m : positive) (e : Z) (p : Z) : comparison :=
  (* compare m*2^e with 10^p *)
  let l := if 0 <=? e then Zpos m * 2 ^ e else Zpos m in
  let r := if 0 <=? e then 1 else 2 ^ (- e) in
  let tp := if 0 <=? p then 10 ^ p else 1 in
  let tq := if 0 <=? p then 1 else 10 ^ (- p) in
  (l * tq) ?= (tp * r).
Definition floor_log10 (m : positive) (e : Z) : Z :=
  let est := ((Z.log2 (Zpos m) + e) * 30103) / 100000 in
  let fix adj (k : nat) (p : Z) : Z :=
    match k with O => p | S k' =>
      match cmp_pow10 m e p with
      | Lt => adj k' (p - 1)
      | _ => match cmp_pow10 m e (p + 1) with Lt => p | _ => adj k' (p + 1) end
      end end in
  adj 6%nat est.

(* digits for k significant digits: candidates floor and ceil of v / 10^(p10-k+1) *)
Definition scaled_floor (m : positive) (e : Z) (q : Z) : Z :=
  (* floor (m*2^e / 10^q) *)
  let num := (if 0 <=? e then Zpos m * 2 ^ e else Zpos m) * (if 0 <=? q then 1 else 10 ^ (- q)) in
  let den := (if 0 <=? e then 1 else 2 ^ (- e)) * (if 0 <=? q then 10 ^ q else 1) in
  num / den.

(* distance comparison |n1*10^q - v| vs |n2*10^q - v| where n2 = n1+1 and n1*10^q <= v: returns true when n2 is strictly closer,
   ties -> even n (the spec lets implementations choose; engines agree on the correctly rounded one; ties cannot round-trip with both anyway) *)
Definition closer_up (m : positive) (e : Z) (q : Z) (n1 : Z) : bool :=
  let vnum := (if 0 <=? e then Zpos m * 2 ^ e else Zpos m) * (if 0 <=? q then 1 else 10 ^ (- q)) in
  let den := (if 0 <=? e then 1 else 2 ^ (- e)) * (if 0 <=? q then 10 ^ q else 1) in
  (* v/10^q = vnum/den ; compare 2*vnum with (2*n1+1)*den *)
  match (2 * vnum) ?= ((2 * n1 + 1) * den) with Gt => true | Lt => false | Eq => Z.odd n1 end.

Definition shortest_digits (m : positive) (e : Z) : Z * Z :=     (* (digits n, exponent n10) : v ~ n * 10^n10, n has k digits *)
  let iv := interval m e in
  let p10 := floor_log10 m e in
  let fix go (fuel : nat) (k : Z) : Z * Z :=
    match fuel with O => (0, 0) | S f =>
      let q := p10 - k + 1 in
      let n1 := scaled_floor m e q in
      let n2 := n1 + 1 in
      let ok1 := in_interval iv n1 q && (10 ^ (k - 1) <=? n1) in
      let ok2 := in_interval iv n2 q in
      if ok1 && ok2 then (if closer_up m e q n1 then (n2, q) else (n1, q))
      else if ok1 then (n1, q)
      else if ok2 then (n2, q)
      else go f (k + 1)
    end in
  go 18%nat 1.

Definition digit_units (n : Z) : list N :=
  let fix go (fuel : nat) (n : Z) (acc : list N) : list N :=
    match fuel with O => acc | S f =>
      if n <? 10 then Z.to_N (48 + n) :: acc else go f (n / 10) (Z.to_N (48 + n mod 10) :: acc)
    end in
  go 400%nat n [].

Definition repeat_zero (k : Z) : list N := repeat 48%N (Z.to_nat k).

Definition num_to_units (x : float) : list N :=
  match x with
  | S754_nan => [78; 97; 78]%N
  | S754_zero _ => [48]%N
  | S754_infinity s => (if s then [45%N] else []) ++ [73; 110; 102; 105; 110; 105; 116; 121]%N
  | S754_finite s m e =>
      let '(n0, q0) := shortest_digits m e in
      (* normalise: a candidate like 10 with k digits may carry a trailing zero when n2 = 10^k *)
      let fix strip (fuel : nat) (n q : Z) : Z * Z :=
        match fuel with O => (n, q) | S f => if (n mod 10 =? 0) && (10 <=? n) then strip f (n / 10) (q + 1) else (n, q) end in
      let '(n, q) := strip 20%nat n0 q0 in
      let ds := digit_units n in
      let k := Z.of_nat (length ds) in
      let nn := q + k in                                  (* spec's n: v = digits * 10^(nn-k) *)
      let body :=
        if (k <=? nn) && (nn <=? 21) then ds ++ repeat_zero (nn - k)
        else if (0 <? nn) && (nn <=? 21) then firstn (Z.to_nat nn) ds ++ [46%N] ++ skipn (Z.to_nat nn) ds
        else if (-6 <? nn) && (nn <=? 0) then [48; 46]%N ++ repeat_zero (- nn) ++ ds
        else
          let ex := nn - 1 in
          let exs := (if ex <? 0 then [45%N] else [43%N]) ++ digit_units (Z.abs ex) in
          match ds with
          | [d] => [d] ++ [101%N] ++ exs
          | d :: rest => [d; 46%N] ++ rest ++ [101%N] ++ exs
          | [] => []
          end in
      (if s then [45%N] else []) ++ body
  end.

(* ---- StringToNumber (ECMA-262 7.1.4.1.1): whitespace trimmed; Infinity; hex/octal/binary; decimal *)
Definition is_ws (c : N) : bool :=
  existsb (N.eqb c) [9; 10; 11; 12; 13; 32; 160; 5760; 8232; 8233; 8239; 8287; 12288; 65279]%N ||
  ((8192 <=? c) && (c <=? 8202))%N.
Fixpoint drop_ws (l : list N) : list N := match l with c :: t => if is_ws c then drop_ws t else l | [] => [] end.
Definition trim_ws (l : list N) : list N := rev (drop_ws (rev (drop_ws l))).

Definition digit_val (c : N) : option Z :=
  if ((48 <=? c) && (c <=? 57))%N then Some (Z.of_N c - 48)
  else if ((97 <=? c) && (c <=? 122))%N then Some (Z.of_N c - 87)
  else if ((65 <=? c) && (c <=? 90))%N then Some (Z.of_N c - 55) else None.

Fixpoint parse_radix (radix : Z) (l : list N) (acc : Z) (seen : bool) : option Z :=
  match l with
  | [] => if seen then Some acc else None
  | c :: t => match digit_val c with
              | Some d => if d <? radix then parse_radix radix t (acc * radix + d) true else None
              | None => None end
  end.

(* decimal: digits [. digits] [e [+-] digits]  ->  (mantissa, exponent10) *)
Fixpoint take_digits (l : list N) (acc : Z) (cnt : Z) : Z * Z * list N :=
  match l with
  | c :: t => if ((48 <=? c) && (c <=? 57))%N then take_digits t (acc * 10 + (Z.of_N c - 48)) (cnt + 1) else (acc, cnt, l)
  | [] => (acc, cnt, [])
  end.

Definition parse_decimal (l : list N) : option (Z * Z) :=
  let '(ip, ic, r1) := take_digits l 0 0 in
  let '(m, fc, r2, dot) := match r1 with
                      | 46%N :: t => let '(m2, c2, r) := take_digits t ip 0 in (m2, c2, r, true)
                      | _ => (ip, 0, r1, false) end in
  if (ic + fc =? 0) then None else
  match r2 with
  | [] => Some (m, - fc)
  | c :: t =>
      if ((c =? 101) || (c =? 69))%N then
        let '(sg, t') := match t with 43%N :: u => (false, u) | 45%N :: u => (true, u) | _ => (false, t) end in
        let '(ev, ec, r3) := take_digits t' 0 0 in
        if (ec =? 0) then None else
        match r3 with [] => Some (m, (if sg then - ev else ev) - fc) | _ => None end
      else None
  end.

Definition infinity_units : list N := [73; 110; 102; 105; 110; 105; 116; 121]%N.
Definition units_eqb (a b : list N) : bool := if list_eq_dec N.eq_dec a b then true else false.

Definition string_to_number (s : list N) : float :=
  let t := trim_ws s in
  match t with
  | [] => fzero
  | 48%N :: x :: rest =>
      if ((x =? 120) || (x =? 88))%N then match parse_radix 16 rest 0 false with Some v => of_Z v | None => fnan end
      else if ((x =? 111) || (x =? 79))%N then match parse_radix 8 rest 0 false with Some v => of_Z v | None => fnan end
      else if ((x =? 98) || (x =? 66))%N then match parse_radix 2 rest 0 false with Some v => of_Z v | None => fnan end
      else match parse_decimal t with Some (m, e) => of_decimal false m e | None => fnan end
  | c :: rest =>
      let '(sg, body) := if (c =? 43)%N then (false, rest) else if (c =? 45)%N then (true, rest) else (false, t) in
      if units_eqb body infinity_units then finf sg
      else match parse_decimal body with Some (m, e) => of_decimal sg m e | None => fnan end
  end.
