(* Built-in functions of the JSRef realm (the subset the generator grammar uses), the initial state,
   [[Call]] / [[Construct]], and the knot that turns the open-recursion steps into an interpreter. *)
From Coq Require Import ZArith NArith PArith List Bool String Floats.SpecFloat.
From JSRef Require Import Float Syntax Values Static Ops Promises Interp Machine.
Import ListNotations.
Open Scope m_scope.

Definition arg (n : nat) (args : list value) : value := nth n args VUndef.

Section WithSelf.
Variable P : prog.
Variable self : ops.

Definition ordinary_create_from_constructor (newtarget : value) (dflt : loc) (kind : okind) (props : list (pkey * prop)) : M loc :=
  do proto <- (match newtarget with
               | VObj nl => do pv <- o_get self nl (KStr s_prototype) newtarget;;
                            match pv with VObj pl => ret pl | _ => ret dflt end
               | _ => ret dflt end);;
  new_obj (Some proto) kind props.

Definition builtin_tag (st : state) (l : loc) : str :=
  match get_obj st l with
  | Some o =>
      match o_kind o with
      | OArray => S "Array"
      | OFunction _ _ _ _ | ONative _ _ | OBound _ _ _ => S "Function"
      | OError => S "Error"
      | OBooleanObj _ => S "Boolean" | ONumberObj _ => S "Number" | OStringObj _ => S "String"
      | OArguments => S "Arguments"
      | _ => S "Object"
      end
  | None => S "Object"
  end.

Definition to_descriptor (v : value) : M pdesc :=
  match v with
  | VObj l =>
      let field (n : str) : M (option value) :=
        do st <- get_state;;
        if has_property st l (KStr n) then do x <- o_get self l (KStr n) v;; ret (Some x) else ret None in
      do e <- field s_enumerable;; do c <- field s_configurable;; do vv <- field s_value;;
      do w <- field s_writable;; do g <- field s_get;; do s <- field s_set;;
      do st <- get_state;;
      let bad_fn (x : option value) := match x with Some VUndef | None => false | Some f => negb (is_callable st f) end in
      if bad_fn g || bad_fn s then type_error else
      if (match g, s with None, None => false | _, _ => true end) && (match vv, w with None, None => false | _, _ => true end) then type_error else
      ret {| d_value := vv; d_get := g; d_set := s; d_writable := option_map to_boolean w;
             d_enumerable := option_map to_boolean e; d_configurable := option_map to_boolean c |}
  | _ => type_error
  end.

Definition from_descriptor (p : prop) : M value :=
  let b (x : bool) := data (VBool x) in
  do l <- new_obj (Some L_ObjectProto) OOrdinary
            (match p with
             | PData v w e c => [(KStr s_value, data v); (KStr s_writable, b w); (KStr s_enumerable, b e); (KStr s_configurable, b c)]
             | PAcc g s e c => [(KStr s_get, data g); (KStr s_set, data s); (KStr s_enumerable, b e); (KStr s_configurable, b c)]
             end);;
  ret (VObj l).

Definition own_enumerable_string_keys (l : loc) : M (list str) :=
  do o <- the_obj l;;
  ret (flat_map (fun k => match k with
                          | KStr s => match get_own o k with
                                      | Some (PData _ _ true _) | Some (PAcc _ _ true _) => [s]
                                      | _ => [] end
                          | KSym _ => [] end) (own_keys o)).

Definition set_integrity_frozen (l : loc) : M unit :=
  do o <- the_obj l;;
  put_obj l (with_ext (with_props o (map (fun kp => (fst kp, match snd kp with
                                                              | PData v _ e _ => PData v false e false
                                                              | PAcc g s e _ => PAcc g s e false end)) (o_props o))) false).

Definition is_frozen (o : object) : bool :=
  negb (o_ext o) && forallb (fun kp => match snd kp with PData _ w _ c => negb w && negb c | PAcc _ _ _ c => negb c end) (o_props o).

Definition join_list (sep : str) (parts : list str) : str :=
  match parts with
  | [] => []
  | p :: t => fold_left (fun acc x => acc ++ sep ++ x) t p
  end.

Definition array_join (l : loc) (sep : str) : M str :=
  do n <- length_of_array_like self l;;
  do parts <- (fix go (fuel : nat) (i : N) (acc : list str) : M (list str) :=
                 match fuel with O => ret (rev acc) | Datatypes.S f =>
                   if N.leb n i then ret (rev acc) else
                   do x <- o_get self l (KStr (n_to_str i)) (VObj l);;
                   do s <- (match x with VUndef | VNull => ret [] | _ => to_string self x end);;
                   go f (i + 1)%N (s :: acc)
                 end) (Datatypes.S (N.to_nat n)) 0%N [];;
  ret (join_list sep parts).

Definition this_number (tv : value) : M float :=
  match tv with
  | VNum f => ret f
  | VObj l => do o <- the_obj l;; match o_kind o with ONumberObj f => ret f | _ => type_error end
  | _ => type_error
  end.
Definition this_string (tv : value) : M str :=
  match tv with
  | VStr s => ret s
  | VObj l => do o <- the_obj l;; match o_kind o with OStringObj s => ret s | _ => type_error end
  | _ => type_error
  end.

Definition gen_of_this (tv : value) : M N :=
  match tv with
  | VObj l => do o <- the_obj l;; match o_kind o with OGenerator g => ret g | _ => type_error end
  | _ => type_error
  end.

Definition array_like_to_list (v : value) : M (list value) :=
  match v with
  | VUndef | VNull => ret []
  | VObj l =>
      do n <- length_of_array_like self l;;
      (fix go (fuel : nat) (i : N) (acc : list value) : M (list value) :=
         match fuel with O => ret (rev acc) | Datatypes.S f =>
           if N.leb n i then ret (rev acc) else
           do x <- o_get self l (KStr (n_to_str i)) v;; go f (i + 1)%N (x :: acc)
         end) (Datatypes.S (N.to_nat n)) 0%N []
  | _ => type_error
  end.

Definition tl_args (a : list value) : list value := match a with [] => [] | _ :: t => t end.

Definition obj_to_string (tv : value) : M value :=
  match tv with
  | VUndef => ret (VStr (S "[object Undefined]"))
  | VNull => ret (VStr (S "[object Null]"))
  | _ =>
      do l <- to_object tv;; do st <- get_state;;
      let bt := builtin_tag st l in
      do tag <- o_get self l (KSym SYM_TOSTRINGTAG) (VObj l);;
      ret (VStr (S "[object " ++ (match tag with VStr t => t | _ => bt end) ++ S "]"))
  end.

(* ---- promises (27.2.3 - 27.2.5) *)
Definition invoke_then (p : value) (args : list value) : M value :=
  do th <- get_v self p (KStr s_then);;
  do st <- get_state;;
  if is_callable st th then o_call self th p args else type_error.

Definition promise_obj (pid : N) : M value := do p <- the_promise pid;; ret (VObj (p_obj p)).

(* SpeciesConstructor(promise, %Promise%) restricted to the intrinsic: the `constructor` lookup is performed (observable) *)
Definition promise_species (l : loc) (tv : value) : M unit :=
  do c <- o_get self l (KStr s_constructor) tv;;
  match c with
  | VUndef => ret tt
  | VObj cl => if Pos.eqb cl L_Promise then ret tt else unsupported 987%N
  | _ => type_error
  end.

(* Promise.all / Promise.race on the intrinsic constructor; [race] selects the combinator *)
Definition promise_combinator (race : bool) (tv : value) (iterable : value) : M value :=
  match tv with
  | VObj cl =>
      if negb (Pos.eqb cl L_Promise) then unsupported 986%N else
      do pp <- new_promise L_PromiseProto;;
      do fns <- create_resolving (fst pp);;
      let reject_with (e : value) : M value := do _ <- o_call self (snd fns) VUndef [e];; ret (VObj (snd pp)) in
      catchm
        (do presolve <- o_get self cl (KStr (S "resolve")) tv;;
         do st0 <- get_state;;
         if negb (is_callable st0 presolve) then type_error else
         do itnx <- get_iterator self iterable;;
         let '(it, nx) := itnx in
         do vals <- new_obj (Some L_ArrayProto) OArray [(KStr s_length, PData (VNum fzero) true false false)];;
         do cnt <- new_obj None OOrdinary [(KStr (S "n"), data (VNum (of_Z 1)))];;
         do _ <- (fix go (fuel : nat) (idx : N) : M unit :=
                    match fuel with
                    | O => fun _ => RFuel
                    | Datatypes.S f =>
                        do s <- iterator_step self it nx;;
                        match s with
                        | None => ret tt
                        | Some next =>
                            do _ <- closing_on_throw self it
                                      (do np <- o_call self presolve tv [next];;
                                       if race then do _ <- invoke_then np [fst fns; snd fns];; ret tt
                                       else
                                         do _ <- create_data_prop vals (KStr (n_to_str idx)) VUndef;;
                                         do fl <- new_flag;;
                                         do re <- internal_fn NPromiseAllResolveElement [VNum (of_Z (Z.of_N idx)); VObj vals; VObj cnt; fst fns; VObj fl] 1;;
                                         do co <- the_obj cnt;;
                                         let n := match find_prop (KStr (S "n")) (o_props co) with Some (PData (VNum x) _ _ _) => trunc_Z x | _ => 0%Z end in
                                         do _ <- put_obj cnt (with_props co [(KStr (S "n"), data (VNum (of_Z (n + 1))))]);;
                                         do _ <- invoke_then np [re; snd fns];; ret tt);;
                            go f (idx + 1)%N
                        end
                    end) LOOP_FUEL 0%N;;
         if race then ret (VObj (snd pp)) else
         do co <- the_obj cnt;;
         let n := match find_prop (KStr (S "n")) (o_props co) with Some (PData (VNum x) _ _ _) => trunc_Z x | _ => 0%Z end in
         do _ <- put_obj cnt (with_props co [(KStr (S "n"), data (VNum (of_Z (n - 1))))]);;
         do _ <- (if (n - 1 =? 0)%Z then do _ <- o_call self (fst fns) VUndef [VObj vals];; ret tt else ret tt);;
         ret (VObj (snd pp)))
        reject_with
  | _ => type_error
  end.

Definition native_call (n : native) (cap : list value) (tv : value) (args : list value) (newtarget : value) : M value :=
  match n with
  | NPrint =>
      do parts <- (fix go (l : list value) (acc : list str) : M (list str) :=
                     match l with [] => ret (rev acc) | v :: t => do s <- to_string self v;; go t (s :: acc) end) args [];;
      do _ <- (fun st => ROk tt (push_out st (join_list [32%N] parts)));;
      ret VUndef
  | NObject =>
      match newtarget with
      | VObj nl => if Pos.eqb nl L_ObjectCtor then
                     (match arg 0 args with VUndef | VNull => do l <- new_obj (Some L_ObjectProto) OOrdinary [];; ret (VObj l)
                                      | v => do l <- to_object v;; ret (VObj l) end)
                   else do l <- ordinary_create_from_constructor newtarget L_ObjectProto OOrdinary [];; ret (VObj l)
      | _ => match arg 0 args with VUndef | VNull => do l <- new_obj (Some L_ObjectProto) OOrdinary [];; ret (VObj l)
                             | v => do l <- to_object v;; ret (VObj l) end
      end
  | NObjectKeys =>
      do l <- to_object (arg 0 args);; do ks <- own_enumerable_string_keys l;; array_from_list (map VStr ks)
  | NObjectValues =>
      do l <- to_object (arg 0 args);; do ks <- own_enumerable_string_keys l;;
      do vs <- (fix go (ks : list str) (acc : list value) : M (list value) :=
                  match ks with [] => ret (rev acc) | k :: t => do v <- o_get self l (KStr k) (VObj l);; go t (v :: acc) end) ks [];;
      array_from_list vs
  | NObjectEntries =>
      do l <- to_object (arg 0 args);; do ks <- own_enumerable_string_keys l;;
      do vs <- (fix go (ks : list str) (acc : list value) : M (list value) :=
                  match ks with [] => ret (rev acc) | k :: t =>
                    do v <- o_get self l (KStr k) (VObj l);; do pr <- array_from_list [VStr k; v];; go t (pr :: acc) end) ks [];;
      array_from_list vs
  | NObjectGetOwnPropertyNames =>
      do l <- to_object (arg 0 args);; do o <- the_obj l;;
      array_from_list (flat_map (fun k => match k with KStr s => [VStr s] | _ => [] end) (own_keys o))
  | NReflectOwnKeys =>
      match arg 0 args with
      | VObj l => do o <- the_obj l;;
                  array_from_list (flat_map (fun k => match k with KStr s => [VStr s] | KSym i => if N.ltb i FIRST_USER_SYM && N.leb 7 i then [] else [VSym i] end) (own_keys o))
      | _ => type_error
      end
  | NObjectCreate =>
      do proto <- (match arg 0 args with VObj p => ret (Some p) | VNull => ret None | _ => type_error end);;
      do l <- new_obj proto OOrdinary [];;
      match arg 1 args with
      | VUndef => ret (VObj l)
      | pv =>
          do pl <- to_object pv;; do ks <- own_enumerable_string_keys pl;;
          do _ <- (fix go (ks : list str) : M unit :=
                     match ks with [] => ret tt | k :: t =>
                       do dv <- o_get self pl (KStr k) (VObj pl);; do d <- to_descriptor dv;;
                       do _ <- define_or_throw l (KStr k) d;; go t end) ks;;
          ret (VObj l)
      end
  | NObjectDefineProperty =>
      match arg 0 args with
      | VObj l => do k <- to_property_key self (arg 1 args);; do d <- to_descriptor (arg 2 args);;
                  do _ <- define_or_throw l k d;; ret (VObj l)
      | _ => type_error
      end
  | NObjectGetOwnPropertyDescriptor =>
      do l <- to_object (arg 0 args);; do k <- to_property_key self (arg 1 args);; do o <- the_obj l;;
      match get_own o k with Some p => from_descriptor p | None => ret VUndef end
  | NObjectGetPrototypeOf =>
      do l <- to_object (arg 0 args);; do o <- the_obj l;; ret (match o_proto o with Some p => VObj p | None => VNull end)
  | NObjectSetPrototypeOf =>
      match arg 0 args with
      | VUndef | VNull => type_error
      | VObj l =>
          do np <- (match arg 1 args with VObj p => ret (Some p) | VNull => ret None | _ => type_error end);;
          do o <- the_obj l;;
          let same := match o_proto o, np with Some a, Some b => Pos.eqb a b | None, None => true | _, _ => false end in
          if same then ret (VObj l) else
          if negb (o_ext o) then type_error else
          (* cycle check *)
          do st <- get_state;;
          let cyc := match np with
                     | Some p => (fix walk (fuel : nat) (q : loc) : bool :=
                                    match fuel with O => false | Datatypes.S f =>
                                      if Pos.eqb q l then true else
                                      match get_obj st q with Some qo => match o_proto qo with Some r => walk f r | None => false end | None => false end end) CHAIN_FUEL p
                     | None => false end in
          if cyc then type_error else do _ <- put_obj l (with_proto o np);; ret (VObj l)
      | v => match arg 1 args with VObj _ | VNull => ret v | _ => type_error end
      end
  | NObjectFreeze => match arg 0 args with VObj l => do _ <- set_integrity_frozen l;; ret (VObj l) | v => ret v end
  | NObjectIsFrozen => match arg 0 args with VObj l => do o <- the_obj l;; ret (VBool (is_frozen o)) | _ => ret (VBool true) end
  | NObjectPreventExtensions => match arg 0 args with VObj l => do o <- the_obj l;; do _ <- put_obj l (with_ext o false);; ret (VObj l) | v => ret v end
  | NObjectIs => ret (VBool (same_value (arg 0 args) (arg 1 args)))
  | NObjectAssign =>
      do tl <- to_object (arg 0 args);;
      do _ <- (fix go (srcs : list value) : M unit :=
                 match srcs with
                 | [] => ret tt
                 | (VUndef | VNull) :: t => go t
                 | s :: t =>
                     do sl <- to_object s;; do so <- the_obj sl;;
                     do _ <- (fix cp (ks : list pkey) : M unit :=
                                match ks with [] => ret tt | k :: r =>
                                  do st <- get_state;;
                                  match get_obj st sl with
                                  | Some so' => match get_own so' k with
                                                | Some (PData _ _ true _) | Some (PAcc _ _ true _) =>
                                                    do x <- o_get self sl k (VObj sl);;
                                                    do ok <- o_set self tl k x (VObj tl);;
                                                    if ok then cp r else type_error
                                                | _ => cp r end
                                  | None => cp r end end) (own_keys so);;
                     go t
                 end) (tl_args args);;
      ret (VObj tl)
  | NObjProtoToString => obj_to_string tv
  | NObjProtoValueOf => do l <- to_object tv;; ret (VObj l)
  | NObjProtoHasOwnProperty =>
      do k <- to_property_key self (arg 0 args);; do l <- to_object tv;; do st <- get_state;; ret (VBool (has_own st l k))
  | NObjProtoPropertyIsEnumerable =>
      do k <- to_property_key self (arg 0 args);; do l <- to_object tv;; do o <- the_obj l;;
      ret (VBool (match get_own o k with Some (PData _ _ true _) | Some (PAcc _ _ true _) => true | _ => false end))
  | NObjProtoIsPrototypeOf =>
      match arg 0 args with
      | VObj vl =>
          do l <- to_object tv;; do st <- get_state;;
          ret (VBool ((fix walk (fuel : nat) (q : loc) : bool :=
                         match fuel with O => false | Datatypes.S f =>
                           match get_obj st q with
                           | Some qo => match o_proto qo with Some r => if Pos.eqb r l then true else walk f r | None => false end
                           | None => false end end) CHAIN_FUEL vl))
      | _ => ret (VBool false)
      end
  | NFunctionProto => ret VUndef
  | NFunctionProtoCall =>
      do st <- get_state;; if negb (is_callable st tv) then type_error else o_call self tv (arg 0 args) (tl_args args)
  | NFunctionProtoApply =>
      do st <- get_state;; if negb (is_callable st tv) then type_error else
      do vs <- array_like_to_list (arg 1 args);; o_call self tv (arg 0 args) vs
  | NFunctionProtoBind =>
      match tv with
      | VObj tl =>
          do st <- get_state;; if negb (is_callable st tv) then type_error else
          do tobj <- the_obj tl;;
          do nm <- o_get self tl (KStr s_name) tv;;
          let nms := match nm with VStr s => s | _ => [] end in
          do lenv <- (if has_own st tl (KStr s_length) then o_get self tl (KStr s_length) tv else ret (VNum fzero));;
          let bound_n := Z.of_nat (List.length (tl_args args)) in
          let len := match lenv with
                     | VNum f => if is_nan f then 0%Z else match f with S754_infinity false => (-1)%Z | S754_infinity true => 0%Z | _ => Z.max 0 (trunc_Z f - bound_n) end
                     | _ => 0%Z end in
          let lenv' := if (len =? -1)%Z then VNum (finf false) else VNum (of_Z len) in
          do l <- new_obj (o_proto tobj) (OBound tl (arg 0 args) (tl_args args))
                    [(KStr s_length, PData lenv' false false true); (KStr s_name, PData (VStr (S "bound " ++ nms)) false false true)];;
          ret (VObj l)
      | _ => type_error
      end
  | NFunctionProtoHasInstance => do r <- ordinary_has_instance self tv (arg 0 args);; ret (VBool r)
  | NArray =>
      do al <- ordinary_create_from_constructor newtarget L_ArrayProto OArray [(KStr s_length, PData (VNum fzero) true false false)];;
      match args with
      | [VNum f] =>
          if is_integer f && (0 <=? trunc_Z f)%Z && (trunc_Z f <? 4294967296)%Z && negb (sign_of f && negb (is_zero f)) then
            do o <- the_obj al;; do _ <- put_obj al (with_props o (set_length_prop (o_props o) (Z.to_N (trunc_Z f)) true));; ret (VObj al)
          else range_error
      | _ =>
          do _ <- (fix put (vs : list value) (j : N) : M unit :=
                     match vs with [] => ret tt | x :: r => do _ <- create_data_prop al (KStr (n_to_str j)) x;; put r (j + 1)%N end) args 0%N;;
          ret (VObj al)
      end
  | NArrayOf => array_from_list args
  | NArrayIsArray =>
      match arg 0 args with
      | VObj l => do o <- the_obj l;; ret (VBool (match o_kind o with OArray => true | _ => false end))
      | _ => ret (VBool false)
      end
  | NArrayFrom =>
      do m <- get_method self (arg 0 args) (KSym SYM_ITERATOR);;
      match m with
      | VUndef => do vs <- array_like_to_list (arg 0 args);; array_from_list vs
      | _ => do vs <- iterate_to_list self (arg 0 args);; array_from_list vs
      end
  | NArrayProtoPush =>
      do l <- to_object tv;; do n <- length_of_array_like self l;;
      do n' <- (fix go (vs : list value) (i : N) : M N :=
                  match vs with [] => ret i | x :: r =>
                    do ok <- o_set self l (KStr (n_to_str i)) x (VObj l);; if ok then go r (i + 1)%N else type_error end) args n;;
      do ok <- o_set self l (KStr s_length) (VNum (of_Z (Z.of_N n'))) (VObj l);;
      if ok then ret (VNum (of_Z (Z.of_N n'))) else type_error
  | NArrayProtoPop =>
      do l <- to_object tv;; do n <- length_of_array_like self l;;
      if N.eqb n 0 then do _ <- o_set self l (KStr s_length) (VNum fzero) (VObj l);; ret VUndef else
      let i := (n - 1)%N in
      do x <- o_get self l (KStr (n_to_str i)) (VObj l);;
      do d <- delete_own l (KStr (n_to_str i));; if negb d then type_error else
      do ok <- o_set self l (KStr s_length) (VNum (of_Z (Z.of_N i))) (VObj l);;
      if ok then ret x else type_error
  | NArrayProtoJoin =>
      do l <- to_object tv;;
      do sep <- (match arg 0 args with VUndef => ret [44%N] | v => to_string self v end);;
      do s <- array_join l sep;; ret (VStr s)
  | NArrayProtoToString =>
      do l <- to_object tv;;
      do j <- o_get self l (KStr (S "join")) (VObj l);;
      do st <- get_state;;
      if is_callable st j then o_call self j (VObj l) [] else obj_to_string (VObj l)
  | NArrayProtoValues => do l <- to_object tv;; do it <- new_obj (Some L_ArrayIteratorProto) (OArrayIter (VObj l) 0%N 0%N) [];; ret (VObj it)
  | NArrayProtoKeys => do l <- to_object tv;; do it <- new_obj (Some L_ArrayIteratorProto) (OArrayIter (VObj l) 0%N 1%N) [];; ret (VObj it)
  | NArrayProtoEntries => do l <- to_object tv;; do it <- new_obj (Some L_ArrayIteratorProto) (OArrayIter (VObj l) 0%N 2%N) [];; ret (VObj it)
  | NArrayIterNext =>
      match tv with
      | VObj il =>
          do io <- the_obj il;;
          match o_kind io with
          | OArrayIter (VObj al) i kind =>
              do n <- length_of_array_like self al;;
              if N.leb n i then
                do _ <- put_obj il (with_kind io (OArrayIter VUndef 0%N kind));; create_iter_result VUndef true
              else
                do _ <- put_obj il (with_kind io (OArrayIter (VObj al) (i + 1)%N kind));;
                if N.eqb kind 1 then create_iter_result (VNum (of_Z (Z.of_N i))) false else
                do x <- o_get self al (KStr (n_to_str i)) (VObj al);;
                if N.eqb kind 0 then create_iter_result x false
                else do pr <- array_from_list [VNum (of_Z (Z.of_N i)); x];; create_iter_result pr false
          | OArrayIter _ _ _ => create_iter_result VUndef true
          | _ => type_error
          end
      | _ => type_error
      end
  | NIterProtoIterator => ret tv
  | NArrayProtoIndexOf | NArrayProtoIncludes =>
      do l <- to_object tv;; do len <- length_of_array_like self l;;
      let incl := match n with NArrayProtoIncludes => true | _ => false end in
      (fix go (fuel : nat) (i : N) : M value :=
         match fuel with O => ret (if incl then VBool false else VNum (of_Z (-1))) | Datatypes.S f =>
           if N.leb len i then ret (if incl then VBool false else VNum (of_Z (-1))) else
           do st <- get_state;;
           if negb incl && negb (has_property st l (KStr (n_to_str i))) then go f (i + 1)%N else
           do x <- o_get self l (KStr (n_to_str i)) (VObj l);;
           if (if incl then same_value_zero x (arg 0 args) else strict_equals x (arg 0 args))
           then ret (if incl then VBool true else VNum (of_Z (Z.of_N i))) else go f (i + 1)%N
         end) (Datatypes.S (N.to_nat len)) 0%N
  | NArrayProtoForEach | NArrayProtoMap | NArrayProtoFilter | NArrayProtoSome | NArrayProtoEvery | NArrayProtoFind =>
      do l <- to_object tv;; do len <- length_of_array_like self l;;
      let cb := arg 0 args in
      do st <- get_state;; if negb (is_callable st cb) then type_error else
      do res <- (match n with
                 | NArrayProtoMap => do a <- new_obj (Some L_ArrayProto) OArray [(KStr s_length, PData (VNum (of_Z (Z.of_N len))) true false false)];; ret (Some a)
                 | NArrayProtoFilter => do a <- new_obj (Some L_ArrayProto) OArray [(KStr s_length, PData (VNum fzero) true false false)];; ret (Some a)
                 | _ => ret None end);;
      (fix go (fuel : nat) (i : N) (outn : N) : M value :=
         match fuel with O => fun _ => RFuel | Datatypes.S f =>
           if N.leb len i then
             ret (match n, res with
                  | (NArrayProtoMap | NArrayProtoFilter), Some a => VObj a
                  | NArrayProtoSome, _ => VBool false
                  | NArrayProtoEvery, _ => VBool true
                  | _, _ => VUndef end)
           else
             do st <- get_state;;
             let present := has_property st l (KStr (n_to_str i)) in
             if negb present && (match n with NArrayProtoFind => false | _ => true end) then go f (i + 1)%N outn else
             do x <- o_get self l (KStr (n_to_str i)) (VObj l);;
             do r <- o_call self cb (arg 1 args) [x; VNum (of_Z (Z.of_N i)); VObj l];;
             match n, res with
             | NArrayProtoMap, Some a => do _ <- create_data_prop_or_throw a (KStr (n_to_str i)) r;; go f (i + 1)%N outn
             | NArrayProtoFilter, Some a =>
                 if to_boolean r then do _ <- create_data_prop_or_throw a (KStr (n_to_str outn)) x;; go f (i + 1)%N (outn + 1)%N
                 else go f (i + 1)%N outn
             | NArrayProtoSome, _ => if to_boolean r then ret (VBool true) else go f (i + 1)%N outn
             | NArrayProtoEvery, _ => if to_boolean r then go f (i + 1)%N outn else ret (VBool false)
             | NArrayProtoFind, _ => if to_boolean r then ret x else go f (i + 1)%N outn
             | _, _ => go f (i + 1)%N outn
             end
         end) (Datatypes.S (N.to_nat len)) 0%N 0%N
  | NArrayProtoSlice =>
      do l <- to_object tv;; do len <- length_of_array_like self l;;
      let rel (v : value) (dflt : Z) : M Z :=
        match v with VUndef => ret dflt | _ =>
          do f <- to_number self v;;
          let r := to_integer_clamped f (- 9007199254740992) 9007199254740992 in
          ret (if (r <? 0)%Z then Z.max 0 (Z.of_N len + r) else Z.min r (Z.of_N len)) end in
      do k0 <- rel (arg 0 args) 0%Z;; do fin <- rel (arg 1 args) (Z.of_N len);;
      do vs <- (fix go (fuel : nat) (i : Z) (acc : list (option value)) : M (list (option value)) :=
                  match fuel with O => ret (rev acc) | Datatypes.S f =>
                    if (fin <=? i)%Z then ret (rev acc) else
                    do st <- get_state;;
                    if has_property st l (KStr (n_to_str (Z.to_N i))) then
                      do x <- o_get self l (KStr (n_to_str (Z.to_N i))) (VObj l);; go f (i + 1)%Z (Some x :: acc)
                    else go f (i + 1)%Z (None :: acc)
                  end) (Datatypes.S (Z.to_nat (fin - k0))) k0 [];;
      do a <- new_obj (Some L_ArrayProto) OArray [(KStr s_length, PData (VNum fzero) true false false)];;
      do _ <- (fix put (vs : list (option value)) (j : N) : M unit :=
                 match vs with [] => ret tt
                 | Some x :: r => do _ <- create_data_prop a (KStr (n_to_str j)) x;; put r (j + 1)%N
                 | None :: r => put r (j + 1)%N end) vs 0%N;;
      do ao <- the_obj a;; do _ <- put_obj a (with_props ao (set_length_prop (o_props ao) (N.of_nat (List.length vs)) true));;
      ret (VObj a)
  | NError kind =>
      let nt := match newtarget with VUndef => VUndef | v => v end in
      do l <- ordinary_create_from_constructor nt (error_proto kind) OError [];;
      do _ <- (match arg 0 args with
               | VUndef => ret tt
               | m => do ms <- to_string self m;; define_or_throw l (KStr s_message) (data_desc (VStr ms) true false true) end);;
      do _ <- (match arg 1 args with
               | VObj ol => do st <- get_state;;
                            if has_property st ol (KStr s_cause) then
                              do cv <- o_get self ol (KStr s_cause) (VObj ol);; define_or_throw l (KStr s_cause) (data_desc cv true false true)
                            else ret tt
               | _ => ret tt end);;
      ret (VObj l)
  | NErrorProtoToString =>
      match tv with
      | VObj l =>
          do nv <- o_get self l (KStr s_name) tv;;
          do nm <- (match nv with VUndef => ret (S "Error") | v => to_string self v end);;
          do mv <- o_get self l (KStr s_message) tv;;
          do ms <- (match mv with VUndef => ret [] | v => to_string self v end);;
          ret (VStr (match nm, ms with [], _ => ms | _, [] => nm | _, _ => nm ++ S ": " ++ ms end))
      | _ => type_error
      end
  | NString =>
      do s <- (match args with
               | [] => ret []
               | v :: _ => match newtarget, v with
                           | VUndef, VSym i => do st <- get_state;; ret (sym_descr_str st i)
                           | _, _ => to_string self v end
               end);;
      match newtarget with
      | VUndef => ret (VStr s)
      | _ => do l <- ordinary_create_from_constructor newtarget L_StringProto (OStringObj s) [];; ret (VObj l)
      end
  | NNumber =>
      do f <- (match args with
               | [] => ret fzero
               | v :: _ => do nv <- to_numeric self v;;
                           match nv with VBigInt z => ret (of_Z z) | VNum f => ret f | _ => type_error end
               end);;
      match newtarget with
      | VUndef => ret (VNum f)
      | _ => do l <- ordinary_create_from_constructor newtarget L_NumberProto (ONumberObj f) [];; ret (VObj l)
      end
  | NBoolean =>
      let b := to_boolean (arg 0 args) in
      match newtarget with
      | VUndef => ret (VBool b)
      | _ => do l <- ordinary_create_from_constructor newtarget L_BooleanProto (OBooleanObj b) [];; ret (VObj l)
      end
  | NSymbol =>
      match newtarget with
      | VUndef =>
          do d <- (match arg 0 args with VUndef => ret None | v => do s <- to_string self v;; ret (Some s) end);;
          fun st => let id := next_sym st in ROk (VSym id) (with_syms st (id + 1)%N ((id, d) :: sym_descr st) (sym_registry st))
      | _ => type_error
      end
  | NSymbolProtoToString =>
      match tv with
      | VSym i => do st <- get_state;; ret (VStr (sym_descr_str st i))
      | VObj l => do o <- the_obj l;; match o_kind o with OSymbolObj i => do st <- get_state;; ret (VStr (sym_descr_str st i)) | _ => type_error end
      | _ => type_error
      end
  | NSymbolProtoDescription =>
      match tv with
      | VSym i => do st <- get_state;; ret (match assoc_n i (sym_descr st) with Some (Some d) => VStr d | _ => VUndef end)
      | _ => type_error
      end
  | NNumberProtoToString =>
      do f <- this_number tv;;
      match arg 0 args with
      | VUndef => ret (VStr (num_to_units f))
      | r => do rf <- to_number self r;; if feqb rf (of_Z 10) then ret (VStr (num_to_units f)) else unsupported 980%N
      end
  | NNumberProtoValueOf => do f <- this_number tv;; ret (VNum f)
  | NStringProtoToString | NStringProtoValueOf => do s <- this_string tv;; ret (VStr s)
  | NBooleanProtoToString =>
      match tv with
      | VBool b => ret (VStr (if b then s_true else s_false))
      | VObj l => do o <- the_obj l;; match o_kind o with OBooleanObj b => ret (VStr (if b then s_true else s_false)) | _ => type_error end
      | _ => type_error
      end
  | NBooleanProtoValueOf =>
      match tv with
      | VBool b => ret tv
      | VObj l => do o <- the_obj l;; match o_kind o with OBooleanObj b => ret (VBool b) | _ => type_error end
      | _ => type_error
      end
  | NStringProtoCharAt =>
      match tv with VUndef | VNull => type_error | _ =>
      do s <- to_string self tv;; do f <- to_number self (arg 0 args);;
      let i := to_integer_clamped f (-1) 4294967296 in
      ret (VStr (if (i <? 0)%Z then [] else match nth_error s (Z.to_nat i) with Some c => [c] | None => [] end)) end
  | NStringProtoCharCodeAt =>
      match tv with VUndef | VNull => type_error | _ =>
      do s <- to_string self tv;; do f <- to_number self (arg 0 args);;
      let i := to_integer_clamped f (-1) 4294967296 in
      ret (VNum (if (i <? 0)%Z then fnan else match nth_error s (Z.to_nat i) with Some c => of_Z (Z.of_N c) | None => fnan end)) end
  | NStringProtoIterator =>
      match tv with VUndef | VNull => type_error | _ =>
      do s <- to_string self tv;; do it <- new_obj (Some L_StringIteratorProto) (OStringIter s 0%N) [];; ret (VObj it) end
  | NStringIterNext =>
      match tv with
      | VObj il =>
          do io <- the_obj il;;
          match o_kind io with
          | OStringIter s i =>
              match nth_error s (N.to_nat i) with
              | None => create_iter_result VUndef true
              | Some c1 =>
                  let pair := if (N.leb 55296 c1 && N.leb c1 56319)%bool then
                                match nth_error s (N.to_nat i + 1) with
                                | Some c2 => if (N.leb 56320 c2 && N.leb c2 57343)%bool then Some c2 else None
                                | None => None end
                              else None in
                  match pair with
                  | Some c2 => do _ <- put_obj il (with_kind io (OStringIter s (i + 2)%N));; create_iter_result (VStr [c1; c2]) false
                  | None => do _ <- put_obj il (with_kind io (OStringIter s (i + 1)%N));; create_iter_result (VStr [c1]) false
                  end
              end
          | _ => type_error
          end
      | _ => type_error
      end
  | NIsNaN => do f <- to_number self (arg 0 args);; ret (VBool (is_nan f))
  | NIsFinite => do f <- to_number self (arg 0 args);; ret (VBool (is_finite f))
  | NNumberIsNaN => ret (VBool (match arg 0 args with VNum f => is_nan f | _ => false end))
  | NNumberIsInteger => ret (VBool (match arg 0 args with VNum f => is_finite f && is_integer f | _ => false end))
  | NMathAbs => do f <- to_number self (arg 0 args);; ret (VNum (fabs f))
  | NMathFloor => do f <- to_number self (arg 0 args);;
                  ret (VNum (if is_finite f && negb (is_integer f) then (let z := floor_Z f in if (z =? 0)%Z && sign_of f then fnzero else of_Z z) else f))
  | NMathTrunc => do f <- to_number self (arg 0 args);;
                  ret (VNum (if is_finite f && negb (is_integer f) then (let z := trunc_Z f in if (z =? 0)%Z then (if sign_of f then fnzero else fzero) else of_Z z) else f))
  | NMathCeil => do f <- to_number self (arg 0 args);;
                 ret (VNum (if is_finite f && negb (is_integer f) then (let z := (floor_Z f + 1)%Z in if (z =? 0)%Z then (if sign_of f then fnzero else fzero) else of_Z z) else f))
  | NMathSign => do f <- to_number self (arg 0 args);;
                 ret (VNum (if is_nan f || is_zero f then f else if sign_of f then of_Z (-1) else of_Z 1))
  | NMathSqrt => do f <- to_number self (arg 0 args);; ret (VNum (fsqrt f))
  | NMathMax | NMathMin =>
      let is_max := match n with NMathMax => true | _ => false end in
      do fs <- (fix go (l : list value) (acc : list float) : M (list float) :=
                  match l with [] => ret (rev acc) | v :: t => do f <- to_number self v;; go t (f :: acc) end) args [];;
      ret (VNum (fold_left (fun acc f =>
                              if is_nan acc || is_nan f then fnan
                              else if is_max then
                                (if fltb acc f then f else if feqb acc f && is_zero acc && sign_of acc then f else acc)
                              else
                                (if fltb f acc then f else if feqb acc f && is_zero acc && negb (sign_of acc) then f else acc))
                           fs (finf is_max)))
  | NGenNext => do g <- gen_of_this tv;; gen_resume self g (RNext (arg 0 args))
  | NGenReturn => do g <- gen_of_this tv;; gen_resume self g (RReturnIn (arg 0 args))
  | NGenThrow => do g <- gen_of_this tv;; gen_resume self g (RThrowIn (arg 0 args))
  | NBigInt =>
      match newtarget with
      | VUndef =>
          do p <- o_toprim self (arg 0 args) 1%N;;
          match p with
          | VNum f => if is_finite f && is_integer f then ret (VBigInt (trunc_Z f)) else range_error
          | VBigInt z => ret p
          | VBool b => ret (VBigInt (if b then 1 else 0))
          | VStr s => match string_to_bigint s with Some z => ret (VBigInt z) | None => throw_error K_SyntaxError end
          | _ => type_error
          end
      | _ => type_error
      end
  | NBigIntProtoToString =>
      match tv with
      | VBigInt z => ret (VStr (bigint_to_str z))
      | VObj l => do o <- the_obj l;; match o_kind o with OBigIntObj z => ret (VStr (bigint_to_str z)) | _ => type_error end
      | _ => type_error
      end
  | NGlobalThisGetter => ret (VObj L_Global)
  | NPromise =>
      match newtarget with
      | VUndef => type_error
      | _ =>
          let ex := arg 0 args in
          do st <- get_state;;
          if negb (is_callable st ex) then type_error else
          do proto <- (match newtarget with
                       | VObj nl => do pv <- o_get self nl (KStr s_prototype) newtarget;;
                                    match pv with VObj pl => ret pl | _ => ret L_PromiseProto end
                       | _ => ret L_PromiseProto end);;
          do pp <- new_promise proto;;
          do fns <- create_resolving (fst pp);;
          do _ <- catchm (do _ <- o_call self ex VUndef [fst fns; snd fns];; ret tt)
                         (fun e => do _ <- o_call self (snd fns) VUndef [e];; ret tt);;
          ret (VObj (snd pp))
      end
  | NPromiseResolveFn =>
      match cap with
      | [pv; VObj fl] =>
          do was <- test_and_set_flag fl;;
          if was then ret VUndef else do _ <- resolve_promise self (val_pid pv) (arg 0 args);; ret VUndef
      | _ => unsupported 988%N
      end
  | NPromiseRejectFn =>
      match cap with
      | [pv; VObj fl] =>
          do was <- test_and_set_flag fl;;
          if was then ret VUndef else do _ <- reject_promise (val_pid pv) (arg 0 args);; ret VUndef
      | _ => unsupported 988%N
      end
  | NPromiseResolve =>
      match tv with
      | VObj cl => if Pos.eqb cl L_Promise then do pid <- promise_resolve self (arg 0 args);; promise_obj pid else unsupported 986%N
      | _ => type_error
      end
  | NPromiseReject =>
      match tv with
      | VObj cl => if Pos.eqb cl L_Promise then
                     do pp <- new_promise L_PromiseProto;; do _ <- reject_promise (fst pp) (arg 0 args);; ret (VObj (snd pp))
                   else unsupported 986%N
      | _ => type_error
      end
  | NPromiseProtoThen =>
      do st <- get_state;;
      match promise_of_value st tv, tv with
      | Some pid, VObj l =>
          do _ <- promise_species l tv;;
          do dp <- new_promise L_PromiseProto;;
          do st1 <- get_state;;
          do _ <- perform_then pid (Reaction (Some (fst dp)) (callable_or_undef st1 (arg 0 args)) false 0%N)
                                   (Reaction (Some (fst dp)) (callable_or_undef st1 (arg 1 args)) true 0%N);;
          ret (VObj (snd dp))
      | _, _ => type_error
      end
  | NPromiseProtoCatch => invoke_then tv [VUndef; arg 0 args]
  | NPromiseProtoFinally =>
      match tv with
      | VObj l =>
          do _ <- promise_species l tv;;
          let onf := arg 0 args in
          do st <- get_state;;
          if negb (is_callable st onf) then invoke_then tv [onf; onf] else
          do tf <- internal_fn NThenFinally [onf] 1;;
          do cf <- internal_fn NCatchFinally [onf] 1;;
          invoke_then tv [tf; cf]
      | _ => type_error
      end
  | NThenFinally | NCatchFinally =>
      match cap with
      | [onf] =>
          do r <- o_call self onf VUndef [];;
          do pid <- promise_resolve self r;;
          do po <- promise_obj pid;;
          do k <- internal_fn (match n with NThenFinally => NValueThunk | _ => NThrower end) [arg 0 args] 0;;
          invoke_then po [k]
      | _ => unsupported 988%N
      end
  | NValueThunk => ret (arg 0 cap)
  | NThrower => throwv (arg 0 cap)
  | NPromiseAll => promise_combinator false tv (arg 0 args)
  | NPromiseRace => promise_combinator true tv (arg 0 args)
  | NPromiseAllResolveElement =>
      match cap with
      | [VNum idx; VObj vals; VObj cnt; resolvefn; VObj fl] =>
          do was <- test_and_set_flag fl;;
          if was then ret VUndef else
          do _ <- create_data_prop vals (KStr (n_to_str (Z.to_N (trunc_Z idx)))) (arg 0 args);;
          do co <- the_obj cnt;;
          let m := match find_prop (KStr (S "n")) (o_props co) with Some (PData (VNum x) _ _ _) => trunc_Z x | _ => 0%Z end in
          do _ <- put_obj cnt (with_props co [(KStr (S "n"), data (VNum (of_Z (m - 1))))]);;
          if (m - 1 =? 0)%Z then do _ <- o_call self resolvefn VUndef [VObj vals];; ret VUndef else ret VUndef
      | _ => unsupported 988%N
      end
  | _ => unsupported 981%N
  end.

End WithSelf.
