(* Object model operations and type conversions of ECMA-262 (clauses 7 and 10), written against an
   open-recursion record [ops] so that every re-entrant call of the specification (getters, valueOf,
   iterator methods, ...) is an ordinary call of a field of [self].  The knot is tied in Interp.v by a
   fixpoint on fuel. *)
From Coq Require Import ZArith NArith PArith List Bool String Floats.SpecFloat.
From JSRef Require Import Float Syntax Values Static.
Import ListNotations.
Open Scope m_scope.

(* ---- intrinsic object locations (fixed; created by Builtins.init_state) *)
Definition L_ObjectProto : loc := 1%positive.
Definition L_FunctionProto : loc := 2%positive.
Definition L_ArrayProto : loc := 3%positive.
Definition L_ErrorProto : loc := 4%positive.
Definition L_TypeErrorProto : loc := 5%positive.
Definition L_RangeErrorProto : loc := 6%positive.
Definition L_ReferenceErrorProto : loc := 7%positive.
Definition L_SyntaxErrorProto : loc := 8%positive.
Definition L_EvalErrorProto : loc := 9%positive.
Definition L_URIErrorProto : loc := 10%positive.
Definition L_IteratorProto : loc := 11%positive.
Definition L_ArrayIteratorProto : loc := 12%positive.
Definition L_GeneratorProto : loc := 13%positive.
Definition L_StringProto : loc := 14%positive.
Definition L_NumberProto : loc := 15%positive.
Definition L_BooleanProto : loc := 16%positive.
Definition L_SymbolProto : loc := 17%positive.
Definition L_Global : loc := 18%positive.
Definition L_PromiseProto : loc := 19%positive.
Definition L_StringIteratorProto : loc := 20%positive.
Definition L_GeneratorFunctionProto : loc := 21%positive.
Definition L_AsyncFunctionProto : loc := 22%positive.
Definition L_BigIntProto : loc := 23%positive.
Definition L_AsyncGeneratorProto : loc := 24%positive.
Definition L_AsyncGeneratorFunctionProto : loc := 25%positive.
Definition L_Promise : loc := 26%positive.
Definition L_ObjectCtor : loc := 27%positive.
Definition L_ArrayCtor : loc := 28%positive.
Definition L_ThrowTypeError : loc := 29%positive.
Definition FIRST_FREE_LOC : loc := 64%positive.

Definition E_GlobalObj : envref := 1%positive.
Definition E_GlobalDecl : envref := 2%positive.

Definition error_proto (kind : N) : loc :=
  match kind with
  | 1%N => L_TypeErrorProto | 2%N => L_RangeErrorProto | 3%N => L_ReferenceErrorProto
  | 4%N => L_SyntaxErrorProto | 5%N => L_EvalErrorProto | 6%N => L_URIErrorProto
  | _ => L_ErrorProto
  end.
Definition K_Error := 0%N. Definition K_TypeError := 1%N. Definition K_RangeError := 2%N.
Definition K_ReferenceError := 3%N. Definition K_SyntaxError := 4%N.

(* frequently used property names *)
Definition s_length := S "length". Definition s_prototype := S "prototype". Definition s_constructor := S "constructor".
Definition s_name := S "name". Definition s_message := S "message". Definition s_value := S "value".
Definition s_done := S "done". Definition s_next := S "next". Definition s_return := S "return".
Definition s_throw := S "throw". Definition s_toString := S "toString". Definition s_valueOf := S "valueOf".
Definition s_get := S "get". Definition s_set := S "set". Definition s_writable := S "writable".
Definition s_enumerable := S "enumerable". Definition s_configurable := S "configurable".
Definition s_then := S "then". Definition s_undefined := S "undefined". Definition s_null := S "null".
Definition s_true := S "true". Definition s_false := S "false". Definition s_arguments := S "arguments".
Definition s_callee := S "callee". Definition s_empty : str := []. Definition s_default := S "default".
Definition s_number := S "number". Definition s_string := S "string". Definition s_cause := S "cause".

Inductive mres :=
| MDone (c : completion)
| MYield (v : value) (raw : bool) (k : list frame) (c : ctx)
| MAwait (v : value) (k : list frame) (c : ctx).

Inductive bind_mode := BInitLex | BInitVar | BAssign.

Record ops := {
  o_eval : ctx -> expr -> M value;
  o_run : list frame -> completion -> ctx -> M mres;
  o_call : value -> value -> list value -> M value;
  o_construct : value -> list value -> value -> M value;
  o_get : loc -> pkey -> value -> M value;
  o_set : loc -> pkey -> value -> value -> M bool;
  o_toprim : value -> N -> M value;              (* hint: 0 default, 1 number, 2 string *)
  o_bind : ctx -> pat -> value -> bind_mode -> M unit;
}.

(* ---- object creation *)
Definition mk_obj (proto : option loc) (kind : okind) (props : list (pkey * prop)) : object :=
  {| o_proto := proto; o_ext := true; o_props := props; o_kind := kind |}.

Definition new_obj (proto : option loc) (kind : okind) (props : list (pkey * prop)) : M loc :=
  fun st => let '(l, st') := alloc_obj st (mk_obj proto kind props) in ROk l st'.

Definition data (v : value) : prop := PData v true true true.
Definition hidden (v : value) : prop := PData v true false true.

Definition the_obj (l : loc) : M object :=
  fun st => match get_obj st l with Some o => ROk o st | None => RUnsupported 900%N end.
Definition put_obj (l : loc) (o : object) : M unit := fun st => ROk tt (set_obj st l o).

(* error objects thrown by the semantics itself carry no message (messages are implementation-defined) *)
Definition throw_error {A} (kind : N) : M A :=
  do l <- new_obj (Some (error_proto kind)) OError [];;
  throwv (VObj l).
Definition type_error {A} : M A := throw_error K_TypeError.
Definition reference_error {A} : M A := throw_error K_ReferenceError.
Definition range_error {A} : M A := throw_error K_RangeError.

(* ---- [[GetOwnProperty]] / [[GetPrototypeOf]] walk (no proxies in the fragment: pure) *)
Fixpoint lookup_chain (fuel : nat) (st : state) (l : loc) (k : pkey) : option (prop * loc) :=
  match fuel with
  | O => None
  | Datatypes.S f =>
      match get_obj st l with
      | None => None
      | Some o => match get_own o k with
                  | Some p => Some (p, l)
                  | None => match o_proto o with Some p' => lookup_chain f st p' k | None => None end
                  end
      end
  end.
Definition CHAIN_FUEL : nat := 10000.
(* bound of the inner list/iterator/scope-chain loops; a named constant so that the extracted code builds the numeral once *)
Definition LOOP_FUEL : nat := 100000.
Definition LABEL_FUEL : nat := 1000.
Definition has_property (st : state) (l : loc) (k : pkey) : bool :=
  match lookup_chain CHAIN_FUEL st l k with Some _ => true | None => false end.
Definition has_own (st : state) (l : loc) (k : pkey) : bool :=
  match get_obj st l with Some o => match get_own o k with Some _ => true | None => false end | None => false end.

(* ---- array exotic [[DefineOwnProperty]] and ordinary ValidateAndApplyPropertyDescriptor *)
Record pdesc := { d_value : option value; d_get : option value; d_set : option value;
                  d_writable : option bool; d_enumerable : option bool; d_configurable : option bool }.
Definition desc_of_prop (p : prop) : pdesc :=
  match p with
  | PData v w e c => {| d_value := Some v; d_get := None; d_set := None; d_writable := Some w; d_enumerable := Some e; d_configurable := Some c |}
  | PAcc g s e c => {| d_value := None; d_get := Some g; d_set := Some s; d_writable := None; d_enumerable := Some e; d_configurable := Some c |}
  end.
Definition data_desc (v : value) (w e c : bool) : pdesc :=
  {| d_value := Some v; d_get := None; d_set := None; d_writable := Some w; d_enumerable := Some e; d_configurable := Some c |}.
Definition is_accessor_desc (d : pdesc) := match d_get d, d_set d with None, None => false | _, _ => true end.
Definition is_data_desc (d : pdesc) := match d_value d, d_writable d with None, None => false | _, _ => true end.
Definition dflt {A} (o : option A) (d : A) : A := match o with Some a => a | None => d end.

Definition opt_bool_ok (want : option bool) (have : bool) : bool := match want with Some b => Bool.eqb b have | None => true end.
Definition opt_val_same (want : option value) (have : value) : bool := match want with Some v => same_value v have | None => true end.

(* returns the new property, or None when the definition is rejected *)
Definition validate_and_apply (cur : option prop) (ext : bool) (d : pdesc) : option prop :=
  match cur with
  | None =>
      if negb ext then None else
      if is_accessor_desc d then
        Some (PAcc (dflt (d_get d) VUndef) (dflt (d_set d) VUndef) (dflt (d_enumerable d) false) (dflt (d_configurable d) false))
      else Some (PData (dflt (d_value d) VUndef) (dflt (d_writable d) false) (dflt (d_enumerable d) false) (dflt (d_configurable d) false))
  | Some (PData v w e c) =>
      if negb c then
        (* non-configurable *)
        if (match d_configurable d with Some true => true | _ => false end) then None
        else if negb (opt_bool_ok (d_enumerable d) e) then None
        else if is_accessor_desc d then None
        else if negb w then
          (if (match d_writable d with Some true => true | _ => false end) then None
           else if negb (opt_val_same (d_value d) v) then None
           else Some (PData v w e c))
        else Some (PData (dflt (d_value d) v) (dflt (d_writable d) w) e c)
      else
        if is_accessor_desc d then
          Some (PAcc (dflt (d_get d) VUndef) (dflt (d_set d) VUndef) (dflt (d_enumerable d) e) (dflt (d_configurable d) c))
        else Some (PData (dflt (d_value d) v) (dflt (d_writable d) w) (dflt (d_enumerable d) e) (dflt (d_configurable d) c))
  | Some (PAcc g s e c) =>
      if negb c then
        if (match d_configurable d with Some true => true | _ => false end) then None
        else if negb (opt_bool_ok (d_enumerable d) e) then None
        else if is_data_desc d then None
        else if negb (opt_val_same (d_get d) g) then None
        else if negb (opt_val_same (d_set d) s) then None
        else Some (PAcc g s e c)
      else
        if is_data_desc d then
          Some (PData (dflt (d_value d) VUndef) (dflt (d_writable d) false) (dflt (d_enumerable d) e) (dflt (d_configurable d) c))
        else Some (PAcc (dflt (d_get d) g) (dflt (d_set d) s) (dflt (d_enumerable d) e) (dflt (d_configurable d) c))
  end.

Definition ordinary_define (st : state) (l : loc) (k : pkey) (d : pdesc) : bool * state :=
  match get_obj st l with
  | None => (false, st)
  | Some o =>
      match validate_and_apply (find_prop k (o_props o)) (o_ext o) d with
      | None => (false, st)
      | Some p => (true, set_obj st l (with_props o (set_prop k p (o_props o))))
      end
  end.

Definition array_length_of (o : object) : N :=
  match find_prop (KStr s_length) (o_props o) with
  | Some (PData (VNum f) _ _ _) => Z.to_N (trunc_Z f)
  | _ => 0%N
  end.

(* delete array elements from the end while index >= newlen; stops at a non-configurable one *)
Definition array_truncate (ps : list (pkey * prop)) (newlen : N) : list (pkey * prop) * N :=
  (* find the largest non-configurable index >= newlen: the length cannot go below it + 1 *)
  let blocked := fold_left (fun acc kp => match fst kp with
                              | KStr s => match array_index s with
                                          | Some i => if N.leb newlen i then
                                                        match snd kp with
                                                        | PData _ _ _ false | PAcc _ _ _ false => N.max acc (i + 1)
                                                        | _ => acc end
                                                      else acc
                                          | None => acc end
                              | _ => acc end) ps newlen in
  (filter (fun kp => match fst kp with
                     | KStr s => match array_index s with Some i => N.ltb i blocked | None => true end
                     | _ => true end) ps, blocked).

Definition set_length_prop (ps : list (pkey * prop)) (n : N) (w : bool) : list (pkey * prop) :=
  set_prop (KStr s_length) (PData (VNum (of_Z (Z.of_N n))) w false false) ps.

(* ArraySetLength with an already converted numeric length (conversion done by the caller) *)
Definition array_set_length (st : state) (l : loc) (newlen : N) (new_writable : option bool) : bool * state :=
  match get_obj st l with
  | None => (false, st)
  | Some o =>
      match find_prop (KStr s_length) (o_props o) with
      | Some (PData (VNum f) w _ _) =>
          let oldlen := Z.to_N (trunc_Z f) in
          let w' := match new_writable with Some false => false | _ => w end in
          if (match new_writable with Some true => negb w | _ => false end) then (false, st) else
          if N.leb oldlen newlen then
            if negb w && negb (N.eqb newlen oldlen) then (false, st)
            else (true, set_obj st l (with_props o (set_length_prop (o_props o) newlen w')))
          else if negb w then (false, st)
          else
            let '(ps, reached) := array_truncate (o_props o) newlen in
            (N.eqb reached newlen, set_obj st l (with_props o (set_length_prop ps reached (if N.eqb reached newlen then w' else w'))))
      | _ => (false, st)
      end
  end.

Definition define_own (l : loc) (k : pkey) (d : pdesc) : M bool :=
  fun st =>
    match get_obj st l with
    | None => RUnsupported 901%N
    | Some o =>
        match o_kind o, k with
        | OArray, KStr s =>
            match array_index s with
            | Some i =>
                let len := array_length_of o in
                let lenw := match find_prop (KStr s_length) (o_props o) with Some (PData _ w _ _) => w | _ => true end in
                if N.leb len i && negb lenw then ROk false st
                else
                  let '(ok, st1) := ordinary_define st l k d in
                  if negb ok then ROk false st1
                  else if N.leb len i then
                    match get_obj st1 l with
                    | Some o1 => ROk true (set_obj st1 l (with_props o1 (set_length_prop (o_props o1) (i + 1) lenw)))
                    | None => ROk true st1 end
                  else ROk true st1
            | None =>
                if str_eqb s s_length then
                  match d_value d with
                  | None => let '(ok, st1) := ordinary_define st l k d in ROk ok st1
                  | Some (VNum f) =>
                      if is_accessor_desc d then ROk false st else
                      if (match d_configurable d with Some true => true | _ => false end) || (match d_enumerable d with Some true => true | _ => false end)
                      then ROk false st
                      else let '(ok, st1) := array_set_length st l (Z.to_N (trunc_Z f)) (d_writable d) in ROk ok st1
                  | Some _ => RUnsupported 902%N
                  end
                else let '(ok, st1) := ordinary_define st l k d in ROk ok st1
            end
        | OStringObj sv, _ =>
            match string_own sv k with
            | Some p => ROk (match validate_and_apply (Some p) false d with Some _ => true | None => false end) st
            | None => let '(ok, st1) := ordinary_define st l k d in ROk ok st1
            end
        | _, _ => let '(ok, st1) := ordinary_define st l k d in ROk ok st1
        end
    end.

Definition define_or_throw (l : loc) (k : pkey) (d : pdesc) : M unit :=
  do ok <- define_own l k d;; if ok then ret tt else type_error.
Definition create_data_prop (l : loc) (k : pkey) (v : value) : M bool := define_own l k (data_desc v true true true).
Definition create_data_prop_or_throw (l : loc) (k : pkey) (v : value) : M unit :=
  do ok <- create_data_prop l k v;; if ok then ret tt else type_error.
Definition define_method_prop (l : loc) (k : pkey) (v : value) : M unit := define_or_throw l k (data_desc v true false true).

Definition delete_own (l : loc) (k : pkey) : M bool :=
  fun st => match get_obj st l with
            | None => RUnsupported 903%N
            | Some o =>
                match get_own o k with
                | None => ROk true st
                | Some (PData _ _ _ c) | Some (PAcc _ _ _ c) =>
                    if c then ROk true (set_obj st l (with_props o (remove_prop k (o_props o)))) else ROk false st
                end
            end.

(* ---- typeof *)
Definition typeof_val (st : state) (v : value) : str :=
  match v with
  | VUndef => s_undefined | VNull => S "object" | VBool _ => S "boolean" | VNum _ => s_number | VStr _ => s_string
  | VBigInt _ => S "bigint" | VSym _ => S "symbol"
  | VObj _ => if is_callable st v then S "function" else S "object"
  end.

Section WithSelf.
Variable self : ops.

(* ---- [[Get]] / [[Set]] *)
Definition get_step (l : loc) (k : pkey) (receiver : value) : M value :=
  do st <- get_state;;
  match lookup_chain CHAIN_FUEL st l k with
  | None => ret VUndef
  | Some (PData v _ _ _, _) => ret v
  | Some (PAcc g _ _ _, _) => match g with VUndef => ret VUndef | _ => o_call self g receiver [] end
  end.

Definition set_step (l : loc) (k : pkey) (v : value) (receiver : value) : M bool :=
  do st <- get_state;;
  match lookup_chain CHAIN_FUEL st l k with
  | Some (PAcc _ s _ _, _) => match s with VUndef => ret false | _ => do _ <- o_call self s receiver [v];; ret true end
  | Some (PData _ false _ _, _) => ret false
  | found =>
      (* data property (writable) found somewhere on the chain, or nothing found: define on the receiver *)
      match receiver with
      | VObj r =>
          match get_obj st r with
          | None => unsupported 904%N
          | Some ro =>
              match get_own ro k with
              | Some (PAcc _ _ _ _) => ret false
              | Some (PData _ false _ _) => ret false
              | Some (PData _ true _ _) =>
                  define_own r k {| d_value := Some v; d_get := None; d_set := None; d_writable := None; d_enumerable := None; d_configurable := None |}
              | None => create_data_prop r k v
              end
          end
      | _ => ret false
      end
  end.

(* ---- conversions *)
Definition wrapper_proto (v : value) : option (loc * okind) :=
  match v with
  | VBool b => Some (L_BooleanProto, OBooleanObj b)
  | VNum f => Some (L_NumberProto, ONumberObj f)
  | VStr s => Some (L_StringProto, OStringObj s)
  | VSym i => Some (L_SymbolProto, OSymbolObj i)
  | VBigInt z => Some (L_BigIntProto, OBigIntObj z)
  | _ => None
  end.

Definition to_object (v : value) : M loc :=
  match v with
  | VObj l => ret l
  | VUndef | VNull => type_error
  | _ => match wrapper_proto v with Some (p, k) => new_obj (Some p) k [] | None => type_error end
  end.

(* GetV: property of a primitive is looked up on its wrapper prototype without allocating *)
Definition get_v (v : value) (k : pkey) : M value :=
  match v with
  | VObj l => o_get self l k v
  | VUndef | VNull => type_error
  | VStr s => match string_own s k with
              | Some (PData x _ _ _) => ret x
              | _ => o_get self L_StringProto k v end
  | _ => match wrapper_proto v with Some (p, _) => o_get self p k v | None => type_error end
  end.

Definition get_method (v : value) (k : pkey) : M value :=
  do f <- get_v v k;;
  match f with
  | VUndef | VNull => ret VUndef
  | _ => do st <- get_state;; if is_callable st f then ret f else type_error
  end.

Definition toprim_step (v : value) (hint : N) : M value :=
  match v with
  | VObj l =>
      do ex <- get_method v (KSym SYM_TOPRIMITIVE);;
      match ex with
      | VUndef =>
          let order := if N.eqb hint 2 then [s_toString; s_valueOf] else [s_valueOf; s_toString] in
          (fix go (names : list str) : M value :=
             match names with
             | [] => type_error
             | n :: t =>
                 do f <- o_get self l (KStr n) v;;
                 do st <- get_state;;
                 if is_callable st f then
                   do r <- o_call self f v [];;
                   if is_obj r then go t else ret r
                 else go t
             end) order
      | _ =>
          let h := VStr (if N.eqb hint 2 then s_string else if N.eqb hint 1 then s_number else s_default) in
          do r <- o_call self ex v [h];;
          if is_obj r then type_error else ret r
      end
  | _ => ret v
  end.

Definition bigint_to_str (z : Z) : str := (if (z <? 0)%Z then [45%N] else []) ++ digit_units (Z.abs z).

Definition sym_descr_str (st : state) (i : N) : str :=
  let d := match assoc_n i (sym_descr st) with Some (Some s) => s | _ => [] end in
  S "Symbol(" ++ d ++ S ")".

Definition to_string (v : value) : M str :=
  do p <- o_toprim self v 2%N;;
  match p with
  | VUndef => ret s_undefined
  | VNull => ret s_null
  | VBool b => ret (if b then s_true else s_false)
  | VNum f => ret (num_to_units f)
  | VStr s => ret s
  | VBigInt z => ret (bigint_to_str z)
  | VSym _ => type_error
  | VObj _ => type_error
  end.

Definition prim_to_number (p : value) : M float :=
  match p with
  | VUndef => ret fnan
  | VNull => ret fzero
  | VBool b => ret (if b then of_Z 1 else fzero)
  | VNum f => ret f
  | VStr s => ret (string_to_number s)
  | VBigInt _ | VSym _ | VObj _ => type_error
  end.
Definition to_number (v : value) : M float := do p <- o_toprim self v 1%N;; prim_to_number p.

(* ToNumeric: number or bigint *)
Definition to_numeric (v : value) : M value :=
  do p <- o_toprim self v 1%N;;
  match p with
  | VBigInt z => ret (VBigInt z)
  | _ => do f <- prim_to_number p;; ret (VNum f)
  end.

Definition to_property_key (v : value) : M pkey :=
  do p <- o_toprim self v 2%N;;
  match p with
  | VSym i => ret (KSym i)
  | _ => do s <- to_string p;; ret (KStr s)
  end.

Definition key_to_value (k : pkey) : value := match k with KStr s => VStr s | KSym i => VSym i end.

Definition to_length (v : value) : M N :=
  do f <- to_number v;;
  ret (Z.to_N (to_integer_clamped f 0 9007199254740991)).

Definition length_of_array_like (l : loc) : M N :=
  do v <- o_get self l (KStr s_length) (VObj l);; to_length v.

(* ---- property access on arbitrary values *)
Definition get_value_prop (base : value) (k : pkey) : M value := get_v base k.

Definition put_value_prop (base : value) (k : pkey) (v : value) (strict : bool) : M unit :=
  match base with
  | VUndef | VNull => type_error
  | VObj l => do ok <- o_set self l k v base;; if ok || negb strict then ret tt else type_error
  | _ =>
      match wrapper_proto base with
      | Some (p, kd) =>
          (* OrdinarySet on a transient wrapper: setters on the prototype chain run with the primitive as receiver *)
          do st <- get_state;;
          let own := match base with VStr s => string_own s k | _ => None end in
          match own with
          | Some _ => if strict then type_error else ret tt
          | None =>
              match lookup_chain CHAIN_FUEL st p k with
              | Some (PAcc _ s _ _, _) => match s with VUndef => if strict then type_error else ret tt
                                                   | _ => do _ <- o_call self s base [v];; ret tt end
              | _ => if strict then type_error else ret tt
              end
          end
      | None => type_error
      end
  end.

(* ---- iterators *)
Definition create_iter_result (v : value) (done : bool) : M value :=
  do l <- new_obj (Some L_ObjectProto) OOrdinary [(KStr s_value, data v); (KStr s_done, data (VBool done))];;
  ret (VObj l).

Definition get_iterator (v : value) : M (value * value) :=
  do m <- get_method v (KSym SYM_ITERATOR);;
  match m with
  | VUndef => type_error
  | _ =>
      do it <- o_call self m v [];;
      match it with
      | VObj l => do nx <- o_get self l (KStr s_next) it;; ret (it, nx)
      | _ => type_error
      end
  end.

(* IteratorStep: Some value, or None when done *)
Definition iterator_step (it nx : value) : M (option value) :=
  do r <- o_call self nx it [];;
  match r with
  | VObj rl =>
      do d <- o_get self rl (KStr s_done) r;;
      if to_boolean d then ret None
      else do v <- o_get self rl (KStr s_value) r;; ret (Some v)
  | _ => type_error
  end.

(* IteratorClose for a non-throw completion: errors from return() propagate, result must be an object *)
Definition iterator_close_normal (it : value) : M unit :=
  do r <- get_method it (KStr s_return);;
  match r with
  | VUndef => ret tt
  | _ => do x <- o_call self r it [];; if is_obj x then ret tt else type_error
  end.
(* IteratorClose for a throw completion: everything from return() is swallowed *)
Definition iterator_close_throw (it : value) : M unit :=
  fun st =>
    match (do r <- get_method it (KStr s_return);;
           match r with VUndef => ret tt | _ => do _ <- o_call self r it [];; ret tt end) st with
    | ROk _ st' => ROk tt st'
    | RThrow _ st' => ROk tt st'
    | RFuel => RFuel
    | RUnsupported c => RUnsupported c
    end.

(* run m; when it throws, close the iterator (suppressing close errors) and rethrow *)
Definition closing_on_throw {A} (it : value) (m : M A) : M A :=
  catchm m (fun e => do _ <- iterator_close_throw it;; throwv e).

Definition array_from_list (vs : list value) : M value :=
  let props := (fix go (l : list value) (i : N) : list (pkey * prop) :=
                  match l with [] => [] | v :: t => (KStr (n_to_str i), data v) :: go t (i + 1)%N end) vs 0%N in
  do l <- new_obj (Some L_ArrayProto) OArray
            ((KStr s_length, PData (VNum (of_Z (Z.of_nat (List.length vs)))) true false false) :: props);;
  ret (VObj l).

(* drain an iterator into a list (spread, array rest); fuel = recursion through self not needed: bounded by steps *)
Definition iterate_to_list (v : value) : M (list value) :=
  do itnx <- get_iterator v;;
  let '(it, nx) := itnx in
  (fix go (fuel : nat) (acc : list value) : M (list value) :=
     match fuel with
     | O => fun _ => RFuel
     | Datatypes.S f =>
         do s <- iterator_step it nx;;
         match s with None => ret (rev acc) | Some x => go f (x :: acc) end
     end) LOOP_FUEL [].

(* ---- operators *)
Definition is_loosely_nullish (v : value) := match v with VUndef | VNull => true | _ => false end.

(* StringToBigInt (7.1.14): StrWhiteSpace? (SignedInteger | NonDecimalIntegerLiteral) StrWhiteSpace?, empty -> 0n *)
Definition string_to_bigint (s : str) : option Z :=
  let t := trim_ws s in
  match t with
  | [] => Some 0%Z
  | 45%N :: rest => option_map Z.opp (parse_radix 10 rest 0 false)
  | 43%N :: rest => parse_radix 10 rest 0 false
  | 48%N :: x :: rest =>
      if ((x =? 120) || (x =? 88))%N then parse_radix 16 rest 0 false
      else if ((x =? 111) || (x =? 79))%N then parse_radix 8 rest 0 false
      else if ((x =? 98) || (x =? 66))%N then parse_radix 2 rest 0 false
      else parse_radix 10 t 0 false
  | _ => parse_radix 10 t 0 false
  end.

Definition bigint_eq_num (z : Z) (f : float) : bool :=
  is_finite f && is_integer f && Z.eqb (trunc_Z f) z.

(* IsLooselyEqual *)
Definition loose_equals_step : nat -> value -> value -> M bool :=
  fix go (fuel : nat) (a b : value) : M bool :=
    match fuel with O => ret false | Datatypes.S f =>
    match a, b with
    | VUndef, VUndef | VNull, VNull | VUndef, VNull | VNull, VUndef => ret true
    | VNum _, VNum _ | VStr _, VStr _ | VBool _, VBool _ | VBigInt _, VBigInt _ | VSym _, VSym _ | VObj _, VObj _ => ret (strict_equals a b)
    | VNum x, VStr s => ret (feqb x (string_to_number s))
    | VStr s, VNum y => ret (feqb (string_to_number s) y)
    | VBigInt z, VStr s => ret (match string_to_bigint s with Some w => Z.eqb z w | None => false end)
    | VStr s, VBigInt z => ret (match string_to_bigint s with Some w => Z.eqb z w | None => false end)
    | VBool x, _ => go f (VNum (if x then of_Z 1 else fzero)) b
    | _, VBool y => go f a (VNum (if y then of_Z 1 else fzero))
    | VObj _, (VNum _ | VStr _ | VBigInt _ | VSym _) => do p <- o_toprim self a 0%N;; go f p b
    | (VNum _ | VStr _ | VBigInt _ | VSym _), VObj _ => do p <- o_toprim self b 0%N;; go f a p
    | VBigInt z, VNum y => ret (bigint_eq_num z y)
    | VNum x, VBigInt z => ret (bigint_eq_num z x)
    | _, _ => ret false
    end end.
Definition loose_equals (a b : value) : M bool := loose_equals_step 8%nat a b.

(* compare a bigint with a number: Lt / Eq / Gt / None (NaN) *)
Definition cmp_bigint_num (z : Z) (f : float) : option comparison :=
  match f with
  | S754_nan => None
  | S754_infinity s => Some (if s then Gt else Lt)
  | _ => let fl := floor_Z f in
         Some (if (z <? fl)%Z then Lt else if (fl <? z)%Z then Gt else if is_integer f then Eq else Lt)
  end.

(* IsLessThan on primitives: Some true / Some false / None (undefined) *)
Definition prim_less_than (px py : value) : M (option bool) :=
  match px, py with
  | VStr a, VStr b => ret (Some (str_ltb a b))
  | VBigInt a, VStr b => ret (match string_to_bigint b with Some w => Some (a <? w)%Z | None => None end)
  | VStr a, VBigInt b => ret (match string_to_bigint a with Some w => Some (w <? b)%Z | None => None end)
  | _, _ =>
      do nx <- (match px with VBigInt z => ret (VBigInt z) | _ => do f <- prim_to_number px;; ret (VNum f) end);;
      do ny <- (match py with VBigInt z => ret (VBigInt z) | _ => do f <- prim_to_number py;; ret (VNum f) end);;
      match nx, ny with
      | VNum a, VNum b => ret (match fcompare a b with Some Lt => Some true | Some _ => Some false | None => None end)
      | VBigInt a, VBigInt b => ret (Some (a <? b)%Z)
      | VBigInt a, VNum b => ret (match cmp_bigint_num a b with Some Lt => Some true | Some _ => Some false | None => None end)
      | VNum a, VBigInt b => ret (match cmp_bigint_num b a with Some Gt => Some true | Some _ => Some false | None => None end)
      | _, _ => ret None
      end
  end.

Definition two32 : Z := 4294967296.
Definition wrap_i32 (z : Z) : Z := let r := (z mod two32)%Z in if (r <? 2147483648)%Z then r else (r - two32)%Z.

Definition num_binop (op : binop) (a b : float) : M value :=
  match op with
  | BSub => ret (VNum (fsub a b))
  | BMul => ret (VNum (fmul a b))
  | BDiv => ret (VNum (fdiv a b))
  | BMod => ret (VNum (frem a b))
  | BAdd => ret (VNum (fadd a b))
  | BBitAnd => ret (VNum (of_Z (wrap_i32 (Z.land (to_int32 a) (to_int32 b)))))
  | BBitOr => ret (VNum (of_Z (wrap_i32 (Z.lor (to_int32 a) (to_int32 b)))))
  | BBitXor => ret (VNum (of_Z (wrap_i32 (Z.lxor (to_int32 a) (to_int32 b)))))
  | BShl => ret (VNum (of_Z (wrap_i32 (Z.shiftl (to_int32 a) ((to_uint32 b) mod 32)))))
  | BShr => ret (VNum (of_Z (Z.shiftr (to_int32 a) ((to_uint32 b) mod 32))))
  | BUShr => ret (VNum (of_Z (Z.shiftr (to_uint32 a) ((to_uint32 b) mod 32))))
  | BExp =>
      (* only the exactly specified cases; anything implementation-approximated is outside the fragment *)
      if is_nan b then ret (VNum fnan)
      else if is_zero b then ret (VNum (of_Z 1))
      else if is_integer b && is_integer a && is_finite a && is_finite b && (0 <? trunc_Z b)%Z && (trunc_Z b <=? 64)%Z
              && (Z.abs (trunc_Z a) <=? 1024)%Z then
        let r := Z.pow (trunc_Z a) (trunc_Z b) in
        if (Z.abs r <=? 9007199254740992)%Z then
          ret (VNum (if is_zero a && sign_of a && Z.odd (trunc_Z b) then fnzero else of_Z r))
        else unsupported 910%N
      else unsupported 910%N
  | _ => unsupported 911%N
  end.

Definition bigint_binop (op : binop) (a b : Z) : M value :=
  match op with
  | BAdd => ret (VBigInt (a + b))
  | BSub => ret (VBigInt (a - b))
  | BMul => ret (VBigInt (a * b))
  | BDiv => if (b =? 0)%Z then range_error else ret (VBigInt (Z.quot a b))
  | BMod => if (b =? 0)%Z then range_error else ret (VBigInt (Z.rem a b))
  | BExp => if (b <? 0)%Z then range_error else if (b <? 1000)%Z then ret (VBigInt (Z.pow a b)) else unsupported 912%N
  | BBitAnd => ret (VBigInt (Z.land a b))
  | BBitOr => ret (VBigInt (Z.lor a b))
  | BBitXor => ret (VBigInt (Z.lxor a b))
  | BShl => if (Z.abs b <? 4096)%Z then ret (VBigInt (Z.shiftl a b)) else unsupported 912%N
  | BShr => if (Z.abs b <? 4096)%Z then ret (VBigInt (Z.shiftr a b)) else unsupported 912%N
  | BUShr => type_error
  | _ => unsupported 911%N
  end.

Definition instance_of (v target : value) : M bool :=
  match target with
  | VObj tl =>
      do h <- get_method target (KSym SYM_HASINSTANCE);;
      match h with
      | VUndef =>
          do st <- get_state;;
          if negb (is_callable st target) then type_error else ret false   (* unreachable: Function.prototype has @@hasInstance *)
      | _ => do r <- o_call self h target [v];; ret (to_boolean r)
      end
  | _ => type_error
  end.

(* OrdinaryHasInstance *)
Definition ordinary_has_instance (c v : value) : M bool :=
  do st <- get_state;;
  if negb (is_callable st c) then ret false else
  match c with
  | VObj cl =>
      match get_obj st cl with
      | Some {| o_kind := OBound t _ _ |} => instance_of v (VObj t)
      | _ =>
          match v with
          | VObj vl =>
              do p <- o_get self cl (KStr s_prototype) c;;
              match p with
              | VObj pl =>
                  do st2 <- get_state;;
                  ret ((fix walk (fuel : nat) (o : loc) : bool :=
                          match fuel with O => false | Datatypes.S f =>
                            match get_obj st2 o with
                            | Some ob => match o_proto ob with
                                         | Some q => if Pos.eqb q pl then true else walk f q
                                         | None => false end
                            | None => false end end) CHAIN_FUEL vl)
              | _ => type_error
              end
          | _ => ret false
          end
      end
  | _ => ret false
  end.

Definition binary_op (op : binop) (a b : value) : M value :=
  match op with
  | BSEq => ret (VBool (strict_equals a b))
  | BSNe => ret (VBool (negb (strict_equals a b)))
  | BEq => do r <- loose_equals a b;; ret (VBool r)
  | BNe => do r <- loose_equals a b;; ret (VBool (negb r))
  | BLt => do pa <- o_toprim self a 1%N;; do pb <- o_toprim self b 1%N;;
           do r <- prim_less_than pa pb;; ret (VBool (match r with Some true => true | _ => false end))
  | BGt => do pa <- o_toprim self a 1%N;; do pb <- o_toprim self b 1%N;;
           do r <- prim_less_than pb pa;; ret (VBool (match r with Some true => true | _ => false end))
  | BLe => do pa <- o_toprim self a 1%N;; do pb <- o_toprim self b 1%N;;
           do r <- prim_less_than pb pa;; ret (VBool (match r with Some false => true | _ => false end))
  | BGe => do pa <- o_toprim self a 1%N;; do pb <- o_toprim self b 1%N;;
           do r <- prim_less_than pa pb;; ret (VBool (match r with Some false => true | _ => false end))
  | BIn =>
      match b with
      | VObj l => do k <- to_property_key a;; do st <- get_state;; ret (VBool (has_property st l k))
      | _ => type_error
      end
  | BInstanceof => do r <- instance_of a b;; ret (VBool r)
  | BAdd =>
      do pa <- o_toprim self a 0%N;; do pb <- o_toprim self b 0%N;;
      match pa, pb with
      | VStr _, _ | _, VStr _ => do sa <- to_string pa;; do sb <- to_string pb;; ret (VStr (sa ++ sb))
      | _, _ =>
          do na <- to_numeric pa;; do nb <- to_numeric pb;;
          match na, nb with
          | VNum x, VNum y => num_binop BAdd x y
          | VBigInt x, VBigInt y => bigint_binop BAdd x y
          | _, _ => type_error
          end
      end
  | _ =>
      do na <- to_numeric a;; do nb <- to_numeric b;;
      match na, nb with
      | VNum x, VNum y => num_binop op x y
      | VBigInt x, VBigInt y => bigint_binop op x y
      | _, _ => type_error
      end
  end.

Definition unary_op (op : unop) (v : value) : M value :=
  match op with
  | UNot => ret (VBool (negb (to_boolean v)))
  | UVoid => ret VUndef
  | UTypeof => do st <- get_state;; ret (VStr (typeof_val st v))
  | UPos => do f <- to_number v;; ret (VNum f)
  | UNeg => do n <- to_numeric v;; match n with VBigInt z => ret (VBigInt (- z)) | VNum f => ret (VNum (fneg f)) | _ => type_error end
  | UBitNot => do n <- to_numeric v;;
               match n with VBigInt z => ret (VBigInt (- z - 1)) | VNum f => ret (VNum (of_Z (wrap_i32 (Z.lnot (to_int32 f))))) | _ => type_error end
  end.

(* ---- environment records *)
Definition the_env (r : envref) : M env :=
  fun st => match get_env st r with Some e => ROk e st | None => RUnsupported 920%N end.

Fixpoint find_binding (x : str) (bs : list (str * binding)) : option binding :=
  match bs with [] => None | (y, b) :: t => if str_eqb x y then Some b else find_binding x t end.
Fixpoint set_binding (x : str) (b : binding) (bs : list (str * binding)) : list (str * binding) :=
  match bs with [] => [(x, b)] | (y, b') :: t => if str_eqb x y then (y, b) :: t else (y, b') :: set_binding x b t end.

Definition with_rec (e : env) (r : env_rec) : env :=
  {| e_rec := r; e_outer := e_outer e; e_this := e_this e; e_fobj := e_fobj e; e_newtarget := e_newtarget e |}.
Definition with_this (e : env) (t : this_state) : env :=
  {| e_rec := e_rec e; e_outer := e_outer e; e_this := t; e_fobj := e_fobj e; e_newtarget := e_newtarget e |}.

Definition new_decl_env (outer : envref) : M envref :=
  fun st => let '(r, st') := alloc_env st {| e_rec := EDecl []; e_outer := Some outer; e_this := TNone; e_fobj := None; e_newtarget := VUndef |} in ROk r st'.

Definition create_binding (r : envref) (x : str) (b : binding) : M unit :=
  do e <- the_env r;;
  match e_rec e with
  | EDecl bs => match find_binding x bs with
                | Some _ => ret tt
                | None => fun st => ROk tt (set_env st r (with_rec e (EDecl (bs ++ [(x, b)])))) end
  | EObj _ _ => unsupported 921%N
  end.
Definition mutable_uninit : binding := {| b_val := None; b_mut := true; b_strict := false; b_deletable := false |}.
Definition const_uninit : binding := {| b_val := None; b_mut := false; b_strict := true; b_deletable := false |}.
Definition mutable_init (v : value) : binding := {| b_val := Some v; b_mut := true; b_strict := false; b_deletable := false |}.

Definition initialize_binding (r : envref) (x : str) (v : value) : M unit :=
  do e <- the_env r;;
  match e_rec e with
  | EDecl bs =>
      match find_binding x bs with
      | Some b => fun st => ROk tt (set_env st r (with_rec e (EDecl (set_binding x {| b_val := Some v; b_mut := b_mut b; b_strict := b_strict b; b_deletable := b_deletable b |} bs))))
      | None => fun st => ROk tt (set_env st r (with_rec e (EDecl (bs ++ [(x, mutable_init v)]))))
      end
  | EObj o _ => do _ <- o_set self o (KStr x) v (VObj o);; ret tt
  end.

Inductive resolved := RBEnv (r : envref) | RBUnresolvable.

Definition has_binding (r : envref) (x : str) : M bool :=
  do e <- the_env r;;
  match e_rec e with
  | EDecl bs => ret (match find_binding x bs with Some _ => true | None => false end)
  | EObj o is_with =>
      do st <- get_state;;
      if negb (has_property st o (KStr x)) then ret false
      else if negb is_with then ret true
      else
        do un <- o_get self o (KSym SYM_UNSCOPABLES) (VObj o);;
        match un with
        | VObj ul => do blocked <- o_get self ul (KStr x) un;; ret (negb (to_boolean blocked))
        | _ => ret true
        end
  end.

Definition resolve_binding (c : ctx) (x : str) : M resolved :=
  (fix go (fuel : nat) (r : envref) : M resolved :=
     match fuel with O => unsupported 922%N | Datatypes.S f =>
       do h <- has_binding r x;;
       if h then ret (RBEnv r)
       else do e <- the_env r;; match e_outer e with Some o => go f o | None => ret RBUnresolvable end
     end) LOOP_FUEL (c_lex c).

Definition get_binding_value (r : envref) (x : str) (strict : bool) : M value :=
  do e <- the_env r;;
  match e_rec e with
  | EDecl bs => match find_binding x bs with
                | Some {| b_val := Some v |} => ret v
                | Some _ => reference_error
                | None => reference_error end
  | EObj o _ =>
      do st <- get_state;;
      if has_property st o (KStr x) then o_get self o (KStr x) (VObj o)
      else if strict then reference_error else ret VUndef
  end.

Definition set_mutable_binding (r : envref) (x : str) (v : value) (strict : bool) : M unit :=
  do e <- the_env r;;
  match e_rec e with
  | EDecl bs =>
      match find_binding x bs with
      | Some b =>
          match b_val b with
          | None => reference_error
          | Some _ =>
              if b_mut b then fun st => ROk tt (set_env st r (with_rec e (EDecl (set_binding x {| b_val := Some v; b_mut := true; b_strict := b_strict b; b_deletable := b_deletable b |} bs))))
              else if b_strict b || strict then type_error else ret tt
          end
      | None => if strict then reference_error else ret tt
      end
  | EObj o _ =>
      do st <- get_state;;
      if negb (has_property st o (KStr x)) && strict then reference_error
      else do ok <- o_set self o (KStr x) v (VObj o);; if ok || negb strict then ret tt else type_error
  end.

Definition get_identifier (c : ctx) (x : str) : M value :=
  do r <- resolve_binding c x;;
  match r with
  | RBEnv e => get_binding_value e x (c_strict c)
  | RBUnresolvable => reference_error
  end.

Definition put_resolved (c : ctx) (r : resolved) (x : str) (v : value) : M unit :=
  match r with
  | RBEnv e => set_mutable_binding e x v (c_strict c)
  | RBUnresolvable =>
      if c_strict c then reference_error
      else do _ <- o_set self L_Global (KStr x) v (VObj L_Global);; ret tt
  end.

(* the environment that provides `this` *)
Definition this_env (c : ctx) : M (envref * env) :=
  (fix go (fuel : nat) (r : envref) : M (envref * env) :=
     match fuel with O => unsupported 923%N | Datatypes.S f =>
       do e <- the_env r;;
       match e_this e with
       | TNone => match e_outer e with Some o => go f o | None => unsupported 924%N end
       | _ => ret (r, e)
       end
     end) LOOP_FUEL (c_lex c).

Definition resolve_this (c : ctx) : M value :=
  do re <- this_env c;;
  match e_this (snd re) with
  | TInit v => ret v
  | _ => reference_error
  end.

End WithSelf.
