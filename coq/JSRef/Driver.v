(* Entry point used by the extracted driver: decode a program, run it, render the outcome in the
   same canonical form as the harness (`harness/src/bin/js.rs`). *)
From Coq Require Import ZArith NArith PArith List Bool String.
From JSRef Require Import Float Syntax Values Static Ops Interp Machine Builtins Run Wire.
Import ListNotations.

Definition error_class_of (st : state) (l : loc) : option str :=
  (fix walk (fuel : nat) (q : loc) : option str :=
     match fuel with O => None | Datatypes.S f =>
       if Pos.eqb q L_TypeErrorProto then Some (S "TypeError")
       else if Pos.eqb q L_RangeErrorProto then Some (S "RangeError")
       else if Pos.eqb q L_ReferenceErrorProto then Some (S "ReferenceError")
       else if Pos.eqb q L_SyntaxErrorProto then Some (S "SyntaxError")
       else if Pos.eqb q L_EvalErrorProto then Some (S "EvalError")
       else if Pos.eqb q L_URIErrorProto then Some (S "URIError")
       else if Pos.eqb q L_ErrorProto then Some (S "Error")
       else match get_obj st q with
            | Some o => match o_proto o with Some p => walk f p | None => None end
            | None => None end
     end) LABEL_FUEL l.

Definition quote (s : str) : str := [34%N] ++ s ++ [34%N].   (* the OCaml side escapes; this only brackets *)

(* type tag and display text of a completion value; strings are returned raw in a separate field *)
Definition value_text (st : state) (v : value) : str * option str :=
  match v with
  | VUndef => (S "undefined", Some (S "undefined"))
  | VNull => (S "object", Some (S "null"))
  | VBool b => (S "boolean", Some (if b then S "true" else S "false"))
  | VNum f => (S "number", Some (num_to_units f))
  | VStr s => (S "string", Some s)
  | VBigInt z => (S "bigint", Some (bigint_to_str z))
  | VSym i => (S "symbol", Some (sym_descr_str st i))
  | VObj l => (if is_callable st v then S "function" else S "object", None)
  end.

Inductive rendered :=
| RValue (trace : list str) (ty : str) (text : option str)
| RErrorClass (trace : list str) (cls : str)
| RThrownPrim (trace : list str) (ty : str) (text : option str)
| RThrownObject (trace : list str)
| REarlyError
| RFuelOut
| RUnsup (code : N)
| RBadInput.

Definition render (o : outcome) : rendered :=
  match o with
  | OValue v st => let '(ty, tx) := value_text st v in RValue (rev (out st)) ty tx
  | OThrow v st =>
      match v with
      | VObj l =>
          match get_obj st l with
          | Some {| o_kind := OError |} =>
              match error_class_of st l with Some c => RErrorClass (rev (out st)) c | None => RThrownObject (rev (out st)) end
          | _ => RThrownObject (rev (out st))
          end
      | _ => let '(ty, tx) := value_text st v in RThrownPrim (rev (out st)) ty tx
      end
  | OFuel => RFuelOut
  | OUnsupported c => RUnsup c
  | OInitFailed => RUnsup 999%N
  end.

Definition run_sexp (fuel : nat) (s : sexp) : rendered :=
  match d_prog LOOP_FUEL s with
  | Some P => if early_errors P then REarlyError else render (run fuel P)
  | None => RBadInput
  end.
