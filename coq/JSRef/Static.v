(* Static semantics used by the interpreter: bound names, var/lexical declaration collection. *)
From Coq Require Import ZArith NArith List Bool String Ascii.
From JSRef Require Import Float Syntax Values.
Import ListNotations.

(* ASCII Coq strings to code-unit lists (names of built-in properties) *)
Definition S (s : string) : str := map (fun a => N_of_ascii a) (list_ascii_of_string s).

Fixpoint pat_names (p : pat) : list str :=
  match p with
  | PId x => [x]
  | PExpr _ => []
  | PObj props rest =>
      (fix go (l : list (propkey * pat * option expr)) : list str :=
         match l with [] => [] | (_, q, _) :: t => pat_names q ++ go t end) props ++
      match rest with Some r => pat_names r | None => [] end
  | PArr elems rest =>
      (fix go (l : list (option (pat * option expr))) : list str :=
         match l with [] => [] | Some (q, _) :: t => pat_names q ++ go t | None :: t => go t end) elems ++
      match rest with Some r => pat_names r | None => [] end
  end.

Definition decls_names (ds : list (pat * option expr)) : list str := flat_map (fun d => pat_names (fst d)) ds.

Definition head_var_names (h : for_head) : list str :=
  match h with FHDecl KVar p => pat_names p | _ => [] end.

(* VarDeclaredNames of a statement list (not descending into functions) *)
Fixpoint var_names_stmt (s : stmt) : list str :=
  match s with
  | SDecl KVar ds => decls_names ds
  | SBlock b => flat_map var_names_stmt b
  | SIf _ t f => var_names_stmt t ++ match f with Some f' => var_names_stmt f' | None => [] end
  | SFor init _ _ b => (match init with FIDecl KVar ds => decls_names ds | _ => [] end) ++ var_names_stmt b
  | SForIn h _ b | SForOf h _ b => head_var_names h ++ var_names_stmt b
  | SWhile _ b | SDoWhile b _ | SLabel _ b | SWith _ b => var_names_stmt b
  | SSwitch _ cases => flat_map (fun c => flat_map var_names_stmt (snd c)) cases
  | STry b h f => flat_map var_names_stmt b ++
                  (match h with Some (_, hb) => flat_map var_names_stmt hb | None => [] end) ++
                  (match f with Some fb => flat_map var_names_stmt fb | None => [] end)
  | SYield (Some p) (Some KVar) _ _ | SAwait (Some p) (Some KVar) _ => pat_names p
  | _ => []
  end.
Definition var_names (b : list stmt) : list str := flat_map var_names_stmt b.

(* function declarations directly in a statement list (through labels) *)
Fixpoint fun_decl_of (s : stmt) : list (str * nat) :=
  match s with
  | SFunDecl x i => [(x, i)]
  | SLabel _ s' => fun_decl_of s'
  | _ => []
  end.
Definition fun_decls (b : list stmt) : list (str * nat) := flat_map fun_decl_of b.

(* lexically scoped declarations of a block: (name, is_const) for let/const/class *)
Definition lex_decl_of (s : stmt) : list (str * bool) :=
  match s with
  | SDecl KLet ds => map (fun x => (x, false)) (decls_names ds)
  | SDecl KConst ds => map (fun x => (x, true)) (decls_names ds)
  | SClassDecl x _ => [(x, false)]
  | SYield (Some p) (Some KLet) _ _ | SAwait (Some p) (Some KLet) _ => map (fun x => (x, false)) (pat_names p)
  | SYield (Some p) (Some KConst) _ _ | SAwait (Some p) (Some KConst) _ => map (fun x => (x, true)) (pat_names p)
  | _ => []
  end.
Definition lex_decls (b : list stmt) : list (str * bool) := flat_map lex_decl_of b.

Fixpoint mem_str (x : str) (l : list str) : bool :=
  match l with [] => false | y :: t => str_eqb x y || mem_str x t end.
Fixpoint dedup (l : list str) (seen : list str) : list str :=
  match l with
  | [] => []
  | x :: t => if mem_str x seen then dedup t seen else x :: dedup t (x :: seen)
  end.

(* expected argument count: parameters before the first one with a default *)
Fixpoint expected_args (ps : list (pat * option expr)) : nat :=
  match ps with
  | (_, None) :: t => Datatypes.S (expected_args t)
  | _ => O
  end.

Fixpoint pat_has_expr (p : pat) : bool :=
  match p with
  | PId _ => false
  | PExpr _ => true
  | PObj props rest =>
      (fix go (l : list (propkey * pat * option expr)) : bool :=
         match l with
         | [] => false
         | (k, q, d) :: t => (match k with PKComputed _ => true | _ => false end) || (match d with Some _ => true | None => false end)
                              || pat_has_expr q || go t
         end) props || match rest with Some r => pat_has_expr r | None => false end
  | PArr elems rest =>
      (fix go (l : list (option (pat * option expr))) : bool :=
         match l with
         | [] => false
         | Some (q, d) :: t => (match d with Some _ => true | None => false end) || pat_has_expr q || go t
         | None :: t => go t
         end) elems || match rest with Some r => pat_has_expr r | None => false end
  end.

Definition has_param_exprs (f : func) : bool :=
  existsb (fun pd => (match snd pd with Some _ => true | None => false end) || pat_has_expr (fst pd)) (f_params f) ||
  match f_rest f with Some r => pat_has_expr r | None => false end.

Definition simple_params (f : func) : bool :=
  forallb (fun pd => match pd with (PId _, None) => true | _ => false end) (f_params f) &&
  match f_rest f with None => true | Some _ => false end.

Definition param_names (f : func) : list str :=
  flat_map (fun pd => pat_names (fst pd)) (f_params f) ++ match f_rest f with Some r => pat_names r | None => [] end.

Definition is_arrow (k : fkind) : bool := match k with FArrow | FAsyncArrow => true | _ => false end.
Definition is_generator_kind (k : fkind) : bool := match k with FGenerator | FAsyncGenerator => true | _ => false end.
Definition is_async_kind (k : fkind) : bool := match k with FAsync | FAsyncArrow | FAsyncGenerator => true | _ => false end.
Definition is_constructor_kind (k : fkind) : bool := match k with FNormal | FCtorBase | FCtorDerived => true | _ => false end.

(* ---- early errors (ECMA-262 static semantics: 8.3 Labels, 14.2.1, 14.7.4.1, 14.12.1, 14.15.1, 15.1.1, 15.2.1, 16.1.1) for the fragment.
   Function bodies are checked through the program's function table, so expressions need not be traversed. *)
Fixpoint has_dup (l : list str) : bool :=
  match l with [] => false | x :: t => mem_str x t || has_dup t end.
Definition inter_nonempty (a b : list str) : bool := existsb (fun x => mem_str x b) a.

(* LexicallyDeclaredNames of a statement list in block position (function declarations are lexical there) and at the
   top level of a function / script (function declarations are var-like there) *)
Definition block_lex_names (b : list stmt) : list str := map fst (lex_decls b) ++ map fst (fun_decls b).
Definition top_lex_names (b : list stmt) : list str := map fst (lex_decls b).
Definition top_var_names (b : list stmt) : list str := var_names b ++ map fst (fun_decls b).
Definition block_early (b : list stmt) : bool :=
  has_dup (block_lex_names b) || inter_nonempty (block_lex_names b) (var_names b).

Definition head_lex_names (h : for_head) : list str :=
  match h with FHDecl KVar _ => [] | FHDecl _ p => pat_names p | FHPat _ => [] end.

(* ls: enclosing labels; its: labels of enclosing iteration statements; pend: labels directly prefixing this statement;
   in_iter / in_brk: inside an iteration statement / inside an iteration statement or a switch *)
Fixpoint stmt_early (ls its pend : list str) (in_iter in_brk : bool) (s : stmt) {struct s} : bool :=
  let any := fun (ls its : list str) (in_iter in_brk : bool) =>
               fix any (l : list stmt) : bool :=
                 match l with [] => false | x :: t => stmt_early ls its [] in_iter in_brk x || any t end in
  match s with
  | SLabel l s' => mem_str l ls || stmt_early (l :: ls) its (l :: pend) in_iter in_brk s'
  | SBreak None => negb in_brk
  | SBreak (Some l) => negb (mem_str l ls)
  | SContinue None => negb in_iter
  | SContinue (Some l) => negb (mem_str l its)
  | SBlock b => block_early b || any ls its in_iter in_brk b
  | SIf _ t f => stmt_early ls its [] in_iter in_brk t ||
                 match f with Some f' => stmt_early ls its [] in_iter in_brk f' | None => false end
  | SFor init _ _ b =>
      (match init with
       | FIDecl (KLet | KConst) ds => has_dup (decls_names ds) || inter_nonempty (decls_names ds) (var_names_stmt b)
       | _ => false end)
      || stmt_early ls (pend ++ its) [] true true b
  | SForIn h _ b | SForOf h _ b =>
      has_dup (head_lex_names h) || inter_nonempty (head_lex_names h) (var_names_stmt b)
      || stmt_early ls (pend ++ its) [] true true b
  | SWhile _ b | SDoWhile b _ => stmt_early ls (pend ++ its) [] true true b
  | SWith _ b => stmt_early ls its [] in_iter in_brk b
  | SSwitch _ cases =>
      block_early (flat_map snd cases) ||
      (fix cs (l : list (option expr * list stmt)) : bool :=
         match l with [] => false | c :: t => any ls its in_iter true (snd c) || cs t end) cases
  | STry b h f =>
      block_early b || any ls its in_iter in_brk b ||
      (match h with
       | Some (param, hb) =>
           (match param with
            | Some p => has_dup (pat_names p) || inter_nonempty (pat_names p) (block_lex_names hb)
            | None => false end)
           || block_early hb || any ls its in_iter in_brk hb
       | None => false end) ||
      (match f with Some fb => block_early fb || any ls its in_iter in_brk fb | None => false end)
  | _ => false
  end.

Definition body_early (params : list str) (body : list stmt) : bool :=
  has_dup (top_lex_names body) || inter_nonempty (top_lex_names body) (top_var_names body)
  || inter_nonempty (top_lex_names body) params
  || existsb (stmt_early [] [] [] false false) body.

Definition unique_params_required (f : func) : bool :=
  f_strict f || negb (simple_params f) ||
  match f_kind f with FNormal | FGenerator | FAsync | FAsyncGenerator => false | _ => true end.

Definition func_early (f : func) : bool :=
  body_early (param_names f) (f_body f) || (unique_params_required f && has_dup (param_names f)).

Definition early_errors (P : prog) : bool :=
  body_early [] (p_body P) || existsb func_early (p_funcs P).
