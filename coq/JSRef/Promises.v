(* Promise objects, reactions and the job queue (ECMA-262 27.2), on the promise / job fields of the JSRef state.
   Everything re-entrant goes through [self]; jobs are run by Interp.run_jobs after the script (FIFO). *)
From Coq Require Import ZArith NArith PArith List Bool String Floats.SpecFloat.
From JSRef Require Import Float Syntax Values Static Ops.
Import ListNotations.
Open Scope m_scope.

Definition pid_val (p : N) : value := VNum (of_Z (Z.of_N p)).
Definition val_pid (v : value) : N := match v with VNum f => Z.to_N (trunc_Z f) | _ => 0%N end.

Definition the_promise (pid : N) : M promise :=
  fun st => match assoc_n pid (promises st) with Some p => ROk p st | None => RUnsupported 985%N end.
Definition put_promise (pid : N) (p : promise) : M unit :=
  fun st => ROk tt (with_promises st (assoc_set_n pid p (promises st)) (next_promise st)).
Definition enqueue_job (j : job) : M unit := fun st => ROk tt (with_jobs st (jobs st ++ [j])).

(* a new pending promise object with the given prototype: (promise id, object) *)
Definition new_promise (proto : loc) : M (N * loc) :=
  fun st =>
    let pid := next_promise st in
    let '(l, st1) := alloc_obj st (mk_obj (Some proto) (OPromise pid) []) in
    ROk (pid, l) (with_promises st1 ((pid, {| p_state := PPending; p_fulfill := []; p_reject := []; p_handled := false; p_obj := l |})
                                     :: promises st1) (pid + 1)%N).

Definition promise_of_value (st : state) (v : value) : option N :=
  match v with
  | VObj l => match get_obj st l with Some o => match o_kind o with OPromise pid => Some pid | _ => None end | None => None end
  | _ => None
  end.

Fixpoint trigger_reactions (rs : list reaction) (arg : value) : M unit :=
  match rs with
  | [] => ret tt
  | r :: t => do _ <- enqueue_job (JReaction r arg);; trigger_reactions t arg
  end.

(* FulfillPromise / RejectPromise; a settled promise is left alone *)
Definition fulfill_promise (pid : N) (v : value) : M unit :=
  do p <- the_promise pid;;
  match p_state p with
  | PPending =>
      do _ <- put_promise pid {| p_state := PFulfilled v; p_fulfill := []; p_reject := []; p_handled := p_handled p; p_obj := p_obj p |};;
      trigger_reactions (p_fulfill p) v
  | _ => ret tt
  end.
Definition reject_promise (pid : N) (v : value) : M unit :=
  do p <- the_promise pid;;
  match p_state p with
  | PPending =>
      do _ <- put_promise pid {| p_state := PRejected v; p_fulfill := []; p_reject := []; p_handled := p_handled p; p_obj := p_obj p |};;
      trigger_reactions (p_reject p) v
  | _ => ret tt
  end.

(* PerformPromiseThen with ready-made reactions *)
Definition perform_then (pid : N) (on_fulfill on_reject : reaction) : M unit :=
  do p <- the_promise pid;;
  match p_state p with
  | PPending =>
      put_promise pid {| p_state := PPending; p_fulfill := p_fulfill p ++ [on_fulfill]; p_reject := p_reject p ++ [on_reject];
                         p_handled := true; p_obj := p_obj p |}
  | PFulfilled v =>
      do _ <- enqueue_job (JReaction on_fulfill v);;
      put_promise pid {| p_state := p_state p; p_fulfill := []; p_reject := []; p_handled := true; p_obj := p_obj p |}
  | PRejected v =>
      do _ <- enqueue_job (JReaction on_reject v);;
      put_promise pid {| p_state := p_state p; p_fulfill := []; p_reject := []; p_handled := true; p_obj := p_obj p |}
  end.

Definition callable_or_undef (st : state) (v : value) : value := if is_callable st v then v else VUndef.

(* shared "already resolved" flag of a pair of resolving functions: an internal object with one property *)
Definition s_flag := S "r".
Definition new_flag : M loc := new_obj None OOrdinary [(KStr s_flag, data (VBool false))].
Definition test_and_set_flag (fl : loc) : M bool :=          (* returns the old value *)
  do o <- the_obj fl;;
  match find_prop (KStr s_flag) (o_props o) with
  | Some (PData (VBool true) _ _ _) => ret true
  | _ => do _ <- put_obj fl (with_props o [(KStr s_flag, data (VBool true))]);; ret false
  end.

Definition internal_fn (n : native) (cap : list value) (len : Z) : M value :=
  do l <- new_obj (Some L_FunctionProto) (ONative n cap)
            [(KStr s_length, PData (VNum (of_Z len)) false false true); (KStr s_name, PData (VStr []) false false true)];;
  ret (VObj l).

(* CreateResolvingFunctions: (resolve, reject) *)
Definition create_resolving (pid : N) : M (value * value) :=
  do fl <- new_flag;;
  do rs <- internal_fn NPromiseResolveFn [pid_val pid; VObj fl] 1;;
  do rj <- internal_fn NPromiseRejectFn [pid_val pid; VObj fl] 1;;
  ret (rs, rj).

Section WithSelf.
Variable self : ops.

(* the body of a promise resolve function once the already-resolved flag has been passed (27.2.1.3.2 steps 7-16) *)
Definition resolve_promise (pid : N) (resolution : value) : M unit :=
  match resolution with
  | VObj l =>
      do p <- the_promise pid;;
      if Pos.eqb l (p_obj p) then
        do e <- new_obj (Some (error_proto K_TypeError)) OError [];; reject_promise pid (VObj e)
      else
        fun st =>
          match o_get self l (KStr s_then) resolution st with
          | ROk thenv st1 =>
              if is_callable st1 thenv then enqueue_job (JResolveThenable pid resolution thenv) st1
              else fulfill_promise pid resolution st1
          | RThrow e st1 => reject_promise pid e st1
          | RFuel => RFuel
          | RUnsupported c => RUnsupported c
          end
  | _ => fulfill_promise pid resolution
  end.

(* PromiseResolve(%Promise%, x): the promise id *)
Definition promise_resolve (x : value) : M N :=
  do st <- get_state;;
  do same <- (match promise_of_value st x, x with
              | Some pid, VObj l =>
                  do c <- o_get self l (KStr s_constructor) x;;
                  ret (match c with VObj cl => if Pos.eqb cl L_Promise then Some pid else None | _ => None end)
              | _, _ => ret None end);;
  match same with
  | Some pid => ret pid
  | None =>
      do pp <- new_promise L_PromiseProto;;
      do _ <- resolve_promise (fst pp) x;;
      ret (fst pp)
  end.

(* the completion of an async function body settles its promise *)
Definition settle_async (pid : N) (comp : completion) : M unit :=
  match comp with
  | CReturn v => resolve_promise pid v
  | CThrow v => reject_promise pid v
  | _ => resolve_promise pid VUndef
  end.

End WithSelf.
