(* Values, objects, environments and the interpreter state of JSRef, with the pure (non re-entrant)
   helper operations of ECMA-262 clause 7 and 10. *)
From Coq Require Import ZArith NArith PArith List Bool FMapPositive.
From JSRef Require Import Float Syntax.
Import ListNotations.

Module PM := PositiveMap.

Definition loc := positive.
Definition envref := positive.

Inductive value :=
| VUndef | VNull | VBool (b : bool) | VNum (f : float) | VStr (s : str) | VBigInt (z : Z)
| VSym (id : N) | VObj (l : loc).

Inductive pkey := KStr (s : str) | KSym (id : N).

Inductive prop :=
| PData (v : value) (writable enumerable configurable : bool)
| PAcc (getter setter : value) (enumerable configurable : bool).

(* native (built-in) functions *)
Inductive native :=
| NPrint
| NObject | NObjectKeys | NObjectValues | NObjectEntries | NObjectCreate | NObjectDefineProperty | NObjectGetPrototypeOf
| NObjectSetPrototypeOf | NObjectFreeze | NObjectIsFrozen | NObjectGetOwnPropertyNames | NObjectAssign | NObjectGetOwnPropertyDescriptor
| NObjectPreventExtensions | NObjectIs
| NObjProtoToString | NObjProtoValueOf | NObjProtoHasOwnProperty | NObjProtoIsPrototypeOf | NObjProtoPropertyIsEnumerable
| NFunctionProtoCall | NFunctionProtoApply | NFunctionProtoBind | NFunctionProto | NFunctionProtoHasInstance
| NArray | NArrayIsArray | NArrayOf | NArrayFrom
| NArrayProtoPush | NArrayProtoPop | NArrayProtoShift | NArrayProtoUnshift | NArrayProtoJoin | NArrayProtoToString
| NArrayProtoValues | NArrayProtoKeys | NArrayProtoEntries | NArrayProtoIndexOf | NArrayProtoIncludes | NArrayProtoSlice | NArrayProtoConcat
| NArrayProtoReverse | NArrayProtoForEach | NArrayProtoMap | NArrayProtoFilter | NArrayProtoReduce | NArrayProtoSome | NArrayProtoEvery | NArrayProtoFind
| NArrayIterNext | NIterProtoIterator
| NError (kind : N) | NErrorProtoToString
| NString | NNumber | NBoolean | NSymbol | NSymbolFor
| NStringProtoToString | NStringProtoValueOf | NStringProtoCharAt | NStringProtoCharCodeAt | NStringProtoIndexOf | NStringProtoSlice
| NStringProtoToUpperCase | NStringProtoIterator | NStringIterNext
| NNumberProtoToString | NNumberProtoValueOf | NBooleanProtoToString | NBooleanProtoValueOf | NSymbolProtoToString | NSymbolProtoDescription
| NNumberIsInteger | NNumberIsNaN | NIsNaN | NIsFinite
| NMathAbs | NMathFloor | NMathCeil | NMathTrunc | NMathSign | NMathMax | NMathMin | NMathSqrt
| NGenNext | NGenReturn | NGenThrow
| NPromise | NPromiseResolve | NPromiseReject | NPromiseProtoThen | NPromiseProtoCatch | NPromiseProtoFinally | NPromiseAll | NPromiseRace
| NPromiseResolveFn | NPromiseRejectFn | NThenFinally | NCatchFinally | NValueThunk | NThrower | NPromiseAllResolveElement
| NAsyncFromSyncNext
| NReflectOwnKeys | NJSONStringify | NBigInt | NBigIntProtoToString | NGlobalThisGetter.

Inductive gen_status := GSuspendedStart | GSuspendedYield | GExecuting | GCompleted.
Inductive promise_state := PPending | PFulfilled (v : value) | PRejected (v : value).

Inductive okind :=
| OOrdinary
| OFunction (fidx : nat) (env : envref) (home : option loc) (cls : option nat)   (* closure; cls: class index when a class constructor *)
| ONative (n : native) (captured : list value)
| OBound (target : loc) (bthis : value) (bargs : list value)
| OArray
| OError
| OGenerator (gid : N)
| OArrayIter (target : value) (idx : N) (kind : N)     (* kind 0 values, 1 keys, 2 entries *)
| OStringIter (s : str) (idx : N)
| OBooleanObj (b : bool) | ONumberObj (f : float) | OStringObj (s : str) | OSymbolObj (id : N) | OBigIntObj (z : Z)
| OArguments
| OPromise (pid : N).

Record object := {
  o_proto : option loc;
  o_ext : bool;
  o_props : list (pkey * prop);        (* creation order *)
  o_kind : okind;
}.

Record binding := { b_val : option value;   (* None: uninitialised (TDZ) *)
                    b_mut : bool;
                    b_strict : bool;        (* assignment to an immutable binding throws (const); false for the silent function-name binding *)
                    b_deletable : bool }.

Inductive this_state := TNone | TInit (v : value) | TUninit.

Inductive env_rec :=
| EDecl (bs : list (str * binding))
| EObj (o : loc) (is_with : bool).

Record env := {
  e_rec : env_rec;
  e_outer : option envref;
  e_this : this_state;                 (* function / global environments carry the this binding *)
  e_fobj : option loc;                 (* function environments: the active function object *)
  e_newtarget : value;
}.

(* execution context of the code being evaluated *)
Record ctx := {
  c_lex : envref;
  c_var : envref;
  c_strict : bool;
}.

Inductive completion :=
| CNormal (v : option value)
| CBreak (l : option str) (v : option value)
| CContinue (l : option str) (v : option value)
| CReturn (v : value)
| CThrow (v : value).

(* continuation frames of the statement machine: plain data, so a function body can be suspended *)
Inductive frame :=
| KSeq (rest : list stmt) (acc : option value)
| KEnv (saved : ctx)                                   (* restore the context when any completion passes *)
| KWhile (c : expr) (b : stmt) (ls : list str) (acc : option value)
| KDoWhile (b : stmt) (c : expr) (ls : list str) (acc : option value)
| KDoWhileCond (b : stmt) (c : expr) (ls : list str) (acc : option value)
| KFor (c u : option expr) (b : stmt) (ls : list str) (per_iter : list str) (acc : option value)
| KForUpdate (c u : option expr) (b : stmt) (ls : list str) (per_iter : list str) (acc : option value)
| KForIn (h : for_head) (obj : value) (keys : list str) (b : stmt) (ls : list str) (acc : option value) (outer : ctx)
| KForOf (h : for_head) (iter next : value) (b : stmt) (ls : list str) (acc : option value) (outer : ctx)
| KForOfBody (h : for_head) (iter next : value) (b : stmt) (ls : list str) (acc : option value) (outer : ctx)
| KLabel (l : str)
| KBreakTarget                                        (* switch: unlabelled break stops here *)
| KTry (h : option (option pat * list stmt)) (f : option (list stmt)) (saved : ctx)
| KCatchDone (f : option (list stmt)) (saved : ctx)
| KFinally (saved : completion)
| KYieldResume (target : option pat) (decl : option decl_kind)     (* x = yield e : receives the resumption value *)
| KYieldStar (target : option pat) (decl : option decl_kind) (iter next : value)
| KAwaitResume (target : option pat) (decl : option decl_kind)
| KReturnValue                                        (* return await e *)
| KExprValue                                          (* expression-bodied arrow: the value becomes the return value *)
| KAsyncDone (pid : N).                               (* bottom frame of an async function body: settles its result promise *)

Inductive resume := RNext (v : value) | RThrowIn (v : value) | RReturnIn (v : value).

Record gen_state := {
  g_status : gen_status;
  g_frames : list frame;
  g_ctx : ctx;
  g_async : bool;
}.

Inductive reaction := Reaction (derived : option N) (handler : value) (is_reject : bool) (kind : N).
(* kind: 0 ordinary then-reaction (call handler, resolve derived); 1 await continuation of generator gid=derived *)

Record promise := {
  p_state : promise_state;
  p_fulfill : list reaction;
  p_reject : list reaction;
  p_handled : bool;
  p_obj : loc;
}.

Inductive job :=
| JReaction (r : reaction) (arg : value)
| JResolveThenable (pid : N) (thenable thenfn : value).

Record state := {
  heap : PM.t object;
  next_loc : positive;
  envs : PM.t env;
  next_env : positive;
  out : list str;                       (* printed lines, newest first *)
  next_sym : N;
  sym_descr : list (N * option str);
  gens : list (N * gen_state);
  next_gen : N;
  promises : list (N * promise);
  next_promise : N;
  jobs : list job;                      (* FIFO: head is next *)
  sym_registry : list (str * N);
}.

Inductive res (A : Type) :=
| ROk (a : A) (st : state)
| RThrow (v : value) (st : state)
| RFuel
| RUnsupported (code : N).
Arguments ROk {A}. Arguments RThrow {A}. Arguments RFuel {A}. Arguments RUnsupported {A}.

Definition M (A : Type) := state -> res A.
Definition ret {A} (a : A) : M A := fun st => ROk a st.
Definition bind {A B} (m : M A) (f : A -> M B) : M B :=
  fun st => match m st with
            | ROk a st' => f a st'
            | RThrow v st' => RThrow v st'
            | RFuel => RFuel
            | RUnsupported c => RUnsupported c
            end.
Definition throwv {A} (v : value) : M A := fun st => RThrow v st.
Definition unsupported {A} (c : N) : M A := fun _ => RUnsupported c.
Definition get_state : M state := fun st => ROk st st.
Definition put_state (s : state) : M unit := fun _ => ROk tt s.
Definition catchm {A} (m : M A) (h : value -> M A) : M A :=
  fun st => match m st with RThrow v st' => h v st' | r => r end.

Declare Scope m_scope.
Notation "'do' x <- m ;; k" := (bind m (fun x => k)) (at level 200, x pattern, m at level 100, k at level 200, right associativity) : m_scope.
Notation "m ;;; k" := (bind m (fun _ => k)) (at level 200, right associativity) : m_scope.
Open Scope m_scope.

(* ---- string helpers *)
Definition ascii_units (l : list N) : str := l.
Fixpoint str_eqb (a b : str) : bool :=
  match a, b with
  | [], [] => true
  | x :: a', y :: b' => N.eqb x y && str_eqb a' b'
  | _, _ => false
  end.
Fixpoint str_ltb (a b : str) : bool :=          (* code-unit lexicographic *)
  match a, b with
  | [], [] => false
  | [], _ :: _ => true
  | _ :: _, [] => false
  | x :: a', y :: b' => if N.ltb x y then true else if N.ltb y x then false else str_ltb a' b'
  end.
Definition pkey_eqb (a b : pkey) : bool :=
  match a, b with
  | KStr x, KStr y => str_eqb x y
  | KSym x, KSym y => N.eqb x y
  | _, _ => false
  end.

(* canonical array index: "0" | [1-9][0-9]* with value < 2^32 - 1 *)
Definition array_index (s : str) : option N :=
  match s with
  | [] => None
  | [48%N] => Some 0%N
  | c :: _ =>
      if (N.leb 49 c && N.leb c 57)%bool then
        (fix go (l : list N) (acc : N) : option N :=
           match l with
           | [] => if N.ltb acc 4294967295 then Some acc else None
           | d :: t => if (N.leb 48 d && N.leb d 57)%bool then
                         (if N.ltb acc 4294967296 then go t (acc * 10 + (d - 48))%N else None)
                       else None
           end) s 0%N
      else None
  end.

Definition n_to_str (n : N) : str := digit_units (Z.of_N n).

(* ---- heap *)
Definition get_obj (st : state) (l : loc) : option object := PM.find l (heap st).
Definition set_obj (st : state) (l : loc) (o : object) : state :=
  {| heap := PM.add l o (heap st); next_loc := next_loc st; envs := envs st; next_env := next_env st; out := out st;
     next_sym := next_sym st; sym_descr := sym_descr st; gens := gens st; next_gen := next_gen st;
     promises := promises st; next_promise := next_promise st; jobs := jobs st; sym_registry := sym_registry st |}.
Definition alloc_obj (st : state) (o : object) : loc * state :=
  let l := next_loc st in
  (l, {| heap := PM.add l o (heap st); next_loc := Pos.succ l; envs := envs st; next_env := next_env st; out := out st;
         next_sym := next_sym st; sym_descr := sym_descr st; gens := gens st; next_gen := next_gen st;
         promises := promises st; next_promise := next_promise st; jobs := jobs st; sym_registry := sym_registry st |}).
Definition get_env (st : state) (r : envref) : option env := PM.find r (envs st).
Definition set_env (st : state) (r : envref) (e : env) : state :=
  {| heap := heap st; next_loc := next_loc st; envs := PM.add r e (envs st); next_env := next_env st; out := out st;
     next_sym := next_sym st; sym_descr := sym_descr st; gens := gens st; next_gen := next_gen st;
     promises := promises st; next_promise := next_promise st; jobs := jobs st; sym_registry := sym_registry st |}.
Definition alloc_env (st : state) (e : env) : envref * state :=
  let r := next_env st in
  (r, {| heap := heap st; next_loc := next_loc st; envs := PM.add r e (envs st); next_env := Pos.succ r; out := out st;
         next_sym := next_sym st; sym_descr := sym_descr st; gens := gens st; next_gen := next_gen st;
         promises := promises st; next_promise := next_promise st; jobs := jobs st; sym_registry := sym_registry st |}).
Definition push_out (st : state) (s : str) : state :=
  {| heap := heap st; next_loc := next_loc st; envs := envs st; next_env := next_env st; out := s :: out st;
     next_sym := next_sym st; sym_descr := sym_descr st; gens := gens st; next_gen := next_gen st;
     promises := promises st; next_promise := next_promise st; jobs := jobs st; sym_registry := sym_registry st |}.
Definition with_syms (st : state) (n : N) (d : list (N * option str)) (reg : list (str * N)) : state :=
  {| heap := heap st; next_loc := next_loc st; envs := envs st; next_env := next_env st; out := out st;
     next_sym := n; sym_descr := d; gens := gens st; next_gen := next_gen st;
     promises := promises st; next_promise := next_promise st; jobs := jobs st; sym_registry := reg |}.
Definition with_gens (st : state) (g : list (N * gen_state)) (n : N) : state :=
  {| heap := heap st; next_loc := next_loc st; envs := envs st; next_env := next_env st; out := out st;
     next_sym := next_sym st; sym_descr := sym_descr st; gens := g; next_gen := n;
     promises := promises st; next_promise := next_promise st; jobs := jobs st; sym_registry := sym_registry st |}.
Definition with_promises (st : state) (p : list (N * promise)) (n : N) : state :=
  {| heap := heap st; next_loc := next_loc st; envs := envs st; next_env := next_env st; out := out st;
     next_sym := next_sym st; sym_descr := sym_descr st; gens := gens st; next_gen := next_gen st;
     promises := p; next_promise := n; jobs := jobs st; sym_registry := sym_registry st |}.
Definition with_jobs (st : state) (j : list job) : state :=
  {| heap := heap st; next_loc := next_loc st; envs := envs st; next_env := next_env st; out := out st;
     next_sym := next_sym st; sym_descr := sym_descr st; gens := gens st; next_gen := next_gen st;
     promises := promises st; next_promise := next_promise st; jobs := j; sym_registry := sym_registry st |}.

Fixpoint assoc_n {A} (k : N) (l : list (N * A)) : option A :=
  match l with [] => None | (k', a) :: t => if N.eqb k k' then Some a else assoc_n k t end.
Fixpoint assoc_set_n {A} (k : N) (a : A) (l : list (N * A)) : list (N * A) :=
  match l with [] => [(k, a)] | (k', a') :: t => if N.eqb k k' then (k, a) :: t else (k', a') :: assoc_set_n k a t end.

(* ---- own properties *)
Fixpoint find_prop (k : pkey) (ps : list (pkey * prop)) : option prop :=
  match ps with [] => None | (k', p) :: t => if pkey_eqb k k' then Some p else find_prop k t end.
Fixpoint set_prop (k : pkey) (p : prop) (ps : list (pkey * prop)) : list (pkey * prop) :=
  match ps with [] => [(k, p)] | (k', p') :: t => if pkey_eqb k k' then (k, p) :: t else (k', p') :: set_prop k p t end.
Fixpoint remove_prop (k : pkey) (ps : list (pkey * prop)) : list (pkey * prop) :=
  match ps with [] => [] | (k', p') :: t => if pkey_eqb k k' then t else (k', p') :: remove_prop k t end.

Definition with_props (o : object) (ps : list (pkey * prop)) : object :=
  {| o_proto := o_proto o; o_ext := o_ext o; o_props := ps; o_kind := o_kind o |}.
Definition with_proto (o : object) (p : option loc) : object :=
  {| o_proto := p; o_ext := o_ext o; o_props := o_props o; o_kind := o_kind o |}.
Definition with_ext (o : object) (e : bool) : object :=
  {| o_proto := o_proto o; o_ext := e; o_props := o_props o; o_kind := o_kind o |}.
Definition with_kind (o : object) (k : okind) : object :=
  {| o_proto := o_proto o; o_ext := o_ext o; o_props := o_props o; o_kind := k |}.

(* string exotic objects expose indices and length *)
Definition string_own (s : str) (k : pkey) : option prop :=
  match k with
  | KStr ks =>
      if str_eqb ks [108; 101; 110; 103; 116; 104]%N then Some (PData (VNum (of_Z (Z.of_nat (length s)))) false false false)
      else match array_index ks with
           | Some i => match nth_error s (N.to_nat i) with Some c => Some (PData (VStr [c]) false true false) | None => None end
           | None => None end
  | _ => None
  end.

Definition get_own (o : object) (k : pkey) : option prop :=
  match o_kind o with
  | OStringObj s => match string_own s k with Some p => Some p | None => find_prop k (o_props o) end
  | _ => find_prop k (o_props o)
  end.

(* insertion sort of (index, key) pairs by index *)
Fixpoint ins_idx (x : N * str) (l : list (N * str)) : list (N * str) :=
  match l with [] => [x] | y :: t => if N.leb (fst x) (fst y) then x :: l else y :: ins_idx x t end.

(* OrdinaryOwnPropertyKeys: integer indices ascending, then strings, then symbols, each in creation order *)
Definition own_keys (o : object) : list pkey :=
  let ps := o_props o in
  let idx := fold_right (fun kp acc => match fst kp with KStr s => match array_index s with Some i => ins_idx (i, s) acc | None => acc end | _ => acc end) [] ps in
  let strs := filter (fun kp => match fst kp with KStr s => match array_index s with Some _ => false | None => true end | _ => false end) ps in
  let syms := filter (fun kp => match fst kp with KSym _ => true | _ => false end) ps in
  let base := map (fun x => KStr (snd x)) idx ++ map fst strs ++ map fst syms in
  match o_kind o with
  | OStringObj s =>
      let n := length s in
      map (fun i => KStr (n_to_str (N.of_nat i))) (seq 0 n) ++
      filter (fun k => match k with KStr ks => match array_index ks with Some i => negb (N.ltb i (N.of_nat n)) | None => true end | _ => true end)
             (map (fun x => KStr (snd x)) idx) ++ [KStr [108; 101; 110; 103; 116; 104]%N] ++ map fst strs ++ map fst syms
  | _ => base
  end.

(* ---- symbols / well-known *)
Definition SYM_ITERATOR : N := 1%N.
Definition SYM_HASINSTANCE : N := 2%N.
Definition SYM_TOPRIMITIVE : N := 3%N.
Definition SYM_TOSTRINGTAG : N := 4%N.
Definition SYM_ASYNCITERATOR : N := 5%N.
Definition SYM_UNSCOPABLES : N := 6%N.
Definition FIRST_USER_SYM : N := 16%N.

(* ---- type tests *)
Definition is_obj (v : value) := match v with VObj _ => true | _ => false end.
Definition is_callable (st : state) (v : value) : bool :=
  match v with
  | VObj l => match get_obj st l with
              | Some o => match o_kind o with OFunction _ _ _ _ | ONative _ _ | OBound _ _ _ => true | _ => false end
              | None => false end
  | _ => false
  end.

Definition same_value (a b : value) : bool :=
  match a, b with
  | VUndef, VUndef | VNull, VNull => true
  | VBool x, VBool y => Bool.eqb x y
  | VNum x, VNum y => same_value_num x y
  | VStr x, VStr y => str_eqb x y
  | VBigInt x, VBigInt y => Z.eqb x y
  | VSym x, VSym y => N.eqb x y
  | VObj x, VObj y => Pos.eqb x y
  | _, _ => false
  end.
Definition strict_equals (a b : value) : bool :=
  match a, b with
  | VNum x, VNum y => feqb x y
  | _, _ => same_value a b
  end.
Definition same_value_zero (a b : value) : bool :=
  match a, b with
  | VNum x, VNum y => feqb x y || (is_nan x && is_nan y)
  | _, _ => same_value a b
  end.

Definition to_boolean (v : value) : bool :=
  match v with
  | VUndef | VNull => false
  | VBool b => b
  | VNum f => negb (is_zero f || is_nan f)
  | VStr s => match s with [] => false | _ => true end
  | VBigInt z => negb (Z.eqb z 0)
  | VSym _ | VObj _ => true
  end.

Definition u (l : list N) : str := l.
