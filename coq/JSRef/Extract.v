(* Extraction of the reference interpreter.  ExtrOcamlBasic only: nat, positive, N, Z, string stay
   the extracted inductive datatypes; no Extract Constant / Extract Inductive of our own. *)
From Coq Require Import ExtrOcamlBasic.
From JSRef Require Import Driver Wire.
Extraction Language OCaml.
(* paths are relative to /verif/coq, where the Makefile runs coqc *)
Extraction "../ocaml/gen/jsref.ml" run_sexp sexp.
