(* The statement machine of JSRef: a completion flows through a stack of continuation frames
   (ECMA-262 clause 14).  A suspended generator / async body is a saved frame stack. *)
From Coq Require Import ZArith NArith PArith List Bool String Floats.SpecFloat.
From JSRef Require Import Float Syntax Values Static Ops Promises Interp.
Import ListNotations.
Open Scope m_scope.

Definition upd_empty (v acc : option value) : option value := match v with Some _ => v | None => acc end.
Definition comp_upd (c : completion) (acc : option value) : completion :=
  match c with
  | CNormal v => CNormal (upd_empty v acc)
  | CBreak l v => CBreak l (upd_empty v acc)
  | CContinue l v => CContinue l (upd_empty v acc)
  | other => other
  end.
Definition comp_value (c : completion) : option value :=
  match c with CNormal v | CBreak _ v | CContinue _ v => v | _ => None end.

Definition label_matches (l : option str) (ls : list str) : bool :=
  match l with None => true | Some x => mem_str x ls end.

Section WithSelf.
Variable P : prog.
Variable self : ops.

(* run an M computation whose throw must become a throw completion delivered to the frames *)
Definition guard {A} (m : M A) (k : list frame) (c : ctx) (kont : A -> M mres) : M mres :=
  fun st => match m st with
            | ROk a st' => kont a st'
            | RThrow v st' => o_run self k (CThrow v) c st'
            | RFuel => RFuel
            | RUnsupported n => RUnsupported n
            end.

Definition bind_decl_mode (kd : decl_kind) : bind_mode := match kd with KVar => BInitVar | _ => BInitLex end.

Definition eval_decls (c : ctx) (kd : decl_kind) (ds : list (pat * option expr)) : M unit :=
  (fix go (l : list (pat * option expr)) : M unit :=
     match l with
     | [] => ret tt
     | (p, None) :: t =>
         match kd with
         | KVar => go t
         | _ => do _ <- o_bind self c p VUndef BInitLex;; go t
         end
     | (p, Some e) :: t =>
         do v <- (match p with
                  | PId x =>
                      (* var: the reference is resolved before the initialiser runs *)
                      match kd with
                      | KVar => do r <- resolve_binding self c x;;
                                do v <- (if anon_fn_expr P e then eval_named P self c e x else o_eval self c e);;
                                do _ <- put_resolved self c r x v;; ret None
                      | _ => do v <- (if anon_fn_expr P e then eval_named P self c e x else o_eval self c e);; ret (Some v)
                      end
                  | _ => do v <- o_eval self c e;; ret (Some v)
                  end);;
         do _ <- (match v with Some v' => o_bind self c p v' (bind_decl_mode kd) | None => ret tt end);;
         go t
     end) ds.

(* per-iteration copy of the loop environment (CreatePerIterationEnvironment) *)
Definition copy_loop_env (c : ctx) (names : list str) : M ctx :=
  match names with
  | [] => ret c
  | _ =>
      do cur <- the_env (c_lex c);;
      match e_outer cur with
      | None => unsupported 970%N
      | Some outer =>
          do r <- new_decl_env outer;;
          do _ <- (fix go (l : list str) : M unit :=
                     match l with
                     | [] => ret tt
                     | x :: t =>
                         do v <- get_binding_value self (c_lex c) x true;;
                         do _ <- create_binding r x (mutable_init v);; go t
                     end) names;;
          ret {| c_lex := r; c_var := c_var c; c_strict := c_strict c |}
      end
  end.

(* for-in: enumerable string keys, own first then up the prototype chain, no duplicates *)
Definition enumerate_keys (l : loc) : M (list str) :=
  do st <- get_state;;
  ret ((fix go (fuel : nat) (o : loc) (seen : list str) (acc : list str) : list str :=
          match fuel with O => rev acc | Datatypes.S f =>
            match get_obj st o with
            | None => rev acc
            | Some ob =>
                let '(seen', acc') :=
                  fold_left (fun sa k =>
                               match k with
                               | KStr s =>
                                   if mem_str s (fst sa) then sa
                                   else match get_own ob k with
                                        | Some (PData _ _ true _) | Some (PAcc _ _ true _) => (s :: fst sa, s :: snd sa)
                                        | Some _ => (s :: fst sa, snd sa)
                                        | None => sa end
                               | KSym _ => sa
                               end) (own_keys ob) (seen, acc) in
                match o_proto ob with Some p => go f p seen' acc' | None => rev acc' end
            end
          end) CHAIN_FUEL l [] []).

Definition head_bind (c : ctx) (h : for_head) (v : value) : M ctx :=     (* returns the body context *)
  match h with
  | FHDecl KVar p => do _ <- o_bind self c p v BInitVar;; ret c
  | FHDecl kd p =>
      do bc <- new_block_ctx c;;
      do _ <- (fix go (l : list str) : M unit :=
                 match l with [] => ret tt | x :: t =>
                   do _ <- create_binding (c_lex bc) x (match kd with KConst => const_uninit | _ => mutable_uninit end);; go t end) (pat_names p);;
      do _ <- o_bind self bc p v BInitLex;; ret bc
  | FHPat p => do _ <- o_bind self c p v BAssign;; ret c
  end.

(* TDZ scope for the head expression of for-in/of with let/const *)
Definition head_tdz_ctx (c : ctx) (h : for_head) : M ctx :=
  match h with
  | FHDecl KVar _ | FHPat _ => ret c
  | FHDecl _ p =>
      do bc <- new_block_ctx c;;
      do _ <- (fix go (l : list str) : M unit :=
                 match l with [] => ret tt | x :: t => do _ <- create_binding (c_lex bc) x mutable_uninit;; go t end) (pat_names p);;
      ret bc
  end.

Definition exec_stmt (c : ctx) (s : stmt) (labels : list str) (k : list frame) : M mres :=
  match s with
  | SExpr e => guard (o_eval self c e) k c (fun v => o_run self k (CNormal (Some v)) c)
  | SDecl kd ds => guard (eval_decls c kd ds) k c (fun _ => o_run self k (CNormal None) c)
  | SFunDecl _ _ => o_run self k (CNormal None) c
  | SClassDecl x i =>
      guard (do v <- class_define P self c i x;; initialize_binding self (c_lex c) x v) k c (fun _ => o_run self k (CNormal None) c)
  | SEmpty => o_run self k (CNormal None) c
  | SBlock b =>
      guard (do bc <- new_block_ctx c;; do _ <- instantiate_block_decls P self bc b true;; ret bc) k c
            (fun bc => o_run self (KSeq b None :: KEnv c :: k) (CNormal None) bc)
  | SIf ce t f =>
      guard (o_eval self c ce) k c
            (fun v => if to_boolean v then o_run self (KSeq [t] None :: KSeq [] (Some VUndef) :: k) (CNormal None) c
                      else match f with
                           | Some f' => o_run self (KSeq [f'] None :: KSeq [] (Some VUndef) :: k) (CNormal None) c
                           | None => o_run self k (CNormal (Some VUndef)) c end)
  | SWhile ce b => o_run self (KWhile ce b labels (Some VUndef) :: k) (CNormal None) c
  | SDoWhile b ce => o_run self (KSeq [b] None :: KDoWhile b ce labels (Some VUndef) :: k) (CNormal None) c
  | SFor init ce u b =>
      match init with
      | FIDecl ((KLet | KConst) as kd) ds =>
          guard (do lc <- new_block_ctx c;;
                 do _ <- (fix go (l : list str) : M unit :=
                            match l with [] => ret tt | x :: t =>
                              do _ <- create_binding (c_lex lc) x (match kd with KConst => const_uninit | _ => mutable_uninit end);; go t end) (decls_names ds);;
                 ret lc) k c
                (fun lc =>
                   let k' := KEnv c :: k in
                   guard (do _ <- eval_decls lc kd ds;;
                          copy_loop_env lc (match kd with KLet => decls_names ds | _ => [] end)) k' lc
                         (fun lc' => o_run self (KFor ce u b labels (match kd with KLet => decls_names ds | _ => [] end) (Some VUndef) :: k') (CNormal None) lc'))
      | FIDecl KVar ds =>
          guard (eval_decls c KVar ds) k c (fun _ => o_run self (KFor ce u b labels [] (Some VUndef) :: k) (CNormal None) c)
      | FIExpr e =>
          guard (o_eval self c e) k c (fun _ => o_run self (KFor ce u b labels [] (Some VUndef) :: k) (CNormal None) c)
      | FINone => o_run self (KFor ce u b labels [] (Some VUndef) :: k) (CNormal None) c
      end
  | SForIn h e b =>
      guard (do tc <- head_tdz_ctx c h;; o_eval self tc e) k c
            (fun v => match v with
                      | VUndef | VNull => o_run self k (CNormal (Some VUndef)) c
                      | _ => guard (do l <- to_object v;; do ks <- enumerate_keys l;; ret (l, ks)) k c
                                   (fun lk => o_run self (KForIn h (VObj (fst lk)) (snd lk) b labels (Some VUndef) c :: k) (CNormal None) c)
                      end)
  | SForOf h e b =>
      guard (do tc <- head_tdz_ctx c h;; do v <- o_eval self tc e;; get_iterator self v) k c
            (fun itnx => o_run self (KForOf h (fst itnx) (snd itnx) b labels (Some VUndef) c :: k) (CNormal None) c)
  | SSwitch d cases =>
      guard (do dv <- o_eval self c d;;
             do bc <- new_block_ctx c;;
             do _ <- instantiate_block_decls P self bc (flat_map snd cases) true;;
             (* find the first matching case; the default clause is used only if none matches *)
             do sel <- (fix find (l : list (option expr * list stmt)) (i : nat) : M (option nat) :=
                          match l with
                          | [] => ret None
                          | (None, _) :: t => find t (Datatypes.S i)
                          | (Some ce, _) :: t =>
                              do cv <- o_eval self bc ce;;
                              if strict_equals dv cv then ret (Some i) else find t (Datatypes.S i)
                          end) cases O;;
             let start := match sel with
                          | Some i => Some i
                          | None => (fix fd (l : list (option expr * list stmt)) (i : nat) : option nat :=
                                       match l with [] => None | (None, _) :: _ => Some i | _ :: t => fd t (Datatypes.S i) end) cases O
                          end in
             ret (bc, match start with Some i => flat_map snd (skipn i cases) | None => [] end)) k c
            (fun bs => o_run self (KSeq (snd bs) (Some VUndef) :: KBreakTarget :: KEnv c :: k) (CNormal None) (fst bs))
  | SLabel l s' =>
      match s' with
      | SWhile _ _ | SDoWhile _ _ | SFor _ _ _ _ | SForIn _ _ _ | SForOf _ _ _ | SLabel _ _ =>
          (* the label set travels with the loop so that `continue l` reaches it *)
          unsupported 973%N     (* handled by exec_labelled *)
      | _ => o_run self (KSeq [s'] None :: KLabel l :: k) (CNormal None) c
      end
  | SBreak l => o_run self k (CBreak l None) c
  | SContinue l => o_run self k (CContinue l None) c
  | SReturn None => o_run self k (CReturn VUndef) c
  | SReturn (Some e) => guard (o_eval self c e) k c (fun v => o_run self k (CReturn v) c)
  | SThrow e => guard (o_eval self c e) k c (fun v => o_run self k (CThrow v) c)
  | STry b h f =>
      guard (do bc <- new_block_ctx c;; do _ <- instantiate_block_decls P self bc b true;; ret bc) k c
            (fun bc => o_run self (KSeq b None :: KEnv c :: KTry h f c :: k) (CNormal None) bc)
  | SWith oe b =>
      guard (do ov <- o_eval self c oe;; do ol <- to_object ov;;
             fun st => let '(r, st') := alloc_env st {| e_rec := EObj ol true; e_outer := Some (c_lex c); e_this := TNone; e_fobj := None; e_newtarget := VUndef |} in
                       ROk {| c_lex := r; c_var := c_var c; c_strict := c_strict c |} st') k c
            (fun wc => o_run self (KSeq [b] None :: KSeq [] (Some VUndef) :: KEnv c :: k) (CNormal None) wc)
  | SYield target decl e delegate =>
      guard (match e with Some e' => o_eval self c e' | None => ret VUndef end) k c
            (fun v =>
               if delegate then
                 guard (get_iterator self v) k c
                       (fun itnx => o_run self (KYieldStar target decl (fst itnx) (snd itnx) :: k) (CNormal (Some VUndef)) c)
               else ret (MYield v false (KYieldResume target decl :: k) c))
  | SAwait target decl e =>
      guard (o_eval self c e) k c (fun v => ret (MAwait v (KAwaitResume target decl :: k) c))
  | SReturnAwait e =>
      guard (o_eval self c e) k c (fun v => ret (MAwait v (KReturnValue :: k) c))
  | SDirectEval target body strict_body =>
      let strict := c_strict c || strict_body in
      guard (do lenv <- new_decl_env (c_lex c);;
             let venv := if strict then lenv else c_var c in
             let ec := {| c_lex := lenv; c_var := venv; c_strict := strict |} in
             (* EvalDeclarationInstantiation *)
             let vnames := dedup (var_names body ++ map fst (fun_decls body)) [] in
             do _ <- (fix go (l : list str) : M unit :=
                        match l with [] => ret tt | x :: t =>
                          do ve <- the_env venv;;
                          do _ <- (match e_rec ve with
                                   | EObj go_ _ =>
                                       do st <- get_state;;
                                       if has_own st go_ (KStr x) then ret tt
                                       else do _ <- define_own go_ (KStr x) (data_desc VUndef true true true);; ret tt
                                   | EDecl bs =>
                                       match find_binding x bs with
                                       | Some _ => ret tt
                                       | None => create_binding venv x {| b_val := Some VUndef; b_mut := true; b_strict := false; b_deletable := negb strict |}
                                       end
                                   end);;
                          go t end) vnames;;
             do _ <- instantiate_block_decls P self ec body false;;
             do _ <- (fix go (l : list (str * nat)) : M unit :=
                        match l with
                        | [] => ret tt
                        | (x, i) :: t =>
                            do fv <- make_function P lenv i None None x None;;
                            do _ <- set_mutable_binding self venv x fv false;; go t
                        end) (fun_decls body);;
             ret ec) k c
            (fun ec => o_run self (KSeq body (if strict_body && negb (c_strict c) then Some (VStr (S "use strict")) else None)
                                   :: KEnv c :: KYieldResume target None :: k) (CNormal None) ec)
  end.

(* labelled loops: collect the label set *)
Fixpoint exec_labelled (fuel : nat) (c : ctx) (s : stmt) (labels : list str) (k : list frame) : M mres :=
  match fuel with O => fun _ => RFuel | Datatypes.S f =>
    match s with
    | SLabel l s' =>
        match s' with
        | SWhile _ _ | SDoWhile _ _ | SFor _ _ _ _ | SForIn _ _ _ | SForOf _ _ _ | SLabel _ _ =>
            exec_labelled f c s' (l :: labels) (KLabel l :: k)
        | _ => exec_stmt c s labels k
        end
    | _ => exec_stmt c s labels k
    end
  end.

Definition bind_resumed (c : ctx) (target : option pat) (decl : option decl_kind) (v : value) : M unit :=
  match target with
  | None => ret tt
  | Some p => o_bind self c p v (match decl with Some KVar => BInitVar | Some _ => BInitLex | None => BAssign end)
  end.

Definition loop_continues (comp : completion) (ls : list str) : bool :=
  match comp with
  | CNormal _ => true
  | CContinue l _ => label_matches l ls
  | _ => false
  end.

Definition run_step (k : list frame) (comp : completion) (c : ctx) : M mres :=
  match k with
  | [] => ret (MDone comp)
  | fr :: k' =>
      match fr with
      | KSeq rest acc =>
          match comp with
          | CNormal v =>
              let acc' := upd_empty v acc in
              match rest with
              | [] => o_run self k' (CNormal acc') c
              | s :: rest' => exec_labelled LABEL_FUEL c s [] (KSeq rest' acc' :: k')
              end
          | _ => o_run self k' (comp_upd comp acc) c
          end
      | KEnv saved => o_run self k' comp saved
      | KLabel l =>
          match comp with
          | CBreak (Some l') v => if str_eqb l l' then o_run self k' (CNormal v) c else o_run self k' comp c
          | _ => o_run self k' comp c
          end
      | KBreakTarget =>
          match comp with
          | CBreak None v => o_run self k' (CNormal v) c
          | _ => o_run self k' comp c
          end
      | KWhile ce b ls acc =>
          if loop_continues comp ls then
            let acc' := upd_empty (comp_value comp) acc in
            guard (o_eval self c ce) k' c
                  (fun v => if to_boolean v then exec_labelled LABEL_FUEL c b [] (KWhile ce b ls acc' :: k')
                            else o_run self k' (CNormal acc') c)
          else match comp with
               | CBreak None v => o_run self k' (CNormal (upd_empty v acc)) c
               | _ => o_run self k' (comp_upd comp acc) c
               end
      | KDoWhile b ce ls acc =>
          if loop_continues comp ls then
            let acc' := upd_empty (comp_value comp) acc in
            guard (o_eval self c ce) k' c
                  (fun v => if to_boolean v then o_run self (KSeq [b] None :: KDoWhile b ce ls acc' :: k') (CNormal None) c
                            else o_run self k' (CNormal acc') c)
          else match comp with
               | CBreak None v => o_run self k' (CNormal (upd_empty v acc)) c
               | _ => o_run self k' (comp_upd comp acc) c
               end
      | KDoWhileCond _ _ _ _ => unsupported 971%N
      | KFor ce u b ls per acc =>
          (* arriving here: test, then body *)
          match comp with
          | CNormal _ =>
              guard (match ce with Some e => do v <- o_eval self c e;; ret (to_boolean v) | None => ret true end) k' c
                    (fun go => if go then exec_labelled LABEL_FUEL c b [] (KForUpdate ce u b ls per acc :: k')
                               else o_run self k' (CNormal acc) c)
          | _ => o_run self k' comp c
          end
      | KForUpdate ce u b ls per acc =>
          if loop_continues comp ls then
            let acc' := upd_empty (comp_value comp) acc in
            guard (do c' <- copy_loop_env c per;;
                   do _ <- (match u with Some e => do _ <- o_eval self c' e;; ret tt | None => ret tt end);;
                   ret c') k' c
                  (fun c' => o_run self (KFor ce u b ls per acc' :: k') (CNormal None) c')
          else match comp with
               | CBreak None v => o_run self k' (CNormal (upd_empty v acc)) c
               | _ => o_run self k' (comp_upd comp acc) c
               end
      | KForIn h obj keys b ls acc outer =>
          if loop_continues comp ls then
            let acc' := upd_empty (comp_value comp) acc in
            (fix next (ks : list str) : M mres :=
               match ks with
               | [] => o_run self k' (CNormal acc') outer
               | x :: rest =>
                   do st <- get_state;;
                   match obj with
                   | VObj ol =>
                       (* a key deleted before it is visited is skipped *)
                       if negb (has_property st ol (KStr x)) then next rest
                       else guard (head_bind outer h (VStr x)) k' outer
                                  (fun bc => exec_labelled LABEL_FUEL bc b [] (KForIn h obj rest b ls acc' outer :: k'))
                   | _ => unsupported 972%N
                   end
               end) keys
          else match comp with
               | CBreak None v => o_run self k' (CNormal (upd_empty v acc)) outer
               | _ => o_run self k' (comp_upd comp acc) outer
               end
      | KForOf h it nx b ls acc outer =>
          (* head position: step the iterator *)
          match comp with
          | CNormal _ =>
              guard (iterator_step self it nx) k' outer
                    (fun s => match s with
                              | None => o_run self k' (CNormal acc) outer
                              | Some v =>
                                  (* a throw while binding closes the iterator *)
                                  guard (closing_on_throw self it (head_bind outer h v)) k' outer
                                        (fun bc => exec_labelled LABEL_FUEL bc b [] (KForOfBody h it nx b ls acc outer :: k'))
                              end)
          | _ => o_run self k' comp outer
          end
      | KForOfBody h it nx b ls acc outer =>
          if loop_continues comp ls then
            o_run self (KForOf h it nx b ls (upd_empty (comp_value comp) acc) outer :: k') (CNormal None) outer
          else
            match comp with
            | CThrow v => guard (iterator_close_throw self it) k' outer (fun _ => o_run self k' comp outer)
            | CBreak None v =>
                guard (iterator_close_normal self it) k' outer (fun _ => o_run self k' (CNormal (upd_empty v acc)) outer)
            | _ => guard (iterator_close_normal self it) k' outer (fun _ => o_run self k' (comp_upd comp acc) outer)
            end
      | KTry h f saved =>
          match comp with
          | CThrow v =>
              match h with
              | Some (param, hb) =>
                  guard (do cc <- new_block_ctx saved;;
                         do _ <- (match param with
                                  | Some p =>
                                      do _ <- (fix go (l : list str) : M unit :=
                                                 match l with [] => ret tt | x :: t => do _ <- create_binding (c_lex cc) x mutable_uninit;; go t end) (pat_names p);;
                                      o_bind self cc p v BInitLex
                                  | None => ret tt end);;
                         do bc <- new_block_ctx cc;;
                         do _ <- instantiate_block_decls P self bc hb true;;
                         ret bc) (KCatchDone f saved :: k') saved
                        (fun bc => o_run self (KSeq hb None :: KEnv saved :: KCatchDone f saved :: k') (CNormal None) bc)
              | None => o_run self (KCatchDone f saved :: k') comp saved
              end
          | _ => o_run self (KCatchDone f saved :: k') comp saved
          end
      | KCatchDone f saved =>
          match f with
          | Some fb =>
              guard (do bc <- new_block_ctx saved;; do _ <- instantiate_block_decls P self bc fb true;; ret bc) k' saved
                    (fun bc => o_run self (KSeq fb None :: KEnv saved :: KFinally comp :: k') (CNormal None) bc)
          | None => o_run self k' (comp_upd comp (Some VUndef)) saved
          end
      | KFinally saved =>
          match comp with
          | CNormal _ => o_run self k' (comp_upd saved (Some VUndef)) c
          | _ => o_run self k' comp c
          end
      | KYieldResume target decl =>
          match comp with
          | CNormal v =>
              let rv := match v with Some x => x | None => VUndef end in
              (* `t = yield e;` / `t = eval("...");` are expression statements: their value is the assigned value;
                 a declaration (`let t = ...`) has an empty completion *)
              guard (bind_resumed c target decl rv) k' c
                    (fun _ => o_run self k' (CNormal (match target, decl with
                                                      | Some _, Some _ => None
                                                      | Some _, None => Some rv
                                                      | None, _ => v end)) c)
          | _ => o_run self k' comp c
          end
      | KAwaitResume target decl =>
          match comp with
          | CNormal v =>
              let rv := match v with Some x => x | None => VUndef end in
              guard (bind_resumed c target decl rv) k' c (fun _ => o_run self k' (CNormal None) c)
          | _ => o_run self k' comp c
          end
      | KReturnValue =>
          match comp with
          | CNormal v => o_run self k' (CReturn (match v with Some x => x | None => VUndef end)) c
          | _ => o_run self k' comp c
          end
      | KExprValue => o_run self k' comp c
      | KAsyncDone pid => do _ <- settle_async self pid comp;; ret (MDone (CNormal None))
      | KYieldStar target decl it nx =>
          (* comp carries what the consumer sent: next(v) / throw(v) / return(v) *)
          let finish (v : value) := guard (bind_resumed c target decl v) k' c (fun _ => o_run self k' (CNormal None) c) in
          let handle (r : value) :=
            match r with
            | VObj rl =>
                guard (do d <- o_get self rl (KStr s_done) r;; ret (to_boolean d)) k' c
                      (fun d => if d then guard (o_get self rl (KStr s_value) r) k' c finish
                                else ret (MYield r true (KYieldStar target decl it nx :: k') c))
            | _ => guard (type_error (A := unit)) k' c (fun _ => ret (MDone (CNormal None)))
            end in
          match comp with
          | CNormal v =>
              guard (o_call self nx it [match v with Some x => x | None => VUndef end]) k' c handle
          | CThrow v =>
              guard (get_method self it (KStr s_throw)) k' c
                    (fun th => match th with
                               | VUndef => guard (do _ <- iterator_close_normal self it;; type_error (A := unit)) k' c (fun _ => ret (MDone (CNormal None)))
                               | _ => guard (o_call self th it [v]) k' c handle
                               end)
          | CReturn v =>
              guard (get_method self it (KStr s_return)) k' c
                    (fun rt => match rt with
                               | VUndef => o_run self k' (CReturn v) c
                               | _ => guard (o_call self rt it [v]) k' c
                                            (fun r => match r with
                                                      | VObj rl =>
                                                          guard (do d <- o_get self rl (KStr s_done) r;; ret (to_boolean d)) k' c
                                                                (fun d => if d then guard (o_get self rl (KStr s_value) r) k' c (fun x => o_run self k' (CReturn x) c)
                                                                          else ret (MYield r true (KYieldStar target decl it nx :: k') c))
                                                      | _ => guard (type_error (A := unit)) k' c (fun _ => ret (MDone (CNormal None)))
                                                      end)
                               end)
          | _ => o_run self k' comp c
          end
      end
  end.

End WithSelf.
