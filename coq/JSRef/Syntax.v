(* Abstract syntax of the JSRef fragment.  Function bodies live in a program-wide function table
   (closures refer to them by index), identifiers and strings are UTF-16 code-unit lists. *)
From Coq Require Import ZArith NArith List Bool.
Import ListNotations.

Definition str := list N.

Inductive unop := UNeg | UPos | UNot | UBitNot | UTypeof | UVoid.
Inductive binop :=
| BAdd | BSub | BMul | BDiv | BMod | BExp
| BBitAnd | BBitOr | BBitXor | BShl | BShr | BUShr
| BLt | BLe | BGt | BGe | BEq | BNe | BSEq | BSNe | BIn | BInstanceof.
Inductive logop := LAnd | LOr | LCoalesce.
Inductive decl_kind := KVar | KLet | KConst.

Inductive expr :=
| ENum (bits : N)                       (* IEEE binary64 bit pattern *)
| EStr (s : str)
| EBool (b : bool)
| ENull
| EBigInt (z : Z)
| EId (x : str)
| EThis
| ENewTarget
| EArray (elems : list arr_elem)
| EObject (props : list propdef)
| EFunc (idx : nat)                     (* function / arrow / generator / async expression *)
| EClass (idx : nat)                    (* class expression: index into the class table *)
| EUnary (op : unop) (e : expr)
| EDelete (e : expr)
| EBinary (op : binop) (a b : expr)
| ELogical (op : logop) (a b : expr)
| EAssign (t : pat) (e : expr)          (* t = e, destructuring allowed *)
| EOpAssign (op : binop) (t : expr) (e : expr)     (* t op= e, t an identifier or member *)
| ELogAssign (op : logop) (t : expr) (e : expr)    (* t &&= e etc. *)
| EUpdate (prefix inc : bool) (t : expr)
| ECond (c a b : expr)
| ECall (f : expr) (args : list arg) (optional : bool)       (* f(args) / f?.(args) *)
| ENew (f : expr) (args : list arg)
| EMember (o : expr) (p : str) (optional : bool)              (* o.p / o?.p *)
| EIndex (o : expr) (k : expr) (optional : bool)              (* o[k] / o?.[k] *)
| ESuperMember (p : str)
| ESuperIndex (k : expr)
| ESuperCall (args : list arg)
| ESeq (a b : expr)
| ETemplate (strs : list str) (es : list expr)                 (* `s0${e0}s1…` *)
| EParen (e : expr)                                            (* explicit parentheses (printer tests) *)
| EOptChain (e : expr)                                         (* boundary of an optional chain: short-circuit stops here *)
with arr_elem := AElem (e : expr) | ASpread (e : expr) | AHole
with arg := Arg (e : expr) | ArgSpread (e : expr)
with propkey := PKStr (s : str) | PKNum (bits : N) | PKComputed (e : expr)
with propdef :=
| PInit (k : propkey) (e : expr)        (* k: e   (also shorthand) *)
| PMethod (k : propkey) (fidx : nat)    (* k(){}  / *k(){} / async k(){} — kind in the function table *)
| PGet (k : propkey) (fidx : nat)
| PSet (k : propkey) (fidx : nat)
| PSpread (e : expr)
| PProto (e : expr)                     (* __proto__: e *)
with pat :=
| PId (x : str)
| PExpr (e : expr)                      (* member expression target in assignment patterns *)
| PObj (props : list (propkey * pat * option expr)) (rest : option pat)
| PArr (elems : list (option (pat * option expr))) (rest : option pat).

Inductive for_init :=
| FINone | FIExpr (e : expr) | FIDecl (k : decl_kind) (ds : list (pat * option expr)).
Inductive for_head :=                    (* for-in / for-of left side *)
| FHDecl (k : decl_kind) (p : pat) | FHPat (p : pat).

Inductive stmt :=
| SExpr (e : expr)
| SDecl (k : decl_kind) (ds : list (pat * option expr))
| SFunDecl (x : str) (idx : nat)
| SClassDecl (x : str) (idx : nat)
| SBlock (b : list stmt)
| SIf (c : expr) (t : stmt) (f : option stmt)
| SFor (init : for_init) (c : option expr) (u : option expr) (b : stmt)
| SForIn (h : for_head) (e : expr) (b : stmt)
| SForOf (h : for_head) (e : expr) (b : stmt)
| SWhile (c : expr) (b : stmt)
| SDoWhile (b : stmt) (c : expr)
| SSwitch (d : expr) (cases : list (option expr * list stmt))
| SLabel (l : str) (s : stmt)
| SBreak (l : option str)
| SContinue (l : option str)
| SReturn (e : option expr)
| SThrow (e : expr)
| STry (b : list stmt) (h : option (option pat * list stmt)) (f : option (list stmt))
| SEmpty
| SWith (o : expr) (b : stmt)
(* suspension points, statement position only *)
| SYield (target : option pat) (decl : option decl_kind) (e : option expr) (delegate : bool)   (* [k] t = yield[*] e; *)
| SAwait (target : option pat) (decl : option decl_kind) (e : expr)                            (* [k] t = await e; *)
| SReturnAwait (e : expr)
| SDirectEval (target : option pat) (body : list stmt) (strict_body : bool).                  (* [t =] eval("…") with literal source *)

Inductive fkind := FNormal | FArrow | FMethod | FGetter | FSetter | FGenerator | FAsync | FAsyncArrow | FAsyncGenerator
                 | FCtorBase | FCtorDerived | FFieldInit.

Record func := {
  f_name : str;
  f_kind : fkind;
  f_params : list (pat * option expr);
  f_rest : option pat;
  f_body : list stmt;
  f_expr_body : option expr;            (* arrow with expression body *)
  f_strict : bool;
  f_uses_args : bool;                   (* mentions `arguments` *)
}.

Inductive member_kind := MMethod | MGetter | MSetter | MField.
Record class_member := {
  cm_static : bool;
  cm_kind : member_kind;
  cm_key : propkey;
  cm_fidx : option nat;                 (* method/accessor function; field initialiser thunk (FFieldInit) *)
}.
Record classdef := {
  c_name : str;
  c_heritage : option expr;
  c_ctor : option nat;                  (* explicit constructor function index *)
  c_members : list class_member;
}.

Record prog := {
  p_funcs : list func;
  p_classes : list classdef;
  p_body : list stmt;
  p_strict : bool;
}.
