(* [[Call]] / [[Construct]], the fuel knot, the initial realm and the script runner of JSRef. *)
From Coq Require Import ZArith NArith PArith List Bool String Floats.SpecFloat.
From JSRef Require Import Float Syntax Values Static Ops Promises Interp Machine Builtins.
Import ListNotations.
Open Scope m_scope.

Section WithSelf.
Variable P : prog.
Variable self : ops.

Definition call_step (fv tv : value) (args : list value) : M value :=
  match fv with
  | VObj l =>
      do o <- the_obj l;;
      match o_kind o with
      | OFunction fidx env _ cls =>
          do f <- nth_func P fidx;;
          match f_kind f with
          | FCtorBase | FCtorDerived => type_error          (* class constructors cannot be called *)
          | _ => do r <- call_closure P self l fidx env cls tv args VUndef None;; ret (fst r)
          end
      | ONative n cap => native_call self n cap tv args VUndef
      | OBound t bthis bargs => o_call self (VObj t) bthis (bargs ++ args)
      | _ => type_error
      end
  | _ => type_error
  end.

Definition construct_step (fv : value) (args : list value) (newtarget : value) : M value :=
  match fv with
  | VObj l =>
      do o <- the_obj l;;
      match o_kind o with
      | OFunction fidx env _ cls =>
          do f <- nth_func P fidx;;
          match f_kind f with
          | FCtorDerived =>
              do r <- call_closure P self l fidx env cls VUndef args newtarget (Some TUninit);;
              match fst r with
              | VObj _ => ret (fst r)
              | VUndef =>
                  do fe <- the_env (snd r);;
                  match e_this fe with TInit v => ret v | _ => reference_error end
              | _ => type_error
              end
          | FNormal | FCtorBase =>
              do ol <- ordinary_create_from_constructor self newtarget L_ObjectProto OOrdinary [];;
              do _ <- (match f_kind f with FCtorBase => initialize_instance_fields self ol l | _ => ret tt end);;
              do r <- call_closure P self l fidx env cls (VObj ol) args newtarget (Some (TInit (VObj ol)));;
              match fst r with
              | VObj _ => ret (fst r)
              | _ => ret (VObj ol)
              end
          | _ => type_error
          end
      | ONative n cap => native_call self n cap VUndef args newtarget
      | OBound t _ bargs =>
          let nt := match newtarget with VObj nl => if Pos.eqb nl l then VObj t else newtarget | _ => newtarget end in
          o_construct self (VObj t) (bargs ++ args) nt
      | _ => type_error
      end
  | _ => type_error
  end.

End WithSelf.

Definition fuel_ops : ops :=
  {| o_eval := fun _ _ _ => RFuel; o_run := fun _ _ _ _ => RFuel; o_call := fun _ _ _ _ => RFuel;
     o_construct := fun _ _ _ _ => RFuel; o_get := fun _ _ _ _ => RFuel; o_set := fun _ _ _ _ _ => RFuel;
     o_toprim := fun _ _ _ => RFuel; o_bind := fun _ _ _ _ _ => RFuel |}.

Fixpoint mk (P : prog) (n : nat) : ops :=
  match n with
  | O => fuel_ops
  | Datatypes.S n' =>
      {| o_eval := fun c e st => eval_step P (mk P n') c e st;
         o_run := fun k comp c st => run_step P (mk P n') k comp c st;
         o_call := fun f t a st => call_step P (mk P n') f t a st;
         o_construct := fun f a nt st => construct_step P (mk P n') f a nt st;
         o_get := fun l k r st => get_step (mk P n') l k r st;
         o_set := fun l k v r st => set_step (mk P n') l k v r st;
         o_toprim := fun v h st => toprim_step (mk P n') v h st;
         o_bind := fun c p v m st => bind_step P (mk P n') c p v m st |}
  end.

(* ---- the initial realm *)
Definition empty_state : state :=
  {| heap := PM.empty object; next_loc := 1%positive; envs := PM.empty env; next_env := 1%positive; out := [];
     next_sym := FIRST_USER_SYM; sym_descr := [(SYM_ITERATOR, Some (S "Symbol.iterator")); (SYM_HASINSTANCE, Some (S "Symbol.hasInstance"));
                                               (SYM_TOPRIMITIVE, Some (S "Symbol.toPrimitive")); (SYM_TOSTRINGTAG, Some (S "Symbol.toStringTag"));
                                               (SYM_ASYNCITERATOR, Some (S "Symbol.asyncIterator")); (SYM_UNSCOPABLES, Some (S "Symbol.unscopables"))];
     gens := []; next_gen := 0%N; promises := []; next_promise := 0%N; jobs := []; sym_registry := [] |}.

Definition native_fn (n : native) (name : string) (len : Z) : M value :=
  do l <- new_obj (Some L_FunctionProto) (ONative n [])
            [(KStr s_length, PData (VNum (of_Z len)) false false true); (KStr s_name, PData (VStr (S name)) false false true)];;
  ret (VObj l).

Definition def (target : loc) (name : string) (v : value) : M unit :=
  do o <- the_obj target;; put_obj target (with_props o (o_props o ++ [(KStr (S name), PData v true false true)])).
Definition defsym (target : loc) (sym : N) (v : value) (w : bool) : M unit :=
  do o <- the_obj target;; put_obj target (with_props o (o_props o ++ [(KSym sym, PData v w false true)])).
Definition defn (target : loc) (name : string) (n : native) (len : Z) : M unit :=
  do f <- native_fn n name len;; def target name f.
Definition const_prop (target : loc) (name : string) (v : value) : M unit :=
  do o <- the_obj target;; put_obj target (with_props o (o_props o ++ [(KStr (S name), PData v false false false)])).

Definition ctor_at (l : loc) (n : native) (name : string) (len : Z) (proto : loc) : M unit :=
  do _ <- put_obj l (mk_obj (Some L_FunctionProto) (ONative n [])
                            [(KStr s_length, PData (VNum (of_Z len)) false false true); (KStr s_name, PData (VStr (S name)) false false true);
                             (KStr s_prototype, PData (VObj proto) false false false)]);;
  do _ <- def proto "constructor" (VObj l);;
  def L_Global name (VObj l).

Definition new_ctor (n : native) (name : string) (len : Z) (proto : loc) (fproto : loc) : M loc :=
  do l <- new_obj (Some fproto) (ONative n [])
            [(KStr s_length, PData (VNum (of_Z len)) false false true); (KStr s_name, PData (VStr (S name)) false false true);
             (KStr s_prototype, PData (VObj proto) false false false)];;
  do _ <- def proto "constructor" (VObj l);;
  do _ <- def L_Global name (VObj l);;
  ret l.

Definition alloc_placeholders : M unit :=
  (fix go (k : nat) : M unit :=
     match k with O => ret tt | Datatypes.S k' => do _ <- new_obj None OOrdinary [];; go k' end) 63%nat.

Definition init_realm : M unit :=
  do _ <- alloc_placeholders;;
  let plain (proto : option loc) (kind : okind) := mk_obj proto kind [] in
  do _ <- put_obj L_ObjectProto (plain None OOrdinary);;
  do _ <- put_obj L_FunctionProto (mk_obj (Some L_ObjectProto) (ONative NFunctionProto [])
                                         [(KStr s_length, PData (VNum fzero) false false true); (KStr s_name, PData (VStr []) false false true)]);;
  do _ <- put_obj L_ArrayProto (mk_obj (Some L_ObjectProto) OArray [(KStr s_length, PData (VNum fzero) true false false)]);;
  do _ <- put_obj L_ErrorProto (plain (Some L_ObjectProto) OOrdinary);;
  do _ <- put_obj L_TypeErrorProto (plain (Some L_ErrorProto) OOrdinary);;
  do _ <- put_obj L_RangeErrorProto (plain (Some L_ErrorProto) OOrdinary);;
  do _ <- put_obj L_ReferenceErrorProto (plain (Some L_ErrorProto) OOrdinary);;
  do _ <- put_obj L_SyntaxErrorProto (plain (Some L_ErrorProto) OOrdinary);;
  do _ <- put_obj L_EvalErrorProto (plain (Some L_ErrorProto) OOrdinary);;
  do _ <- put_obj L_URIErrorProto (plain (Some L_ErrorProto) OOrdinary);;
  do _ <- put_obj L_IteratorProto (plain (Some L_ObjectProto) OOrdinary);;
  do _ <- put_obj L_ArrayIteratorProto (plain (Some L_IteratorProto) OOrdinary);;
  do _ <- put_obj L_StringIteratorProto (plain (Some L_IteratorProto) OOrdinary);;
  do _ <- put_obj L_GeneratorProto (plain (Some L_IteratorProto) OOrdinary);;
  do _ <- put_obj L_GeneratorFunctionProto (plain (Some L_FunctionProto) OOrdinary);;
  do _ <- put_obj L_AsyncFunctionProto (plain (Some L_FunctionProto) OOrdinary);;
  do _ <- put_obj L_AsyncGeneratorProto (plain (Some L_ObjectProto) OOrdinary);;
  do _ <- put_obj L_AsyncGeneratorFunctionProto (plain (Some L_FunctionProto) OOrdinary);;
  do _ <- put_obj L_StringProto (plain (Some L_ObjectProto) (OStringObj []));;
  do _ <- put_obj L_NumberProto (plain (Some L_ObjectProto) (ONumberObj fzero));;
  do _ <- put_obj L_BooleanProto (plain (Some L_ObjectProto) (OBooleanObj false));;
  do _ <- put_obj L_SymbolProto (plain (Some L_ObjectProto) OOrdinary);;
  do _ <- put_obj L_BigIntProto (plain (Some L_ObjectProto) OOrdinary);;
  do _ <- put_obj L_PromiseProto (plain (Some L_ObjectProto) OOrdinary);;
  do _ <- put_obj L_Global (plain (Some L_ObjectProto) OOrdinary);;
  (* global value properties *)
  do _ <- def L_Global "globalThis" (VObj L_Global);;
  do _ <- const_prop L_Global "undefined" VUndef;;
  do _ <- const_prop L_Global "NaN" (VNum fnan);;
  do _ <- const_prop L_Global "Infinity" (VNum (finf false));;
  do _ <- defn L_Global "print" NPrint 0;;
  do _ <- defn L_Global "isNaN" NIsNaN 1;;
  do _ <- defn L_Global "isFinite" NIsFinite 1;;
  (* Object *)
  do _ <- ctor_at L_ObjectCtor NObject "Object" 1 L_ObjectProto;;
  do _ <- defn L_ObjectCtor "keys" NObjectKeys 1;; do _ <- defn L_ObjectCtor "values" NObjectValues 1;;
  do _ <- defn L_ObjectCtor "entries" NObjectEntries 1;; do _ <- defn L_ObjectCtor "create" NObjectCreate 2;;
  do _ <- defn L_ObjectCtor "defineProperty" NObjectDefineProperty 3;;
  do _ <- defn L_ObjectCtor "getOwnPropertyDescriptor" NObjectGetOwnPropertyDescriptor 2;;
  do _ <- defn L_ObjectCtor "getOwnPropertyNames" NObjectGetOwnPropertyNames 1;;
  do _ <- defn L_ObjectCtor "getPrototypeOf" NObjectGetPrototypeOf 1;; do _ <- defn L_ObjectCtor "setPrototypeOf" NObjectSetPrototypeOf 2;;
  do _ <- defn L_ObjectCtor "freeze" NObjectFreeze 1;; do _ <- defn L_ObjectCtor "isFrozen" NObjectIsFrozen 1;;
  do _ <- defn L_ObjectCtor "preventExtensions" NObjectPreventExtensions 1;;
  do _ <- defn L_ObjectCtor "is" NObjectIs 2;; do _ <- defn L_ObjectCtor "assign" NObjectAssign 2;;
  do _ <- defn L_ObjectProto "hasOwnProperty" NObjProtoHasOwnProperty 1;;
  do _ <- defn L_ObjectProto "isPrototypeOf" NObjProtoIsPrototypeOf 1;;
  do _ <- defn L_ObjectProto "propertyIsEnumerable" NObjProtoPropertyIsEnumerable 1;;
  do _ <- defn L_ObjectProto "toString" NObjProtoToString 0;;
  do _ <- defn L_ObjectProto "valueOf" NObjProtoValueOf 0;;
  (* Function *)
  do _ <- defn L_FunctionProto "apply" NFunctionProtoApply 2;; do _ <- defn L_FunctionProto "bind" NFunctionProtoBind 1;;
  do _ <- defn L_FunctionProto "call" NFunctionProtoCall 1;;
  do hi <- native_fn NFunctionProtoHasInstance "[Symbol.hasInstance]" 1;;
  do fo <- the_obj L_FunctionProto;;
  do _ <- put_obj L_FunctionProto (with_props fo (o_props fo ++ [(KSym SYM_HASINSTANCE, PData hi false false false)]));;
  (* Array *)
  do _ <- ctor_at L_ArrayCtor NArray "Array" 1 L_ArrayProto;;
  do _ <- defn L_ArrayCtor "isArray" NArrayIsArray 1;; do _ <- defn L_ArrayCtor "of" NArrayOf 0;; do _ <- defn L_ArrayCtor "from" NArrayFrom 1;;
  do _ <- defn L_ArrayProto "push" NArrayProtoPush 1;; do _ <- defn L_ArrayProto "pop" NArrayProtoPop 0;;
  do _ <- defn L_ArrayProto "join" NArrayProtoJoin 1;; do _ <- defn L_ArrayProto "toString" NArrayProtoToString 0;;
  do _ <- defn L_ArrayProto "indexOf" NArrayProtoIndexOf 1;; do _ <- defn L_ArrayProto "includes" NArrayProtoIncludes 1;;
  do _ <- defn L_ArrayProto "slice" NArrayProtoSlice 2;;
  do _ <- defn L_ArrayProto "forEach" NArrayProtoForEach 1;; do _ <- defn L_ArrayProto "map" NArrayProtoMap 1;;
  do _ <- defn L_ArrayProto "filter" NArrayProtoFilter 1;; do _ <- defn L_ArrayProto "some" NArrayProtoSome 1;;
  do _ <- defn L_ArrayProto "every" NArrayProtoEvery 1;; do _ <- defn L_ArrayProto "find" NArrayProtoFind 1;;
  do _ <- defn L_ArrayProto "keys" NArrayProtoKeys 0;; do _ <- defn L_ArrayProto "entries" NArrayProtoEntries 0;;
  do vals <- native_fn NArrayProtoValues "values" 0;;
  do _ <- def L_ArrayProto "values" vals;;
  do _ <- defsym L_ArrayProto SYM_ITERATOR vals true;;
  do _ <- defn L_ArrayIteratorProto "next" NArrayIterNext 0;;
  do _ <- defsym L_ArrayIteratorProto SYM_TOSTRINGTAG (VStr (S "Array Iterator")) false;;
  do itf <- native_fn NIterProtoIterator "[Symbol.iterator]" 0;;
  do _ <- defsym L_IteratorProto SYM_ITERATOR itf true;;
  (* generators *)
  do _ <- defn L_GeneratorProto "next" NGenNext 1;; do _ <- defn L_GeneratorProto "return" NGenReturn 1;;
  do _ <- defn L_GeneratorProto "throw" NGenThrow 1;;
  do _ <- defsym L_GeneratorProto SYM_TOSTRINGTAG (VStr (S "Generator")) false;;
  do gfo <- the_obj L_GeneratorFunctionProto;;
  do _ <- put_obj L_GeneratorFunctionProto (with_props gfo [(KStr s_prototype, PData (VObj L_GeneratorProto) false false true);
                                                            (KSym SYM_TOSTRINGTAG, PData (VStr (S "GeneratorFunction")) false false true)]);;
  do gpo <- the_obj L_GeneratorProto;;
  do _ <- put_obj L_GeneratorProto (with_props gpo ((KStr s_constructor, PData (VObj L_GeneratorFunctionProto) false false true) :: o_props gpo));;
  (* errors *)
  do ec <- new_ctor (NError 0) "Error" 1 L_ErrorProto L_FunctionProto;;
  do _ <- def L_ErrorProto "name" (VStr (S "Error"));; do _ <- def L_ErrorProto "message" (VStr []);;
  do _ <- defn L_ErrorProto "toString" NErrorProtoToString 0;;
  do _ <- (fix go (l : list (N * string * loc)) : M unit :=
             match l with
             | [] => ret tt
             | (k, nm, pl) :: t =>
                 do _ <- new_ctor (NError k) nm 1 pl ec;;
                 do _ <- def pl "name" (VStr (S nm));; do _ <- def pl "message" (VStr []);; go t
             end) [(1%N, "TypeError"%string, L_TypeErrorProto); (2%N, "RangeError"%string, L_RangeErrorProto);
                   (3%N, "ReferenceError"%string, L_ReferenceErrorProto); (4%N, "SyntaxError"%string, L_SyntaxErrorProto);
                   (5%N, "EvalError"%string, L_EvalErrorProto); (6%N, "URIError"%string, L_URIErrorProto)];;
  (* String / Number / Boolean / Symbol / BigInt *)
  do _ <- new_ctor NString "String" 1 L_StringProto L_FunctionProto;;
  do so <- the_obj L_StringProto;;
  do _ <- put_obj L_StringProto (with_props so (o_props so));;
  do _ <- defn L_StringProto "toString" NStringProtoToString 0;; do _ <- defn L_StringProto "valueOf" NStringProtoValueOf 0;;
  do _ <- defn L_StringProto "charAt" NStringProtoCharAt 1;; do _ <- defn L_StringProto "charCodeAt" NStringProtoCharCodeAt 1;;
  do sit <- native_fn NStringProtoIterator "[Symbol.iterator]" 0;;
  do _ <- defsym L_StringProto SYM_ITERATOR sit true;;
  do _ <- defn L_StringIteratorProto "next" NStringIterNext 0;;
  do _ <- defsym L_StringIteratorProto SYM_TOSTRINGTAG (VStr (S "String Iterator")) false;;
  do nc <- new_ctor NNumber "Number" 1 L_NumberProto L_FunctionProto;;
  do _ <- defn L_NumberProto "toString" NNumberProtoToString 1;; do _ <- defn L_NumberProto "valueOf" NNumberProtoValueOf 0;;
  do _ <- defn nc "isInteger" NNumberIsInteger 1;; do _ <- defn nc "isNaN" NNumberIsNaN 1;;
  do _ <- const_prop nc "MAX_SAFE_INTEGER" (VNum (of_Z 9007199254740991));;
  do _ <- const_prop nc "MIN_SAFE_INTEGER" (VNum (of_Z (-9007199254740991)));;
  do _ <- new_ctor NBoolean "Boolean" 1 L_BooleanProto L_FunctionProto;;
  do _ <- defn L_BooleanProto "toString" NBooleanProtoToString 0;; do _ <- defn L_BooleanProto "valueOf" NBooleanProtoValueOf 0;;
  do sc <- new_ctor NSymbol "Symbol" 0 L_SymbolProto L_FunctionProto;;
  do _ <- const_prop sc "iterator" (VSym SYM_ITERATOR);; do _ <- const_prop sc "hasInstance" (VSym SYM_HASINSTANCE);;
  do _ <- const_prop sc "toPrimitive" (VSym SYM_TOPRIMITIVE);; do _ <- const_prop sc "toStringTag" (VSym SYM_TOSTRINGTAG);;
  do _ <- const_prop sc "asyncIterator" (VSym SYM_ASYNCITERATOR);; do _ <- const_prop sc "unscopables" (VSym SYM_UNSCOPABLES);;
  do _ <- defn L_SymbolProto "toString" NSymbolProtoToString 0;;
  do dg <- native_fn NSymbolProtoDescription "get description" 0;;
  do spo <- the_obj L_SymbolProto;;
  do _ <- put_obj L_SymbolProto (with_props spo (o_props spo ++ [(KStr (S "description"), PAcc dg VUndef false true);
                                                                 (KSym SYM_TOSTRINGTAG, PData (VStr (S "Symbol")) false false true)]));;
  do _ <- new_ctor NBigInt "BigInt" 1 L_BigIntProto L_FunctionProto;;
  do _ <- defn L_BigIntProto "toString" NBigIntProtoToString 0;;
  do _ <- defsym L_BigIntProto SYM_TOSTRINGTAG (VStr (S "BigInt")) false;;
  (* Math, Reflect *)
  do ml <- new_obj (Some L_ObjectProto) OOrdinary [];;
  do _ <- defn ml "abs" NMathAbs 1;; do _ <- defn ml "floor" NMathFloor 1;; do _ <- defn ml "ceil" NMathCeil 1;;
  do _ <- defn ml "trunc" NMathTrunc 1;; do _ <- defn ml "sign" NMathSign 1;; do _ <- defn ml "max" NMathMax 2;;
  do _ <- defn ml "min" NMathMin 2;; do _ <- defn ml "sqrt" NMathSqrt 1;;
  do _ <- defsym ml SYM_TOSTRINGTAG (VStr (S "Math")) false;;
  do _ <- def L_Global "Math" (VObj ml);;
  do rl <- new_obj (Some L_ObjectProto) OOrdinary [];;
  do _ <- defn rl "ownKeys" NReflectOwnKeys 1;;
  do _ <- defsym rl SYM_TOSTRINGTAG (VStr (S "Reflect")) false;;
  do _ <- def L_Global "Reflect" (VObj rl);;
  (* Promise *)
  do _ <- ctor_at L_Promise NPromise "Promise" 1 L_PromiseProto;;
  do _ <- defn L_Promise "resolve" NPromiseResolve 1;; do _ <- defn L_Promise "reject" NPromiseReject 1;;
  do _ <- defn L_Promise "all" NPromiseAll 1;; do _ <- defn L_Promise "race" NPromiseRace 1;;
  do _ <- defn L_PromiseProto "then" NPromiseProtoThen 2;; do _ <- defn L_PromiseProto "catch" NPromiseProtoCatch 1;;
  do _ <- defn L_PromiseProto "finally" NPromiseProtoFinally 1;;
  do _ <- defsym L_PromiseProto SYM_TOSTRINGTAG (VStr (S "Promise")) false;;
  do afo <- the_obj L_AsyncFunctionProto;;
  do _ <- put_obj L_AsyncFunctionProto (with_props afo [(KSym SYM_TOSTRINGTAG, PData (VStr (S "AsyncFunction")) false false true)]);;
  (* global environments *)
  fun st =>
    let st1 := set_env st E_GlobalObj {| e_rec := EObj L_Global false; e_outer := None; e_this := TInit (VObj L_Global); e_fobj := None; e_newtarget := VUndef |} in
    let st2 := set_env st1 E_GlobalDecl {| e_rec := EDecl []; e_outer := Some E_GlobalObj; e_this := TNone; e_fobj := None; e_newtarget := VUndef |} in
    ROk tt {| heap := heap st2; next_loc := Pos.max (next_loc st2) FIRST_FREE_LOC; envs := envs st2; next_env := 3%positive; out := out st2;
              next_sym := next_sym st2; sym_descr := sym_descr st2; gens := gens st2; next_gen := next_gen st2;
              promises := promises st2; next_promise := next_promise st2; jobs := jobs st2; sym_registry := sym_registry st2 |}.

Definition init_state : option state :=
  match init_realm empty_state with ROk _ st => Some st | _ => None end.

(* ---- running a script *)
Inductive outcome :=
| OValue (v : value) (st : state)
| OThrow (v : value) (st : state)
| OFuel
| OUnsupported (code : N)
| OInitFailed.

Definition global_ctx (strict : bool) : ctx := {| c_lex := E_GlobalDecl; c_var := E_GlobalObj; c_strict := strict |}.

(* GlobalDeclarationInstantiation (16.1.7), without the early-error checks (see EarlyErrors.v) *)
Definition global_declaration_instantiation (P : prog) (self : ops) (body : list stmt) (c : ctx) : M unit :=
  let fnames := map fst (fun_decls body) in
  let vnames := dedup (filter (fun x => negb (mem_str x fnames)) (var_names body)) [] in
  do _ <- instantiate_block_decls P self c body false;;
  (* functions: last declaration of a name wins *)
  do _ <- (fix go (l : list (str * nat)) (later : list str) : M unit :=
             match l with
             | [] => ret tt
             | (x, i) :: t =>
                 do _ <- go t (x :: later);;
                 if mem_str x later then ret tt else
                 do fv <- make_function P (c_lex c) i None None x None;;
                 do st <- get_state;;
                 do _ <- (match get_obj st L_Global with
                          | Some go_ =>
                              match get_own go_ (KStr x) with
                              | None | Some (PData _ _ _ true) | Some (PAcc _ _ _ true) =>
                                  define_or_throw L_Global (KStr x) (data_desc fv true true false)
                              | _ => define_or_throw L_Global (KStr x) {| d_value := Some fv; d_get := None; d_set := None; d_writable := None; d_enumerable := None; d_configurable := None |}
                              end
                          | None => ret tt end);;
                 do _ <- o_set self L_Global (KStr x) fv (VObj L_Global);; ret tt
             end) (fun_decls body) [];;
  (fix go (l : list str) : M unit :=
     match l with
     | [] => ret tt
     | x :: t =>
         do st <- get_state;;
         do _ <- (if has_own st L_Global (KStr x) then ret true
                  else define_own L_Global (KStr x) (data_desc VUndef true true false));;
         go t
     end) vnames.

(* the Directive Prologue "use strict" is an ExpressionStatement: it contributes the script's first completion value *)
Definition script_frames (P : prog) : list frame :=
  [KSeq (p_body P) (if p_strict P then Some (VStr (S "use strict")) else None)].

(* run [m], then drain the job queue whatever its outcome (the host runs the jobs after the script): the completion is
   m's, the state (printed lines) is the one after the jobs *)
Definition then_drain (self : ops) (m : M value) : M value :=
  fun st =>
    match m st with
    | ROk v st1 =>
        match run_jobs self st1 with
        | ROk _ st2 | RThrow _ st2 => ROk v st2
        | RFuel => RFuel
        | RUnsupported c => RUnsupported c end
    | RThrow v st1 =>
        match run_jobs self st1 with
        | ROk _ st2 | RThrow _ st2 => RThrow v st2
        | RFuel => RFuel
        | RUnsupported c => RUnsupported c end
    | RFuel => RFuel
    | RUnsupported c => RUnsupported c
    end.

Definition run_script (fuel : nat) (P : prog) (st0 : state) : outcome :=
  let self := mk P fuel in
  let c := global_ctx (p_strict P) in
  let m : M value :=
    do _ <- global_declaration_instantiation P self (p_body P) c;;
    do r <- o_run self (script_frames P) (CNormal None) c;;
    match r with
    | MDone (CNormal v) => ret (match v with Some x => x | None => VUndef end)
    | MDone (CThrow v) => throwv v
    | MDone (CReturn v) => ret v
    | MDone _ => ret VUndef
    | _ => unsupported 990%N
    end in
  match then_drain self m st0 with
  | ROk v st => OValue v st
  | RThrow v st => OThrow v st
  | RFuel => OFuel
  | RUnsupported c => OUnsupported c
  end.

Definition run (fuel : nat) (P : prog) : outcome :=
  match init_state with
  | Some st0 => run_script fuel P st0
  | None => OInitFailed
  end.
