(* C14 model, part 1: `IndexedProperties` of core/engine/src/object/property_map.rs, transliterated.
   Definitions only (executable); the proofs are in Proofs_C14.v.

   Storage forms (the exact variant list of the Rust enum):
     DenseI32(ThinVec<i32>) | DenseF64(ThinVec<f64>) | DenseElement(ThinVec<JsValue>)
     | SparseElement(Box<FxHashMap<u32, JsValue>>) | SparseProperty(Box<FxHashMap<u32, PropertyDescriptor>>)
   Hash maps are association lists without duplicate keys; their iteration order is whatever the list
   order happens to be and no theorem depends on it (`keys` is only used through `nsort`/Permutation).
   Values: VInt (JsVariant::Integer32) | VDouble bits (JsVariant::Float64) | VOther (everything else).  *)
From Coq Require Import NArith ZArith List Bool.
Import ListNotations.
Local Open Scope N_scope.

(* ------------------------------------------------------------------------------------------ *)
(* values *)

Inductive other := OUndef | ONull | OBool (b : bool) | OStr (n : N) | OObj (n : N).

Inductive value := VInt (z : Z) | VDouble (b : N) | VOther (o : other).

Definition p52 : N := 4503599627370496.            (* 2^52 *)
Definition p63 : N := 9223372036854775808.         (* 2^63 *)
Definition CANON_NAN : N := 9221120237041090560.   (* 0x7FF8_0000_0000_0000 = f64::NAN.to_bits() *)
Definition NEG_ZERO : N := 9223372036854775808.    (* 0x8000_0000_0000_0000 *)
Definition I32_MIN : Z := (-2147483648)%Z.
Definition I32_MAX : Z := 2147483647%Z.

Definition f64_sign (b : N) : bool := p63 <=? b.
Definition f64_exp (b : N) : N := (b / p52) mod 2048.
Definition f64_man (b : N) : N := b mod p52.
Definition f64_is_nan (b : N) : bool := (f64_exp b =? 2047) && negb (f64_man b =? 0).
(* JsValue::rational / InnerValue::float64 of the NaN-boxed representation canonicalises NaN (C12) *)
Definition canon (b : N) : N := if f64_is_nan b then CANON_NAN else b.

(* Rust `x as i32` for f64: truncation toward zero, saturating, NaN -> 0 *)
Definition f64_to_i32_sat (b : N) : Z :=
  let e := f64_exp b in
  let m := f64_man b in
  let neg := f64_sign b in
  if e =? 2047 then (if m =? 0 then (if neg then I32_MIN else I32_MAX) else 0%Z)
  else if e <? 1023 then 0%Z
  else if 1054 <? e then (if neg then I32_MIN else I32_MAX)
  else
    let mag := Z.of_N ((p52 + m) / 2 ^ (52 - (e - 1023))) in
    let x := if neg then (- mag)%Z else mag in
    Z.max I32_MIN (Z.min I32_MAX x).

(* exact conversion of a natural number 0 < a < 2^53 to binary64 bits *)
Definition pos_to_f64 (a : N) : N :=
  let e := N.log2 a in (1023 + e) * p52 + (a - 2 ^ e) * 2 ^ (52 - e).

(* Rust `f64::from(i32)` *)
Definition i32_to_f64 (z : Z) : N :=
  if (z =? 0)%Z then 0
  else if (z <? 0)%Z then p63 + pos_to_f64 (Z.to_N (- z))
  else pos_to_f64 (Z.to_N z).

(* JsValue::as_i32: Integer32 directly; Float64 when `rational.to_bits() == f64::from(rational as i32).to_bits()` *)
Definition as_i32 (v : value) : option Z :=
  match v with
  | VInt z => Some z
  | VDouble b => let z := f64_to_i32_sat b in if i32_to_f64 z =? b then Some z else None
  | VOther _ => None
  end.

(* JsValue::as_number *)
Definition as_number (v : value) : option N :=
  match v with
  | VInt z => Some (i32_to_f64 z)
  | VDouble b => Some b
  | VOther _ => None
  end.

Definition from_i32 (z : Z) : value := VInt z.             (* JsValue::from(i32) *)
Definition from_f64 (b : N) : value := VDouble (canon b).  (* JsValue::from(f64) = JsValue::rational *)

(* the JS number a numeric value denotes, as its canonical binary64 pattern *)
Definition num_bits (v : value) : option N :=
  match v with
  | VInt z => Some (i32_to_f64 z)
  | VDouble b => Some (canon b)
  | VOther _ => None
  end.

(* normal form of a value: the two numeric variants of one JS number are identified *)
Definition vnorm (v : value) : value :=
  match v with
  | VInt z => VInt z
  | VDouble b => match as_i32 (VDouble b) with Some z => VInt z | None => VDouble (canon b) end
  | VOther o => VOther o
  end.

(* ------------------------------------------------------------------------------------------ *)
(* property descriptors as stored (always complete: validate_and_apply_property_descriptor only
   inserts `into_data_defaulted` / `into_accessor_defaulted` / `current.fill_with(desc)` results) *)

Inductive desc :=
| DData (v : value) (w e c : bool)
| DAcc (g s : option N) (e c : bool).     (* getter / setter ids; None = undefined *)

Definition simple (v : value) : desc := DData v true true true.

(* IndexedProperties::property_simple_value *)
Definition property_simple_value (d : desc) : option value :=
  match d with
  | DData v true true true => Some v
  | _ => None
  end.

Definition dnorm (d : desc) : desc :=
  match d with
  | DData v w e c => DData (vnorm v) w e c
  | DAcc g s e c => DAcc g s e c
  end.

Definition d_configurable (d : desc) : bool := match d with DData _ _ _ c => c | DAcc _ _ _ c => c end.
Definition d_enumerable (d : desc) : bool := match d with DData _ _ e _ => e | DAcc _ _ e _ => e end.

(* ------------------------------------------------------------------------------------------ *)
(* hash maps as association lists *)

Section Maps.
  Context {A : Type}.
  Fixpoint mget (m : list (N * A)) (k : N) : option A :=
    match m with
    | [] => None
    | (k', a) :: t => if k' =? k then Some a else mget t k
    end.
  (* HashMap::insert(..).is_some() and the new map *)
  Fixpoint minsert (m : list (N * A)) (k : N) (a : A) : bool * list (N * A) :=
    match m with
    | [] => (false, [(k, a)])
    | (k', a') :: t =>
        if k' =? k then (true, (k, a) :: t)
        else let (r, t') := minsert t k a in (r, (k', a') :: t')
    end.
  (* HashMap::remove(..).is_some() and the new map *)
  Fixpoint mremove (m : list (N * A)) (k : N) : bool * list (N * A) :=
    match m with
    | [] => (false, [])
    | (k', a') :: t =>
        if k' =? k then (true, t)
        else let (r, t') := mremove t k in (r, (k', a') :: t')
    end.
  Definition mkeys (m : list (N * A)) : list N := map fst m.
  Definition mvalues (m : list (N * A)) : list A := map snd m.
End Maps.

(* vec.into_iter().enumerate() *)
Fixpoint enum_from {A} (i : N) (l : list A) : list (N * A) :=
  match l with
  | [] => []
  | a :: t => (i, a) :: enum_from (N.succ i) t
  end.
Definition enumerate {A} (l : list A) : list (N * A) := enum_from 0 l.

Definition len {A} (l : list A) : N := N.of_nat (length l).
(* vec.get(key as usize); the bound test first, so that the extracted code never builds the unary number
   `N.to_nat k` for a huge out-of-range key *)
Definition vget {A} (l : list A) (k : N) : option A :=
  if k <? len l then nth_error l (N.to_nat k) else None.
Fixpoint set_nth {A} (l : list A) (n : nat) (a : A) : list A :=
  match l, n with
  | [], _ => []
  | _ :: t, O => a :: t
  | h :: t, S n' => h :: set_nth t n' a
  end.
Definition vset {A} (l : list A) (k : N) (a : A) : list A := set_nth l (N.to_nat k) a.

(* `if key == len { vec.push(val); return false } vec[key] = val; return true`  (key <= len) *)
Definition dense_put {A} (l : list A) (k : N) (a : A) : bool * list A :=
  if k =? len l then (false, l ++ [a]) else (true, vset l k a).

(* ------------------------------------------------------------------------------------------ *)
(* IndexedProperties *)

Inductive storage :=
| DenseI32 (l : list Z)
| DenseF64 (l : list N)
| DenseElement (l : list value)
| SparseElement (m : list (N * value))
| SparseProperty (m : list (N * desc)).

Definition storage_default : storage := DenseI32 [].

(* IndexedProperties::from_dense_js_value *)
Definition from_dense_js_value (l : list value) : storage :=
  match l with [] => storage_default | _ => DenseElement l end.

(* fn get *)
Definition get (s : storage) (k : N) : option desc :=
  match s with
  | DenseI32 l => option_map (fun z => simple (from_i32 z)) (vget l k)
  | DenseF64 l => option_map (fun b => simple (from_f64 b)) (vget l k)
  | DenseElement l => option_map simple (vget l k)
  | SparseElement m => option_map simple (mget m k)
  | SparseProperty m => mget m k
  end.

(* convert_dense_to_sparse / convert_dense_to_sparse_values *)
Definition dense_values (s : storage) : option (list value) :=
  match s with
  | DenseI32 l => Some (map from_i32 l)
  | DenseF64 l => Some (map from_f64 l)
  | DenseElement l => Some l
  | _ => None
  end.

Definition map_descs (m : list (N * value)) : list (N * desc) := map (fun kv => (fst kv, simple (snd kv))) m.

(* fn convert_to_sparse_and_insert *)
Definition convert_to_sparse_and_insert (s : storage) (k : N) (d : desc) : bool * storage :=
  match s with
  | DenseI32 l => let (r, m) := minsert (map_descs (enumerate (map from_i32 l))) k d in (r, SparseProperty m)
  | DenseF64 l => let (r, m) := minsert (map_descs (enumerate (map from_f64 l))) k d in (r, SparseProperty m)
  | DenseElement l => let (r, m) := minsert (map_descs (enumerate l)) k d in (r, SparseProperty m)
  | SparseElement m0 => let (r, m) := minsert (map_descs m0) k d in (r, SparseProperty m)
  | SparseProperty m0 => let (r, m) := minsert m0 k d in (r, SparseProperty m)
  end.

(* fn insert: returns (replaced, new storage) *)
Definition insert (s : storage) (k : N) (d : desc) : bool * storage :=
  match property_simple_value d with
  | None => convert_to_sparse_and_insert s k d
  | Some v =>
      match s with
      | DenseI32 l =>
          if k <=? len l then
            match as_i32 v with
            | Some z => let (r, l') := dense_put l k z in (r, DenseI32 l')
            | None =>
                match as_number v with
                | Some b => let (r, l') := dense_put (map i32_to_f64 l) k b in (r, DenseF64 l')
                | None => let (r, l') := dense_put (map from_i32 l) k v in (r, DenseElement l')
                end
            end
          else let (r, m) := minsert (enumerate (map from_i32 l)) k v in (r, SparseElement m)
      | DenseF64 l =>
          if k <=? len l then
            match as_number v with
            | Some b => let (r, l') := dense_put l k b in (r, DenseF64 l')
            | None => let (r, l') := dense_put (map from_f64 l) k v in (r, DenseElement l')
            end
          else let (r, m) := minsert (enumerate (map from_f64 l)) k v in (r, SparseElement m)
      | DenseElement l =>
          if k <=? len l then let (r, l') := dense_put l k v in (r, DenseElement l')
          else let (r, m) := minsert (enumerate l) k v in (r, SparseElement m)
      | SparseElement m0 => let (r, m) := minsert m0 k v in (r, SparseElement m)
      | SparseProperty m0 => let (r, m) := minsert m0 k (simple v) in (r, SparseProperty m)
      end
  end.

(* fn convert_to_sparse_and_remove (only reached with a dense form from `remove`) *)
Definition convert_to_sparse_and_remove (s : storage) (k : N) : bool * storage :=
  match s with
  | DenseI32 l => let (r, m) := mremove (enumerate (map from_i32 l)) k in (r, SparseElement m)
  | DenseF64 l => let (r, m) := mremove (enumerate (map from_f64 l)) k in (r, SparseElement m)
  | DenseElement l => let (r, m) := mremove (enumerate l) k in (r, SparseElement m)
  | SparseProperty m0 => let (r, m) := mremove m0 k in (r, SparseProperty m)
  | SparseElement m0 => let (r, m) := mremove m0 k in (r, SparseElement m)
  end.

(* fn remove: returns (removed, new storage) *)
Definition remove (s : storage) (k : N) : bool * storage :=
  match s with
  | DenseI32 l =>
      if k + 1 =? len l then (true, DenseI32 (removelast l))
      else if len l <=? k then (false, s)
      else convert_to_sparse_and_remove s k
  | DenseF64 l =>
      if k + 1 =? len l then (true, DenseF64 (removelast l))
      else if len l <=? k then (false, s)
      else convert_to_sparse_and_remove s k
  | DenseElement l =>
      if k + 1 =? len l then (true, DenseElement (removelast l))
      else if len l <=? k then (false, s)
      else convert_to_sparse_and_remove s k
  | SparseElement m0 => let (r, m) := mremove m0 k in (r, SparseElement m)
  | SparseProperty m0 => let (r, m) := mremove m0 k in (r, SparseProperty m)
  end.

(* fn contains_key *)
Definition contains_key (s : storage) (k : N) : bool :=
  match s with
  | DenseI32 l => k <? len l
  | DenseF64 l => k <? len l
  | DenseElement l => k <? len l
  | SparseElement m => match mget m k with Some _ => true | None => false end
  | SparseProperty m => match mget m k with Some _ => true | None => false end
  end.

(* pub(crate) fn push_dense: (succeeded, new storage) *)
Definition push_dense (s : storage) (v : value) : bool * storage :=
  match s with
  | DenseI32 l =>
      match as_i32 v with
      | Some z => (true, DenseI32 (l ++ [z]))
      | None =>
          match as_number v with
          | Some b => (true, DenseF64 (map i32_to_f64 l ++ [b]))
          | None => (true, DenseElement (map from_i32 l ++ [v]))
          end
      end
  | DenseF64 l =>
      match as_number v with
      | Some b => (true, DenseF64 (l ++ [b]))
      | None => (true, DenseElement (map from_f64 l ++ [v]))
      end
  | DenseElement l => (true, DenseElement (l ++ [v]))
  | SparseElement _ | SparseProperty _ => (false, s)
  end.

(* pub(crate) fn transform_to_sparse *)
Definition transform_to_sparse (s : storage) : storage :=
  match s with
  | DenseI32 l => SparseElement (enumerate (map from_i32 l))
  | DenseF64 l => SparseElement (enumerate (map from_f64 l))
  | DenseElement l => SparseElement (enumerate l)
  | _ => s
  end.

Fixpoint nseq (start : N) (n : nat) : list N :=
  match n with O => [] | S n' => start :: nseq (N.succ start) n' end.

(* fn keys (iteration order of the hash maps = list order, unspecified) *)
Definition keys (s : storage) : list N :=
  match s with
  | DenseI32 l => nseq 0 (length l)
  | DenseF64 l => nseq 0 (length l)
  | DenseElement l => nseq 0 (length l)
  | SparseElement m => mkeys m
  | SparseProperty m => mkeys m
  end.

(* fn values *)
Definition values (s : storage) : list desc :=
  match s with
  | DenseI32 l => map (fun z => simple (from_i32 z)) l
  | DenseF64 l => map (fun b => simple (from_f64 b)) l
  | DenseElement l => map simple l
  | SparseElement m => map simple (mvalues m)
  | SparseProperty m => mvalues m
  end.

(* fn iter *)
Definition iter (s : storage) : list (N * desc) :=
  match s with
  | DenseI32 l => enumerate (map (fun z => simple (from_i32 z)) l)
  | DenseF64 l => enumerate (map (fun b => simple (from_f64 b)) l)
  | DenseElement l => enumerate (map simple l)
  | SparseElement m => map_descs m
  | SparseProperty m => m
  end.

(* PropertyMap::get_dense_property *)
Definition get_dense_property (s : storage) (k : N) : option value :=
  match s with
  | DenseI32 l => option_map from_i32 (vget l k)
  | DenseF64 l => option_map from_f64 (vget l k)
  | DenseElement l => vget l k
  | SparseElement _ | SparseProperty _ => None
  end.

(* PropertyMap::set_dense_property: None = `false` (caller takes the slow path) *)
Definition set_dense_property (s : storage) (k : N) (v : value) : option storage :=
  match s with
  | DenseI32 l =>
      if k <? len l then
        match v with
        | VInt n => Some (DenseI32 (vset l k n))
        | VDouble b =>
            (* is_rational_integer(n) = n.to_bits() == f64::from(n as i32).to_bits() *)
            let z := f64_to_i32_sat b in
            if i32_to_f64 z =? b then Some (DenseI32 (vset l k z))
            else Some (DenseF64 (vset (map i32_to_f64 l) k b))
        | VOther _ => Some (DenseElement (vset (map from_i32 l) k v))
        end
      else None
  | DenseF64 l =>
      if k <? len l then
        match as_number v with
        | Some b => Some (DenseF64 (vset l k b))
        | None => Some (DenseElement (vset (map from_f64 l) k v))
        end
      else None
  | DenseElement l => if k <? len l then Some (DenseElement (vset l k v)) else None
  | SparseElement _ | SparseProperty _ => None
  end.

(* PropertyMap::to_dense_indexed_properties *)
Definition to_dense_indexed_properties (s : storage) : option (list value) := dense_values s.

(* Array.prototype.shift's dense fast path: `len <= dense.len()` then `dense.remove(0)` *)
Definition shift_dense (s : storage) (n : N) : option (value * storage) :=
  match s with
  | DenseI32 (z :: t) => if n <=? len (z :: t) then Some (from_i32 z, DenseI32 t) else None
  | DenseF64 (b :: t) => if n <=? len (b :: t) then Some (from_f64 b, DenseF64 t) else None
  | DenseElement (v :: t) => if n <=? len (v :: t) then Some (v, DenseElement t) else None
  | _ => None
  end.

(* ------------------------------------------------------------------------------------------ *)
(* abstraction: the index map a storage represents, values in normal form *)

Definition abs (s : storage) (k : N) : option desc :=
  match s with
  | DenseI32 l => option_map (fun z => simple (VInt z)) (vget l k)
  | DenseF64 l => option_map (fun b => simple (vnorm (VDouble b))) (vget l k)
  | DenseElement l => option_map (fun v => simple (vnorm v)) (vget l k)
  | SparseElement m => option_map (fun v => simple (vnorm v)) (mget m k)
  | SparseProperty m => option_map dnorm (mget m k)
  end.

Definition upd (f : N -> option desc) (k : N) (d : option desc) : N -> option desc :=
  fun k' => if k' =? k then d else f k'.

Definition is_some {A} (o : option A) : bool := match o with Some _ => true | None => false end.

(* storage form tags, as observed by the harness through PropertyMap::index_properties() *)
Inductive form := FDenseI32 | FDenseF64 | FDenseElement | FSparseElement | FSparseProperty.
Definition form_of (s : storage) : form :=
  match s with
  | DenseI32 _ => FDenseI32 | DenseF64 _ => FDenseF64 | DenseElement _ => FDenseElement
  | SparseElement _ => FSparseElement | SparseProperty _ => FSparseProperty
  end.

(* insertion sort on keys (ordinary_own_property_keys: `indexes.sort_unstable()`) *)
Fixpoint ninsert (x : N) (l : list N) : list N :=
  match l with
  | [] => [x]
  | y :: t => if x <=? y then x :: l else y :: ninsert x t
  end.
Fixpoint nsort (l : list N) : list N :=
  match l with [] => [] | x :: t => ninsert x (nsort t) end.

(* boolean well-formedness (also used as a run-time guard by the interpreters of ArraySpec.v) *)
Definition in_i32b (z : Z) : bool := ((I32_MIN <=? z) && (z <=? I32_MAX))%Z.
Definition wfvb (v : value) : bool := match v with VInt z => in_i32b z | _ => true end.
Definition wfdb (d : desc) : bool := match d with DData v _ _ _ => wfvb v | DAcc _ _ _ _ => true end.

(* operation sequences at the storage interface *)
Inductive sop := SInsert (k : N) (d : desc) | SRemove (k : N) | SPush (v : value) | SToSparse.

Definition sapply (s : storage) (o : sop) : storage :=
  match o with
  | SInsert k d => snd (insert s k d)
  | SRemove k => snd (remove s k)
  | SPush v => snd (push_dense s v)
  | SToSparse => transform_to_sparse s
  end.

(* number of leading dense elements: the index push_dense writes to *)
Definition dense_len (s : storage) : option N :=
  match s with
  | DenseI32 l => Some (len l) | DenseF64 l => Some (len l) | DenseElement l => Some (len l)
  | _ => None
  end.

Definition aapply (f : N -> option desc) (s : storage) (o : sop) : N -> option desc :=
  match o with
  | SInsert k d => upd f k (Some (dnorm d))
  | SRemove k => upd f k None
  | SPush v => match dense_len s with Some n => upd f n (Some (simple (vnorm v))) | None => f end
  | SToSparse => f
  end.
