(* Extraction of the executable C14 models (ExtrOcamlBasic only; N/Z/positive/nat stay inductive). *)
From Coq Require Import NArith ZArith List Extraction ExtrOcamlBasic.
From C14 Require Import Indexed ArraySpec.
Extraction Language OCaml.

Extraction "../ocaml/C14/c14_model.ml" iobs sobs init_array_i init_plain_i init_a dump_i dump_a form_of i32_to_f64 canon
  N.add N.mul N.of_nat Z.of_N Z.opp.
