(* Extraction of the executable C14 models (ExtrOcamlBasic only; N/Z/positive/nat stay inductive).
   Output goes to ocaml/gen/ (git-ignored, created by vlib.coq_make and tools/setup.py before any Coq build);
   ocaml/C14/build.sh copies it to ocaml/C14/_build/ (git-ignored) and compiles it there. *)
From Coq Require Import NArith ZArith List Extraction ExtrOcamlBasic.
From C14 Require Import Indexed ArraySpec.
Extraction Language OCaml.

Extraction "../ocaml/gen/c14_model.ml" iobs sobs init_array_i init_plain_i init_a dump_i dump_a form_of i32_to_f64 canon
  N.add N.mul N.of_nat Z.of_N Z.opp.
