(* C14 proofs, part A: numbers.  The two numeric variants of a JS number (Integer32 / Float64) and the
   conversions the storage transitions use (`f64::from(i32)`, `as i32`, `JsValue::as_i32`, NaN canonicalisation):
   - an int32 converted to a double is never NaN and never -0, and converts back to itself;
   - hence -0 and NaN can never be narrowed into the DenseI32 form, and widening DenseI32 -> DenseF64 ->
     DenseElement never changes the JS number an element denotes;
   - `vnorm` (the normal form used by the abstraction) identifies exactly the values JS cannot tell apart. *)
From Coq Require Import NArith ZArith List Bool Lia.
From C14 Require Import Indexed.
Import ListNotations.
Local Open Scope N_scope.

Definition in_i32 (z : Z) : Prop := (I32_MIN <= z <= I32_MAX)%Z.
Definition wfv (v : value) : Prop := wfvb v = true.
Definition wfd (d : desc) : Prop := wfdb d = true.

Lemma in_i32b_iff z : in_i32b z = true <-> in_i32 z.
Proof. unfold in_i32b, in_i32. rewrite andb_true_iff, !Z.leb_le. tauto. Qed.

Lemma wfv_int z : wfv (VInt z) <-> in_i32 z.
Proof. unfold wfv. cbn [wfvb]. apply in_i32b_iff. Qed.

Lemma p52_eq : p52 = 2 ^ 52. Proof. reflexivity. Qed.
Lemma p63_eq : p63 = 2048 * p52. Proof. reflexivity. Qed.
Lemma p52_pos : 0 < p52. Proof. reflexivity. Qed.
Lemma p52_nz : p52 <> 0. Proof. discriminate. Qed.

(* ------------------------------------------------------------------------------------------ *)
(* fields of pos_to_f64 *)

Lemma pos_to_f64_shape a : 0 < a -> a < 2 ^ 53 ->
  let e := N.log2 a in
  e <= 52 /\ pos_to_f64 a = (1023 + e) * p52 + (a - 2 ^ e) * 2 ^ (52 - e) /\
  (a - 2 ^ e) * 2 ^ (52 - e) < p52 /\ p52 + (a - 2 ^ e) * 2 ^ (52 - e) = a * 2 ^ (52 - e).
Proof.
  intros Ha Hb e.
  destruct (N.log2_spec a Ha) as [H1 H2]. fold e in H1, H2.
  assert (He : e <= 52).
  { assert (e < 53) by (apply N.log2_lt_pow2; assumption). lia. }
  assert (Hp : 2 ^ e * 2 ^ (52 - e) = p52).
  { rewrite <- N.pow_add_r. replace (e + (52 - e)) with 52 by lia. reflexivity. }
  assert (Hq : 0 < 2 ^ (52 - e)) by (apply N.neq_0_lt_0, N.pow_nonzero; discriminate).
  rewrite N.pow_succ_r' in H2.
  split; [assumption|]. split; [reflexivity|]. split.
  - rewrite <- Hp. apply N.mul_lt_mono_pos_r; [assumption|]. lia.
  - rewrite <- Hp. rewrite <- N.mul_add_distr_r. f_equal. lia.
Qed.

Lemma div_add_small q r : r < p52 -> (q * p52 + r) / p52 = q.
Proof. intros. rewrite N.div_add_l by apply p52_nz. rewrite N.div_small by assumption. lia. Qed.
Lemma mod_add_small q r : r < p52 -> (q * p52 + r) mod p52 = r.
Proof. intros. rewrite N.add_comm, N.mod_add by apply p52_nz. apply N.mod_small. assumption. Qed.

Lemma pos_to_f64_fields a : 0 < a -> a < 2 ^ 53 ->
  let e := N.log2 a in
  f64_exp (pos_to_f64 a) = 1023 + e /\ f64_man (pos_to_f64 a) = (a - 2 ^ e) * 2 ^ (52 - e) /\
  f64_sign (pos_to_f64 a) = false /\ pos_to_f64 a < p63 /\ 0 < pos_to_f64 a.
Proof.
  intros Ha Hb e. destruct (pos_to_f64_shape a Ha Hb) as (He & Hs & Hr & _). fold e in He, Hs, Hr.
  set (r := (a - 2 ^ e) * 2 ^ (52 - e)) in *.
  assert (Hlt : pos_to_f64 a < p63).
  { rewrite Hs, p63_eq. pose proof p52_pos. nia. }
  unfold f64_exp, f64_man, f64_sign. rewrite Hs.
  rewrite div_add_small, mod_add_small by assumption.
  repeat split.
  - apply N.mod_small. lia.
  - apply N.leb_gt. rewrite <- Hs. assumption.
  - rewrite <- Hs. assumption.
  - pose proof p52_pos. nia.
Qed.

(* the same fields with the sign bit set *)
Lemma neg_fields x : x < p63 ->
  f64_exp (p63 + x) = f64_exp x /\ f64_man (p63 + x) = f64_man x /\ f64_sign (p63 + x) = true.
Proof.
  intros Hx. unfold f64_exp, f64_man, f64_sign. repeat split.
  - rewrite p63_eq. rewrite (N.add_comm (2048 * p52)).
    rewrite N.div_add by apply p52_nz.
    replace (x / p52 + 2048) with (x / p52 + 1 * 2048) by lia.
    rewrite N.mod_add by discriminate. reflexivity.
  - rewrite p63_eq. rewrite N.add_comm. apply N.mod_add. apply p52_nz.
  - apply N.leb_le. lia.
Qed.

(* ------------------------------------------------------------------------------------------ *)
(* f64::from(i32) and back *)

Lemma i32_abs_bound z : in_i32 z -> z <> 0%Z ->
  let a := Z.to_N (Z.abs z) in 0 < a /\ a <= 2 ^ 31 /\ a < 2 ^ 53 /\ N.log2 a <= 31.
Proof.
  intros H Hz a. unfold in_i32, I32_MIN, I32_MAX in H.
  assert (H0 : 0 < a) by (unfold a; lia).
  assert (H1 : a <= 2 ^ 31) by (unfold a; change (2 ^ 31) with 2147483648; lia).
  repeat split; try assumption.
  - eapply N.le_lt_trans; [eassumption|]. reflexivity.
  - assert (N.log2 a < 32); [|lia]. apply N.log2_lt_pow2; [assumption|].
    eapply N.le_lt_trans; [eassumption|]. reflexivity.
Qed.

Lemma i32_to_f64_cases z :
  i32_to_f64 z = if (z =? 0)%Z then 0
                 else if (z <? 0)%Z then p63 + pos_to_f64 (Z.to_N (Z.abs z))
                 else pos_to_f64 (Z.to_N (Z.abs z)).
Proof.
  unfold i32_to_f64. destruct (z =? 0)%Z eqn:E0; [reflexivity|].
  destruct (z <? 0)%Z eqn:E1.
  - apply Z.ltb_lt in E1. rewrite Z.abs_neq by lia. reflexivity.
  - apply Z.ltb_ge in E1. rewrite Z.abs_eq by lia. reflexivity.
Qed.

Lemma i32_to_f64_fields z : in_i32 z -> z <> 0%Z ->
  let a := Z.to_N (Z.abs z) in let e := N.log2 a in
  f64_exp (i32_to_f64 z) = 1023 + e /\ f64_man (i32_to_f64 z) = (a - 2 ^ e) * 2 ^ (52 - e) /\
  f64_sign (i32_to_f64 z) = (z <? 0)%Z /\ e <= 31.
Proof.
  intros Hz Hnz a e. destruct (i32_abs_bound z Hz Hnz) as (Ha & _ & Hb & He). fold a in Ha, Hb, He. fold e in He.
  destruct (pos_to_f64_fields a Ha Hb) as (F1 & F2 & F3 & F4 & _). fold e in F1, F2.
  rewrite i32_to_f64_cases. fold a.
  destruct (z =? 0)%Z eqn:E0; [apply Z.eqb_eq in E0; contradiction|].
  destruct (z <? 0)%Z.
  - destruct (neg_fields _ F4) as (G1 & G2 & G3). rewrite G1, G2, G3. auto.
  - auto.
Qed.

Lemma i32_to_f64_not_nan z : in_i32 z -> f64_is_nan (i32_to_f64 z) = false.
Proof.
  intros Hz. destruct (Z.eq_dec z 0) as [->|Hnz]; [reflexivity|].
  destruct (i32_to_f64_fields z Hz Hnz) as (F1 & _ & _ & He).
  unfold f64_is_nan. rewrite F1.
  replace (1023 + _ =? 2047) with false; [reflexivity|]. symmetry. apply N.eqb_neq. lia.
Qed.

Lemma i32_to_f64_canon z : in_i32 z -> canon (i32_to_f64 z) = i32_to_f64 z.
Proof. intros. unfold canon. rewrite i32_to_f64_not_nan by assumption. reflexivity. Qed.

Lemma i32_to_f64_not_negzero z : in_i32 z -> i32_to_f64 z <> NEG_ZERO.
Proof.
  intros Hz E. destruct (Z.eq_dec z 0) as [->|Hnz]; [discriminate|].
  destruct (i32_to_f64_fields z Hz Hnz) as (F1 & _). rewrite E in F1.
  change (f64_exp NEG_ZERO) with 0 in F1. lia.
Qed.

Lemma f64_to_i32_sat_range b : in_i32 (f64_to_i32_sat b).
Proof.
  unfold f64_to_i32_sat, in_i32, I32_MIN, I32_MAX.
  repeat match goal with |- context [if ?c then _ else _] => destruct c end; lia.
Qed.

Lemma i32_roundtrip z : in_i32 z -> f64_to_i32_sat (i32_to_f64 z) = z.
Proof.
  intros Hz. destruct (Z.eq_dec z 0) as [->|Hnz]; [reflexivity|].
  pose proof (i32_to_f64_fields z Hz Hnz) as F. cbv zeta in F. destruct F as (F1 & F2 & F3 & He).
  destruct (i32_abs_bound z Hz Hnz) as (Ha & Hle & Hb & _).
  set (a := Z.to_N (Z.abs z)) in *. set (e := N.log2 a) in *.
  destruct (pos_to_f64_shape a Ha Hb) as (_ & _ & _ & Hsum). fold e in Hsum.
  unfold f64_to_i32_sat. rewrite F1, F2, F3.
  replace (1023 + e =? 2047) with false by (symmetry; apply N.eqb_neq; lia).
  replace (1023 + e <? 1023) with false by (symmetry; apply N.ltb_ge; lia).
  replace (1054 <? 1023 + e) with false by (symmetry; apply N.ltb_ge; lia).
  replace (1023 + e - 1023) with e by lia.
  rewrite Hsum. rewrite N.div_mul by (apply N.pow_nonzero; discriminate).
  unfold in_i32, I32_MIN, I32_MAX in *. unfold a.
  destruct (z <? 0)%Z eqn:E1; [apply Z.ltb_lt in E1|apply Z.ltb_ge in E1]; lia.
Qed.

Lemma as_i32_of_i32 z : in_i32 z -> as_i32 (VDouble (i32_to_f64 z)) = Some z.
Proof. intros. unfold as_i32. rewrite i32_roundtrip by assumption. rewrite N.eqb_refl. reflexivity. Qed.

Lemma as_i32_double b z : as_i32 (VDouble b) = Some z -> b = i32_to_f64 z /\ in_i32 z.
Proof.
  unfold as_i32. destruct (i32_to_f64 (f64_to_i32_sat b) =? b) eqn:E; [|discriminate].
  intros [= <-]. apply N.eqb_eq in E. split; [congruence|apply f64_to_i32_sat_range].
Qed.

Lemma as_i32_range v z : wfv v -> as_i32 v = Some z -> in_i32 z.
Proof.
  destruct v; cbn [as_i32]; intros Hv H.
  - injection H as <-. apply wfv_int. assumption.
  - eapply as_i32_double; eassumption.
  - discriminate.
Qed.

(* -0 and NaN never qualify as int32, so they can never be stored in the DenseI32 form *)
Lemma neg_zero_not_i32 : as_i32 (VDouble NEG_ZERO) = None.
Proof. reflexivity. Qed.

Lemma nan_not_i32 b : f64_is_nan b = true -> as_i32 (VDouble b) = None.
Proof.
  intros Hn. destruct (as_i32 (VDouble b)) eqn:E; [|reflexivity].
  apply as_i32_double in E. destruct E as (-> & Hz).
  rewrite i32_to_f64_not_nan in Hn by assumption. discriminate.
Qed.

Lemma canon_idem b : canon (canon b) = canon b.
Proof. unfold canon. destruct (f64_is_nan b) eqn:E; [reflexivity|]. rewrite E. reflexivity. Qed.

Lemma canon_not_nan b : f64_is_nan b = false -> canon b = b.
Proof. unfold canon. intros ->. reflexivity. Qed.

Lemma as_i32_canon b : as_i32 (VDouble (canon b)) = as_i32 (VDouble b).
Proof.
  destruct (f64_is_nan b) eqn:E.
  - rewrite (nan_not_i32 b E). unfold canon. rewrite E. reflexivity.
  - rewrite canon_not_nan by assumption. reflexivity.
Qed.

(* ------------------------------------------------------------------------------------------ *)
(* normal forms *)

Lemma vnorm_int z : vnorm (VInt z) = VInt z. Proof. reflexivity. Qed.
Lemma vnorm_other o : vnorm (VOther o) = VOther o. Proof. reflexivity. Qed.

Lemma vnorm_of_i32 z : in_i32 z -> vnorm (VDouble (i32_to_f64 z)) = VInt z.
Proof. intros. unfold vnorm. rewrite as_i32_of_i32 by assumption. reflexivity. Qed.

Lemma vnorm_from_f64 b : vnorm (from_f64 b) = vnorm (VDouble b).
Proof. unfold from_f64, vnorm. rewrite as_i32_canon, canon_idem. reflexivity. Qed.

Lemma vnorm_wf v : wfv v -> wfv (vnorm v).
Proof.
  destruct v; cbn [vnorm]; intros Hv; try assumption.
  destruct (as_i32 (VDouble b)) eqn:E; [|reflexivity].
  apply wfv_int. eapply as_i32_double; eassumption.
Qed.

Lemma vnorm_idem v : wfv v -> vnorm (vnorm v) = vnorm v.
Proof.
  destruct v; cbn [vnorm]; intros Hv; try reflexivity.
  destruct (as_i32 (VDouble b)) eqn:E; [reflexivity|].
  cbn [vnorm]. rewrite as_i32_canon, E, canon_idem. reflexivity.
Qed.

(* the normal form denotes the same JS number *)
Lemma vnorm_num_bits v : wfv v -> num_bits (vnorm v) = num_bits v.
Proof.
  destruct v; cbn [vnorm]; intros Hv; try reflexivity.
  destruct (as_i32 (VDouble b)) eqn:E.
  - apply as_i32_double in E. destruct E as (-> & Hz). cbn [num_bits].
    rewrite i32_to_f64_canon by assumption. reflexivity.
  - cbn [num_bits]. rewrite canon_idem. reflexivity.
Qed.

Lemma i32_to_f64_inj z1 z2 : in_i32 z1 -> in_i32 z2 -> i32_to_f64 z1 = i32_to_f64 z2 -> z1 = z2.
Proof. intros H1 H2 E. rewrite <- (i32_roundtrip z1 H1), <- (i32_roundtrip z2 H2), E. reflexivity. Qed.

(* what JS can observe of a value: the number it denotes (canonical bits) or the non-numeric value itself *)
Definition js_same (v1 v2 : value) : Prop :=
  match num_bits v1, num_bits v2 with
  | Some x, Some y => x = y
  | None, None => v1 = v2
  | _, _ => False
  end.

Lemma vnorm_eq_iff v1 v2 : wfv v1 -> wfv v2 -> (vnorm v1 = vnorm v2 <-> js_same v1 v2).
Proof.
  intros H1 H2. unfold js_same. split.
  - intros E. rewrite <- (vnorm_num_bits v1 H1), <- (vnorm_num_bits v2 H2), E.
    destruct (num_bits (vnorm v2)) eqn:En; [reflexivity|].
    destruct v1 as [|b1|o1]; destruct v2 as [|b2|o2]; cbn [vnorm] in *;
      repeat match goal with
             | H : context [match as_i32 ?x with _ => _ end] |- _ => destruct (as_i32 x)
             end; cbn [num_bits] in *; try discriminate; assumption.
  - assert (Hnf : forall v, wfv v -> forall x, num_bits v = Some x ->
                  vnorm v = match as_i32 (VDouble x) with Some z => VInt z | None => VDouble x end).
    { intros v Hv x Hx. destruct v as [z|b|o]; cbn [num_bits] in Hx; try discriminate; injection Hx as <-.
      - apply wfv_int in Hv. rewrite as_i32_of_i32 by assumption. reflexivity.
      - cbn [vnorm]. rewrite as_i32_canon. destruct (as_i32 (VDouble b)); reflexivity. }
    destruct (num_bits v1) eqn:E1, (num_bits v2) eqn:E2; try contradiction.
    + intros ->. rewrite (Hnf v1 H1 _ E1), (Hnf v2 H2 _ E2). reflexivity.
    + intros ->. reflexivity.
Qed.
