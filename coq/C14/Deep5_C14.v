(* C14 deepening, part 5: the mutating operations. *)
From Coq Require Import NArith ZArith List Bool Lia.
From C14 Require Import Indexed ArraySpec ProofsA_C14 ProofsB_C14 ProofsC_C14 ProofsD_C14 Deep1_C14 Deep2_C14 Deep3_C14 Deep4_C14.
Import ListNotations.
Local Open Scope N_scope.

(* postcondition: element bound b after a normal completion, the plain invariant after an abrupt one *)
Definition PB {A} (kd : kind) (b : N) (r : result A) (s : storage) (m : meta) : Prop :=
  match r with inl _ => IK kd b s m | inr _ => I0 kd s m end.
Definition POST {A} (kd : kind) (r : result A) (s : storage) (m : meta) : Prop := I0 kd s m.

Lemma PB_POST {A} kd b (r : result A) s m : PB kd b r s m -> POST kd r s m.
Proof. destruct r; cbn; [apply IK_I0|auto]. Qed.

Lemma to_PB {A} kd b (P : flavour -> prog A) : ok (IK kd b) P (fun _ => IK kd b) -> ok (IK kd b) P (PB kd b).
Proof. intros H. eapply ok_weaken; [exact H|auto|]. intros [a|e] s m Hk; cbn; [exact Hk|eapply IK_I0; exact Hk]. Qed.

Lemma ok_bindPB {A B} kd b b1 (P : flavour -> prog A) (F : A -> flavour -> prog B) Post :
  ok (IK kd b) P (PB kd b1) -> (forall a, ok (IK kd b1) (F a) Post) ->
  (forall e s m, I0 kd s m -> Post (inr e) s m) ->
  ok (IK kd b) (fun fl => bind (P fl) (fun a => F a fl)) Post.
Proof. intros HP HF HE. apply (ok_bind (IK kd b) P F (PB kd b1) Post); auto. Qed.

Lemma ok_seqPB {A} kd b b1 (P : flavour -> prog unit) (Q : flavour -> prog A) Post :
  ok (IK kd b) P (PB kd b1) -> ok (IK kd b1) Q Post -> (forall e s m, I0 kd s m -> Post (inr e) s m) ->
  ok (IK kd b) (fun fl => P fl ;;; Q fl) Post.
Proof. intros HP HQ HE. apply (@ok_bindPB unit A kd b b1 P (fun (_ : unit) fl => Q fl) Post); auto. Qed.

Lemma PB_err {A} kd b e s m : I0 kd s m -> @PB A kd b (inr e) s m.
Proof. auto. Qed.
Lemma POST_err {A} kd e s m : I0 kd s m -> @POST A kd (inr e) s m.
Proof. auto. Qed.

Lemma ok_mono_pre {A} kd b b' (P : flavour -> prog A) Post : b <= b' -> ok (IK kd b') P Post -> ok (IK kd b) P Post.
Proof. intros Hb H. eapply ok_weaken; [exact H| |auto]. intros s m Hk. eapply IK_mono; eassumption. Qed.

Lemma ok_retPB {A} kd b (a : A) : ok (IK kd b) (fun _ => Ret a) (PB kd b).
Proof. apply to_PB, ok_ret_IK. Qed.
Lemma ok_retPOST {A} kd b (a : A) : ok (IK kd b) (fun _ => Ret a) (POST kd).
Proof. intros s m H. split; [reflexivity|]. eapply IK_I0. exact H. Qed.
Lemma ok_throwPOST {A} kd b e : ok (IK kd b) (fun _ => @Throw A e) (POST kd).
Proof. intros s m H. split; [reflexivity|]. eapply IK_I0. exact H. Qed.

Lemma ok_roPB {A} kd b (p : prog A) : ro p -> ok (IK kd b) (fun _ => p) (PB kd b).
Proof. intros H. apply to_PB, ok_ro_IK, H. Qed.

(* delete the top index: the bound drops *)
Lemma ok_del_top kd b : ok (IK kd (b + 1)) (fun _ => delete_or_throw b) (PB kd b).
Proof.
  eapply ok_weaken; [apply (ok_delete_or_throw kd (b + 1) b)|auto|].
  intros [[]|e] s m [H1 H2]; cbn.
  - apply IK_drop; auto.
  - eapply IK_I0. exact H1.
Qed.

Lemma ok_delete_down kd : forall cnt top, N.of_nat cnt <= top ->
  ok (IK kd top) (fun _ => delete_down cnt top) (PB kd (top - N.of_nat cnt)).
Proof.
  induction cnt as [|c IH]; intros top Hc; cbn [delete_down].
  - replace (top - N.of_nat 0) with top by lia. apply ok_retPB.
  - apply (ok_seqPB kd top (top - 1)).
    + replace top with (top - 1 + 1) at 1 by lia. apply ok_del_top.
    + replace (top - N.of_nat (S c)) with (top - 1 - N.of_nat c) by lia. apply IH. lia.
    + intros e s m H. exact H.
Qed.

Lemma ok_setlen_ret {A} kd n (a : A) : ok (IK kd n) (fun fl => set_len fl n ;;; Ret a) (POST kd).
Proof.
  apply (ok_seqPB kd n n); [apply to_PB, ok_set_len|apply ok_retPOST|auto].
Qed.

(* start of an operation: read the length *)
Lemma ok_op_len {A} kd (BODY : N -> flavour -> prog A) :
  (forall n, n <= U32 -> ok (IK kd n) (BODY n) (POST kd)) ->
  ok (I0 kd) (fun fl => n <- get_len ;; BODY n fl) (POST kd).
Proof.
  intros H s m Hi. unfold get_len. rewrite !run_bind, !run_get_meta. cbn [run_i].
  apply H; [apply Hi|]. apply I0_IK; [exact Hi|lia].
Qed.

(* ------------------------------------------------------------------------------------------ *)
(* index / descriptor operations *)

Lemma ok_OSet kd k v : k <= MAX_INDEX -> ok (I0 kd) (fun fl => op_prog fl (OSet k v)) (POST kd).
Proof.
  intros Hmax s m Hi. cbn [op_prog].
  assert (HIK : IK kd (N.max (meta_len m) (k + 1)) s m) by (apply I0_IK; [exact Hi|lia]).
  refine (ok_seqPB kd _ _ (fun fl => set_or_throw fl k v) (fun _ => Ret RNone) (POST kd) _ _ _ s m HIK).
  - apply to_PB, ok_set_or_throw; [assumption|lia].
  - apply ok_retPOST.
  - auto.
Qed.

Lemma ok_OGet kd k : ok (I0 kd) (fun fl => op_prog fl (OGet k)) (POST kd).
Proof. cbn [op_prog]. apply ok_ro_I0. apply ro_bind; [apply ro_get_idx|intros; constructor]. Qed.

Lemma ok_ODel kd k : ok (I0 kd) (fun fl => op_prog fl (ODel k)) (POST kd).
Proof.
  intros s m Hi. cbn [op_prog].
  assert (HIK : IK kd (meta_len m) s m) by (apply I0_IK; [exact Hi|lia]).
  refine (ok_seqPB kd _ _ (fun _ => delete_or_throw k) (fun _ => Ret RNone) (POST kd) _ _ _ s m HIK).
  - apply to_PB, ok_delete_or_throw'.
  - apply ok_retPOST.
  - auto.
Qed.

Lemma ok_ODef kd k p : k <= MAX_INDEX -> ok (I0 kd) (fun fl => op_prog fl (ODef k p)) (POST kd).
Proof.
  intros Hmax s m Hi. cbn [op_prog]. destruct (negb (pd_ok p)).
  - split; [reflexivity|exact Hi].
  - assert (HIK : IK kd (N.max (meta_len m) (k + 1)) s m) by (apply I0_IK; [exact Hi|lia]).
    refine (ok_bindPB kd _ _ (fun fl => define_idx fl k p)
              (fun (r : bool) (_ : flavour) => if r then Ret RNone else Throw TypeError) (POST kd) _ _ _ s m HIK).
    + apply to_PB, ok_define_idx; [assumption|lia].
    + intros [|]; [apply ok_retPOST|apply ok_throwPOST].
    + auto.
Qed.

Lemma ok_OPrevent kd : ok (I0 kd) (fun fl => op_prog fl OPrevent) (POST kd).
Proof.
  intros s m Hi. cbn [op_prog]. split; [reflexivity|]. cbn.
  eapply I0_msame; [exact Hi|]. split; reflexivity.
Qed.

(* ------------------------------------------------------------------------------------------ *)
(* push / pop / shift / unshift *)

Lemma ok_OPush kd vs : ok (I0 kd) (fun fl => op_prog fl (OPush vs)) (POST kd).
Proof.
  cbn [op_prog]. unfold a_push. apply ok_op_len. intros n Hn. cbv zeta.
  destruct (N.ltb_spec MAX_INDEX (n + len vs)) as [|Hmax]; [apply ok_throwPOST|].
  apply (ok_mono_pre kd n (n + len vs)); [lia|].
  apply (ok_seqPB kd _ (n + len vs)); [|apply ok_setlen_ret|auto].
  apply to_PB, ok_push_loop; [unfold MAXB, MAX_INDEX in *; lia|lia].
Qed.

Lemma ok_OPop kd : ok (I0 kd) (fun fl => op_prog fl OPop) (POST kd).
Proof.
  cbn [op_prog]. unfold a_pop. apply ok_op_len. intros n Hn.
  destruct (N.eqb_spec n 0) as [->|Hn0]; [apply ok_setlen_ret|].
  apply (ok_bindPB kd n n (fun _ => get_idx (n - 1))); [apply ok_roPB, ro_get_idx| |auto].
  intros v. apply (ok_seqPB kd n (n - 1)); [|apply ok_setlen_ret|auto].
  replace n with (n - 1 + 1) at 1 by lia. apply ok_del_top.
Qed.

Lemma guard_ok {A} kd b n (Q : flavour -> prog A) :
  (n <= LOOP_LIMIT -> ok (IK kd b) Q (POST kd)) -> ok (IK kd b) (fun fl => guard_loop n ;;; Q fl) (POST kd).
Proof.
  intros H. unfold guard_loop. destruct (N.ltb_spec LOOP_LIMIT n); cbn [bind]; [apply ok_throwPOST|apply H; assumption].
Qed.

Lemma ok_OShift kd : ok (I0 kd) (fun fl => op_prog fl OShift) (POST kd).
Proof.
  cbn [op_prog]. unfold a_shift. apply ok_op_len. intros n Hn.
  destruct (N.eqb_spec n 0) as [->|Hn0]; [apply ok_setlen_ret|].
  apply guard_ok. intros Hg.
  apply (ok_bindPB kd n n (fun _ => get_idx 0)); [apply ok_roPB, ro_get_idx| |auto].
  intros first.
  apply (ok_seqPB kd n n).
  - apply to_PB, ok_move_up; [unfold MAXB, U32 in *; lia|lia].
  - apply (ok_seqPB kd n (n - 1)); [|apply ok_setlen_ret|auto].
    replace n with (n - 1 + 1) at 1 by lia. apply ok_del_top.
  - auto.
Qed.

Lemma ok_OUnshift kd vs : ok (I0 kd) (fun fl => op_prog fl (OUnshift vs)) (POST kd).
Proof.
  cbn [op_prog]. unfold a_unshift. apply ok_op_len. intros n Hn. cbv zeta.
  destruct (N.ltb_spec MAX_INDEX (n + len vs)) as [|Hmax]; [apply ok_throwPOST|].
  apply (ok_mono_pre kd n (n + len vs)); [lia|].
  apply (ok_seqPB kd _ (n + len vs)); [|apply ok_setlen_ret|auto].
  destruct (0 <? len vs); [|apply ok_retPB].
  unfold guard_loop. destruct (N.ltb_spec LOOP_LIMIT n); cbn [bind].
  - intros s m Hx. split; [reflexivity|]. cbn. eapply IK_I0; exact Hx.
  - apply (ok_seqPB kd _ (n + len vs)).
    + apply to_PB, ok_move_down; [unfold MAXB, MAX_INDEX in *; lia|lia|lia].
    + apply to_PB, ok_set_items; [unfold MAXB, MAX_INDEX in *; lia|lia].
    + auto.
Qed.

(* ------------------------------------------------------------------------------------------ *)
(* reverse / fill / copyWithin *)

Lemma ok_OReverse kd : ok (I0 kd) (fun fl => op_prog fl OReverse) (POST kd).
Proof.
  cbn [op_prog]. unfold a_reverse. apply ok_op_len. intros n Hn.
  apply guard_ok. intros Hg.
  apply (ok_seqPB kd n n); [|apply ok_retPOST|auto].
  apply to_PB, (ok_reverse_loop kd n n); [unfold MAXB, U32 in *; lia|lia|].
  rewrite N2Nat.id. assert (n / 2 <= n) by (apply N.div_le_upper_bound; lia). lia.
Qed.

Lemma rel_start_le r n : rel_start r n <= n.
Proof. destruct r as [|z| |]; cbn [rel_start]; try lia. destruct (Z.ltb_spec z 0); lia. Qed.
Lemma rel_end_le r n : rel_end r n <= n.
Proof. destruct r; cbn [rel_end]; try lia; apply rel_start_le. Qed.

Lemma ok_OFill kd v s0 e0 : ok (I0 kd) (fun fl => op_prog fl (OFill v s0 e0)) (POST kd).
Proof.
  cbn [op_prog]. unfold a_fill. apply ok_op_len. intros n Hn. cbv zeta.
  apply guard_ok. intros Hg.
  apply (ok_seqPB kd n n); [|apply ok_retPOST|auto].
  pose proof (rel_start_le s0 n). pose proof (rel_end_le e0 n).
  apply to_PB, ok_fill_loop; [unfold MAXB, U32 in *; lia|]. rewrite N2Nat.id. lia.
Qed.

Lemma ok_OCopyWithin kd t0 s0 e0 : ok (I0 kd) (fun fl => op_prog fl (OCopyWithin t0 s0 e0)) (POST kd).
Proof.
  cbn [op_prog]. unfold a_copy_within. apply ok_op_len. intros n Hn. cbv zeta.
  pose proof (rel_start_le t0 n) as Ht. pose proof (rel_start_le s0 n) as Hs. pose proof (rel_end_le e0 n) as He.
  set (to := Z.of_N (rel_start t0 n)) in *. set (from := Z.of_N (rel_start s0 n)) in *.
  set (final := Z.of_N (rel_end e0 n)) in *. set (count := Z.min (final - from) (Z.of_N n - to)).
  apply guard_ok. intros Hg.
  apply (ok_seqPB kd n n); [|apply ok_retPOST|auto].
  assert (Hb : n <= MAXB) by (unfold MAXB, U32 in *; lia).
  destruct ((from <? to) && (to <? from + count))%Z; apply to_PB, ok_copy_loop; try assumption.
  - intros j Hj. assert (Z.of_nat j < count)%Z by lia. subst to count. lia.
  - intros j Hj. assert (Z.of_nat j < count)%Z by lia. subst to count. lia.
Qed.

(* ------------------------------------------------------------------------------------------ *)
(* splice *)

Lemma splice_delete_count_le n st hs dc : splice_delete_count n st hs dc <= n - st.
Proof.
  unfold splice_delete_count. destruct (negb hs); [lia|].
  destruct dc as [[|z| |]|]; try lia. destruct (z <? 0)%Z; lia.
Qed.

Lemma ok_OSplice kd st0 dc items : ok (I0 kd) (fun fl => op_prog fl (OSplice st0 dc items)) (POST kd).
Proof.
  cbn [op_prog]. unfold a_splice. apply ok_op_len. intros n Hn. cbv zeta.
  set (st := rel_start match st0 with Some r => r | None => RAbs end n).
  set (ic := len items). set (dcount := splice_delete_count n st (is_some st0) dc).
  assert (Hst : st <= n) by apply rel_start_le.
  assert (Hdc : dcount <= n - st) by apply splice_delete_count_le.
  destruct (N.ltb_spec MAX_INDEX (n + ic - dcount)) as [|Hmax]; [apply ok_throwPOST|].
  apply guard_ok. intros Hg.
  apply (ok_bindPB kd n n (fun _ => collect (N.to_nat dcount) st 0)); [apply ok_roPB, ro_collect| |auto].
  intros removed.
  assert (Hb : n - dcount + ic <= MAXB) by (unfold MAXB, MAX_INDEX in *; lia).
  assert (Hbn : n <= MAXB) by (unfold MAXB, U32 in *; lia).
  destruct (N.ltb_spec ic dcount) as [Hshrink|Hns].
  - (* fewer items than deleted: move down, delete the tail *)
    apply (ok_seqPB kd n (n - dcount + ic)).
    + apply (ok_seqPB kd n n).
      * apply to_PB, ok_move_up; [assumption|]. rewrite N2Nat.id. lia.
      * replace (n - dcount + ic) with (n - N.of_nat (N.to_nat (dcount - ic))) by (rewrite N2Nat.id; lia).
        apply ok_delete_down. rewrite N2Nat.id. lia.
      * auto.
    + apply (ok_seqPB kd _ (n - dcount + ic)); [|apply ok_setlen_ret|auto].
      apply to_PB, ok_set_items; [assumption|]. fold ic. lia.
    + auto.
  - apply (ok_mono_pre kd n (n - dcount + ic)); [lia|].
    apply (ok_seqPB kd _ (n - dcount + ic)).
    + destruct (N.ltb_spec dcount ic) as [Hgrow|Heq].
      * apply to_PB, ok_move_down; [assumption| |lia]. rewrite N2Nat.id. lia.
      * apply ok_retPB.
    + apply (ok_seqPB kd _ (n - dcount + ic)); [|apply ok_setlen_ret|auto].
      apply to_PB, ok_set_items; [assumption|]. fold ic. lia.
    + auto.
Qed.
