(* C14 deepening, part 7: writes to `length` (ArraySetLength with its descending delete loop) and freeze / seal. *)
From Coq Require Import NArith ZArith List Bool Lia Sorted.
From C14 Require Import Indexed ArraySpec ProofsA_C14 ProofsB_C14 ProofsC_C14 ProofsD_C14
     Deep1_C14 Deep2_C14 Deep3_C14 Deep4_C14 Deep5_C14.
Import ListNotations.
Local Open Scope N_scope.

Definition lv (d : desc) : N := match d with DData v _ _ _ => len_of_value v | DAcc _ _ _ _ => 0 end.
Lemma meta_len_lv m : meta_len m = lv (m_len m). Proof. reflexivity. Qed.

Definition noacc (p : pdesc) : Prop := p_get p = None /\ p_set p = None.

(* ValidateAndApplyPropertyDescriptor on a data `length` with a data / generic descriptor: the kind never changes,
   the value is the old one or the requested one *)
Lemma vaa_data ext p v w e c : noacc p ->
  match validate_and_apply ext p (Some (DData v w e c)) with
  | VStore d => exists w' e' c', d = DData (odflt (p_value p) v) w' e' c'
  | _ => True
  end.
Proof.
  intros [Hg Hs]. destruct p as [pv pw pg ps pe pc]. cbn [p_get p_set] in *. subst pg ps.
  destruct ext, pv as [x|], pw as [[]|], pe as [[]|], pc as [[]|], w, e, c;
    cbn [validate_and_apply pd_is_empty pd_is_generic pd_is_accessor pd_is_data p_get p_set p_value p_writable p_enum p_conf
         is_some orb negb andb d_configurable d_enumerable d_is_data Bool.eqb fill_with convert_kind odflt];
    repeat match goal with |- context [if ?b then _ else _] => destruct b end; eauto.
Qed.

(* ... with a value, on a writable `length`: stored unless the attributes are refused *)
Lemma vaa_store ext p x v e c : noacc p -> p_value p = Some x ->
  validate_and_apply ext p (Some (DData v true e c)) =
  if negb c && (match p_conf p with Some true => true | _ => false end ||
                match p_enum p with Some y => negb (Bool.eqb y e) | None => false end)
  then VReject else VStore (fill_with (DData v true e c) p).
Proof.
  intros [Hg Hs] Hv. destruct p as [pv pw pg ps pe pc]. cbn [p_get p_set p_value] in *. subst pg ps pv.
  unfold validate_and_apply, pd_is_empty, pd_is_generic, pd_is_accessor, pd_is_data.
  cbn [p_get p_set p_value p_writable p_enum p_conf is_some orb negb andb d_configurable d_enumerable d_is_data Bool.eqb].
  rewrite andb_false_r. destruct (negb c && _); reflexivity.
Qed.

(* OrdinaryDefineOwnProperty on "length": storage untouched, kind and extensibility kept *)
Lemma odl_run s m p : exists r m', run_i (ordinary_define_len p) s m = (r, s, m') /\
  m_kind m' = m_kind m /\
  ((m' = m /\ (r = inl false \/ r = inl true)) \/
   (exists d, validate_and_apply (m_ext m) p (Some (m_len m)) = VStore d /\ m' = with_len m d /\ r = inl true)).
Proof.
  unfold ordinary_define_len. rewrite run_bind, run_get_meta.
  destruct (validate_and_apply (m_ext m) p (Some (m_len m))) as [| |d] eqn:E; cbn [run_i].
  - exists (inl false), m. auto 10.
  - exists (inl true), m. auto 10.
  - rewrite run_bind. cbn [set_meta run_i]. exists (inl true), (with_len m d). split; [reflexivity|].
    split; [reflexivity|]. right. exists d. auto.
Qed.

(* canonical lengths *)
Definition canon_desc (d : desc) : Prop := exists x w e c, x <= U32 /\ d = DData (value_of_N x) w e c.

Lemma canon_desc_len m : canon_desc (m_len m) -> len_canonical m /\ meta_len m <= U32.
Proof.
  intros (x & w & e & c & Hx & Hd). assert (Hl : meta_len m = x).
  { unfold meta_len. rewrite Hd. apply len_of_value_of_N, u32_lt_53, Hx. }
  split; [exists w, e, c; rewrite Hl; exact Hd|lia].
Qed.

Lemma len_canonical_desc m : len_canonical m -> meta_len m <= U32 -> canon_desc (m_len m).
Proof. intros (w & e & c & H) Hu. exists (meta_len m), w, e, c. auto. Qed.

(* a define on "length" whose value (if any) is canonical keeps the length canonical *)
Lemma odl_canon s m p : noacc p -> canon_desc (m_len m) ->
  (match p_value p with Some v => exists x, x <= U32 /\ v = value_of_N x | None => True end) ->
  canon_desc (m_len (mt_of (run_i (ordinary_define_len p) s m))).
Proof.
  intros Hna Hc Hv. destruct (odl_run s m p) as (r & m' & -> & _ & [[-> _]|(d & E & -> & _)]); unfold mt_of; cbn [snd].
  - exact Hc.
  - destruct Hc as (x & w & e & c & Hx & Hd). rewrite Hd in E.
    pose proof (vaa_data (m_ext m) p (value_of_N x) w e c Hna) as H. rewrite E in H.
    destruct H as (w' & e' & c' & ->). cbn [with_len m_len].
    destruct (p_value p) as [v|]; cbn [odflt].
    + destruct Hv as (y & Hy & ->). exists y, w', e', c'. auto.
    + exists x, w', e', c'. auto.
Qed.

Lemma to_array_len_bound v n : wfv v -> to_array_len v = inl (Some n) -> n <= U32.
Proof.
  destruct v as [z|b|[| |[]|x|x]]; cbn [to_array_len]; intros Hv H; try discriminate.
  - apply wfv_int in Hv. unfold in_i32, I32_MIN, I32_MAX in Hv. destruct (z <? 0)%Z; [discriminate|].
    injection H as <-. unfold U32. lia.
  - injection H as H. unfold f64_integral_u32 in H.
    destruct (f64_is_nan b); [discriminate|].
    destruct (b =? NEG_ZERO); [injection H as <-; unfold U32; lia|].
    destruct (f64_sign b); [discriminate|].
    destruct (b =? 0); [injection H as <-; unfold U32; lia|].
    destruct ((f64_to_N b <? 4294967296) && (0 <? f64_to_N b) && (pos_to_f64 (f64_to_N b) =? b)) eqn:E; [|discriminate].
    injection H as <-. apply andb_true_iff in E. destruct E as [E _]. apply andb_true_iff in E. destruct E as [E _].
    apply N.ltb_lt in E. unfold U32. lia.
  - injection H as <-. unfold U32. lia.
  - injection H as <-. unfold U32. lia.
  - injection H as <-. unfold U32. lia.
Qed.

Lemma run_delete_idx s m k : wf s ->
  exists r s1, run_i (delete_idx k) s m = (inl r, s1, m) /\ wf s1 /\
    (forall k', abs s1 k' <> None -> abs s k' <> None /\ (r = true -> k' <> k)).
Proof.
  intros Hwf. unfold delete_idx. rewrite run_bind, run_get_own by assumption.
  destruct (abs s k) as [d|] eqn:E; cbn [run_i].
  - destruct (d_configurable d); cbn [run_i].
    + rewrite run_bind. cbn [rem run_i]. destruct (remove_abs s k Hwf) as (Hw1 & _ & Ha).
      exists true, (snd (remove s k)). split; [reflexivity|]. split; [assumption|].
      intros k' Hk'. rewrite Ha in Hk'. unfold upd in Hk'. destruct (N.eqb_spec k' k); [congruence|]. auto.
    + exists false, s. split; [reflexivity|]. split; [assumption|]. intros k' Hk'. split; [assumption|discriminate].
  - exists true, s. split; [reflexivity|]. split; [assumption|]. intros k' Hk'. split; [assumption|]. intros _ ->. congruence.
Qed.

Definition AInv (s : storage) (m : meta) : Prop :=
  wf s /\ m_kind m = KArray /\ canon_desc (m_len m) /\ forall k, abs s k <> None -> k < meta_len m.

Lemma AInv_I0 s m : AInv s m -> I0 KArray s m.
Proof.
  intros (Hwf & Hk & Hc & Hel). destruct (canon_desc_len m Hc) as [H1 H2].
  split; [assumption|]. split; [assumption|]. split; [assumption|]. intros _. split; assumption.
Qed.

Lemma I0_AInv s m : I0 KArray s m -> AInv s m.
Proof.
  intros (Hk & Hwf & Hu & Hi). destruct (Hi (proj2 (is_array_kind m) Hk)) as [Hel Hc].
  split; [assumption|]. split; [assumption|]. split; [apply len_canonical_desc; assumption|assumption].
Qed.

(* the delete loop of ArraySetLength.  m1 is the meta state after step 15 (length = nl, writable);
   `Hstop` : re-defining the length to idx + 1 (step 17.b.iii) succeeds; `Hend` : step 18 keeps the value *)
Lemma asl_loop (nl : N) (nw : bool) (p1 : pdesc) (m1 : meta) :
  m_kind m1 = KArray -> canon_desc (m_len m1) -> meta_len m1 = nl ->
  (forall (s : storage) (idx : N), idx + 1 <= U32 ->
     let q := mkP (Some (value_of_N (idx + 1))) (if nw then p_writable p1 else Some false) None None (p_enum p1) (p_conf p1) in
     exists m2 : meta, run_i (ordinary_define_len q) s m1 = (inl true, s, m2) /\ m_kind m2 = KArray /\
                canon_desc (m_len m2) /\ meta_len m2 = idx + 1) ->
  (forall s : storage, exists (r : result bool) (m2 : meta), run_i (ordinary_define_len (mkP None (Some false) None None None None)) s m1 = (r, s, m2) /\
                m_kind m2 = KArray /\ canon_desc (m_len m2) /\ meta_len m2 = nl) ->
  forall L s, wf s -> StronglySorted N.gt L -> (forall k, In k L -> nl <= k /\ k + 1 <= U32) ->
    (forall k, abs s k <> None -> k < nl \/ In k L) ->
    AInv (st_of (run_i (asl_delete L nl nw p1) s m1)) (mt_of (run_i (asl_delete L nl nw p1) s m1)).
Proof.
  intros Hk1 Hc1 Hl1 Hstop Hend. induction L as [|idx t IH]; intros s Hwf Hsort HL Hkeys; cbn [asl_delete].
  - assert (Hlt : forall k, abs s k <> None -> k < nl).
    { intros k Hk. destruct (Hkeys k Hk) as [|[]]; assumption. }
    destruct nw; cbn [run_i].
    + unfold st_of, mt_of. cbn [fst snd]. split; [assumption|]. split; [assumption|]. split; [assumption|].
      rewrite Hl1. exact Hlt.
    + rewrite run_bind. destruct (Hend s) as (r & m2 & -> & Hk2 & Hc2 & Hl2).
      destruct r as [a|e]; cbn [run_i]; unfold st_of, mt_of; cbn [fst snd];
        (split; [assumption|]; split; [assumption|]; split; [assumption|]; rewrite Hl2; exact Hlt).
  - apply StronglySorted_inv in Hsort. destruct Hsort as [Hs Hall]. rewrite Forall_forall in Hall.
    rewrite run_bind. destruct (run_delete_idx s m1 idx Hwf) as (r & s1 & -> & Hw1 & Hsub).
    destruct r.
    + apply IH; [assumption|assumption|intros k Hk; apply HL; right; assumption|].
      intros k Hk. destruct (Hsub k Hk) as [Hold Hne]. destruct (Hkeys k Hold) as [|[->|]]; auto.
      exfalso. apply Hne; reflexivity.
    + destruct (HL idx (or_introl eq_refl)) as [Hnl Hu].
      rewrite run_bind. destruct (Hstop s1 idx Hu) as (m2 & -> & Hk2 & Hc2 & Hl2). cbn [run_i].
      unfold st_of, mt_of. cbn [fst snd]. split; [assumption|]. split; [assumption|]. split; [assumption|].
      rewrite Hl2. intros k Hk. destruct (Hsub k Hk) as [Hold _].
      destruct (Hkeys k Hold) as [|[->|Hin]]; [lia|lia|]. specialize (Hall k Hin). lia.
Qed.

Lemma filter_ge_in n l k : In k (filter_ge n l) <-> In k l /\ n <= k.
Proof.
  induction l as [|x t IH]; cbn [filter_ge In]; [tauto|].
  destruct (N.leb_spec n x); cbn [In]; rewrite IH; intuition (subst; try lia; auto).
Qed.

Lemma filter_ge_sorted n l : sorted_lt l -> sorted_lt (filter_ge n l).
Proof.
  unfold sorted_lt. induction 1 as [|x t Hs IH Hx]; cbn [filter_ge]; [constructor|].
  destruct (n <=? x); [|assumption]. constructor; [assumption|].
  rewrite Forall_forall in *. intros y Hy. apply filter_ge_in in Hy. apply Hx, Hy.
Qed.

Lemma ss_gt_app l1 l2 : StronglySorted N.gt l1 -> StronglySorted N.gt l2 ->
  (forall x y, In x l1 -> In y l2 -> x > y) -> StronglySorted N.gt (l1 ++ l2).
Proof.
  induction 1 as [|a t Hs IH Ha]; intros H2 Hc; cbn [app]; [assumption|].
  constructor.
  - apply IH; [assumption|]. intros x y Hx Hy. apply Hc; [right; assumption|assumption].
  - apply Forall_app. split; [assumption|]. apply Forall_forall. intros y Hy. apply Hc; [left; reflexivity|assumption].
Qed.

Lemma rev_sorted l : sorted_lt l -> StronglySorted N.gt (rev l).
Proof.
  unfold sorted_lt. induction 1 as [|a t Hs IH Ha]; cbn [rev]; [constructor|].
  apply ss_gt_app; [assumption|constructor; constructor|].
  intros x y Hx [<-|[]]. rewrite Forall_forall in Ha. apply in_rev in Hx. specialize (Ha x Hx). lia.
Qed.

(* a define on "length" without a value keeps the number *)
Lemma odl_keep s m p : noacc p -> p_value p = None -> canon_desc (m_len m) ->
  exists r m', run_i (ordinary_define_len p) s m = (r, s, m') /\ m_kind m' = m_kind m /\
    canon_desc (m_len m') /\ meta_len m' = meta_len m.
Proof.
  intros Hna Hpv Hc. destruct (odl_run s m p) as (r & m' & E & Hk & [[-> _]|(d & Ev & -> & _)]).
  - exists r, m. auto.
  - exists r, (with_len m d). split; [exact E|]. split; [reflexivity|].
    destruct Hc as (x & w & e & c & Hx & Hd). rewrite Hd in Ev.
    pose proof (vaa_data (m_ext m) p (value_of_N x) w e c Hna) as H. rewrite Ev, Hpv in H.
    destruct H as (w' & e' & c' & ->). cbn [odflt with_len m_len]. split.
    + exists x, w', e', c'. auto.
    + unfold meta_len. cbn [m_len]. rewrite Hd. reflexivity.
Qed.

(* ... with a canonical value: the number is the old one or the new one *)
Lemma odl_set s m p y : noacc p -> p_value p = Some (value_of_N y) -> y <= U32 -> canon_desc (m_len m) ->
  exists r m', run_i (ordinary_define_len p) s m = (r, s, m') /\ m_kind m' = m_kind m /\
    canon_desc (m_len m') /\ (meta_len m' = meta_len m \/ meta_len m' = y).
Proof.
  intros Hna Hpv Hy Hc. destruct (odl_run s m p) as (r & m' & E & Hk & [[-> _]|(d & Ev & -> & _)]).
  - exists r, m. auto.
  - exists r, (with_len m d). split; [exact E|]. split; [reflexivity|].
    destruct Hc as (x & w & e & c & Hx & Hd). rewrite Hd in Ev.
    pose proof (vaa_data (m_ext m) p (value_of_N x) w e c Hna) as H. rewrite Ev, Hpv in H.
    destruct H as (w' & e' & c' & ->). cbn [odflt with_len m_len]. split.
    + exists y, w', e', c'. auto.
    + right. unfold meta_len. cbn [m_len]. apply len_of_value_of_N, u32_lt_53, Hy.
Qed.

Lemma AInv_same s m m' : AInv s m -> m_kind m' = m_kind m -> canon_desc (m_len m') ->
  (forall k, abs s k <> None -> k < meta_len m') -> AInv s m'.
Proof. intros (Hwf & Hk & _ & _) Hk' Hc Hel. split; [assumption|]. split; [congruence|]. split; assumption. Qed.

Theorem asl_AInv s m p : AInv s m -> noacc p ->
  (match p_value p with Some v => wfv v | None => True end) ->
  AInv (st_of (run_i (array_set_length p) s m)) (mt_of (run_i (array_set_length p) s m)).
Proof.
  intros HA Hna Hv. pose proof HA as (Hwf & Hk & Hc & Hel). unfold array_set_length.
  destruct (p_value p) as [v|] eqn:Epv.
  2:{ destruct (odl_keep s m p Hna Epv Hc) as (r & m' & -> & Hk' & Hc' & Hl'). unfold st_of, mt_of. cbn [fst snd].
      apply (AInv_same s m m' HA Hk' Hc'). rewrite Hl'. exact Hel. }
  destruct (to_array_len v) as [[nl|]|err] eqn:Et; cbn [run_i]; try exact HA.
  pose proof (to_array_len_bound v nl Hv Et) as Hnl.
  rewrite run_bind, run_get_meta.
  set (p0 := mkP (Some (value_of_N nl)) (p_writable p) None None (p_enum p) (p_conf p)).
  assert (Hna0 : noacc p0) by (split; reflexivity).
  destruct (N.leb_spec (meta_len m) nl) as [Hle|Hgt].
  - destruct (odl_set s m p0 nl Hna0 eq_refl Hnl Hc) as (r & m' & -> & Hk' & Hc' & Hl'). unfold st_of, mt_of. cbn [fst snd].
    apply (AInv_same s m m' HA Hk' Hc'). intros k Hk2. specialize (Hel k Hk2). destruct Hl' as [->| ->]; lia.
  - destruct (len_writable m) eqn:Hw; cbn [negb run_i]; [|exact HA].
    destruct Hc as (x & w & e & c & Hx & Hd).
    assert (w = true) by (unfold len_writable in Hw; rewrite Hd in Hw; exact Hw). subst w.
    set (nw := match p_writable p with Some false => false | _ => true end).
    set (p1 := if nw then p0 else mkP (p_value p0) (Some true) None None (p_enum p0) (p_conf p0)).
    assert (Hp1 : noacc p1 /\ p_value p1 = Some (value_of_N nl) /\ p_enum p1 = p_enum p /\ p_conf p1 = p_conf p /\
                  odflt (p_writable p1) true = true).
    { unfold p1, nw. destruct (p_writable p) as [[]|] eqn:Ew; cbn; rewrite ?Ew; repeat split; reflexivity. }
    destruct Hp1 as (Hna1 & Hv1 & He1 & Hc1 & Hw1).
    set (d1 := fill_with (DData (value_of_N x) true e c) p1).
    assert (E1 : run_i (ordinary_define_len p1) s m =
                 if negb c && (match p_conf p with Some true => true | _ => false end ||
                               match p_enum p with Some y => negb (Bool.eqb y e) | None => false end)
                 then (inl false, s, m) else (inl true, s, with_len m d1)).
    { unfold ordinary_define_len. rewrite run_bind, run_get_meta, Hd.
      rewrite (vaa_store (m_ext m) p1 (value_of_N nl) (value_of_N x) e c Hna1 Hv1). rewrite He1, Hc1.
      destruct (negb c && _); cbn [run_i]; [reflexivity|]. rewrite run_bind. reflexivity. }
    rewrite run_bind, E1.
    destruct (negb c && _) eqn:ER; cbn [run_i negb]; [exact HA|].
    rewrite run_bind. cbn [own_keys run_i].
    assert (Hd1 : d1 = DData (value_of_N nl) true (odflt (p_enum p) e) (odflt (p_conf p) c)).
    { unfold d1. cbn [fill_with]. rewrite Hv1, He1, Hc1, Hw1. reflexivity. }
    set (m1 := with_len m d1).
    assert (Hl1 : meta_len m1 = nl).
    { unfold meta_len, m1. cbn [with_len m_len]. rewrite Hd1. apply len_of_value_of_N, u32_lt_53, Hnl. }
    assert (Hcn1 : canon_desc (m_len m1)).
    { unfold m1. cbn [with_len m_len]. rewrite Hd1. exists nl, true, (odflt (p_enum p) e), (odflt (p_conf p) c). auto. }
    destruct (sorted_keys_abs s Hwf) as [Hsort Hin].
    apply (asl_loop nl nw p1 m1); try assumption.
    + (* step 17.b.iii succeeds *)
      intros s' idx Hidx q. unfold ordinary_define_len. rewrite run_bind, run_get_meta.
      assert (Hm1l : m_len m1 = DData (value_of_N nl) true (odflt (p_enum p) e) (odflt (p_conf p) c))
        by (unfold m1; cbn [with_len m_len]; exact Hd1).
      assert (Hm1e : m_ext m1 = m_ext m) by reflexivity.
      rewrite Hm1l, Hm1e.
      assert (Hnaq : noacc q) by (split; reflexivity).
      rewrite (vaa_store (m_ext m) q (value_of_N (idx + 1)) (value_of_N nl) _ _ Hnaq eq_refl).
      replace (negb (odflt (p_conf p) c) && _) with false.
      * rewrite run_bind. cbn [set_meta run_i]. eexists. split; [reflexivity|]. split; [exact Hk|].
        cbn [fill_with p_value p_writable p_enum p_conf odflt with_len m_len q]. split.
        -- eexists (idx + 1), _, _, _. split; [exact Hidx|reflexivity].
        -- unfold meta_len. cbn [m_len]. apply len_of_value_of_N, u32_lt_53, Hidx.
      * symmetry. subst q. cbn [p_conf p_enum]. rewrite He1, Hc1.
        destruct (p_conf p) as [[]|], (p_enum p) as [[]|], c, e; cbn in *; try reflexivity; discriminate.
    + (* step 18 *)
      intros s'. destruct (odl_keep s' m1 (mkP None (Some false) None None None None)) as (r & m2 & E & Hk2 & Hc2 & Hl2);
        [split; reflexivity|reflexivity|assumption|].
      exists r, m2. split; [exact E|]. split; [rewrite Hk2; exact Hk|]. split; [assumption|congruence].
    + apply rev_sorted, filter_ge_sorted, Hsort.
    + intros k Hk2. apply in_rev, filter_ge_in in Hk2. destruct Hk2 as [Hk2 Hge]. split; [assumption|].
      apply Hin in Hk2. specialize (Hel k Hk2). unfold meta_len in Hel. rewrite Hd in Hel. cbn [len_of_value] in Hel.
      rewrite len_of_value_of_N in Hel by (apply u32_lt_53, Hx). lia.
    + intros k Hk2. destruct (N.lt_ge_cases k nl) as [|Hge]; [left; assumption|right].
      apply in_rev. rewrite rev_involutive. apply filter_ge_in. split; [apply Hin; assumption|assumption].
Qed.

(* ------------------------------------------------------------------------------------------ *)
(* [[DefineOwnProperty]]("length", p) on both kinds *)

Lemma vaa_lv ext p cur d : noacc p -> validate_and_apply ext p (Some cur) = VStore d ->
  lv d = lv cur \/ (exists v, p_value p = Some v /\ lv d = len_of_value v).
Proof.
  intros [Hg Hs] E. destruct p as [pv pw pg ps pe pc]. cbn [p_get p_set] in *. subst pg ps.
  destruct cur as [v w e c|g st e c].
  - pose proof (vaa_data ext (mkP pv pw None None pe pc) v w e c (conj eq_refl eq_refl)) as H. rewrite E in H.
    destruct H as (w' & e' & c' & ->). cbn [lv p_value]. destruct pv as [x|]; cbn [odflt]; [right; eauto|left; reflexivity].
  - revert E. destruct ext, pv as [x|], pw as [[]|], pe as [[]|], pc as [[]|], e, c;
      cbn [validate_and_apply pd_is_empty pd_is_generic pd_is_accessor pd_is_data p_get p_set p_value p_writable p_enum p_conf
           is_some orb negb andb d_configurable d_enumerable d_is_data Bool.eqb fill_with convert_kind odflt];
      intros E; try discriminate; injection E as <-; cbn [lv p_value]; eauto.
Qed.

Lemma define_len_I0 kd s m p : I0 kd s m -> noacc p ->
  (match p_value p with Some v => wfv v /\ (kd = KPlain -> len_of_value v <= U32) | None => True end) ->
  I0 kd (st_of (run_i (define_len p) s m)) (mt_of (run_i (define_len p) s m)).
Proof.
  intros Hi Hna Hv. pose proof Hi as (Hk & Hwf & Hu & Hrest).
  unfold define_len. rewrite run_bind, run_get_meta, Hk. destruct kd.
  - apply AInv_I0, asl_AInv; [apply I0_AInv; exact Hi|exact Hna|].
    destruct (p_value p); [apply Hv|exact I].
  - destruct (odl_run s m p) as (r & m' & -> & Hk' & Hcase). unfold st_of, mt_of. cbn [fst snd].
    assert (Ha : is_array m' = false) by (apply is_array_plain; congruence).
    split; [congruence|]. split; [assumption|]. split; [|intros; congruence].
    destruct Hcase as [[-> _]|(d & E & -> & _)]; [assumption|].
    rewrite meta_len_lv. cbn [with_len m_len].
    destruct (vaa_lv (m_ext m) p (m_len m) d Hna E) as [->|(v & Epv & ->)].
    + rewrite <- meta_len_lv. exact Hu.
    + rewrite Epv in Hv. apply Hv. reflexivity.
Qed.

Lemma wfv_len v : wfv v -> (match v with VInt z => (0 <= z)%Z | _ => False end) -> len_of_value v <= U32.
Proof.
  destruct v as [z| |]; try contradiction. intros Hv Hz. apply wfv_int in Hv.
  unfold in_i32, I32_MIN, I32_MAX in Hv. cbn [len_of_value]. unfold U32. lia.
Qed.

Lemma to_array_len_lov v n : to_array_len v = inl (Some n) -> True.
Proof. auto. Qed.

(* run a continuation after a step whose result state satisfies I0 *)
Lemma I0_after {A B} kd (p : prog A) (g : A -> prog B) s m :
  I0 kd (st_of (run_i p s m)) (mt_of (run_i p s m)) ->
  (forall a s' m', I0 kd s' m' -> I0 kd (st_of (run_i (g a) s' m')) (mt_of (run_i (g a) s' m'))) ->
  I0 kd (st_of (run_i (bind p g) s m)) (mt_of (run_i (bind p g) s m)).
Proof.
  intros H1 H2. rewrite run_bind. unfold st_of, mt_of in *. destruct (run_i p s m) as [[[a|e] s1] m1]; cbn [fst snd] in *.
  - apply H2. exact H1.
  - exact H1.
Qed.

Lemma I0_retthrow {A} kd (b : bool) (a : A) e s m : I0 kd s m ->
  I0 kd (st_of (run_i (if b then Ret a else Throw e) s m)) (mt_of (run_i (if b then Ret a else Throw e) s m)).
Proof. destruct b; auto. Qed.

Lemma ok_OLen kd v : wfv v -> ok (I0 kd) (fun fl => op_prog fl (OLen v)) (POST kd).
Proof.
  intros Hv s m Hi. split; [reflexivity|]. unfold POST. cbn [op_prog].
  pose proof Hi as (Hk & _). rewrite run_bind, run_get_meta, Hk.
  assert (Hgo : (kd = KPlain -> match v with VInt z => (0 <= z)%Z | _ => False end) ->
     I0 kd (st_of (run_i (ok <- set_len_prop v;; (if ok then Ret RNone else Throw TypeError)) s m))
           (mt_of (run_i (ok <- set_len_prop v;; (if ok then Ret RNone else Throw TypeError)) s m))).
  { intros Hpl. apply I0_after; [|intros a s' m' H; apply I0_retthrow; exact H].
    unfold set_len_prop. rewrite run_bind, run_get_meta.
    destruct (m_len m) as [lv0 w e c|]; [|exact Hi]. destruct w; [|exact Hi].
    apply define_len_I0; [exact Hi|split; reflexivity|]. cbn [pd_value p_value]. split; [exact Hv|].
    intros Hkp. apply wfv_len; [exact Hv|apply Hpl; exact Hkp]. }
  destruct kd.
  - rewrite run_bind. cbn [run_i]. apply Hgo. discriminate.
  - destruct v as [z|b|o]; try (rewrite run_bind; cbn [run_i]; exact Hi).
    destruct (Z.ltb_spec z 0); rewrite run_bind; cbn [run_i]; [exact Hi|]. apply Hgo. intros _. assumption.
Qed.

Lemma ok_ODefLen kd p : (match p_value p with Some v => wfv v | None => True end) ->
  ok (I0 kd) (fun fl => op_prog fl (ODefLen p)) (POST kd).
Proof.
  intros Hv s m Hi. split; [reflexivity|]. unfold POST. cbn [op_prog].
  destruct (negb (pd_ok p)); [exact Hi|]. destruct (pd_is_accessor p) eqn:Eacc; [exact Hi|].
  assert (Hna : noacc p).
  { unfold pd_is_accessor in Eacc. apply orb_false_iff in Eacc. destruct Eacc as [E1 E2].
    split; [destruct (p_get p); [discriminate|reflexivity]|destruct (p_set p); [discriminate|reflexivity]]. }
  pose proof Hi as (Hk & _). rewrite run_bind, run_get_meta, Hk.
  assert (Hgo : (kd = KPlain -> match p_value p with Some (VInt z) => (0 <= z)%Z | Some _ => False | None => True end) ->
     I0 kd (st_of (run_i (ok <- define_len p;; (if ok then Ret RNone else Throw TypeError)) s m))
           (mt_of (run_i (ok <- define_len p;; (if ok then Ret RNone else Throw TypeError)) s m))).
  { intros Hpl. apply I0_after; [|intros a s' m' H; apply I0_retthrow; exact H].
    apply define_len_I0; [exact Hi|exact Hna|].
    destruct (p_value p) as [v|]; [|exact I]. split; [exact Hv|]. intros Hkp. specialize (Hpl Hkp).
    apply wfv_len; [exact Hv|]. destruct v; try contradiction. exact Hpl. }
  destruct kd.
  - rewrite run_bind. cbn [run_i]. apply Hgo. discriminate.
  - destruct (p_value p) as [[z|b|o]|] eqn:Epv; try (rewrite run_bind; cbn [run_i]; exact Hi).
    + destruct (Z.ltb_spec z 0); rewrite run_bind; cbn [run_i]; [exact Hi|]. apply Hgo. intros _. assumption.
    + rewrite run_bind. cbn [run_i]. apply Hgo. intros _. exact I.
Qed.

(* ------------------------------------------------------------------------------------------ *)
(* freeze / seal *)

Lemma ok_define_idx_plain b k p : ok (IK KPlain b) (fun fl => define_idx fl k p) (fun _ => IK KPlain b).
Proof.
  intros s m HIK. pose proof HIK as (Hk & _). unfold define_idx. rewrite !run_bind, !run_get_meta, Hk.
  split; [reflexivity|]. apply odi_plain. exact HIK.
Qed.

Lemma ok_define_existing kd k p :
  ok (fun s m => IK kd U32 s m /\ abs s k <> None) (fun fl => define_idx fl k p) (fun _ => IK kd U32).
Proof.
  intros s m [HIK Hex]. destruct kd.
  - pose proof HIK as (Hk & (_ & Hu & Hi) & _). destruct (Hi (proj2 (is_array_kind m) Hk)) as [Hel _].
    specialize (Hel k Hex).
    apply (ok_define_idx KArray U32 k p); [unfold MAX_INDEX, U32 in *; lia|lia|exact HIK].
  - apply (ok_define_idx_plain U32 k p). exact HIK.
Qed.

Definition define_one (fl : flavour) (k : N) (frozen : bool) : prog unit :=
  cur <- get_own k ;;
  match cur with
  | None => Ret tt
  | Some d =>
      let p := if frozen && d_is_data d
               then mkP None (Some false) None None None (Some false)
               else mkP None None None None None (Some false) in
      ok <- define_idx fl k p ;; if ok then Ret tt else Throw TypeError
  end.

Lemma ok_define_one kd k frozen : ok (IK kd U32) (fun fl => define_one fl k frozen) (fun _ => IK kd U32).
Proof.
  intros s m HIK. unfold define_one. pose proof HIK as (_ & (Hwf & _) & _).
  rewrite !run_bind, !run_get_own by assumption.
  destruct (abs s k) as [d|] eqn:E; [|split; [reflexivity|exact HIK]].
  cbv zeta.
  set (p := if frozen && d_is_data d then mkP None (Some false) None None None (Some false)
            else mkP None None None None None (Some false)).
  refine (ok_bind (fun s m => IK kd U32 s m /\ abs s k <> None) (fun fl => define_idx fl k p)
            (fun (r : bool) (_ : flavour) => if r then Ret tt else Throw TypeError)
            (fun _ => IK kd U32) (fun _ => IK kd U32) (ok_define_existing kd k p) _ _ s m _).
  - intros [|]; [apply ok_ret_IK|apply ok_throw_IK].
  - auto.
  - split; [exact HIK|congruence].
Qed.

Lemma ok_define_all kd frozen : forall ks, ok (IK kd U32) (fun fl => define_all fl ks frozen) (fun _ => IK kd U32).
Proof.
  induction ks as [|k t IH]; cbn [define_all]; [apply ok_ret_IK|].
  apply (ok_seq kd U32 (fun fl => define_one fl k frozen) (fun fl => define_all fl t frozen));
    [apply ok_define_one|exact IH|auto].
Qed.

Lemma ok_integrity kd frozen : ok (I0 kd) (fun fl => a_integrity fl frozen) (POST kd).
Proof.
  intros s m Hi. unfold a_integrity.
  set (m0 := with_ext m false).
  assert (Hi0 : I0 kd s m0) by (eapply I0_msame; [exact Hi|split; reflexivity]).
  assert (HIK : IK kd U32 s m0) by (apply I0_IK; [exact Hi0|apply Hi0]).
  destruct (ok_define_all kd frozen (nsort (keys s)) s m0 HIK) as [Efl Hpost]. cbv beta in Efl, Hpost.
  repeat first [rewrite run_bind | rewrite run_get_meta | progress cbn [set_meta own_keys run_i]].
  fold m0. rewrite Efl. split; [reflexivity|].
  unfold rs_of, st_of, mt_of, POST in *.
  destruct (run_i (define_all Spec (nsort (keys s)) frozen) s m0) as [[[[]|e] s1] m1]; cbn [fst snd] in *;
    [|eapply IK_I0; exact Hpost].
  apply IK_I0 in Hpost.
  repeat first [rewrite run_bind | rewrite run_get_meta]. cbv zeta.
  set (p := if frozen && d_is_data (m_len m1) then mkP None (Some false) None None None (Some false)
            else mkP None None None None None (Some false)).
  assert (Hna : noacc p) by (unfold p; destruct (frozen && d_is_data (m_len m1)); split; reflexivity).
  assert (Hpv : p_value p = None) by (unfold p; destruct (frozen && d_is_data (m_len m1)); reflexivity).
  pose proof (define_len_I0 kd s1 m1 p Hpost Hna) as H. rewrite Hpv in H. specialize (H I).
  unfold st_of, mt_of in H.
  destruct (run_i (define_len p) s1 m1) as [[[[|]|e] s2] m2]; cbn [fst snd run_i] in *; exact H.
Qed.
