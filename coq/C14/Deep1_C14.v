(* C14 deepening, part 1: a small program logic for `run_i` and the flavour-parametric primitives.
   `ok Pre P Post` : on every state satisfying Pre, the boa flavour and the ECMA-262 flavour of the program family P
   run identically, and the final state (whatever the completion) satisfies Post.
   `Inv` is the array invariant carried between the steps of a history:
     element indices below `length`, `length` canonical and <= 2^32 - 1 (arrays); representation invariant (all). *)
From Coq Require Import NArith ZArith List Bool Lia.
From C14 Require Import Indexed ArraySpec ProofsA_C14 ProofsB_C14 ProofsC_C14 ProofsD_C14.
Import ListNotations.
Local Open Scope N_scope.

Definition rs_of {A} (x : result A * storage * meta) : result A := fst (fst x).
Definition st_of {A} (x : result A * storage * meta) : storage := snd (fst x).
Definition mt_of {A} (x : result A * storage * meta) : meta := snd x.

Definition ok {A} (Pre : storage -> meta -> Prop) (P : flavour -> prog A)
           (Post : result A -> storage -> meta -> Prop) : Prop :=
  forall s m, Pre s m ->
    run_i (P Boa) s m = run_i (P Spec) s m /\
    Post (rs_of (run_i (P Spec) s m)) (st_of (run_i (P Spec) s m)) (mt_of (run_i (P Spec) s m)).

Lemma ok_bind {A B} Pre (P : flavour -> prog A) (F : A -> flavour -> prog B) Mid Post :
  ok Pre P Mid ->
  (forall a, ok (Mid (inl a)) (F a) Post) ->
  (forall e s m, Mid (inr e) s m -> Post (inr e) s m) ->
  ok Pre (fun fl => bind (P fl) (fun a => F a fl)) Post.
Proof.
  intros HP HF HE s m Hpre. destruct (HP s m Hpre) as [E1 M1].
  rewrite !run_bind, E1. unfold rs_of, st_of, mt_of in *.
  destruct (run_i (P Spec) s m) as [[[a|e] s1] m1]; cbn [fst snd] in *.
  - apply HF. exact M1.
  - split; [reflexivity|]. apply HE. exact M1.
Qed.

Lemma ok_weaken {A} (Pre Pre' : storage -> meta -> Prop) (P : flavour -> prog A) (Post Post' : result A -> storage -> meta -> Prop) :
  ok Pre P Post -> (forall s m, Pre' s m -> Pre s m) -> (forall r s m, Post r s m -> Post' r s m) -> ok Pre' P Post'.
Proof. intros H H1 H2 s m Hp. destruct (H s m (H1 s m Hp)) as [E Q]. split; [exact E|apply H2; exact Q]. Qed.

(* strengthening the postcondition with a fact about the initial state needs the pre-state: a variant with a ghost *)
Lemma ok_ret {A} (Pre : storage -> meta -> Prop) (a : A) : ok Pre (fun _ => Ret a) (fun r s m => r = inl a /\ Pre s m).
Proof. intros s m H. split; [reflexivity|]. cbn. auto. Qed.

Lemma ok_throw {A} (Pre : storage -> meta -> Prop) (e : err) : ok Pre (fun _ => @Throw A e) (fun r s m => r = inr e /\ Pre s m).
Proof. intros s m H. split; [reflexivity|]. cbn. auto. Qed.

(* ------------------------------------------------------------------------------------------ *)
(* the invariant *)

Definition U32 : N := 4294967295.

Definition Inv (s : storage) (m : meta) : Prop :=
  wf s /\ meta_len m <= U32 /\
  (is_array m = true -> (forall k, abs s k <> None -> k < meta_len m) /\ len_canonical m).

(* arrays only: every element index is below b *)
Definition KL (b : N) (s : storage) (m : meta) : Prop :=
  is_array m = true -> forall k, abs s k <> None -> k < b.

Definition msame (m m' : meta) : Prop := m_kind m' = m_kind m /\ m_len m' = m_len m.

Lemma msame_refl m : msame m m. Proof. split; reflexivity. Qed.
Lemma msame_trans m1 m2 m3 : msame m1 m2 -> msame m2 m3 -> msame m1 m3.
Proof. intros [A1 B1] [A2 B2]. split; congruence. Qed.

Lemma msame_facts m m' : msame m m' ->
  is_array m' = is_array m /\ meta_len m' = meta_len m /\ (len_canonical m -> len_canonical m') /\ len_writable m' = len_writable m.
Proof.
  intros [Hk Hl]. unfold is_array, len_canonical, len_writable. unfold meta_len. rewrite Hk, Hl.
  split; [reflexivity|]. split; [reflexivity|]. split; [intros H; exact H|reflexivity].
Qed.

Lemma Inv_msame s m m' : Inv s m -> msame m m' -> Inv s m'.
Proof.
  intros (Hwf & Hu & H) Hs. destruct (msame_facts m m' Hs) as (Ha & Hl & Hc & _). split; [assumption|].
  rewrite Ha, Hl. split; [assumption|]. intros Harr. destruct (H Harr) as (H1 & H2). auto.
Qed.

Lemma KL_msame b s m m' : KL b s m -> msame m m' -> KL b s m'.
Proof. intros H Hs. destruct (msame_facts m m' Hs) as (Ha & _). unfold KL. rewrite Ha. exact H. Qed.

Lemma KL_mono b b' s m : KL b s m -> b <= b' -> KL b' s m.
Proof. intros H Hle Ha k Hk. specialize (H Ha k Hk). lia. Qed.

Lemma Inv_KL s m : Inv s m -> KL (meta_len m) s m.
Proof. intros (_ & _ & H) Ha. apply H. exact Ha. Qed.

Lemma len_of_value_of_N n : n < 2 ^ 53 -> len_of_value (value_of_N n) = n.
Proof.
  intros Hn. unfold value_of_N. destruct (N.ltb_spec n two31) as [Hs|Hs]; cbn [len_of_value].
  - apply N2Z.id.
  - apply f64_to_N_pos; [unfold two31 in Hs; lia|assumption].
Qed.

Lemma u32_lt_53 n : n <= U32 -> n < 2 ^ 53.
Proof. intros H. eapply N.le_lt_trans; [exact H|reflexivity]. Qed.

Lemma with_len_canonical m n w e c : n <= U32 ->
  let m' := with_len m (DData (value_of_N n) w e c) in
  meta_len m' = n /\ len_canonical m' /\ m_kind m' = m_kind m /\ m_ext m' = m_ext m.
Proof.
  intros Hn m'. assert (Hl : meta_len m' = n).
  { unfold meta_len, m', with_len. cbn [m_len]. apply len_of_value_of_N, u32_lt_53, Hn. }
  split; [exact Hl|]. split; [|split; reflexivity].
  exists w, e, c. rewrite Hl. reflexivity.
Qed.

(* ------------------------------------------------------------------------------------------ *)
(* read-only programs *)

(* a program that only reads the store and only appends to the log *)
Inductive ro {A} : prog A -> Prop :=
| ro_ret a : ro (Ret a)
| ro_throw e : ro (Throw e)
| ro_get k f : (forall x, ro (f x)) -> ro (PGet k f)
| ro_keys f : (forall x, ro (f x)) -> ro (PKeys f)
| ro_meta f : (forall x, ro (f x)) -> ro (PMeta f)
| ro_log f ev : ro f -> ro (PMeta (fun m => PSetMeta (with_log m (m_log m ++ [ev])) f)).

Lemma ro_bind {A B} (p : prog A) (g : A -> prog B) : ro p -> (forall a, ro (g a)) -> ro (bind p g).
Proof.
  induction 1 as [a|e|k f Hf IH|f Hf IH|f Hf IH|f ev Hf IH]; intros Hg; cbn [bind].
  - apply Hg.
  - constructor.
  - apply ro_get. intros x. apply IH. exact Hg.
  - apply ro_keys. intros x. apply IH. exact Hg.
  - apply ro_meta. intros x. apply IH. exact Hg.
  - apply (ro_log (bind f g) ev). apply IH. exact Hg.
Qed.

Lemma ro_run {A} (p : prog A) : ro p -> forall s m, st_of (run_i p s m) = s /\ msame m (mt_of (run_i p s m)).
Proof.
  induction 1 as [a|e|k f Hf IH|f Hf IH|f Hf IH|f ev Hf IH]; intros s m; cbn [run_i].
  - split; [reflexivity|apply msame_refl].
  - split; [reflexivity|apply msame_refl].
  - apply IH.
  - apply IH.
  - apply IH.
  - destruct (IH s (with_log m (m_log m ++ [ev]))) as [H1 H2]. split; [exact H1|].
    eapply msame_trans; [|exact H2]. split; reflexivity.
Qed.

Lemma ok_ro {A} (p : prog A) (Pre : storage -> meta -> Prop) : ro p ->
  ok Pre (fun _ => p) (fun r s' m' => exists s m, Pre s m /\ s' = s /\ msame m m').
Proof.
  intros Hro s m Hp. split; [reflexivity|]. destruct (ro_run p Hro s m) as [H1 H2].
  exists s, m. auto.
Qed.

Lemma ro_log_event {A} ev (p : prog A) : ro p -> ro (log_event ev ;;; p).
Proof. intros H. unfold log_event, get_meta, set_meta. cbn [bind]. apply (ro_log p ev). exact H. Qed.

Lemma ro_get_own k : ro (get_own k). Proof. constructor. intros. constructor. Qed.
Lemma ro_get_meta : ro get_meta. Proof. constructor. intros. constructor. Qed.
Lemma ro_own_keys : ro own_keys. Proof. constructor. intros. constructor. Qed.
Lemma ro_get_len : ro get_len. Proof. unfold get_len. apply ro_bind; [apply ro_get_meta|intros; constructor]. Qed.

Lemma ro_get_idx k : ro (get_idx k).
Proof.
  unfold get_idx. apply ro_bind; [apply ro_get_own|]. intros [[v w e c|[g|] st e c]|];
    first [apply ro_log_event; constructor | constructor].
Qed.

Lemma ro_try_get_idx k : ro (try_get_idx k).
Proof.
  unfold try_get_idx. apply ro_bind; [apply ro_get_own|]. intros [[v w e c|[g|] st e c]|];
    first [apply ro_log_event; constructor | constructor].
Qed.

Lemma ro_has_idx k : ro (has_idx k).
Proof. unfold has_idx. apply ro_bind; [apply ro_get_own|]. intros; constructor. Qed.

Lemma ro_guard_loop n : ro (guard_loop n).
Proof. unfold guard_loop. destruct (LOOP_LIMIT <? n); constructor. Qed.
