(* C14 model, part 2: array objects and the generic Array.prototype algorithms.
   Definitions only (executable).

   Programs (`prog`) are trees of primitive commands on the indexed-property store of ONE object plus
   its remaining state `meta` (kind, the "length" property, [[Extensible]], getter/setter call log).
   The same program is run by two interpreters:
     run_i : on `storage` (Indexed.v, boa's representation)      -- the implementation model
     run_a : on `astore`  (a strictly ascending association list) -- the abstract array-like
   and there are two flavours of the algorithms:
     Spec : ECMA-262 as written (array exotic [[DefineOwnProperty]], ArraySetLength, OrdinarySet, ...)
     Boa  : the same with boa's shortcuts (array_exotic_define_own_property's template-shape fast path,
            Array::set_length) -- the store-level fast paths (set/get_dense_property, shift) are in `istep`. *)
From Coq Require Import NArith ZArith List Bool.
From C14 Require Import Indexed.
Import ListNotations.
Local Open Scope N_scope.

Inductive err := TypeError | RangeError | Unsupported | Internal.
Inductive kind := KArray | KPlain.
Inductive event := EGet (g : N) | ESet (s : N) (v : value).

Record meta := mkMeta { m_kind : kind; m_len : desc; m_ext : bool; m_log : list event }.

Definition with_len (m : meta) (d : desc) : meta := mkMeta (m_kind m) d (m_ext m) (m_log m).
Definition with_ext (m : meta) (b : bool) : meta := mkMeta (m_kind m) (m_len m) b (m_log m).
Definition with_log (m : meta) (l : list event) : meta := mkMeta (m_kind m) (m_len m) (m_ext m) l.

(* ------------------------------------------------------------------------------------------ *)
(* programs *)

Inductive prog (A : Type) : Type :=
| Ret (a : A)
| Throw (e : err)
| PGet (k : N) (f : option desc -> prog A)     (* own index property k *)
| PIns (k : N) (d : desc) (f : prog A)         (* PropertyMap::insert *)
| PRem (k : N) (f : prog A)                    (* PropertyMap::remove *)
| PKeys (f : list N -> prog A)                 (* own index keys, ascending *)
| PMeta (f : meta -> prog A)
| PSetMeta (m : meta) (f : prog A).
Arguments Ret {A}. Arguments Throw {A}. Arguments PGet {A}. Arguments PIns {A}.
Arguments PRem {A}. Arguments PKeys {A}. Arguments PMeta {A}. Arguments PSetMeta {A}.

Fixpoint bind {A B} (p : prog A) (g : A -> prog B) : prog B :=
  match p with
  | Ret a => g a
  | Throw e => Throw e
  | PGet k f => PGet k (fun x => bind (f x) g)
  | PIns k d f => PIns k d (bind f g)
  | PRem k f => PRem k (bind f g)
  | PKeys f => PKeys (fun x => bind (f x) g)
  | PMeta f => PMeta (fun x => bind (f x) g)
  | PSetMeta m f => PSetMeta m (bind f g)
  end.

Notation "x <- p ;; q" := (bind p (fun x => q)) (at level 61, p at next level, right associativity).
Notation "p ;;; q" := (bind p (fun _ => q)) (at level 61, right associativity).

Definition get_own (k : N) : prog (option desc) := PGet k Ret.
Definition ins (k : N) (d : desc) : prog unit := PIns k d (Ret tt).
Definition rem (k : N) : prog unit := PRem k (Ret tt).
Definition own_keys : prog (list N) := PKeys Ret.
Definition get_meta : prog meta := PMeta Ret.
Definition set_meta (m : meta) : prog unit := PSetMeta m (Ret tt).
Definition log_event (e : event) : prog unit := m <- get_meta ;; set_meta (with_log m (m_log m ++ [e])).

(* abstract store *)
Definition astore := list (N * desc).
Fixpoint ainsert (a : astore) (k : N) (d : desc) : astore :=
  match a with
  | [] => [(k, d)]
  | (k', d') :: t =>
      if k <? k' then (k, d) :: a
      else if k =? k' then (k, d) :: t
      else (k', d') :: ainsert t k d
  end.
Fixpoint aremove (a : astore) (k : N) : astore :=
  match a with
  | [] => []
  | (k', d') :: t => if k' =? k then t else (k', d') :: aremove t k
  end.
Definition alookup (a : astore) (k : N) : option desc := mget a k.

Definition result (A : Type) : Type := (A + err)%type.

(* implementation interpreter: values handed to the program are in normal form (JS cannot tell
   Integer32(5) from Float64(5.0)); a descriptor that is not well formed is refused on both sides *)
Fixpoint run_i {A} (p : prog A) (s : storage) (m : meta) : result A * storage * meta :=
  match p with
  | Ret a => (inl a, s, m)
  | Throw e => (inr e, s, m)
  | PGet k f => run_i (f (option_map dnorm (get s k))) s m
  | PIns k d f => if wfdb d then run_i f (snd (insert s k d)) m else (inr Internal, s, m)
  | PRem k f => run_i f (snd (remove s k)) m
  | PKeys f => run_i (f (nsort (keys s))) s m
  | PMeta f => run_i (f m) s m
  | PSetMeta m' f => run_i f s m'
  end.

Fixpoint run_a {A} (p : prog A) (a : astore) (m : meta) : result A * astore * meta :=
  match p with
  | Ret x => (inl x, a, m)
  | Throw e => (inr e, a, m)
  | PGet k f => run_a (f (alookup a k)) a m
  | PIns k d f => if wfdb d then run_a f (ainsert a k (dnorm d)) m else (inr Internal, a, m)
  | PRem k f => run_a f (aremove a k) m
  | PKeys f => run_a (f (map fst a)) a m
  | PMeta f => run_a (f m) a m
  | PSetMeta m' f => run_a f a m'
  end.

(* ------------------------------------------------------------------------------------------ *)
(* numbers *)

Definition two31 : N := 2147483648.
Definition MAX_INDEX : N := 4294967294.          (* 2^32 - 2: the largest array index *)
Definition LOOP_LIMIT : N := 4096.              (* longer loops are reported as Unsupported *)

(* JsValue::new(u64 / u32): Integer32 when it fits, else a double *)
Definition value_of_N (n : N) : value :=
  if n <? two31 then VInt (Z.of_N n) else VDouble (pos_to_f64 n).
Definition value_of_Z (z : Z) : value :=
  if (z <? 0)%Z then VInt z else value_of_N (Z.to_N z).

(* non-negative integral part of a double (0 for negatives / NaN; used for lengths only) *)
Definition f64_to_N (b : N) : N :=
  let e := f64_exp b in
  let m := f64_man b in
  if f64_sign b then 0
  else if e =? 2047 then (if m =? 0 then 9007199254740991 else 0)
  else if e <? 1023 then 0
  else if e <=? 1075 then (p52 + m) / 2 ^ (1075 - e)
  else (p52 + m) * 2 ^ (e - 1075).

(* ToLength / ToUint32 of a length value (the generator keeps lengths integral and < 2^32) *)
Definition len_of_value (v : value) : N :=
  match v with
  | VInt z => Z.to_N z
  | VDouble b => f64_to_N b
  | VOther (OBool true) => 1
  | VOther _ => 0
  end.

(* is the double an integer n with 0 <= n < 2^32 (and not -0 ... -0 is accepted as 0 by ToUint32 = ToNumber check) *)
Definition f64_integral_u32 (b : N) : option N :=
  if f64_is_nan b then None
  else if b =? NEG_ZERO then Some 0
  else if f64_sign b then None
  else if b =? 0 then Some 0
  else
    let n := f64_to_N b in
    if (n <? 4294967296) && (0 <? n) && (pos_to_f64 n =? b) then Some n else None.

(* ArraySetLength steps 3-5: Some newLen, or None = RangeError; Unsupported for strings/objects *)
Definition to_array_len (v : value) : result (option N) :=
  match v with
  | VInt z => inl (if (z <? 0)%Z then None else Some (Z.to_N z))
  | VDouble b => inl (f64_integral_u32 b)
  | VOther OUndef => inl None
  | VOther ONull => inl (Some 0)
  | VOther (OBool b) => inl (Some (if b then 1 else 0))
  | VOther _ => inr Unsupported
  end.

(* equality predicates on values *)
Definition other_eqb (a b : other) : bool :=
  match a, b with
  | OUndef, OUndef => true | ONull, ONull => true
  | OBool x, OBool y => Bool.eqb x y
  | OStr x, OStr y => x =? y
  | OObj x, OObj y => x =? y
  | _, _ => false
  end.
Definition same_value (a b : value) : bool :=
  match num_bits a, num_bits b with
  | Some x, Some y => x =? y
  | None, None => match a, b with VOther x, VOther y => other_eqb x y | _, _ => false end
  | _, _ => false
  end.
Definition zero_fold (b : N) : N := if b =? NEG_ZERO then 0 else b.
Definition same_value_zero (a b : value) : bool :=
  match num_bits a, num_bits b with
  | Some x, Some y => zero_fold x =? zero_fold y
  | None, None => match a, b with VOther x, VOther y => other_eqb x y | _, _ => false end
  | _, _ => false
  end.
Definition strict_equals (a b : value) : bool :=
  match num_bits a, num_bits b with
  | Some x, Some y => negb (f64_is_nan x) && (zero_fold x =? zero_fold y)
  | None, None => match a, b with VOther x, VOther y => other_eqb x y | _, _ => false end
  | _, _ => false
  end.

Definition opt_eqb (a b : option N) : bool :=
  match a, b with Some x, Some y => x =? y | None, None => true | _, _ => false end.

Definition vundef : value := VOther OUndef.
Definition vbool (b : bool) : value := VOther (OBool b).
Definition getter_ret (g : N) : value := VInt (Z.of_N (100 + g)).

(* ------------------------------------------------------------------------------------------ *)
(* partial descriptors and ValidateAndApplyPropertyDescriptor (as written in boa) *)

Record pdesc := mkP {
  p_value : option value; p_writable : option bool;
  p_get : option (option N); p_set : option (option N);
  p_enum : option bool; p_conf : option bool }.

Definition pd_is_accessor (p : pdesc) : bool := is_some (p_get p) || is_some (p_set p).
Definition pd_is_data (p : pdesc) : bool := is_some (p_value p) || is_some (p_writable p).
Definition pd_is_generic (p : pdesc) : bool := negb (pd_is_accessor p) && negb (pd_is_data p).
Definition pd_is_empty (p : pdesc) : bool :=
  pd_is_generic p && negb (is_some (p_enum p)) && negb (is_some (p_conf p)).

Definition odflt {A} (o : option A) (d : A) : A := match o with Some x => x | None => d end.

Definition pd_value (v : value) : pdesc := mkP (Some v) None None None None None.
Definition pd_full (v : value) : pdesc := mkP (Some v) (Some true) None None (Some true) (Some true).
Definition pd_of_desc (d : desc) : pdesc :=
  match d with
  | DData v w e c => mkP (Some v) (Some w) None None (Some e) (Some c)
  | DAcc g s e c => mkP None None (Some g) (Some s) (Some e) (Some c)
  end.

Definition into_data_defaulted (p : pdesc) : desc :=
  DData (odflt (p_value p) vundef) (odflt (p_writable p) false) (odflt (p_enum p) false) (odflt (p_conf p) false).
Definition into_accessor_defaulted (p : pdesc) : desc :=
  DAcc (odflt (p_get p) None) (odflt (p_set p) None) (odflt (p_enum p) false) (odflt (p_conf p) false).

Definition d_is_data (d : desc) : bool := match d with DData _ _ _ _ => true | _ => false end.

(* current.into_accessor_defaulted() / into_data_defaulted() on a complete descriptor *)
Definition convert_kind (d : desc) : desc :=
  match d with
  | DData _ _ e c => DAcc None None e c
  | DAcc _ _ e c => DData vundef false e c
  end.

(* current.fill_with(desc) (kinds already compatible) *)
Definition fill_with (d : desc) (p : pdesc) : desc :=
  match d with
  | DData v w e c =>
      DData (odflt (p_value p) v) (odflt (p_writable p) w) (odflt (p_enum p) e) (odflt (p_conf p) c)
  | DAcc g s e c =>
      DAcc (odflt (p_get p) g) (odflt (p_set p) s) (odflt (p_enum p) e) (odflt (p_conf p) c)
  end.

Inductive vaa := VReject | VNoChange | VStore (d : desc).

Definition validate_and_apply (extensible : bool) (p : pdesc) (current : option desc) : vaa :=
  match current with
  | None =>
      if negb extensible then VReject
      else if pd_is_generic p || pd_is_data p then VStore (into_data_defaulted p)
      else VStore (into_accessor_defaulted p)
  | Some cur =>
      if pd_is_empty p then VNoChange
      else if negb (d_configurable cur) &&
              (match p_conf p with Some true => true | _ => false end ||
               match p_enum p with Some e => negb (Bool.eqb e (d_enumerable cur)) | None => false end)
      then VReject
      else if pd_is_generic p then VStore (fill_with cur p)
      else if negb (Bool.eqb (d_is_data cur) (pd_is_data p)) then
        if negb (d_configurable cur) then VReject else VStore (fill_with (convert_kind cur) p)
      else
        match cur with
        | DData cv cw _ cc =>
            if negb cc && negb cw then
              if match p_writable p with Some true => true | _ => false end then VReject
              else if match p_value p with Some v => negb (same_value v cv) | None => false end then VReject
              else VNoChange
            else VStore (fill_with cur p)
        | DAcc cg cs _ cc =>
            if negb cc then
              if match p_set p with Some s => negb (opt_eqb s cs) | None => false end then VReject
              else if match p_get p with Some g => negb (opt_eqb g cg) | None => false end then VReject
              else VNoChange
            else VStore (fill_with cur p)
        end
  end.

(* ------------------------------------------------------------------------------------------ *)
(* internal methods *)

Inductive flavour := Spec | Boa.

Definition meta_len (m : meta) : N :=
  match m_len m with DData v _ _ _ => len_of_value v | DAcc _ _ _ _ => 0 end.
Definition len_writable (m : meta) : bool :=
  match m_len m with DData _ w _ _ => w | DAcc _ _ _ _ => false end.
Definition is_array (m : meta) : bool := match m_kind m with KArray => true | KPlain => false end.
(* the object still has the array template shape: "length" is {writable, !enumerable, !configurable}
   (the model's objects have no other named property) *)
Definition template_shape (m : meta) : bool :=
  is_array m && match m_len m with DData _ true false false => true | _ => false end.

Definition set_len_value (n : N) : prog unit :=
  m <- get_meta ;;
  match m_len m with
  | DData _ w e c => set_meta (with_len m (DData (value_of_N n) w e c))
  | DAcc _ _ _ _ => Throw Internal
  end.

(* OrdinaryDefineOwnProperty on an index key *)
Definition ordinary_define_idx (k : N) (p : pdesc) : prog bool :=
  cur <- get_own k ;;
  m <- get_meta ;;
  match validate_and_apply (m_ext m) p cur with
  | VReject => Ret false
  | VNoChange => Ret true
  | VStore d => ins k d ;;; Ret true
  end.

(* OrdinaryDefineOwnProperty on "length" *)
Definition ordinary_define_len (p : pdesc) : prog bool :=
  m <- get_meta ;;
  match validate_and_apply (m_ext m) p (Some (m_len m)) with
  | VReject => Ret false
  | VNoChange => Ret true
  | VStore d => set_meta (with_len m d) ;;; Ret true
  end.

(* array_exotic_define_own_property, PropertyKey::Index arm *)
Definition array_define_idx (fl : flavour) (k : N) (p : pdesc) : prog bool :=
  m <- get_meta ;;
  let old_len := meta_len m in
  let slow :=
    if (old_len <=? k) && negb (len_writable m) then Ret false
    else
      ok <- ordinary_define_idx k p ;;
      if ok then (if old_len <=? k then set_len_value (k + 1) else Ret tt) ;;; Ret true
      else Ret false in
  match fl with
  | Boa =>
      if (k + 1 <? 4294967295) && template_shape m && (old_len <=? k + 1) then
        ok <- ordinary_define_idx k p ;;
        if ok then set_len_value (k + 1) ;;; Ret true else Ret false
      else slow
  | Spec => slow
  end.

Definition define_idx (fl : flavour) (k : N) (p : pdesc) : prog bool :=
  m <- get_meta ;;
  match m_kind m with
  | KArray => array_define_idx fl k p
  | KPlain => ordinary_define_idx k p
  end.

(* OrdinaryDelete *)
Definition delete_idx (k : N) : prog bool :=
  cur <- get_own k ;;
  match cur with
  | None => Ret true
  | Some d => if d_configurable d then rem k ;;; Ret true else Ret false
  end.
Definition delete_or_throw (k : N) : prog unit :=
  ok <- delete_idx k ;; if ok then Ret tt else Throw TypeError.

(* OrdinaryGet with Receiver = O; Array.prototype / Object.prototype have no index properties *)
Definition get_idx (k : N) : prog value :=
  cur <- get_own k ;;
  match cur with
  | None => Ret vundef
  | Some (DData v _ _ _) => Ret v
  | Some (DAcc (Some g) _ _ _) => log_event (EGet g) ;;; Ret (getter_ret g)
  | Some (DAcc None _ _ _) => Ret vundef
  end.
Definition has_idx (k : N) : prog bool := cur <- get_own k ;; Ret (is_some cur).
(* HasProperty followed by Get (boa: try_get) *)
Definition try_get_idx (k : N) : prog (option value) :=
  cur <- get_own k ;;
  match cur with
  | None => Ret None
  | Some (DData v _ _ _) => Ret (Some v)
  | Some (DAcc (Some g) _ _ _) => log_event (EGet g) ;;; Ret (Some (getter_ret g))
  | Some (DAcc None _ _ _) => Ret (Some vundef)
  end.

(* OrdinarySet with Receiver = O on an index key *)
Definition set_idx (fl : flavour) (k : N) (v : value) : prog bool :=
  cur <- get_own k ;;
  match cur with
  | None => define_idx fl k (pd_full v)                       (* CreateDataProperty(Receiver, P, V) *)
  | Some (DData _ w _ _) => if w then define_idx fl k (pd_value v) else Ret false
  | Some (DAcc _ (Some s) _ _) => log_event (ESet s v) ;;; Ret true
  | Some (DAcc _ None _ _) => Ret false
  end.
Definition set_or_throw (fl : flavour) (k : N) (v : value) : prog unit :=
  ok <- set_idx fl k v ;; if ok then Ret tt else Throw TypeError.

Fixpoint filter_ge (n : N) (l : list N) : list N :=
  match l with [] => [] | x :: t => if n <=? x then x :: filter_ge n t else filter_ge n t end.

(* ArraySetLength *)
Fixpoint asl_delete (keys_desc : list N) (new_len : N) (new_writable : bool) (p : pdesc) : prog bool :=
  match keys_desc with
  | [] =>
      if new_writable then Ret true
      else ordinary_define_len (mkP None (Some false) None None None None) ;;; Ret true
  | idx :: t =>
      ok <- delete_idx idx ;;
      if ok then asl_delete t new_len new_writable p
      else
        let p1 := mkP (Some (value_of_N (idx + 1)))
                      (if new_writable then p_writable p else Some false)
                      None None (p_enum p) (p_conf p) in
        ordinary_define_len p1 ;;; Ret false
  end.

Definition array_set_length (p : pdesc) : prog bool :=
  match p_value p with
  | None => ordinary_define_len p
  | Some v =>
      match to_array_len v with
      | inr e => Throw e
      | inl None => Throw RangeError
      | inl (Some new_len) =>
          let p0 := mkP (Some (value_of_N new_len)) (p_writable p) None None (p_enum p) (p_conf p) in
          m <- get_meta ;;
          let old_len := meta_len m in
          if old_len <=? new_len then ordinary_define_len p0
          else if negb (len_writable m) then Ret false
          else
            let new_writable := match p_writable p with Some false => false | _ => true end in
            let p1 := if new_writable then p0
                      else mkP (p_value p0) (Some true) None None (p_enum p0) (p_conf p0) in
            ok <- ordinary_define_len p1 ;;
            if negb ok then Ret false
            else
              ks <- own_keys ;;
              asl_delete (rev (filter_ge new_len ks)) new_len new_writable p1
      end
  end.

(* [[DefineOwnProperty]]("length", p) *)
Definition define_len (p : pdesc) : prog bool :=
  m <- get_meta ;;
  match m_kind m with
  | KArray => array_set_length p
  | KPlain => ordinary_define_len p
  end.

(* O.[[Set]]("length", v, O) *)
Definition set_len_prop (v : value) : prog bool :=
  m <- get_meta ;;
  match m_len m with
  | DData _ w _ _ => if w then define_len (pd_value v) else Ret false
  | DAcc _ _ _ _ => Throw Unsupported
  end.

Definition get_len : prog N := m <- get_meta ;; Ret (meta_len m).

(* Set(O, "length", n, true) as the builtins do it: boa's Array::set_length shortcut *)
Definition set_len (fl : flavour) (n : N) : prog unit :=
  if MAX_INDEX <? n then Throw Unsupported
  else
    m <- get_meta ;;
    match fl with
    | Boa =>
        if is_array m && (n <? 4294967295) && template_shape m then set_len_value n
        else ok <- set_len_prop (value_of_N n) ;; if ok then Ret tt else Throw TypeError
    | Spec => ok <- set_len_prop (value_of_N n) ;; if ok then Ret tt else Throw TypeError
    end.

(* ------------------------------------------------------------------------------------------ *)
(* relative index arguments *)

Inductive rel := RAbs | RInt (z : Z) | RPInf | RNInf.    (* undefined/absent, an integer, +-Infinity *)

(* get_relative_start: undefined -> 0 *)
Definition rel_start (r : rel) (n : N) : N :=
  match r with
  | RAbs => 0
  | RNInf => 0
  | RPInf => n
  | RInt z => if (z <? 0)%Z then Z.to_N (Z.max (Z.of_N n + z) 0) else N.min (Z.to_N z) n
  end.
(* get_relative_end: undefined -> len *)
Definition rel_end (r : rel) (n : N) : N :=
  match r with RAbs => n | _ => rel_start r n end.

Definition guard_loop (n : N) : prog unit := if LOOP_LIMIT <? n then Throw Unsupported else Ret tt.

(* ------------------------------------------------------------------------------------------ *)
(* results *)

Inductive res :=
| RNone
| RVal (v : value)
| RSelf
| RArr (n : N) (elems : list (N * value))     (* a fresh array: length and elements *)
| RJoin (parts : list (option value)).       (* join: per element None = empty string *)

(* ------------------------------------------------------------------------------------------ *)
(* Array.prototype algorithms *)

Section Algorithms.
  Variable fl : flavour.

  Fixpoint push_loop (items : list value) (k : N) : prog unit :=
    match items with
    | [] => Ret tt
    | v :: t => set_or_throw fl k v ;;; push_loop t (k + 1)
    end.

  Definition a_push (items : list value) : prog res :=
    n <- get_len ;;
    let n' := n + len items in
    if MAX_INDEX <? n' then Throw Unsupported
    else push_loop items n ;;; set_len fl n' ;;; Ret (RVal (value_of_N n')).

  Definition a_pop : prog res :=
    n <- get_len ;;
    if n =? 0 then set_len fl 0 ;;; Ret (RVal vundef)
    else
      v <- get_idx (n - 1) ;;
      delete_or_throw (n - 1) ;;;
      set_len fl (n - 1) ;;;
      Ret (RVal v).

  (* move element `from` to `to` or delete `to` *)
  Definition move (from to : N) : prog unit :=
    fv <- try_get_idx from ;;
    match fv with
    | Some v => set_or_throw fl to v
    | None => delete_or_throw to
    end.

  (* for k in start .. start+cnt-1 ascending: move (k + dfrom) -> (k + dto) *)
  Fixpoint move_up (cnt : nat) (k dfrom dto : N) : prog unit :=
    match cnt with
    | O => Ret tt
    | S c => move (k + dfrom) (k + dto) ;;; move_up c (k + 1) dfrom dto
    end.
  (* for k = top-1 downto top-cnt: move (k + dfrom) -> (k + dto) *)
  Fixpoint move_down (cnt : nat) (top dfrom dto : N) : prog unit :=
    match cnt with
    | O => Ret tt
    | S c => move (top - 1 + dfrom) (top - 1 + dto) ;;; move_down c (top - 1) dfrom dto
    end.
  (* delete k = top-1 downto top-cnt *)
  Fixpoint delete_down (cnt : nat) (top : N) : prog unit :=
    match cnt with
    | O => Ret tt
    | S c => delete_or_throw (top - 1) ;;; delete_down c (top - 1)
    end.

  Definition a_shift : prog res :=
    n <- get_len ;;
    if n =? 0 then set_len fl 0 ;;; Ret (RVal vundef)
    else
      guard_loop n ;;;
      first <- get_idx 0 ;;
      (* k = 1 .. n-1: from = k, to = k-1 *)
      move_up (N.to_nat (n - 1)) 0 1 0 ;;;
      delete_or_throw (n - 1) ;;;
      set_len fl (n - 1) ;;;
      Ret (RVal first).

  Fixpoint set_items (items : list value) (k : N) : prog unit :=
    match items with
    | [] => Ret tt
    | v :: t => set_or_throw fl k v ;;; set_items t (k + 1)
    end.

  Definition a_unshift (items : list value) : prog res :=
    n <- get_len ;;
    let c := len items in
    if MAX_INDEX <? n + c then Throw Unsupported
    else
      (if 0 <? c then
         guard_loop n ;;;
         (* k = n downto 1: from = k-1, to = k+c-1 *)
         move_down (N.to_nat n) n 0 c ;;;
         set_items items 0
       else Ret tt) ;;;
      set_len fl (n + c) ;;;
      Ret (RVal (value_of_N (n + c))).

  (* collect elements [start, start+cnt) as (offset, value) for a result array *)
  Fixpoint collect (cnt : nat) (k : N) (j : N) : prog (list (N * value)) :=
    match cnt with
    | O => Ret []
    | S c =>
        v <- try_get_idx k ;;
        rest <- collect c (k + 1) (j + 1) ;;
        Ret (match v with Some x => (j, x) :: rest | None => rest end)
    end.

  (* deleteCount: None = not present *)
  Definition splice_delete_count (n start : N) (has_start : bool) (dc : option rel) : N :=
    if negb has_start then 0
    else match dc with
         | None => n - start
         | Some RAbs => 0
         | Some RNInf => 0
         | Some RPInf => n - start
         | Some (RInt z) => if (z <? 0)%Z then 0 else N.min (Z.to_N z) (n - start)
         end.

  Definition a_splice (start : option rel) (dc : option rel) (items : list value) : prog res :=
    n <- get_len ;;
    let st := rel_start (match start with Some r => r | None => RAbs end) n in
    let ic := len items in
    let dcount := splice_delete_count n st (is_some start) dc in
    if MAX_INDEX <? n + ic - dcount then Throw Unsupported
    else
      guard_loop n ;;;
      removed <- collect (N.to_nat dcount) st 0 ;;
      (if ic <? dcount then
         (* k = st .. n-dcount-1: from k+dcount to k+ic; then delete n-1 downto n-dcount+ic *)
         move_up (N.to_nat (n - dcount - st)) st dcount ic ;;;
         delete_down (N.to_nat (dcount - ic)) n
       else if dcount <? ic then
         (* k = n-dcount-1 downto st: from k+dcount to k+ic *)
         move_down (N.to_nat (n - dcount - st)) (n - dcount) dcount ic
       else Ret tt) ;;;
      set_items items st ;;;
      set_len fl (n - dcount + ic) ;;;
      Ret (RArr dcount removed).

  Definition a_slice (s e : rel) : prog res :=
    n <- get_len ;;
    let k := rel_start s n in
    let f := rel_end e n in
    let cnt := f - k in
    guard_loop cnt ;;;
    els <- collect (N.to_nat cnt) k 0 ;;
    Ret (RArr cnt els).

  (* elements of an argument array (a fresh, ordinary dense/holey array): pure *)
  Fixpoint arg_elems (l : list (option value)) (j : N) : list (N * value) :=
    match l with
    | [] => []
    | Some v :: t => (j, v) :: arg_elems t (j + 1)
    | None :: t => arg_elems t (j + 1)
    end.
  Fixpoint concat_args (args : list (list (option value))) (j : N) : N * list (N * value) :=
    match args with
    | [] => (j, [])
    | a :: t =>
        let (j', rest) := concat_args t (j + len a) in
        (j', arg_elems a j ++ rest)
    end.

  Definition self_value : value := VOther (OObj 0).     (* object id 0 = the subject itself *)

  Definition a_concat (args : list (list (option value))) : prog res :=
    m <- get_meta ;;
    match m_kind m with
    | KArray =>
        n <- get_len ;;
        guard_loop n ;;;
        own <- collect (N.to_nat n) 0 0 ;;
        let (total, rest) := concat_args args n in
        Ret (RArr total (own ++ rest))
    | KPlain =>
        (* IsConcatSpreadable(plain object) = false: O itself is the first element *)
        let (total, rest) := concat_args args 1 in
        Ret (RArr total ((0, self_value) :: rest))
    end.

  Fixpoint reverse_loop (cnt : nat) (lower n : N) : prog unit :=
    match cnt with
    | O => Ret tt
    | S c =>
        let upper := n - lower - 1 in
        lv <- try_get_idx lower ;;
        uv <- try_get_idx upper ;;
        (match lv, uv with
         | Some l, Some u => set_or_throw fl lower u ;;; set_or_throw fl upper l
         | None, Some u => set_or_throw fl lower u ;;; delete_or_throw upper
         | Some l, None => delete_or_throw lower ;;; set_or_throw fl upper l
         | None, None => Ret tt
         end) ;;;
        reverse_loop c (lower + 1) n
    end.

  Definition a_reverse : prog res :=
    n <- get_len ;;
    guard_loop n ;;;
    reverse_loop (N.to_nat (n / 2)) 0 n ;;;
    Ret RSelf.

  Fixpoint fill_loop (cnt : nat) (k : N) (v : value) : prog unit :=
    match cnt with
    | O => Ret tt
    | S c => set_or_throw fl k v ;;; fill_loop c (k + 1) v
    end.

  Definition a_fill (v : value) (s e : rel) : prog res :=
    n <- get_len ;;
    let k := rel_start s n in
    let f := rel_end e n in
    guard_loop (f - k) ;;;
    fill_loop (N.to_nat (f - k)) k v ;;;
    Ret RSelf.

  Fixpoint copy_loop (cnt : nat) (from to : Z) (dir : Z) : prog unit :=
    match cnt with
    | O => Ret tt
    | S c => move (Z.to_N from) (Z.to_N to) ;;; copy_loop c (from + dir)%Z (to + dir)%Z dir
    end.

  Definition a_copy_within (t s e : rel) : prog res :=
    n <- get_len ;;
    let to := Z.of_N (rel_start t n) in
    let from := Z.of_N (rel_start s n) in
    let final := Z.of_N (rel_end e n) in
    let count := Z.min (final - from) (Z.of_N n - to) in
    guard_loop (Z.to_N count) ;;;
    (if ((from <? to) && (to <? from + count))%Z
     then copy_loop (Z.to_nat count) (from + count - 1)%Z (to + count - 1)%Z (-1)%Z
     else copy_loop (Z.to_nat count) from to 1%Z) ;;;
    Ret RSelf.

  Fixpoint index_of_loop (cnt : nat) (k : N) (v : value) : prog Z :=
    match cnt with
    | O => Ret (-1)%Z
    | S c =>
        e <- try_get_idx k ;;
        match e with
        | Some x => if strict_equals v x then Ret (Z.of_N k) else index_of_loop c (k + 1) v
        | None => index_of_loop c (k + 1) v
        end
    end.

  (* indexOf / includes: fromIndex undefined -> 0 *)
  Definition from_index (r : rel) (n : N) : option N :=
    match r with
    | RAbs => Some 0
    | RPInf => None
    | RNInf => Some 0
    | RInt z => if (z <? 0)%Z then Some (Z.to_N (Z.max (Z.of_N n + z) 0)) else Some (Z.to_N z)
    end.

  Definition a_index_of (v : value) (from : rel) : prog res :=
    n <- get_len ;;
    if n =? 0 then Ret (RVal (VInt (-1)))
    else match from_index from n with
         | None => Ret (RVal (VInt (-1)))
         | Some k =>
             guard_loop (n - k) ;;;
             r <- index_of_loop (N.to_nat (n - k)) k v ;;
             Ret (RVal (value_of_Z r))
         end.

  (* k from `k` down to 0 *)
  Fixpoint last_index_of_loop (cnt : nat) (k : N) (v : value) : prog Z :=
    match cnt with
    | O => Ret (-1)%Z
    | S c =>
        e <- try_get_idx k ;;
        match e with
        | Some x => if strict_equals v x then Ret (Z.of_N k) else last_index_of_loop c (k - 1) v
        | None => last_index_of_loop c (k - 1) v
        end
    end.

  (* fromIndex: None = not present *)
  Definition a_last_index_of (v : value) (from : option rel) : prog res :=
    n <- get_len ;;
    if n =? 0 then Ret (RVal (VInt (-1)))
    else
      let start : option Z :=
        match from with
        | None => Some (Z.of_N n - 1)%Z
        | Some RAbs => Some 0%Z
        | Some RNInf => None
        | Some RPInf => Some (Z.of_N n - 1)%Z
        | Some (RInt z) => if (0 <=? z)%Z then Some (Z.min z (Z.of_N n - 1)) else Some (Z.of_N n + z)%Z
        end in
      match start with
      | None => Ret (RVal (VInt (-1)))
      | Some k =>
          if (k <? 0)%Z then Ret (RVal (VInt (-1)))
          else
            guard_loop (Z.to_N k) ;;;
            r <- last_index_of_loop (S (Z.to_nat k)) (Z.to_N k) v ;;
            Ret (RVal (value_of_Z r))
      end.

  Fixpoint includes_loop (cnt : nat) (k : N) (v : value) : prog bool :=
    match cnt with
    | O => Ret false
    | S c =>
        x <- get_idx k ;;
        if same_value_zero v x then Ret true else includes_loop c (k + 1) v
    end.

  Definition a_includes (v : value) (from : rel) : prog res :=
    n <- get_len ;;
    if n =? 0 then Ret (RVal (vbool false))
    else match from_index from n with
         | None => Ret (RVal (vbool false))
         | Some k =>
             guard_loop (n - k) ;;;
             r <- includes_loop (N.to_nat (n - k)) k v ;;
             Ret (RVal (vbool r))
         end.

  Fixpoint join_loop (cnt : nat) (k : N) : prog (list (option value)) :=
    match cnt with
    | O => Ret []
    | S c =>
        x <- get_idx k ;;
        rest <- join_loop c (k + 1) ;;
        let part := match x with
                    | VOther OUndef => None | VOther ONull => None
                    | VOther (OObj 0) => None             (* the array itself *)
                    | _ => Some x end in
        Ret (part :: rest)
    end.

  Definition a_join : prog res :=
    n <- get_len ;;
    guard_loop n ;;;
    parts <- join_loop (N.to_nat n) 0 ;;
    Ret (RJoin parts).

  Definition a_at (i : rel) : prog res :=
    n <- get_len ;;
    let k : option N :=
      match i with
      | RAbs => if 0 <? n then Some 0 else None
      | RInt z => if (0 <=? z)%Z then (if (z <? Z.of_N n)%Z then Some (Z.to_N z) else None)
                  else if (- z <=? Z.of_N n)%Z then Some (Z.to_N (Z.of_N n + z)) else None
      | _ => None
      end in
    match k with
    | None => Ret (RVal vundef)
    | Some k => v <- get_idx k ;; Ret (RVal v)
    end.

  (* SetIntegrityLevel *)
  Fixpoint define_all (ks : list N) (frozen : bool) : prog unit :=
    match ks with
    | [] => Ret tt
    | k :: t =>
        cur <- get_own k ;;
        (match cur with
         | None => Ret tt
         | Some d =>
             let p := if frozen && d_is_data d
                      then mkP None (Some false) None None None (Some false)
                      else mkP None None None None None (Some false) in
             ok <- define_idx fl k p ;; if ok then Ret tt else Throw TypeError
         end) ;;;
        define_all t frozen
    end.

  Definition a_integrity (frozen : bool) : prog res :=
    m <- get_meta ;;
    set_meta (with_ext m false) ;;;
    ks <- own_keys ;;
    define_all ks frozen ;;;
    m1 <- get_meta ;;
    let p := if frozen && d_is_data (m_len m1)
             then mkP None (Some false) None None None (Some false)
             else mkP None None None None None (Some false) in
    ok <- define_len p ;;
    if ok then Ret RNone else Throw TypeError.

  Definition a_prevent : prog res :=
    m <- get_meta ;; set_meta (with_ext m false) ;;; Ret RNone.
End Algorithms.

(* ------------------------------------------------------------------------------------------ *)
(* history operations *)

Inductive op :=
| OSet (k : N) (v : value)              (* subject[k] = v            (strict code) *)
| OGet (k : N)                          (* subject[k] *)
| ODel (k : N)                          (* delete subject[k]         (strict code) *)
| OLen (v : value)                      (* subject.length = v        (strict code) *)
| ODef (k : N) (p : pdesc)              (* Object.defineProperty(subject, k, p) *)
| ODefLen (p : pdesc)                   (* Object.defineProperty(subject, "length", p) *)
| OFreeze | OSeal | OPrevent
| OPush (vs : list value) | OPop | OShift | OUnshift (vs : list value)
| OSplice (start : option rel) (dc : option rel) (items : list value)
| OSlice (s e : rel)
| OConcat (args : list (list (option value)))
| OReverse
| OFill (v : value) (s e : rel)
| OCopyWithin (t s e : rel)
| OIndexOf (v : value) (from : rel)
| OLastIndexOf (v : value) (from : option rel)
| OIncludes (v : value) (from : rel)
| OJoin
| OAt (i : rel).

Definition pd_ok (p : pdesc) : bool := negb (pd_is_accessor p && pd_is_data p).   (* ToPropertyDescriptor *)

Definition op_prog (fl : flavour) (o : op) : prog res :=
  match o with
  | OSet k v => set_or_throw fl k v ;;; Ret RNone
  | OGet k => v <- get_idx k ;; Ret (RVal v)
  | ODel k => delete_or_throw k ;;; Ret RNone
  | OLen v =>
      m <- get_meta ;;
      (match m_kind m, v with
       | KPlain, VInt z => if (z <? 0)%Z then Throw Unsupported else Ret tt
       | KPlain, _ => Throw Unsupported
       | KArray, _ => Ret tt
       end) ;;;
      ok <- set_len_prop v ;; if ok then Ret RNone else Throw TypeError
  | ODef k p =>
      if negb (pd_ok p) then Throw TypeError
      else ok <- define_idx fl k p ;; if ok then Ret RNone else Throw TypeError
  | ODefLen p =>
      if negb (pd_ok p) then Throw TypeError
      else if pd_is_accessor p then Throw Unsupported
      else
        m <- get_meta ;;
        (match m_kind m, p_value p with
         | KPlain, Some (VInt z) => if (z <? 0)%Z then Throw Unsupported else Ret tt
         | KPlain, Some _ => Throw Unsupported
         | _, _ => Ret tt
         end) ;;;
        ok <- define_len p ;; if ok then Ret RNone else Throw TypeError
  | OFreeze => a_integrity fl true
  | OSeal => a_integrity fl false
  | OPrevent => a_prevent
  | OPush vs => a_push fl vs
  | OPop => a_pop fl
  | OShift => a_shift fl
  | OUnshift vs => a_unshift fl vs
  | OSplice s d items => a_splice fl s d items
  | OSlice s e => a_slice s e
  | OConcat args => a_concat args
  | OReverse => a_reverse fl
  | OFill v s e => a_fill fl v s e
  | OCopyWithin t s e => a_copy_within fl t s e
  | OIndexOf v f => a_index_of v f
  | OLastIndexOf v f => a_last_index_of v f
  | OIncludes v f => a_includes v f
  | OJoin => a_join
  | OAt i => a_at i
  end.

(* the abstract array-like (ECMA-262) *)
Definition sstep (o : op) (a : astore) (m : meta) : result res * astore * meta :=
  run_a (op_prog Spec o) a m.

(* the implementation model: boa's flavour on `storage`, plus the store-level fast paths *)
Definition istep (o : op) (s : storage) (m : meta) : result res * storage * meta :=
  match o with
  | OSet k v =>
      (* SetPropertyByValue fast path: array, extensible, set_dense_property succeeds *)
      match (if is_array m && m_ext m && wfvb v then set_dense_property s k v else None) with
      | Some s' => (inl RNone, s', m)
      | None => run_i (op_prog Boa o) s m
      end
  | OGet k =>
      (* GetPropertyByValue fast path: array and get_dense_property hits *)
      match (if is_array m then get_dense_property s k else None) with
      | Some v => (inl (RVal (vnorm v)), s, m)
      | None => run_i (op_prog Boa o) s m
      end
  | OShift =>
      (* Array.prototype.shift: dense fast path when `len <= dense.len()`; beyond LOOP_LIMIT the executable model
         reports Unsupported on every path (the bound of the generic loop), so the fast path is not modelled there *)
      let n := meta_len m in
      match (if is_array m && negb (n =? 0) && (n <=? LOOP_LIMIT) then shift_dense s n else None) with
      | Some (v, s') =>
          let '(r, s2, m2) := run_i (set_len Boa (n - 1)) s' m in
          match r with
          | inl _ => (inl (RVal (vnorm v)), s2, m2)
          | inr e => (inr e, s2, m2)
          end
      | None => run_i (op_prog Boa o) s m
      end
  | _ => run_i (op_prog Boa o) s m
  end.

(* ------------------------------------------------------------------------------------------ *)
(* initial states *)

(* array literal `[v0, , v2]`: PushValueToArray (push_dense, else CreateDataProperty at length) /
   PushElisionToArray (length + 1, transform_to_sparse) *)
Fixpoint lit_build (l : list (option value)) (s : storage) (n : N) : storage * N :=
  match l with
  | [] => (s, n)
  | Some v :: t =>
      let (ok, s') := push_dense s v in
      if ok then lit_build t s' (n + 1)
      else lit_build t (snd (insert s n (simple v))) (n + 1)
  | None :: t => lit_build t (transform_to_sparse s) (n + 1)
  end.

Definition array_len_desc (n : N) : desc := DData (value_of_N n) true false false.
Definition plain_len_desc (n : N) : desc := DData (value_of_N n) true true true.

Definition init_array_i (l : list (option value)) : storage * meta :=
  let (s, n) := lit_build l storage_default 0 in
  (s, mkMeta KArray (array_len_desc n) true []).

(* plain array-like: `{length: n}` then `o[i] = v` for every element *)
Fixpoint plain_build (l : list (option value)) (s : storage) (k : N) : storage :=
  match l with
  | [] => s
  | Some v :: t => plain_build t (snd (insert s k (simple v))) (k + 1)
  | None :: t => plain_build t s (k + 1)
  end.
Definition init_plain_i (l : list (option value)) : storage * meta :=
  (plain_build l storage_default 0, mkMeta KPlain (plain_len_desc (len l)) true []).

Fixpoint abuild (l : list (option value)) (k : N) : astore :=
  match l with
  | [] => []
  | Some v :: t => (k, simple (vnorm v)) :: abuild t (k + 1)
  | None :: t => abuild t (k + 1)
  end.
Definition init_a (kd : kind) (l : list (option value)) : astore * meta :=
  (abuild l 0,
   mkMeta kd (match kd with KArray => array_len_desc (len l) | KPlain => plain_len_desc (len l) end) true []).

(* ------------------------------------------------------------------------------------------ *)
(* observation after a step *)

Definition dump_i (s : storage) : list (N * desc) :=
  flat_map (fun k => match abs s k with Some d => [(k, d)] | None => [] end) (nsort (keys s)).
Definition dump_a (a : astore) : list (N * desc) := a.

Definition clear_log (m : meta) : meta := with_log m [].

(* one observed step: result, events, state *)
Record obs := mkObs { o_res : result res; o_log : list event; o_len : desc; o_ext : bool; o_elems : list (N * desc) }.

Definition rnorm (r : res) : res :=
  match r with
  | RVal v => RVal (vnorm v)
  | RArr n l => RArr n (map (fun kv => (fst kv, vnorm (snd kv))) l)
  | RJoin l => RJoin (map (option_map vnorm) l)
  | _ => r
  end.
Definition resnorm (r : result res) : result res := match r with inl x => inl (rnorm x) | inr e => inr e end.

Definition iobs (o : op) (s : storage) (m : meta) : obs * storage * meta :=
  let '(r, s', m') := istep o s (clear_log m) in
  (mkObs (resnorm r) (m_log m') (m_len m') (m_ext m') (dump_i s'), s', m').
Definition sobs (o : op) (a : astore) (m : meta) : obs * astore * meta :=
  let '(r, a', m') := sstep o a (clear_log m) in
  (mkObs (resnorm r) (m_log m') (m_len m') (m_ext m') (dump_a a'), a', m').

Fixpoint irun (ops : list op) (s : storage) (m : meta) : list obs :=
  match ops with
  | [] => []
  | o :: t => let '(ob, s', m') := iobs o s m in ob :: irun t s' m'
  end.
Fixpoint srun (ops : list op) (a : astore) (m : meta) : list obs :=
  match ops with
  | [] => []
  | o :: t => let '(ob, a', m') := sobs o a m in ob :: srun t a' m'
  end.
