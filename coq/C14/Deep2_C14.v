(* C14 deepening, part 2: the flavour-parametric primitives ([[DefineOwnProperty]], [[Set]], [[Delete]] on an index,
   Set(O, "length", n)) preserve the invariant and run identically in both flavours.
   `IK kd b s m` : the object has kind kd, satisfies Inv, and (arrays) every element index is below b. *)
From Coq Require Import NArith ZArith List Bool Lia.
From C14 Require Import Indexed ArraySpec ProofsA_C14 ProofsB_C14 ProofsC_C14 ProofsD_C14 Deep1_C14.
Import ListNotations.
Local Open Scope N_scope.

Definition IK (kd : kind) (b : N) (s : storage) (m : meta) : Prop := m_kind m = kd /\ Inv s m /\ KL b s m.

Lemma IK_msame kd b s m m' : IK kd b s m -> msame m m' -> IK kd b s m'.
Proof.
  intros (Hk & Hi & Hl) Hs. split; [destruct Hs; congruence|]. split; [eapply Inv_msame; eassumption|eapply KL_msame; eassumption].
Qed.

Lemma IK_mono kd b b' s m : IK kd b s m -> b <= b' -> IK kd b' s m.
Proof. intros (Hk & Hi & Hl) Hle. split; [assumption|]. split; [assumption|eapply KL_mono; eassumption]. Qed.

Lemma is_array_kind m : is_array m = true <-> m_kind m = KArray.
Proof. unfold is_array. destruct (m_kind m); split; congruence. Qed.

Lemma is_array_plain m : m_kind m = KPlain -> is_array m = false.
Proof. unfold is_array. intros ->. reflexivity. Qed.

(* read-only programs keep IK *)
Lemma ok_ro_IK {A} (p : prog A) kd b : ro p -> ok (IK kd b) (fun _ => p) (fun _ => IK kd b).
Proof.
  intros Hro. eapply ok_weaken; [apply (ok_ro p (IK kd b) Hro)|auto|].
  intros r s' m' (s & m & H & -> & Hs). eapply IK_msame; eassumption.
Qed.

(* ------------------------------------------------------------------------------------------ *)
(* OrdinaryDefineOwnProperty on an index *)

Lemma run_odi s m k p : wf s ->
  exists r s1, run_i (ordinary_define_idx k p) s m = (r, s1, m) /\
    ((r = inl false /\ s1 = s) \/ (r = inl true /\ s1 = s /\ abs s k <> None) \/
     (exists d, wfd d /\ r = inl true /\ s1 = snd (insert s k d)) \/ (r = inr Internal /\ s1 = s)).
Proof.
  intros Hwf. unfold ordinary_define_idx. rewrite run_bind, run_get_own by assumption.
  rewrite run_bind, run_get_meta.
  destruct (validate_and_apply (m_ext m) p (abs s k)) as [| |d] eqn:E; cbn [run_i].
  - eauto 10.
  - exists (inl true), s. split; [reflexivity|]. right. left. repeat split.
    intros Hn. rewrite Hn in E. cbn [validate_and_apply] in E.
    destruct (negb (m_ext m)); [discriminate|]. destruct (pd_is_generic p || pd_is_data p); discriminate.
  - rewrite run_bind. cbn [ins run_i]. destruct (wfdb d) eqn:Hd; cbn [run_i].
    + exists (inl true), (snd (insert s k d)). split; [reflexivity|]. right. right. left. exists d. auto.
    + eauto 10.
Qed.

Lemma keys_after_insert s k d k' : wf s -> wfd d -> abs (snd (insert s k d)) k' <> None -> k' = k \/ abs s k' <> None.
Proof.
  intros Hwf Hd H. destruct (insert_abs s k d Hwf Hd) as (_ & _ & Ha). rewrite Ha in H. unfold upd in H.
  destruct (N.eqb_spec k' k); auto.
Qed.

Lemma wf_after_insert s k d : wf s -> wfd d -> wf (snd (insert s k d)).
Proof. intros Hwf Hd. apply (insert_abs s k d Hwf Hd). Qed.

(* ordinary (plain object) define: wf is all there is to keep *)
Lemma odi_plain s m k p b : IK KPlain b s m ->
  let x := run_i (ordinary_define_idx k p) s m in IK KPlain b (st_of x) (mt_of x).
Proof.
  intros (Hk & (Hwf & Hu & _) & _) x. subst x. destruct (run_odi s m k p Hwf) as (r & s1 & -> & Hc).
  unfold st_of, mt_of. cbn [fst snd].
  assert (Hw1 : wf s1).
  { destruct Hc as [[_ ->]|[[_ [-> _]]|[(d & Hd & _ & ->)|[_ ->]]]]; try assumption. apply wf_after_insert; assumption. }
  pose proof (is_array_plain m Hk) as Ha.
  split; [assumption|]. split; [split; [assumption|split; [assumption|intros; congruence]]|intros ?; congruence].
Qed.

(* array exotic [[DefineOwnProperty]] on an index, specification flavour *)
Lemma adi_spec s m k p b : IK KArray b s m -> k <= MAX_INDEX -> k < b ->
  let x := run_i (array_define_idx Spec k p) s m in IK KArray b (st_of x) (mt_of x).
Proof.
  intros HIK Hmax Hkb x. subst x. pose proof HIK as (Hk & (Hwf & Hu & Hi) & Hkl).
  pose proof (proj2 (is_array_kind m) Hk) as Harr.
  destruct (Hi Harr) as (Hel & (w & e & c & Hlen)).
  specialize (Hkl Harr).
  unfold array_define_idx. rewrite run_bind, run_get_meta.
  destruct ((meta_len m <=? k) && negb (len_writable m)) eqn:Ec; cbn [run_i]; [exact HIK|].
  rewrite run_bind. destruct (run_odi s m k p Hwf) as (r & s1 & -> & Hc).
  destruct Hc as [[-> ->]|[[-> [-> Hn]]|[(d & Hd & -> & ->)|[-> ->]]]]; cbn [run_i].
  - exact HIK.
  - specialize (Hel k Hn). replace (meta_len m <=? k) with false by (symmetry; apply N.leb_gt; exact Hel).
    rewrite run_bind. cbn [run_i]. exact HIK.
  - pose proof (wf_after_insert s k d Hwf Hd) as Hw1.
    pose proof (fun k' => keys_after_insert s k d k' Hwf Hd) as Hkeys.
    rewrite run_bind.
    destruct (N.leb_spec (meta_len m) k) as [Hle|Hgt].
    + unfold set_len_value. rewrite run_bind, run_get_meta, Hlen. cbn [set_meta run_i].
      unfold MAX_INDEX in Hmax.
      destruct (with_len_canonical m (k + 1) w e c) as (Hl' & Hc' & Hk' & _); [unfold U32; lia|].
      unfold st_of, mt_of. cbn [fst snd].
      split; [rewrite Hk'; assumption|]. split.
      * split; [assumption|]. rewrite Hl'. split; [unfold U32; lia|]. intros _. split; [|assumption].
        intros k' Hk2. destruct (Hkeys k' Hk2) as [->|Hold]; [lia|]. specialize (Hel k' Hold). lia.
      * intros _ k' Hk2. destruct (Hkeys k' Hk2) as [->|Hold]; [assumption|apply Hkl; assumption].
    + cbn [run_i]. unfold st_of, mt_of. cbn [fst snd].
      split; [assumption|]. split.
      * split; [assumption|]. split; [assumption|]. intros _. split; [|exists w, e, c; assumption].
        intros k' Hk2. destruct (Hkeys k' Hk2) as [->|Hold]; [assumption|apply Hel; assumption].
      * intros _ k' Hk2. destruct (Hkeys k' Hk2) as [->|Hold]; [assumption|apply Hkl; assumption].
  - exact HIK.
Qed.

(* [[DefineOwnProperty]] on an index, both kinds, both flavours *)
Lemma ok_define_idx kd b k p : k <= MAX_INDEX -> k < b ->
  ok (IK kd b) (fun fl => define_idx fl k p) (fun _ => IK kd b).
Proof.
  intros Hmax Hkb s m HIK. pose proof HIK as (Hk & (Hwf & Hu & Hi) & _).
  unfold define_idx. rewrite !run_bind, !run_get_meta, Hk. destruct kd.
  - pose proof (proj2 (is_array_kind m) Hk) as Harr. destruct (Hi Harr) as (_ & Hcan).
    split; [apply define_idx_flavours; exact Hcan|]. apply adi_spec; assumption.
  - split; [reflexivity|]. apply odi_plain. exact HIK.
Qed.

(* ------------------------------------------------------------------------------------------ *)
(* [[Set]] on an index *)

Lemma ok_ret_IK {A} kd b (a : A) : ok (IK kd b) (fun _ => Ret a) (fun _ => IK kd b).
Proof. intros s m H. split; [reflexivity|exact H]. Qed.
Lemma ok_throw_IK {A} kd b e : ok (IK kd b) (fun _ => @Throw A e) (fun _ => IK kd b).
Proof. intros s m H. split; [reflexivity|exact H]. Qed.

Lemma ok_set_idx kd b k v : k <= MAX_INDEX -> k < b ->
  ok (IK kd b) (fun fl => set_idx fl k v) (fun _ => IK kd b).
Proof.
  intros Hmax Hkb. unfold set_idx.
  apply (ok_bind (IK kd b) (fun _ => get_own k)
           (fun cur fl => match cur with
                          | None => define_idx fl k (pd_full v)
                          | Some (DData _ w _ _) => if w then define_idx fl k (pd_value v) else Ret false
                          | Some (DAcc _ (Some st) _ _) => log_event (ESet st v) ;;; Ret true
                          | Some (DAcc _ None _ _) => Ret false
                          end) (fun _ => IK kd b)).
  - apply ok_ro_IK, ro_get_own.
  - intros [[v0 w e c|g [st|] e c]|].
    + destruct w; [apply ok_define_idx; assumption|apply ok_ret_IK].
    + apply ok_ro_IK. apply ro_log_event. constructor.
    + apply ok_ret_IK.
    + apply ok_define_idx; assumption.
  - auto.
Qed.

Lemma ok_set_or_throw kd b k v : k <= MAX_INDEX -> k < b ->
  ok (IK kd b) (fun fl => set_or_throw fl k v) (fun _ => IK kd b).
Proof.
  intros Hmax Hkb. unfold set_or_throw.
  apply (ok_bind (IK kd b) (fun fl => set_idx fl k v)
           (fun (r : bool) (_ : flavour) => if r then Ret tt else Throw TypeError) (fun _ => IK kd b)).
  - apply ok_set_idx; assumption.
  - intros [|]; [apply ok_ret_IK|apply ok_throw_IK].
  - auto.
Qed.

(* ------------------------------------------------------------------------------------------ *)
(* [[Delete]] on an index *)

Lemma run_delete_or_throw s m k : wf s ->
  exists r s1, run_i (delete_or_throw k) s m = (r, s1, m) /\ wf s1 /\
    (forall k', abs s1 k' <> None -> abs s k' <> None) /\ (r = inl tt -> abs s1 k = None).
Proof.
  intros Hwf. unfold delete_or_throw, delete_idx. rewrite !run_bind, run_get_own by assumption.
  destruct (abs s k) as [d|] eqn:E; cbn [run_i].
  - destruct (d_configurable d); cbn [run_i].
    + rewrite run_bind. cbn [rem run_i].
      destruct (remove_abs s k Hwf) as (Hw1 & _ & Ha).
      exists (inl tt), (snd (remove s k)). split; [reflexivity|]. split; [assumption|]. split.
      * intros k' Hk'. rewrite Ha in Hk'. unfold upd in Hk'. destruct (k' =? k); [congruence|assumption].
      * intros _. rewrite Ha. unfold upd. rewrite N.eqb_refl. reflexivity.
    + exists (inr TypeError), s. split; [reflexivity|]. split; [assumption|]. split; [auto|discriminate].
  - exists (inl tt), s. split; [reflexivity|]. split; [assumption|]. split; [auto|]. intros _. exact E.
Qed.

Lemma ok_delete_or_throw kd b k :
  ok (IK kd b) (fun _ => delete_or_throw k) (fun r s m => IK kd b s m /\ (r = inl tt -> abs s k = None)).
Proof.
  intros s m (Hk & (Hwf & Hu & Hi) & Hkl). split; [reflexivity|].
  destruct (run_delete_or_throw s m k Hwf) as (r & s1 & -> & Hw1 & Hsub & Hdel).
  unfold rs_of, st_of, mt_of. cbn [fst snd]. split; [|exact Hdel].
  split; [assumption|]. split.
  - split; [assumption|]. split; [assumption|]. intros Ha. destruct (Hi Ha) as (Hel & Hc). split; [|assumption].
    intros k' Hk'. apply Hel, Hsub, Hk'.
  - intros Ha k' Hk'. apply (Hkl Ha), Hsub, Hk'.
Qed.

(* after a successful delete of the top index the element bound drops by one *)
Lemma IK_drop kd b s m : IK kd (b + 1) s m -> abs s b = None -> IK kd b s m.
Proof.
  intros (Hk & Hi & Hkl) Hb. split; [assumption|]. split; [assumption|].
  intros Ha k Hk'. specialize (Hkl Ha k Hk'). destruct (N.eq_dec k b) as [->|]; [congruence|lia].
Qed.

(* ------------------------------------------------------------------------------------------ *)
(* Set(O, "length", n, true) *)

Lemma run_define_len_value' s m lv e c n : m_len m = DData lv true e c ->
  run_i (ordinary_define_len (mkP (Some (value_of_N n)) None None None None None)) s m =
  (inl true, s, with_len m (DData (value_of_N n) true e c)).
Proof.
  intros H. unfold ordinary_define_len. rewrite run_bind, run_get_meta, H.
  cbn [validate_and_apply pd_is_empty pd_is_generic pd_is_accessor pd_is_data p_get p_set p_value p_writable
       p_enum p_conf is_some orb andb negb d_configurable d_enumerable d_is_data Bool.eqb fill_with odflt].
  rewrite andb_false_r. cbn [negb andb].
  rewrite run_bind. reflexivity.
Qed.

Lemma odl_plain s m p : st_of (run_i (ordinary_define_len p) s m) = s /\
  m_kind (mt_of (run_i (ordinary_define_len p) s m)) = m_kind m.
Proof.
  unfold ordinary_define_len. rewrite run_bind, run_get_meta.
  destruct (validate_and_apply (m_ext m) p (Some (m_len m))); cbn [run_i]; split; reflexivity.
Qed.

Lemma set_len_spec kd n s m : IK kd n s m ->
  IK kd n (st_of (run_i (set_len Spec n) s m)) (mt_of (run_i (set_len Spec n) s m)).
Proof.
  intros HIK. pose proof HIK as (Hk & (Hwf & Hu & Hi) & Hkl).
  unfold set_len. destruct (N.ltb_spec MAX_INDEX n) as [|Hmax]; [exact HIK|].
  rewrite run_bind, run_get_meta, run_bind. unfold set_len_prop. rewrite run_bind, run_get_meta.
  destruct (m_len m) as [lv w e c|g st e c] eqn:Hlen; [|exact HIK].
  destruct w; [|exact HIK].
  unfold define_len. rewrite run_bind, run_get_meta, Hk. destruct kd.
  - (* array: ArraySetLength *)
    pose proof (proj2 (is_array_kind m) Hk) as Harr. specialize (Hkl Harr).
    unfold array_set_length. cbn [pd_value p_value p_writable p_enum p_conf].
    unfold MAX_INDEX in Hmax. rewrite to_array_len_value_of_N by lia.
    rewrite run_bind, run_get_meta.
    assert (Hfin : IK KArray n s (with_len m (DData (value_of_N n) true e c))).
    { destruct (with_len_canonical m n true e c) as (Hl' & Hc' & Hk' & _); [unfold U32; lia|].
      split; [rewrite Hk'; assumption|]. split.
      - split; [assumption|]. rewrite Hl'. split; [unfold U32; lia|]. intros _. split; assumption.
      - intros _. assumption. }
    destruct (N.leb_spec (meta_len m) n) as [Hge|Hlt].
    + rewrite (run_define_len_value' s m lv e c n Hlen). cbn [run_i]. exact Hfin.
    + assert (Hw : len_writable m = true) by (unfold len_writable; rewrite Hlen; reflexivity).
      rewrite Hw. cbn [negb]. rewrite run_bind, (run_define_len_value' s m lv e c n Hlen). cbn [negb].
      rewrite run_bind. cbn [own_keys run_i].
      rewrite filter_ge_nil.
      * cbn [rev asl_delete run_i]. exact Hfin.
      * intros k Hk'. apply Hkl. apply (sorted_keys_abs s Hwf). exact Hk'.
  - (* plain object *)
    unfold pd_value. rewrite (run_define_len_value' s m lv e c n Hlen). cbn [run_i].
    unfold st_of, mt_of. cbn [fst snd].
    destruct (with_len_canonical m n true e c) as (Hl' & _ & Hk' & _); [unfold U32, MAX_INDEX in *; lia|].
    assert (Ha : is_array (with_len m (DData (value_of_N n) true e c)) = false) by (apply is_array_plain; congruence).
    split; [congruence|]. split; [|intros ?; congruence].
    split; [assumption|]. rewrite Hl'. split; [unfold U32, MAX_INDEX in *; lia|intros; congruence].
Qed.

Lemma ok_set_len kd n : ok (IK kd n) (fun fl => set_len fl n) (fun _ => IK kd n).
Proof.
  intros s m HIK. pose proof HIK as (Hk & (Hwf & Hu & Hi) & Hkl). split; [|apply set_len_spec; exact HIK].
  destruct kd.
  - apply set_len_flavours; [assumption|]. apply Hkl. apply is_array_kind. assumption.
  - unfold set_len. destruct (MAX_INDEX <? n); [reflexivity|].
    rewrite !run_bind, !run_get_meta. rewrite (is_array_plain m Hk). reflexivity.
Qed.
