(* C14 deepening, part 3: the loops of the Array.prototype algorithms keep the invariant and run identically in
   both flavours (each by induction on its length). *)
From Coq Require Import NArith ZArith List Bool Lia.
From C14 Require Import Indexed ArraySpec ProofsA_C14 ProofsB_C14 ProofsC_C14 ProofsD_C14 Deep1_C14 Deep2_C14.
Import ListNotations.
Local Open Scope N_scope.

Definition MAXB : N := 4294967295.      (* MAX_INDEX + 1: every written index is below a bound b <= MAXB *)

Lemma ok_seq {A} kd b (P : flavour -> prog unit) (Q : flavour -> prog A) Post :
  ok (IK kd b) P (fun _ => IK kd b) -> ok (IK kd b) Q Post -> (forall e s m, IK kd b s m -> Post (inr e) s m) ->
  ok (IK kd b) (fun fl => P fl ;;; Q fl) Post.
Proof.
  intros HP HQ HE. apply (@ok_bind unit A (IK kd b) P (fun (_ : unit) fl => Q fl) (fun _ => IK kd b) Post); auto.
Qed.

Lemma ok_delete_or_throw' kd b k : ok (IK kd b) (fun _ => delete_or_throw k) (fun _ => IK kd b).
Proof. eapply ok_weaken; [apply (ok_delete_or_throw kd b k)|auto|]. intros r s m [H _]. exact H. Qed.

Lemma ok_move kd b from to : to < b -> b <= MAXB ->
  ok (IK kd b) (fun fl => move fl from to) (fun _ => IK kd b).
Proof.
  intros Hto Hb. unfold move.
  apply (ok_bind (IK kd b) (fun _ => try_get_idx from)
           (fun fv fl => match fv with Some v => set_or_throw fl to v | None => delete_or_throw to end)
           (fun _ => IK kd b)).
  - apply ok_ro_IK, ro_try_get_idx.
  - intros [v|].
    + apply ok_set_or_throw; [unfold MAX_INDEX, MAXB in *; lia|assumption].
    + apply ok_delete_or_throw'.
  - auto.
Qed.

Lemma ok_move_up kd b dfrom dto : b <= MAXB -> forall cnt k, N.of_nat cnt + k + dto <= b ->
  ok (IK kd b) (fun fl => move_up fl cnt k dfrom dto) (fun _ => IK kd b).
Proof.
  intros Hb. induction cnt as [|c IH]; intros k Hk; cbn [move_up].
  - apply ok_ret_IK.
  - apply ok_seq; [apply ok_move; [lia|assumption]|apply IH; lia|auto].
Qed.

Lemma ok_move_down kd b dfrom dto : b <= MAXB -> forall cnt top, N.of_nat cnt <= top -> top + dto <= b ->
  ok (IK kd b) (fun fl => move_down fl cnt top dfrom dto) (fun _ => IK kd b).
Proof.
  intros Hb. induction cnt as [|c IH]; intros top Hc Ht; cbn [move_down].
  - apply ok_ret_IK.
  - apply ok_seq; [apply ok_move; [lia|assumption]|apply IH; lia|auto].
Qed.

Lemma ok_set_items kd b : b <= MAXB -> forall items k, k + len items <= b ->
  ok (IK kd b) (fun fl => set_items fl items k) (fun _ => IK kd b).
Proof.
  intros Hb. induction items as [|v t IH]; intros k Hk; cbn [set_items].
  - apply ok_ret_IK.
  - unfold len in *. cbn [length] in Hk.
    apply ok_seq; [apply ok_set_or_throw; unfold MAX_INDEX, MAXB in *; lia|apply IH; lia|auto].
Qed.

Lemma ok_push_loop kd b : b <= MAXB -> forall items k, k + len items <= b ->
  ok (IK kd b) (fun fl => push_loop fl items k) (fun _ => IK kd b).
Proof.
  intros Hb. induction items as [|v t IH]; intros k Hk; cbn [push_loop].
  - apply ok_ret_IK.
  - unfold len in *. cbn [length] in Hk.
    apply ok_seq; [apply ok_set_or_throw; unfold MAX_INDEX, MAXB in *; lia|apply IH; lia|auto].
Qed.

Lemma ok_fill_loop kd b v : b <= MAXB -> forall cnt k, k + N.of_nat cnt <= b ->
  ok (IK kd b) (fun fl => fill_loop fl cnt k v) (fun _ => IK kd b).
Proof.
  intros Hb. induction cnt as [|c IH]; intros k Hk; cbn [fill_loop].
  - apply ok_ret_IK.
  - apply ok_seq; [apply ok_set_or_throw; unfold MAX_INDEX, MAXB in *; lia|apply IH; lia|auto].
Qed.

Lemma ok_copy_loop kd b dir : b <= MAXB -> forall cnt from to,
  (forall j, (j < cnt)%nat -> Z.to_N (to + Z.of_nat j * dir) < b) ->
  ok (IK kd b) (fun fl => copy_loop fl cnt from to dir) (fun _ => IK kd b).
Proof.
  intros Hb. induction cnt as [|c IH]; intros from to Hj; cbn [copy_loop].
  - apply ok_ret_IK.
  - apply ok_seq; [apply ok_move; [|assumption]|apply IH|auto].
    + specialize (Hj O). rewrite Z.mul_0_l, Z.add_0_r in Hj. apply Hj. lia.
    + intros j Hlt. specialize (Hj (S j)). replace (to + dir + Z.of_nat j * dir)%Z with (to + Z.of_nat (S j) * dir)%Z by lia.
      apply Hj. lia.
Qed.

Lemma ok_reverse_loop kd b n : b <= MAXB -> n <= b -> forall cnt lower, N.of_nat cnt + lower <= n ->
  ok (IK kd b) (fun fl => reverse_loop fl cnt lower n) (fun _ => IK kd b).
Proof.
  intros Hb Hn. induction cnt as [|c IH]; intros lower Hl; cbn [reverse_loop].
  - apply ok_ret_IK.
  - assert (Hlo : lower < b) by lia. assert (Hup : n - lower - 1 < b) by lia.
    assert (Hm1 : lower <= MAX_INDEX) by (unfold MAX_INDEX, MAXB in *; lia).
    assert (Hm2 : n - lower - 1 <= MAX_INDEX) by (unfold MAX_INDEX, MAXB in *; lia).
    apply (ok_bind (IK kd b) (fun _ => try_get_idx lower) _ (fun _ => IK kd b));
      [apply ok_ro_IK, ro_try_get_idx| |auto].
    intros lv.
    apply (ok_bind (IK kd b) (fun _ => try_get_idx (n - lower - 1)) _ (fun _ => IK kd b));
      [apply ok_ro_IK, ro_try_get_idx| |auto].
    intros uv.
    apply ok_seq; [|apply IH; lia|auto].
    destruct lv as [l|], uv as [u|].
    + apply ok_seq; [apply ok_set_or_throw; assumption|apply ok_set_or_throw; assumption|auto].
    + apply ok_seq; [apply ok_delete_or_throw' |apply ok_set_or_throw; assumption|auto].
    + apply ok_seq; [apply ok_set_or_throw; assumption|apply ok_delete_or_throw'|auto].
    + apply ok_ret_IK.
Qed.
