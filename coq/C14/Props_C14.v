(* C14 property theorems: statements only, each closed by `exact`, pinned by `Check`, with its assumptions
   printed.  Model: Indexed.v (IndexedProperties of property_map.rs, transliterated) and ArraySpec.v (array
   exotic methods + Array.prototype algorithms as programs over the storage interface).
   `abs s : N -> option desc` is the index map a storage represents (values in normal form: the Integer32 and
   Float64 variants of one JS number are identified - `normal_form_is_js_equality` shows nothing else is);
   `wf` is the representation invariant; `R s a` relates a storage to the abstract ascending association list. *)
From Coq Require Import NArith ZArith List Bool.
From C14 Require Import Indexed ArraySpec ProofsA_C14 ProofsB_C14 ProofsC_C14 ProofsD_C14
     Deep1_C14 Deep2_C14 Deep3_C14 Deep4_C14 Deep5_C14 Deep7_C14 Deep6_C14.
Import ListNotations.
Local Open Scope N_scope.

(* ---- the storage interface refines the abstract index map, in every form and across every transition ---- *)

Theorem get_refines : forall s k, wf s -> option_map dnorm (get s k) = abs s k.
Proof. exact get_abs. Qed.
Check get_refines : forall s k, wf s -> option_map dnorm (get s k) = abs s k.
Print Assumptions get_refines.

Theorem insert_refines : forall s k d, wf s -> wfd d ->
  wf (snd (insert s k d)) /\ fst (insert s k d) = is_some (abs s k) /\
  forall k', abs (snd (insert s k d)) k' = upd (abs s) k (Some (dnorm d)) k'.
Proof. exact insert_abs. Qed.
Check insert_refines : forall s k d, wf s -> wfd d ->
  wf (snd (insert s k d)) /\ fst (insert s k d) = is_some (abs s k) /\
  forall k', abs (snd (insert s k d)) k' = upd (abs s) k (Some (dnorm d)) k'.
Print Assumptions insert_refines.

Theorem remove_refines : forall s k, wf s ->
  wf (snd (remove s k)) /\ fst (remove s k) = is_some (abs s k) /\
  forall k', abs (snd (remove s k)) k' = upd (abs s) k None k'.
Proof. exact remove_abs. Qed.
Check remove_refines : forall s k, wf s ->
  wf (snd (remove s k)) /\ fst (remove s k) = is_some (abs s k) /\
  forall k', abs (snd (remove s k)) k' = upd (abs s) k None k'.
Print Assumptions remove_refines.

Theorem contains_key_refines : forall s k, contains_key s k = is_some (abs s k).
Proof. exact contains_key_abs. Qed.
Check contains_key_refines : forall s k, contains_key s k = is_some (abs s k).
Print Assumptions contains_key_refines.

(* push_dense: in a dense form it stores at the first absent index n (all indices below n are present) and
   reports success; in a sparse form it changes nothing and reports failure (the caller falls back) *)
Theorem push_dense_refines : forall s v, wf s -> wfv v ->
  match dense_len s with
  | Some n => fst (push_dense s v) = true /\ wf (snd (push_dense s v)) /\ abs s n = None /\
              forall k, abs (snd (push_dense s v)) k = upd (abs s) n (Some (simple (vnorm v))) k
  | None => push_dense s v = (false, s)
  end.
Proof. exact push_dense_abs. Qed.
Check push_dense_refines : forall s v, wf s -> wfv v ->
  match dense_len s with
  | Some n => fst (push_dense s v) = true /\ wf (snd (push_dense s v)) /\ abs s n = None /\
              forall k, abs (snd (push_dense s v)) k = upd (abs s) n (Some (simple (vnorm v))) k
  | None => push_dense s v = (false, s)
  end.
Print Assumptions push_dense_refines.

Theorem dense_len_is_first_absent_index : forall s n, dense_len s = Some n -> forall k, is_some (abs s k) = (k <? n).
Proof. exact dense_len_abs. Qed.
Check dense_len_is_first_absent_index : forall s n, dense_len s = Some n -> forall k, is_some (abs s k) = (k <? n).
Print Assumptions dense_len_is_first_absent_index.

Theorem transform_refines : forall s, wf s ->
  wf (transform_to_sparse s) /\ forall k, abs (transform_to_sparse s) k = abs s k.
Proof. exact transform_abs. Qed.
Check transform_refines : forall s, wf s ->
  wf (transform_to_sparse s) /\ forall k, abs (transform_to_sparse s) k = abs s k.
Print Assumptions transform_refines.

(* keys: exactly the present indices, each once (hash-map order arbitrary); after the sort of
   ordinary_own_property_keys strictly ascending *)
Theorem keys_refine : forall s, wf s ->
  (NoDup (keys s) /\ forall k, In k (keys s) <-> abs s k <> None) /\
  (sorted_lt (nsort (keys s)) /\ forall k, In k (nsort (keys s)) <-> abs s k <> None).
Proof. exact (fun s H => conj (keys_abs s H) (sorted_keys_abs s H)). Qed.
Check keys_refine : forall s, wf s ->
  (NoDup (keys s) /\ forall k, In k (keys s) <-> abs s k <> None) /\
  (sorted_lt (nsort (keys s)) /\ forall k, In k (nsort (keys s)) <-> abs s k <> None).
Print Assumptions keys_refine.

(* ---- value fidelity ---- *)

(* the normal form used by `abs` identifies two values exactly when JS cannot tell them apart:
   same canonical binary64 pattern for numbers (so +0 / -0 and NaN stay distinct from everything else),
   identity for non-numbers *)
Theorem normal_form_is_js_equality : forall v1 v2, wfv v1 -> wfv v2 -> (vnorm v1 = vnorm v2 <-> js_same v1 v2).
Proof. exact vnorm_eq_iff. Qed.
Check normal_form_is_js_equality : forall v1 v2, wfv v1 -> wfv v2 -> (vnorm v1 = vnorm v2 <-> js_same v1 v2).
Print Assumptions normal_form_is_js_equality.

(* a value stored through `insert` (whatever form the storage is in or moves to) reads back as the same JS value *)
Theorem value_fidelity : forall s k v, wf s -> wfv v ->
  exists v', get (snd (insert s k (simple v))) k = Some (simple v') /\ js_same v' v.
Proof. exact ProofsB_C14.value_fidelity. Qed.
Check value_fidelity : forall s k v, wf s -> wfv v ->
  exists v', get (snd (insert s k (simple v))) k = Some (simple v') /\ js_same v' v.
Print Assumptions value_fidelity.

(* if the storage is in the packed-int32 form after a store, the stored number IS that int32: -0, NaN and
   fractions can never be narrowed into DenseI32 *)
Theorem dense_i32_holds_exactly_int32 : forall s k v zl, wf s -> wfv v -> snd (insert s k (simple v)) = DenseI32 zl ->
  exists z, vget zl k = Some z /\ in_i32 z /\ num_bits v = Some (i32_to_f64 z).
Proof. exact dense_i32_exact. Qed.
Check dense_i32_holds_exactly_int32 : forall s k v zl, wf s -> wfv v -> snd (insert s k (simple v)) = DenseI32 zl ->
  exists z, vget zl k = Some z /\ in_i32 z /\ num_bits v = Some (i32_to_f64 z).
Print Assumptions dense_i32_holds_exactly_int32.

Theorem neg_zero_and_nan_are_not_int32 :
  as_i32 (VDouble NEG_ZERO) = None /\ (forall b, f64_is_nan b = true -> as_i32 (VDouble b) = None) /\
  (forall z, in_i32 z -> f64_is_nan (i32_to_f64 z) = false /\ i32_to_f64 z <> NEG_ZERO /\
                         f64_to_i32_sat (i32_to_f64 z) = z).
Proof.
  exact (conj neg_zero_not_i32 (conj nan_not_i32
         (fun z H => conj (i32_to_f64_not_nan z H) (conj (i32_to_f64_not_negzero z H) (i32_roundtrip z H))))).
Qed.
Check neg_zero_and_nan_are_not_int32 :
  as_i32 (VDouble NEG_ZERO) = None /\ (forall b, f64_is_nan b = true -> as_i32 (VDouble b) = None) /\
  (forall z, in_i32 z -> f64_is_nan (i32_to_f64 z) = false /\ i32_to_f64 z <> NEG_ZERO /\
                         f64_to_i32_sat (i32_to_f64 z) = z).
Print Assumptions neg_zero_and_nan_are_not_int32.

(* ---- dense fast paths of PropertyMap / Array.prototype.shift ---- *)

Theorem get_dense_property_refines : forall s k v, wf s -> get_dense_property s k = Some v ->
  abs s k = Some (simple (vnorm v)) /\ wfv v.
Proof. exact get_dense_property_abs. Qed.
Check get_dense_property_refines : forall s k v, wf s -> get_dense_property s k = Some v ->
  abs s k = Some (simple (vnorm v)) /\ wfv v.
Print Assumptions get_dense_property_refines.

Theorem set_dense_property_refines : forall s k v s', wf s -> wfv v -> set_dense_property s k v = Some s' ->
  wf s' /\ abs s k <> None /\ forall k', abs s' k' = upd (abs s) k (Some (simple (vnorm v))) k'.
Proof. exact set_dense_property_abs. Qed.
Check set_dense_property_refines : forall s k v s', wf s -> wfv v -> set_dense_property s k v = Some s' ->
  wf s' /\ abs s k <> None /\ forall k', abs s' k' = upd (abs s) k (Some (simple (vnorm v))) k'.
Print Assumptions set_dense_property_refines.

Theorem shift_dense_refines : forall s n v s', wf s -> shift_dense s n = Some (v, s') ->
  wf s' /\ wfv v /\ abs s 0 = Some (simple (vnorm v)) /\
  (exists m, dense_len s = Some m /\ n <= m /\ dense_len s' = Some (m - 1)) /\
  forall k, abs s' k = abs s (k + 1).
Proof. exact shift_dense_abs. Qed.
Check shift_dense_refines : forall s n v s', wf s -> shift_dense s n = Some (v, s') ->
  wf s' /\ wfv v /\ abs s 0 = Some (simple (vnorm v)) /\
  (exists m, dense_len s = Some m /\ n <= m /\ dense_len s' = Some (m - 1)) /\
  forall k, abs s' k = abs s (k + 1).
Print Assumptions shift_dense_refines.

(* the VM's GetPropertyByValue dense hit returns what the generic [[Get]] returns and changes nothing *)
Theorem get_by_value_fast_path_is_generic : forall s m k v, wf s -> get_dense_property s k = Some v ->
  run_i (op_prog Boa (OGet k)) s m = (inl (RVal (vnorm v)), s, m).
Proof. exact get_fast_path. Qed.
Check get_by_value_fast_path_is_generic : forall s m k v, wf s -> get_dense_property s k = Some v ->
  run_i (op_prog Boa (OGet k)) s m = (inl (RVal (vnorm v)), s, m).
Print Assumptions get_by_value_fast_path_is_generic.

(* the VM's SetPropertyByValue dense store = OrdinarySet -> array exotic [[DefineOwnProperty]] (boa's flavour with
   the template-shape shortcut) -> ValidateAndApplyPropertyDescriptor -> insert: identical storage, meta state and
   completion, for an array whose element indices are below `length` and whose `length` holds the canonical number *)
Theorem set_by_value_fast_path_is_generic : forall s m k v s', wf s -> wfv v -> is_array m = true -> array_inv s m ->
  set_dense_property s k v = Some s' ->
  run_i (op_prog Boa (OSet k v)) s m = (inl RNone, s', m).
Proof. exact set_fast_path. Qed.
Check set_by_value_fast_path_is_generic : forall s m k v s', wf s -> wfv v -> is_array m = true -> array_inv s m ->
  set_dense_property s k v = Some s' ->
  run_i (op_prog Boa (OSet k v)) s m = (inl RNone, s', m).
Print Assumptions set_by_value_fast_path_is_generic.

Theorem istep_set_is_generic : forall s m k v, wf s -> wfv v -> array_inv s m ->
  istep (OSet k v) s m = run_i (op_prog Boa (OSet k v)) s m.
Proof. exact istep_set. Qed.
Check istep_set_is_generic : forall s m k v, wf s -> wfv v -> array_inv s m ->
  istep (OSet k v) s m = run_i (op_prog Boa (OSet k v)) s m.
Print Assumptions istep_set_is_generic.

(* Array.prototype.shift's `dense.remove(0)` fast path against the generic algorithm (Get 0, the move loop by
   induction on its length, DeletePropertyOrThrow, Set length), on an array satisfying the invariant: same result,
   same meta state, storages holding the same map, same dump (the vectors may differ in the Integer32 / Float64
   variant of an integral element, which JS cannot see); LOOP_LIMIT is the bound of the executable model *)
Theorem shift_fast_path_is_generic : forall s m v s', wf s -> is_array m = true -> array_inv s m ->
  meta_len m <> 0 -> meta_len m <= LOOP_LIMIT -> shift_dense s (meta_len m) = Some (v, s') ->
  fst (fst (istep OShift s m)) = fst (fst (run_i (op_prog Boa OShift) s m)) /\
  snd (istep OShift s m) = snd (run_i (op_prog Boa OShift) s m) /\
  same_map (snd (fst (istep OShift s m))) (snd (fst (run_i (op_prog Boa OShift) s m))) /\
  dump_i (snd (fst (istep OShift s m))) = dump_i (snd (fst (run_i (op_prog Boa OShift) s m))).
Proof. exact shift_fast_path. Qed.
Check shift_fast_path_is_generic : forall s m v s', wf s -> is_array m = true -> array_inv s m ->
  meta_len m <> 0 -> meta_len m <= LOOP_LIMIT -> shift_dense s (meta_len m) = Some (v, s') ->
  fst (fst (istep OShift s m)) = fst (fst (run_i (op_prog Boa OShift) s m)) /\
  snd (istep OShift s m) = snd (run_i (op_prog Boa OShift) s m) /\
  same_map (snd (fst (istep OShift s m))) (snd (fst (run_i (op_prog Boa OShift) s m))) /\
  dump_i (snd (fst (istep OShift s m))) = dump_i (snd (fst (run_i (op_prog Boa OShift) s m))).
Print Assumptions shift_fast_path_is_generic.

(* boa's two shortcuts inside the array builtins against the specification's steps (same storage, same meta):
   array_exotic_define_own_property's template-shape branch, for any descriptor, whenever `length` holds the
   canonical number; Array::set_length's slot store = Set(O, "length", n, true) -> ArraySetLength whenever no
   element sits at or above n (the builtins call it after deleting / moving those elements themselves) *)
Theorem define_index_shortcut_is_spec : forall s m k p, len_canonical m ->
  run_i (array_define_idx Boa k p) s m = run_i (array_define_idx Spec k p) s m.
Proof. exact define_idx_flavours. Qed.
Check define_index_shortcut_is_spec : forall s m k p, len_canonical m ->
  run_i (array_define_idx Boa k p) s m = run_i (array_define_idx Spec k p) s m.
Print Assumptions define_index_shortcut_is_spec.

Theorem set_length_shortcut_is_spec : forall s m n, wf s -> (forall k, abs s k <> None -> k < n) ->
  run_i (set_len Boa n) s m = run_i (set_len Spec n) s m.
Proof. exact set_len_flavours. Qed.
Check set_length_shortcut_is_spec : forall s m n, wf s -> (forall k, abs s k <> None -> k < n) ->
  run_i (set_len Boa n) s m = run_i (set_len Spec n) s m.
Print Assumptions set_length_shortcut_is_spec.

(* ---- lifted over operation sequences ---- *)

(* any sequence of insert / remove / push_dense / transform_to_sparse, i.e. any chain of form transitions *)
Theorem op_sequences_refine : forall ops s f, wf s -> Forall sop_wf ops -> (forall k, f k = abs s k) ->
  wf (sfold s ops) /\ forall k, abs (sfold s ops) k = afold f s ops k.
Proof. exact sfold_abs. Qed.
Check op_sequences_refine : forall ops s f, wf s -> Forall sop_wf ops -> (forall k, f k = abs s k) ->
  wf (sfold s ops) /\ forall k, abs (sfold s ops) k = afold f s ops k.
Print Assumptions op_sequences_refine.

(* every program over the storage interface computes the same result and meta state on boa's storage and on
   the abstract array-like, and leaves related stores *)
Theorem programs_refine : forall (A : Type) (p : prog A) s a m, R s a ->
  fst (fst (run_i p s m)) = fst (fst (run_a p a m)) /\ snd (run_i p s m) = snd (run_a p a m) /\
  R (snd (fst (run_i p s m))) (snd (fst (run_a p a m))).
Proof. exact (@run_sim). Qed.
Check programs_refine : forall (A : Type) (p : prog A) s a m, R s a ->
  fst (fst (run_i p s m)) = fst (fst (run_a p a m)) /\ snd (run_i p s m) = snd (run_a p a m) /\
  R (snd (fst (run_i p s m))) (snd (fst (run_a p a m))).
Print Assumptions programs_refine.

(* the property's title: two storages in whatever forms that hold the same index map cannot be told apart by
   any program - same result, same meta state (length, extensibility, getter/setter log), same dump afterwards *)
Theorem storage_form_independent : forall (A : Type) (p : prog A) s1 s2 m, wf s1 -> wf s2 -> same_map s1 s2 ->
  fst (fst (run_i p s1 m)) = fst (fst (run_i p s2 m)) /\
  snd (run_i p s1 m) = snd (run_i p s2 m) /\
  wf (snd (fst (run_i p s1 m))) /\ wf (snd (fst (run_i p s2 m))) /\
  same_map (snd (fst (run_i p s1 m))) (snd (fst (run_i p s2 m))) /\
  dump_i (snd (fst (run_i p s1 m))) = dump_i (snd (fst (run_i p s2 m))).
Proof. exact (@storage_independence). Qed.
Check storage_form_independent : forall (A : Type) (p : prog A) s1 s2 m, wf s1 -> wf s2 -> same_map s1 s2 ->
  fst (fst (run_i p s1 m)) = fst (fst (run_i p s2 m)) /\
  snd (run_i p s1 m) = snd (run_i p s2 m) /\
  wf (snd (fst (run_i p s1 m))) /\ wf (snd (fst (run_i p s2 m))) /\
  same_map (snd (fst (run_i p s1 m))) (snd (fst (run_i p s2 m))) /\
  dump_i (snd (fst (run_i p s1 m))) = dump_i (snd (fst (run_i p s2 m))).
Print Assumptions storage_form_independent.

(* array literals (push_dense / elision / CreateDataProperty fallback) and array-likes start related *)
Theorem initial_states_refine : forall l, elems_wf l ->
  (R (fst (init_array_i l)) (fst (init_a KArray l)) /\ snd (init_array_i l) = snd (init_a KArray l)) /\
  (R (fst (init_plain_i l)) (fst (init_a KPlain l)) /\ snd (init_plain_i l) = snd (init_a KPlain l)).
Proof. exact (fun l H => conj (init_array_R l H) (init_plain_R l H)). Qed.
Check initial_states_refine : forall l, elems_wf l ->
  (R (fst (init_array_i l)) (fst (init_a KArray l)) /\ snd (init_array_i l) = snd (init_a KArray l)) /\
  (R (fst (init_plain_i l)) (fst (init_a KPlain l)) /\ snd (init_plain_i l) = snd (init_a KPlain l)).
Print Assumptions initial_states_refine.

(* whole histories of the modelled operations (index get/set/delete, length writes, defineProperty, freeze /
   seal / preventExtensions, push pop shift unshift splice slice concat reverse fill copyWithin indexOf
   lastIndexOf includes join at), in either flavour of the algorithms: the observation after every step
   (result, getter/setter log, length descriptor, [[Extensible]], every own index key ascending with its
   descriptor) is the same on the storage and on the abstract array-like; with the ECMA-262 flavour the
   right-hand side is the specification run `srun` used by the check *)
Theorem histories_refine : forall fl ops s a m, R s a -> grun_i fl ops s m = grun_a fl ops a m.
Proof. exact grun_sim. Qed.
Check histories_refine : forall fl ops s a m, R s a -> grun_i fl ops s m = grun_a fl ops a m.
Print Assumptions histories_refine.

Theorem spec_histories_on_storage : forall ops s a m, R s a -> grun_i Spec ops s m = srun ops a m.
Proof. exact (fun ops s a m H => eq_trans (grun_sim Spec ops s a m H) (eq_sym (srun_grun ops a m))). Qed.
Check spec_histories_on_storage : forall ops s a m, R s a -> grun_i Spec ops s m = srun ops a m.
Print Assumptions spec_histories_on_storage.

(* where the implementation model `istep` differs from the generic algorithm in boa's flavour: nowhere except
   the three store-level fast paths (by-value set / get, shift) *)
Theorem istep_is_generic_outside_fast_paths : forall o s m,
  match o with OSet _ _ | OGet _ | OShift => True | _ => istep o s m = run_i (op_prog Boa o) s m end.
Proof. exact istep_generic. Qed.
Check istep_is_generic_outside_fast_paths : forall o s m,
  match o with OSet _ _ | OGet _ | OShift => True | _ => istep o s m = run_i (op_prog Boa o) s m end.
Print Assumptions istep_is_generic_outside_fast_paths.

(* ---- deepening round: implementation-model histories = specification histories ---- *)

(* `op_wf o` : index arguments are array indices (<= 2^32 - 2) and Integer32 values written to `length` are int32s -
   what the engine can be handed; it excludes no operation of ArraySpec.v.
   `I0 kd s m` : kind kd, representation invariant, length <= 2^32 - 1, and for arrays: every element index is
   below `length` and `length` holds the canonical number. *)

(* every operation runs identically in boa's flavour (template-shape define shortcut, Array::set_length slot store) and
   in the ECMA-262 flavour - same completion, same storage, same meta state - and keeps the invariant: proved through
   every loop of push pop shift unshift splice reverse fill copyWithin, the descending delete loop of ArraySetLength
   (length writes, defineProperty on length) and SetIntegrityLevel (freeze / seal), each by induction on its length *)
Theorem ops_flavours_agree_and_keep_invariant : forall kd o, op_wf o = true ->
  forall s m, I0 kd s m ->
    run_i (op_prog Boa o) s m = run_i (op_prog Spec o) s m /\
    I0 kd (st_of (run_i (op_prog Spec o) s m)) (mt_of (run_i (op_prog Spec o) s m)).
Proof. exact ok_op. Qed.
Check ops_flavours_agree_and_keep_invariant : forall kd o, op_wf o = true ->
  forall s m, I0 kd s m ->
    run_i (op_prog Boa o) s m = run_i (op_prog Spec o) s m /\
    I0 kd (st_of (run_i (op_prog Spec o) s m)) (mt_of (run_i (op_prog Spec o) s m)).
Print Assumptions ops_flavours_agree_and_keep_invariant.

(* ArraySetLength keeps the array invariant for every descriptor without accessor fields (the delete loop stops at
   the first non-configurable element and re-defines the length to its index + 1, which is shown to succeed) *)
Theorem array_set_length_keeps_invariant : forall s m p, AInv s m -> noacc p ->
  (match p_value p with Some v => wfv v | None => True end) ->
  AInv (st_of (run_i (array_set_length p) s m)) (mt_of (run_i (array_set_length p) s m)).
Proof. exact asl_AInv. Qed.
Check array_set_length_keeps_invariant : forall s m p, AInv s m -> noacc p ->
  (match p_value p with Some v => wfv v | None => True end) ->
  AInv (st_of (run_i (array_set_length p) s m)) (mt_of (run_i (array_set_length p) s m)).
Print Assumptions array_set_length_keeps_invariant.

(* the implementation model `irun` (boa's flavour + the by-value get / set and shift fast paths, on boa's storage in
   whatever form) and the specification run `srun` (ECMA-262 flavour on the abstract array-like) give the same
   observation after every step of every history: "implementation-model histories equal spec histories" *)
Theorem histories_impl_eq_spec : forall kd ops s a m,
  R s a -> I0 kd s m -> forallb op_wf ops = true -> irun ops s m = srun ops a m.
Proof. exact histories_impl_eq_spec_lemma. Qed.
Check histories_impl_eq_spec : forall kd ops s a m,
  R s a -> I0 kd s m -> forallb op_wf ops = true -> irun ops s m = srun ops a m.
Print Assumptions histories_impl_eq_spec.

(* ... from the initial states the check uses: an array literal and the equivalent plain array-like *)
Theorem histories_from_initial_states : forall l ops, elems_wf l -> len l <= U32 -> forallb op_wf ops = true ->
  irun ops (fst (init_array_i l)) (snd (init_array_i l)) = srun ops (fst (init_a KArray l)) (snd (init_a KArray l)) /\
  irun ops (fst (init_plain_i l)) (snd (init_plain_i l)) = srun ops (fst (init_a KPlain l)) (snd (init_a KPlain l)).
Proof. exact histories_from_literal. Qed.
Check histories_from_initial_states : forall l ops, elems_wf l -> len l <= U32 -> forallb op_wf ops = true ->
  irun ops (fst (init_array_i l)) (snd (init_array_i l)) = srun ops (fst (init_a KArray l)) (snd (init_a KArray l)) /\
  irun ops (fst (init_plain_i l)) (snd (init_plain_i l)) = srun ops (fst (init_a KPlain l)) (snd (init_a KPlain l)).
Print Assumptions histories_from_initial_states.

(* ---- the hypotheses are satisfiable, the forms are reachable ---- *)

Example wf_empty : wf storage_default /\ R storage_default [].
Proof. exact (conj wf_default R_default). Qed.

(* the array invariant holds of a fresh literal [1, 2] *)
Example array_inv_literal : let '(s, m) := init_array_i [Some (VInt 1); Some (VInt 2)] in array_inv s m.
Proof. exact array_inv_literal_lemma. Qed.

(* one history visits all five forms: [1] -> 1.5 -> "s" -> hole -> non-default descriptor *)
Example forms_reachable :
  map form_of
    [ sfold storage_default [SPush (VInt 1)];
      sfold storage_default [SPush (VInt 1); SPush (VDouble 4609434218613702656)];
      sfold storage_default [SPush (VInt 1); SPush (VDouble 4609434218613702656); SPush (VOther (OStr 1))];
      sfold storage_default [SPush (VInt 1); SInsert 5 (simple (VInt 2))];
      sfold storage_default [SPush (VInt 1); SInsert 0 (DData (VInt 2) false true true)] ]
  = [FDenseI32; FDenseF64; FDenseElement; FSparseElement; FSparseProperty].
Proof. vm_compute. reflexivity. Qed.

(* -0 and NaN stored into a packed-int array move it to DenseF64 and read back bit-exact *)
Example neg_zero_kept :
  let s := snd (insert (DenseI32 [1%Z; 2%Z]) 1 (simple (VDouble NEG_ZERO))) in
  form_of s = FDenseF64 /\ get s 1 = Some (simple (VDouble NEG_ZERO)) /\ get s 0 = Some (simple (VDouble (i32_to_f64 1))).
Proof. vm_compute. auto. Qed.
