(* C14 proofs, part C: lifting the storage refinement
   - over sequences of storage-interface operations (any interleaving of insert / remove / push_dense /
     transform_to_sparse, hence any chain of form transitions);
   - over every program written against the storage interface (`prog`, ArraySpec.v): running it on boa's
     storage (`run_i`) and on the abstract ascending association list (`run_a`) gives the same result, the
     same meta state and related stores - in particular for the Array.prototype algorithms of ArraySpec.v,
     in both flavours, over whole operation histories with the full structural dump after every step;
   - storage independence: two storages in different forms that represent the same index map are
     indistinguishable by any program;
   - the by-value get/set fast paths of the VM agree with the generic [[Get]] / [[Set]] path. *)
From Coq Require Import NArith ZArith List Bool Lia Sorted.
From C14 Require Import Indexed ArraySpec ProofsA_C14 ProofsB_C14.
Import ListNotations.
Local Open Scope N_scope.

(* ------------------------------------------------------------------------------------------ *)
(* sequences at the storage interface *)

Definition sop_wf (o : sop) : Prop :=
  match o with SInsert _ d => wfd d | SPush v => wfv v | _ => True end.

Lemma sapply_abs s o : wf s -> sop_wf o ->
  wf (sapply s o) /\ forall k, abs (sapply s o) k = aapply (abs s) s o k.
Proof.
  intros Hwf Ho. destruct o as [k d|k|v|]; cbn [sapply aapply sop_wf] in *.
  - destruct (insert_abs s k d Hwf Ho) as (H1 & _ & H3). auto.
  - destruct (remove_abs s k Hwf) as (H1 & _ & H3). auto.
  - pose proof (push_dense_abs s v Hwf Ho) as H. destruct (dense_len s) as [n|].
    + destruct H as (_ & H1 & _ & H3). auto.
    + rewrite H. cbn [snd]. auto.
  - apply transform_abs. assumption.
Qed.

Fixpoint sfold (s : storage) (ops : list sop) : storage :=
  match ops with [] => s | o :: t => sfold (sapply s o) t end.
Fixpoint afold (f : N -> option desc) (s : storage) (ops : list sop) : N -> option desc :=
  match ops with [] => f | o :: t => afold (aapply f s o) (sapply s o) t end.

Lemma aapply_ext f g s o : (forall k, f k = g k) -> forall k, aapply f s o k = aapply g s o k.
Proof.
  intros H k. destruct o; cbn [aapply]; unfold upd; try apply H;
    try (destruct (k =? _); [reflexivity|apply H]).
  destruct (dense_len s); [|apply H]. destruct (k =? _); [reflexivity|apply H].
Qed.

Lemma sfold_abs ops : forall s f, wf s -> Forall sop_wf ops -> (forall k, f k = abs s k) ->
  wf (sfold s ops) /\ forall k, abs (sfold s ops) k = afold f s ops k.
Proof.
  induction ops as [|o t IH]; intros s f Hwf Hops Hf; cbn [sfold afold].
  - split; [assumption|]. intros k. symmetry. apply Hf.
  - inversion Hops; subst. destruct (sapply_abs s o Hwf H1) as [Hw Ha].
    apply IH; try assumption. intros k. rewrite Ha. apply aapply_ext. assumption.
Qed.

(* ------------------------------------------------------------------------------------------ *)
(* the abstract array-like: a strictly ascending association list *)

Definition asorted (a : astore) : Prop := sorted_lt (map fst a).

Lemma alookup_in (a : astore) k : In k (map fst a) <-> alookup a k <> None.
Proof. apply (mget_in_keys a k). Qed.

Lemma ainsert_get a k d k' : alookup (ainsert a k d) k' = if k' =? k then Some d else alookup a k'.
Proof.
  unfold alookup. induction a as [|[k0 d0] t IH]; cbn [ainsert mget].
  - rewrite (N.eqb_sym k k'). reflexivity.
  - destruct (N.ltb_spec k k0) as [Hlt|Hge]; cbn [mget].
    + rewrite (N.eqb_sym k k'). reflexivity.
    + destruct (N.eqb_spec k k0) as [<-|Hne]; cbn [mget].
      * rewrite (N.eqb_sym k k'). destruct (N.eqb_spec k' k); reflexivity.
      * rewrite IH. destruct (N.eqb_spec k0 k') as [<-|]; [|reflexivity].
        destruct (N.eqb_spec k0 k); [congruence|reflexivity].
Qed.

Lemma ainsert_in a k d k' : In k' (map fst (ainsert a k d)) <-> k' = k \/ In k' (map fst a).
Proof.
  rewrite !alookup_in, ainsert_get. destruct (N.eqb_spec k' k) as [->|Hne].
  - split; [auto|discriminate].
  - split; [auto|intros [?|?]; [contradiction|assumption]].
Qed.

Lemma ainsert_sorted a k d : asorted a -> asorted (ainsert a k d).
Proof.
  unfold asorted, sorted_lt. induction a as [|[k0 d0] t IH]; cbn [ainsert map fst]; intros Hs.
  - constructor; constructor.
  - apply StronglySorted_inv in Hs. destruct Hs as [Hs Hh].
    destruct (N.ltb_spec k k0) as [Hlt|Hge]; cbn [map fst].
    + constructor; [constructor; assumption|].
      constructor; [assumption|]. eapply Forall_impl; [|exact Hh]. intros; lia.
    + destruct (N.eqb_spec k k0) as [<-|Hne]; cbn [map fst].
      * constructor; assumption.
      * constructor; [apply IH; assumption|].
        apply Forall_forall. intros y Hy. apply ainsert_in in Hy. destruct Hy as [->|Hy]; [lia|].
        rewrite Forall_forall in Hh. apply Hh. assumption.
Qed.

Lemma aremove_mremove (a : astore) k : aremove a k = snd (mremove a k).
Proof.
  induction a as [|[k0 d0] t IH]; cbn [aremove mremove snd]; [reflexivity|].
  destruct (k0 =? k); cbn [snd]; [reflexivity|]. rewrite IH. destruct (mremove t k). reflexivity.
Qed.

Lemma aremove_get a k k' : asorted a -> alookup (aremove a k) k' = if k' =? k then None else alookup a k'.
Proof. intros Hs. rewrite aremove_mremove. apply mremove_get. apply sorted_lt_nodup. exact Hs. Qed.

Lemma aremove_sorted a k : asorted a -> asorted (aremove a k).
Proof.
  unfold asorted, sorted_lt. induction a as [|[k0 d0] t IH]; cbn [aremove map fst]; intros Hs; [assumption|].
  apply StronglySorted_inv in Hs. destruct Hs as [Hs Hh].
  destruct (k0 =? k); [assumption|]. cbn [map fst]. constructor; [apply IH; assumption|].
  apply Forall_forall. intros y Hy. rewrite Forall_forall in Hh. apply Hh.
  rewrite aremove_mremove in Hy. apply (mremove_keys_sub t k y). exact Hy.
Qed.

(* ------------------------------------------------------------------------------------------ *)
(* the refinement relation and the simulation of programs *)

Definition R (s : storage) (a : astore) : Prop :=
  wf s /\ asorted a /\ forall k, abs s k = alookup a k.

Lemma R_keys s a : R s a -> nsort (keys s) = map fst a.
Proof.
  intros (Hwf & Hs & Habs). destruct (sorted_keys_abs s Hwf) as [H1 H2].
  apply sorted_lt_ext; [assumption|exact Hs|].
  intros k. rewrite H2, alookup_in, Habs. reflexivity.
Qed.

Lemma R_insert s a k d : R s a -> wfd d -> R (snd (insert s k d)) (ainsert a k (dnorm d)).
Proof.
  intros (Hwf & Hs & Habs) Hd. destruct (insert_abs s k d Hwf Hd) as (H1 & _ & H3).
  split; [assumption|]. split; [apply ainsert_sorted; assumption|].
  intros k'. rewrite H3, ainsert_get. unfold upd. destruct (k' =? k); [reflexivity|apply Habs].
Qed.

Lemma R_remove s a k : R s a -> R (snd (remove s k)) (aremove a k).
Proof.
  intros (Hwf & Hs & Habs). destruct (remove_abs s k Hwf) as (H1 & _ & H3).
  split; [assumption|]. split; [apply aremove_sorted; assumption|].
  intros k'. rewrite H3, aremove_get by assumption. unfold upd. destruct (k' =? k); [reflexivity|apply Habs].
Qed.

Definition sim_res {A} (x : result A * storage * meta) (y : result A * astore * meta) : Prop :=
  fst (fst x) = fst (fst y) /\ snd x = snd y /\ R (snd (fst x)) (snd (fst y)).

Lemma run_sim {A} (p : prog A) : forall s a m, R s a -> sim_res (run_i p s m) (run_a p a m).
Proof.
  induction p as [x|e|k f IH|k d f IH|k f IH|f IH|f IH|m' f IH]; intros s a m HR; cbn [run_i run_a].
  - split; [reflexivity|split; [reflexivity|exact HR]].
  - split; [reflexivity|split; [reflexivity|exact HR]].
  - pose proof HR as (Hwf & Hs & Habs). rewrite get_abs by assumption. rewrite Habs.
    apply IH. exact HR.
  - destruct (wfdb d) eqn:Hd.
    + apply IH. apply R_insert; assumption.
    + split; [reflexivity|split; [reflexivity|exact HR]].
  - apply IH. apply R_remove; assumption.
  - rewrite (R_keys s a HR). apply IH. assumption.
  - apply IH. assumption.
  - apply IH. assumption.
Qed.

(* ------------------------------------------------------------------------------------------ *)
(* the structural dump *)

Lemma flat_map_ext_in {A B} (f g : A -> list B) l : (forall x, In x l -> f x = g x) -> flat_map f l = flat_map g l.
Proof.
  induction l as [|h t IH]; cbn [flat_map]; intros H; [reflexivity|].
  rewrite (H h (or_introl eq_refl)), IH; [reflexivity|]. intros x Hx. apply H. right. assumption.
Qed.

Lemma dump_assoc (a : astore) : NoDup (map fst a) ->
  flat_map (fun k => match mget a k with Some d => [(k, d)] | None => [] end) (map fst a) = a.
Proof.
  induction a as [|[k0 d0] t IH]; cbn [map fst flat_map]; intros Hn; [reflexivity|].
  apply NoDup_cons_iff in Hn. destruct Hn as [Hn Ht].
  cbn [mget]. rewrite N.eqb_refl. cbn [app]. f_equal.
  rewrite <- (IH Ht) at 2. apply flat_map_ext_in. intros k Hk. cbn [mget].
  destruct (N.eqb_spec k0 k) as [->|]; [contradiction|reflexivity].
Qed.

Lemma R_dump s a : R s a -> dump_i s = dump_a a.
Proof.
  intros HR. pose proof (R_keys s a HR) as Hk. destruct HR as (Hwf & Hs & Habs).
  unfold dump_i, dump_a. rewrite Hk.
  rewrite (flat_map_ext_in _ (fun k => match mget a k with Some d => [(k, d)] | None => [] end)).
  - apply dump_assoc. apply sorted_lt_nodup. exact Hs.
  - intros k _. rewrite Habs. reflexivity.
Qed.

(* every well-formed storage is related to its own dump *)
Lemma dump_sorted_in s : wf s ->
  map fst (dump_i s) = nsort (keys s) /\ forall k, mget (dump_i s) k = abs s k.
Proof.
  intros Hwf. destruct (sorted_keys_abs s Hwf) as [Hsort Hin].
  unfold dump_i. set (ks := nsort (keys s)) in *.
  assert (Hall : forall k, In k ks -> abs s k <> None) by (intros k; apply Hin).
  assert (Hnot : forall k, ~ In k ks -> abs s k = None).
  { intros k Hk. destruct (abs s k) eqn:E; [|reflexivity]. exfalso. apply Hk, Hin. congruence. }
  clearbody ks. clear Hin. revert Hsort Hall Hnot. induction ks as [|k0 t IH]; intros Hsort Hall Hnot.
  - split; [reflexivity|]. intros k. cbn. symmetry. apply Hnot. tauto.
  - cbn [flat_map]. destruct (abs s k0) as [d0|] eqn:E0; [|exfalso; apply (Hall k0); [left; reflexivity|assumption]].
    apply StronglySorted_inv in Hsort. destruct Hsort as [Hs Hh].
    cbn [app map fst].
    (* tail: the statement for the keys of t only needs lookups at keys of t *)
    assert (Ht : map fst (flat_map (fun k => match abs s k with Some d => [(k, d)] | None => [] end) t) = t /\
                 forall k, mget (flat_map (fun k => match abs s k with Some d => [(k, d)] | None => [] end) t) k =
                           if existsb (N.eqb k) t then abs s k else None).
    { clear IH Hnot E0 Hs Hh. induction t as [|k1 u IHu]; [split; [reflexivity|intros; reflexivity]|].
      cbn [flat_map]. destruct (abs s k1) as [d1|] eqn:E1; [|exfalso; apply (Hall k1); [right; left; reflexivity|assumption]].
      destruct IHu as [I1 I2]. { intros k Hk. apply Hall. destruct Hk as [->|Hk]; [left; reflexivity|right; right; assumption]. }
      cbn [app map fst mget existsb]. split; [f_equal; assumption|].
      intros k. rewrite I2. rewrite (N.eqb_sym k k1). destruct (N.eqb_spec k1 k) as [->|]; [|reflexivity].
      cbn [orb]. symmetry. assumption. }
    destruct Ht as [T1 T2]. split; [f_equal; exact T1|].
    intros k. cbn [mget]. destruct (N.eqb_spec k0 k) as [->|Hne]; [symmetry; assumption|].
    rewrite T2. destruct (existsb (N.eqb k) t) eqn:Ex; [reflexivity|].
    symmetry. apply Hnot. intros [?|Hk]; [contradiction|].
    assert (existsb (N.eqb k) t = true); [|congruence].
    apply existsb_exists. exists k. split; [assumption|apply N.eqb_refl].
Qed.

Lemma R_self s : wf s -> R s (dump_i s).
Proof.
  intros Hwf. destruct (dump_sorted_in s Hwf) as [H1 H2]. split; [assumption|]. split.
  - unfold asorted. rewrite H1. apply sorted_keys_abs. assumption.
  - intros k. symmetry. apply H2.
Qed.

(* two related stores with pointwise equal lookups are the same list *)
Lemma asorted_ext a1 a2 : asorted a1 -> asorted a2 -> (forall k, alookup a1 k = alookup a2 k) -> a1 = a2.
Proof.
  intros H1 H2 He.
  assert (Hk : map fst a1 = map fst a2).
  { apply sorted_lt_ext; [exact H1|exact H2|]. intros k. rewrite !alookup_in, He. reflexivity. }
  rewrite <- (dump_assoc a1) by (apply sorted_lt_nodup; exact H1).
  rewrite <- (dump_assoc a2) by (apply sorted_lt_nodup; exact H2).
  rewrite Hk. apply flat_map_ext_in. intros k _. fold (alookup a1 k). fold (alookup a2 k). rewrite He. reflexivity.
Qed.

(* ------------------------------------------------------------------------------------------ *)
(* storage independence *)

Definition same_map (s1 s2 : storage) : Prop := forall k, abs s1 k = abs s2 k.

Lemma storage_independence {A} (p : prog A) s1 s2 m : wf s1 -> wf s2 -> same_map s1 s2 ->
  fst (fst (run_i p s1 m)) = fst (fst (run_i p s2 m)) /\
  snd (run_i p s1 m) = snd (run_i p s2 m) /\
  wf (snd (fst (run_i p s1 m))) /\ wf (snd (fst (run_i p s2 m))) /\
  same_map (snd (fst (run_i p s1 m))) (snd (fst (run_i p s2 m))) /\
  dump_i (snd (fst (run_i p s1 m))) = dump_i (snd (fst (run_i p s2 m))).
Proof.
  intros H1 H2 Hsame.
  pose proof (R_self s1 H1) as R1.
  assert (R2 : R s2 (dump_i s1)).
  { destruct R1 as (_ & Hs & Ha). split; [assumption|]. split; [assumption|]. intros k. rewrite <- Hsame. apply Ha. }
  destruct (run_sim p s1 (dump_i s1) m R1) as (A1 & B1 & C1).
  destruct (run_sim p s2 (dump_i s1) m R2) as (A2 & B2 & C2).
  split; [congruence|]. split; [congruence|].
  split; [apply C1|]. split; [apply C2|]. split.
  - intros k. destruct C1 as (_ & _ & E1). destruct C2 as (_ & _ & E2). rewrite E1, E2. reflexivity.
  - rewrite (R_dump _ _ C1), (R_dump _ _ C2). reflexivity.
Qed.

(* ------------------------------------------------------------------------------------------ *)
(* histories of the Array algorithms, either flavour, generic paths *)

Definition gobs_i (fl : flavour) (o : op) (s : storage) (m : meta) : obs * storage * meta :=
  let '(r, s', m') := run_i (op_prog fl o) s (clear_log m) in
  (mkObs (resnorm r) (m_log m') (m_len m') (m_ext m') (dump_i s'), s', m').
Definition gobs_a (fl : flavour) (o : op) (a : astore) (m : meta) : obs * astore * meta :=
  let '(r, a', m') := run_a (op_prog fl o) a (clear_log m) in
  (mkObs (resnorm r) (m_log m') (m_len m') (m_ext m') (dump_a a'), a', m').

Fixpoint grun_i (fl : flavour) (ops : list op) (s : storage) (m : meta) : list obs :=
  match ops with
  | [] => []
  | o :: t => let '(ob, s', m') := gobs_i fl o s m in ob :: grun_i fl t s' m'
  end.
Fixpoint grun_a (fl : flavour) (ops : list op) (a : astore) (m : meta) : list obs :=
  match ops with
  | [] => []
  | o :: t => let '(ob, a', m') := gobs_a fl o a m in ob :: grun_a fl t a' m'
  end.

Lemma gobs_sim fl o s a m : R s a ->
  fst (fst (gobs_i fl o s m)) = fst (fst (gobs_a fl o a m)) /\
  snd (gobs_i fl o s m) = snd (gobs_a fl o a m) /\
  R (snd (fst (gobs_i fl o s m))) (snd (fst (gobs_a fl o a m))).
Proof.
  intros HR. unfold gobs_i, gobs_a.
  pose proof (run_sim (op_prog fl o) s a (clear_log m) HR) as H.
  destruct (run_i (op_prog fl o) s (clear_log m)) as [[r s'] m'].
  destruct (run_a (op_prog fl o) a (clear_log m)) as [[r2 a'] m2].
  destruct H as (H1 & H2 & H3). cbn [fst snd] in *. subst r2 m2.
  rewrite (R_dump _ _ H3). auto.
Qed.

Lemma grun_sim fl ops : forall s a m, R s a -> grun_i fl ops s m = grun_a fl ops a m.
Proof.
  induction ops as [|o t IH]; intros s a m HR; cbn [grun_i grun_a]; [reflexivity|].
  pose proof (gobs_sim fl o s a m HR) as H.
  destruct (gobs_i fl o s m) as [[ob s'] m']. destruct (gobs_a fl o a m) as [[ob2 a'] m2].
  destruct H as (H1 & H2 & H3). cbn [fst snd] in *. subst ob2 m2. f_equal. apply IH. assumption.
Qed.

Lemma srun_grun ops : forall a m, srun ops a m = grun_a Spec ops a m.
Proof.
  induction ops as [|o t IH]; intros a m; cbn [srun grun_a]; [reflexivity|].
  unfold sobs, gobs_a, sstep.
  destruct (run_a (op_prog Spec o) a (clear_log m)) as [[r a'] m']. f_equal. apply IH.
Qed.

(* ------------------------------------------------------------------------------------------ *)
(* initial states *)

Lemma abuild_lookup_lt l : forall n k, k < n -> alookup (abuild l n) k = None.
Proof.
  unfold alookup. induction l as [|[v|] t IH]; intros n k Hk; cbn [abuild mget]; [reflexivity| |].
  - destruct (N.eqb_spec n k); [lia|]. apply IH. lia.
  - apply IH. lia.
Qed.

Lemma abuild_sorted l : forall n, asorted (abuild l n).
Proof.
  unfold asorted, sorted_lt. induction l as [|[v|] t IH]; intros n; cbn [abuild map fst]; [constructor| |].
  - constructor; [apply IH|]. apply Forall_forall. intros y Hy.
    destruct (N.lt_ge_cases n y) as [|Hge]; [assumption|]. exfalso.
    apply (alookup_in (abuild t (n + 1)) y) in Hy. apply Hy. apply abuild_lookup_lt. lia.
  - apply IH.
Qed.

(* array literal: push_dense / elision / CreateDataProperty fallback builds the abstract literal *)
Lemma lit_build_R l : forall s n a, R s a -> Forall (fun e => match e with Some v => wfv v | None => True end) l ->
  (forall k, n <= k -> abs s k = None) ->
  (forall d, dense_len s = Some d -> d = n) ->
  exists a', R (fst (lit_build l s n)) a' /\ snd (lit_build l s n) = n + len l /\
  forall k, alookup a' k = if k <? n then alookup a k else alookup (abuild l n) k.
Proof.
  induction l as [|[v|] t IH]; intros s n a HR Hl Hhi Hd.
  - exists a. cbn [lit_build fst snd abuild]. split; [assumption|]. split; [unfold len; cbn; lia|].
    intros k. destruct (N.ltb_spec k n); [reflexivity|]. destruct HR as (_ & _ & Ha). rewrite <- Ha. apply Hhi. assumption.
  - inversion Hl as [|x y Hv Ht]; subst. cbn [lit_build].
    assert (Hstep : exists s1, (let (ok, s') := push_dense s v in if ok then lit_build t s' (n + 1)
                               else lit_build t (snd (insert s n (simple v))) (n + 1)) = lit_build t s1 (n + 1) /\
                    R s1 (ainsert a n (simple (vnorm v))) /\ s1 = snd (insert s n (simple v))).
    { exists (snd (insert s n (simple v))). split; [|split; [apply (R_insert s a n (simple v)); assumption|reflexivity]].
      destruct (dense_len s) as [d|] eqn:Ed.
      - rewrite (Hd d eq_refl) in Ed. destruct (push_dense_insert s v n Ed) as [-> _]. reflexivity.
      - rewrite (push_dense_sparse s v Ed). reflexivity. }
    destruct Hstep as (s1 & -> & HR1 & Hs1).
    destruct (IH s1 (n + 1) _ HR1 Ht) as (a' & HRa & Hn & Hlook).
    + intros k Hk. destruct HR1 as (_ & _ & Ha1). rewrite Ha1, ainsert_get.
      destruct (N.eqb_spec k n); [lia|]. destruct HR as (_ & _ & Ha). rewrite <- Ha. apply Hhi. lia.
    + intros d Hd1. subst s1.
      destruct HR as (Hwf & _ & _).
      destruct (insert_abs s n (simple v) Hwf Hv) as (Hw1 & _ & H3).
      pose proof (dense_len_abs _ d Hd1) as Hlen.
      assert (Hn1 : is_some (abs (snd (insert s n (simple v))) n) = true).
      { rewrite H3. unfold upd. rewrite N.eqb_refl. reflexivity. }
      assert (Hn2 : is_some (abs (snd (insert s n (simple v))) (n + 1)) = false).
      { rewrite H3. unfold upd. destruct (N.eqb_spec (n + 1) n); [lia|]. rewrite Hhi by lia. reflexivity. }
      rewrite Hlen in Hn1, Hn2. apply N.ltb_lt in Hn1. apply N.ltb_ge in Hn2. lia.
    + exists a'. split; [assumption|]. split; [rewrite Hn; unfold len; cbn [length]; lia|].
      intros k. rewrite Hlook, ainsert_get. cbn [abuild]. unfold alookup. cbn [mget].
      destruct (N.ltb_spec k (n + 1)); destruct (N.ltb_spec k n); destruct (N.eqb_spec k n); destruct (N.eqb_spec n k); try lia; try reflexivity.
  - inversion Hl as [|x y Hv Ht]; subst. cbn [lit_build].
    destruct HR as (Hwf & Hs & Ha). destruct (transform_abs s Hwf) as [Hw1 Ha1].
    destruct (IH (transform_to_sparse s) (n + 1) a) as (a' & HRa & Hn & Hlook); try assumption.
    + split; [assumption|]. split; [assumption|]. intros k. rewrite Ha1. apply Ha.
    + intros k Hk. rewrite Ha1. apply Hhi. lia.
    + intros d Hd1. exfalso. destruct s; cbn [transform_to_sparse dense_len] in Hd1; discriminate.
    + exists a'. split; [assumption|]. split; [rewrite Hn; unfold len; cbn [length]; lia|].
      intros k. rewrite Hlook. cbn [abuild].
      destruct (N.ltb_spec k (n + 1)); destruct (N.ltb_spec k n); try lia; try reflexivity.
      assert (k = n) by lia. subst k. rewrite <- Ha, Hhi by lia. symmetry. apply abuild_lookup_lt. lia.
Qed.

Definition elems_wf (l : list (option value)) : Prop :=
  Forall (fun e => match e with Some v => wfv v | None => True end) l.

Lemma R_default : R storage_default [].
Proof. split; [apply wf_default|]. split; [constructor|]. intros k. cbn. rewrite vget_nth, nth_error_nil'. reflexivity. Qed.

Lemma init_array_R l : elems_wf l ->
  R (fst (init_array_i l)) (fst (init_a KArray l)) /\ snd (init_array_i l) = snd (init_a KArray l).
Proof.
  intros Hl. unfold init_array_i, init_a.
  destruct (lit_build_R l storage_default 0 [] R_default Hl) as (a' & HR & Hn & Hlook).
  - intros k _. cbn. rewrite vget_nth, nth_error_nil'. reflexivity.
  - cbn. intros d [= <-]. reflexivity.
  - destruct (lit_build l storage_default 0) as [s n] eqn:E. cbn [fst snd] in *.
    assert (a' = abuild l 0).
    { apply asorted_ext; [apply HR|apply abuild_sorted|]. intros k. rewrite Hlook.
      destruct (N.ltb_spec k 0); [lia|reflexivity]. }
    subst a'. split; [assumption|]. rewrite Hn. reflexivity.
Qed.

Lemma plain_build_R l : forall s n a, R s a -> elems_wf l -> (forall k, n <= k -> abs s k = None) ->
  exists a', R (plain_build l s n) a' /\
  forall k, alookup a' k = if k <? n then alookup a k else alookup (abuild l n) k.
Proof.
  induction l as [|[v|] t IH]; intros s n a HR Hl Hhi; cbn [plain_build].
  - exists a. split; [assumption|]. intros k. cbn [abuild]. destruct (N.ltb_spec k n); [reflexivity|].
    destruct HR as (_ & _ & Ha). rewrite <- Ha. apply Hhi. assumption.
  - inversion Hl as [|x y Hv Ht]; subst.
    pose proof (R_insert s a n (simple v) HR Hv) as HR1.
    destruct (IH _ (n + 1) _ HR1 Ht) as (a' & HRa & Hlook).
    + intros k Hk. destruct HR1 as (_ & _ & Ha1). rewrite Ha1, ainsert_get.
      destruct (N.eqb_spec k n); [lia|]. destruct HR as (_ & _ & Ha). rewrite <- Ha. apply Hhi. lia.
    + exists a'. split; [assumption|].
      intros k. rewrite Hlook, ainsert_get. cbn [abuild]. unfold alookup. cbn [mget].
      destruct (N.ltb_spec k (n + 1)); destruct (N.ltb_spec k n); destruct (N.eqb_spec k n); destruct (N.eqb_spec n k); try lia; try reflexivity.
  - inversion Hl as [|x y Hv Ht]; subst.
    destruct (IH s (n + 1) a HR Ht) as (a' & HRa & Hlook).
    + intros k Hk. apply Hhi. lia.
    + exists a'. split; [assumption|]. intros k. rewrite Hlook. cbn [abuild].
      destruct (N.ltb_spec k (n + 1)); destruct (N.ltb_spec k n); try lia; try reflexivity.
      assert (k = n) by lia. subst k. destruct HR as (_ & _ & Ha). rewrite <- Ha, Hhi by lia.
      symmetry. apply abuild_lookup_lt. lia.
Qed.

Lemma init_plain_R l : elems_wf l ->
  R (fst (init_plain_i l)) (fst (init_a KPlain l)) /\ snd (init_plain_i l) = snd (init_a KPlain l).
Proof.
  intros Hl. unfold init_plain_i, init_a. cbn [fst snd].
  destruct (plain_build_R l storage_default 0 [] R_default Hl) as (a' & HR & Hlook).
  - intros k _. cbn. rewrite vget_nth, nth_error_nil'. reflexivity.
  - assert (a' = abuild l 0).
    { apply asorted_ext; [apply HR|apply abuild_sorted|]. intros k. rewrite Hlook.
      destruct (N.ltb_spec k 0); [lia|reflexivity]. }
    subst a'. split; [assumption|reflexivity].
Qed.

(* ------------------------------------------------------------------------------------------ *)
(* the by-value fast paths of the VM against the generic path (same flavour, same storage) *)

(* GetPropertyByValue: a dense hit returns what [[Get]] returns, touching nothing *)
Lemma get_fast_path s m k v : wf s -> get_dense_property s k = Some v ->
  run_i (op_prog Boa (OGet k)) s m = (inl (RVal (vnorm v)), s, m).
Proof.
  intros Hwf H. destruct (get_dense_property_abs s k v Hwf H) as [Ha _].
  cbn [op_prog get_idx get_own bind run_i].
  rewrite get_abs by assumption. rewrite Ha. reflexivity.
Qed.

Lemma istep_get s m k : wf s ->
  fst (fst (istep (OGet k) s m)) = fst (fst (run_i (op_prog Boa (OGet k)) s m)) /\
  snd (fst (istep (OGet k) s m)) = snd (fst (run_i (op_prog Boa (OGet k)) s m)) /\
  snd (istep (OGet k) s m) = snd (run_i (op_prog Boa (OGet k)) s m).
Proof.
  intros Hwf. cbn [istep]. destruct (is_array m); [|auto].
  destruct (get_dense_property s k) as [v|] eqn:E; [|auto].
  rewrite (get_fast_path s m k v Hwf E). auto.
Qed.

(* operations without a store-level fast path are the generic algorithm in boa's flavour *)
Lemma istep_generic o s m :
  match o with OSet _ _ | OGet _ | OShift => True | _ => istep o s m = run_i (op_prog Boa o) s m end.
Proof. destruct o; exact I || reflexivity. Qed.
