(* C14 proofs, part D: the VM's SetPropertyByValue dense fast path against the generic path.
   `istep (OSet k v)` takes the shortcut `set_dense_property` when the receiver is an extensible array and the
   index is inside the dense vector; the generic path is OrdinarySet -> array exotic [[DefineOwnProperty]]
   (boa's flavour, with the template-shape shortcut) -> ValidateAndApplyPropertyDescriptor -> PropertyMap::insert.
   Under the array invariant (every element index is below `length`, and `length` holds the canonical number)
   both produce the identical storage, the identical meta state and the same completion. *)
From Coq Require Import NArith ZArith List Bool Lia.
From C14 Require Import Indexed ArraySpec ProofsA_C14 ProofsB_C14 ProofsC_C14.
Import ListNotations.
Local Open Scope N_scope.

(* sequencing *)
Lemma run_bind {A B} (p : prog A) (g : A -> prog B) : forall s m,
  run_i (bind p g) s m =
  match run_i p s m with
  | (inl a, s', m') => run_i (g a) s' m'
  | (inr e, s', m') => (inr e, s', m')
  end.
Proof.
  induction p as [x|e|k f IH|k d f IH|k f IH|f IH|f IH|m' f IH]; intros s m; cbn [bind run_i]; auto.
  destruct (wfdb d); [apply IH|reflexivity].
Qed.

Definition array_inv (s : storage) (m : meta) : Prop :=
  (forall k, abs s k <> None -> k < meta_len m) /\
  exists w e c, m_len m = DData (value_of_N (meta_len m)) w e c.

Lemma dense_abs_simple s n k d : dense_len s = Some n -> abs s k = Some d -> exists v, d = simple v.
Proof.
  destruct s as [l|l|l|l|l]; cbn [dense_len abs]; try discriminate; intros _;
    destruct (vget l k); cbn [option_map]; intros [= <-]; eauto.
Qed.

Lemma run_get_own s m k : wf s -> run_i (get_own k) s m = (inl (abs s k), s, m).
Proof. intros Hwf. cbn [get_own run_i]. rewrite get_abs by assumption. reflexivity. Qed.

Lemma run_get_meta s m : run_i get_meta s m = (inl m, s, m).
Proof. reflexivity. Qed.

(* OrdinaryDefineOwnProperty(k, {[[Value]]: v}) on an existing all-default data element *)
Lemma run_define_value s m k v v0 : wf s -> wfv v -> abs s k = Some (simple v0) ->
  run_i (ordinary_define_idx k (pd_value v)) s m = (inl true, snd (insert s k (simple v)), m).
Proof.
  intros Hwf Hv Habs. unfold ordinary_define_idx.
  rewrite run_bind, run_get_own by assumption. rewrite Habs.
  rewrite run_bind, run_get_meta.
  cbn [validate_and_apply pd_value pd_is_empty pd_is_generic pd_is_accessor pd_is_data p_get p_set p_value p_writable
       p_enum p_conf is_some orb andb negb simple d_configurable d_enumerable d_is_data Bool.eqb fill_with odflt].
  rewrite run_bind. cbn [ins run_i]. fold (simple v).
  replace (wfdb (simple v)) with true by (symmetry; exact Hv). reflexivity.
Qed.

Lemma with_len_same m : with_len m (m_len m) = m.
Proof. destruct m; reflexivity. Qed.

Theorem set_fast_path s m k v s' : wf s -> wfv v -> is_array m = true -> array_inv s m ->
  set_dense_property s k v = Some s' ->
  run_i (op_prog Boa (OSet k v)) s m = (inl RNone, s', m).
Proof.
  intros Hwf Hv Harr [Hlt (w & e & c & Hlen)] Hset.
  destruct (set_dense_property_insert s k v s' Hv Hset) as (-> & dn & Hdn & Hk).
  assert (Habs : exists v0, abs s k = Some (simple v0)).
  { pose proof (dense_len_abs s dn Hdn k) as Hs. apply N.ltb_lt in Hk. rewrite Hk in Hs.
    destruct (abs s k) as [d|] eqn:E; [|discriminate].
    destruct (dense_abs_simple s dn k d Hdn E) as [v0 ->]. eauto. }
  destruct Habs as [v0 Habs].
  assert (Hkn : k < meta_len m) by (apply Hlt; rewrite Habs; discriminate).
  assert (Hkind : m_kind m = KArray) by (unfold is_array in Harr; destruct (m_kind m); [reflexivity|discriminate]).
  cbn [op_prog]. rewrite run_bind. unfold set_or_throw. rewrite run_bind. unfold set_idx.
  rewrite run_bind, run_get_own by assumption. rewrite Habs. cbn [simple].
  unfold define_idx. rewrite run_bind, run_get_meta, Hkind.
  unfold array_define_idx. rewrite run_bind, run_get_meta.
  assert (Hwr : len_writable m = w) by (unfold len_writable; rewrite Hlen; reflexivity).
  destruct ((k + 1 <? 4294967295) && template_shape m && (meta_len m <=? k + 1)) eqn:Efast.
  - (* template-shape shortcut: length is rewritten with the value it already has *)
    apply andb_true_iff in Efast. destruct Efast as [_ Hle]. apply N.leb_le in Hle.
    assert (Heq : k + 1 = meta_len m) by lia.
    rewrite run_bind, (run_define_value s m k v v0) by assumption.
    rewrite run_bind. unfold set_len_value. rewrite run_bind, run_get_meta, Hlen.
    cbn [set_meta run_i]. rewrite Heq, <- Hlen, with_len_same. reflexivity.
  - (* the specification's steps *)
    replace ((meta_len m <=? k) && negb (len_writable m)) with false
      by (symmetry; apply andb_false_iff; left; apply N.leb_gt; assumption).
    rewrite run_bind, (run_define_value s m k v v0) by assumption.
    replace (meta_len m <=? k) with false by (symmetry; apply N.leb_gt; assumption).
    reflexivity.
Qed.

(* istep's by-value store = the generic algorithm, on arrays satisfying the invariant *)
Theorem istep_set s m k v : wf s -> wfv v -> array_inv s m ->
  istep (OSet k v) s m = run_i (op_prog Boa (OSet k v)) s m.
Proof.
  intros Hwf Hv Hinv. cbn [istep].
  destruct (is_array m) eqn:Ha; [|reflexivity]. destruct (m_ext m); [|reflexivity].
  replace (wfvb v) with true by (symmetry; exact Hv). cbn [andb].
  destruct (set_dense_property s k v) as [s'|] eqn:E; [|reflexivity].
  symmetry. apply set_fast_path; assumption.
Qed.

(* ------------------------------------------------------------------------------------------ *)
(* boa's two shortcuts in the array builtins against the specification's steps *)

Definition len_canonical (m : meta) : Prop :=
  exists w e c, m_len m = DData (value_of_N (meta_len m)) w e c.

(* array_exotic_define_own_property: the template-shape branch (define, then store index + 1 into the length
   slot when index + 1 >= length) is the specification's 3.g - 3.k whenever `length` holds the canonical number *)
Theorem define_idx_flavours s m k p : len_canonical m ->
  run_i (array_define_idx Boa k p) s m = run_i (array_define_idx Spec k p) s m.
Proof.
  intros (w & e & c & Hlen). unfold array_define_idx.
  rewrite !run_bind, !run_get_meta.
  destruct ((k + 1 <? 4294967295) && template_shape m && (meta_len m <=? k + 1)) eqn:Efast; [|reflexivity].
  apply andb_true_iff in Efast. destruct Efast as [Ht Hle]. apply andb_true_iff in Ht. destruct Ht as [_ Ht].
  apply N.leb_le in Hle.
  assert (Hw : len_writable m = true).
  { unfold template_shape in Ht. apply andb_true_iff in Ht. destruct Ht as [_ Ht]. unfold len_writable.
    destruct (m_len m) as [v [] [] []|]; try discriminate; reflexivity. }
  rewrite Hw. cbn [negb]. rewrite andb_false_r.
  rewrite !run_bind.
  destruct (run_i (ordinary_define_idx k p) s m) as [[[ok|err] s1] m1] eqn:Eo; [|reflexivity].
  assert (Hm1 : m1 = m).
  { unfold ordinary_define_idx in Eo. rewrite run_bind in Eo. cbn [get_own run_i] in Eo.
    rewrite run_bind, run_get_meta in Eo.
    destruct (validate_and_apply (m_ext m) p (option_map dnorm (get s k))) as [| |d]; cbn [run_i] in Eo.
    - injection Eo as _ _ <-. reflexivity.
    - injection Eo as _ _ <-. reflexivity.
    - rewrite run_bind in Eo. cbn [ins run_i] in Eo. destruct (wfdb d); cbn [run_i] in Eo; [|discriminate].
      injection Eo as _ _ <-. reflexivity. }
  subst m1. destruct ok; [|reflexivity].
  rewrite !run_bind.
  destruct (N.leb_spec (meta_len m) k) as [Hk|Hk]; [reflexivity|].
  (* index = length - 1: the shortcut rewrites the length slot with the value it already holds *)
  assert (Heq : k + 1 = meta_len m) by lia.
  unfold set_len_value. rewrite run_bind, run_get_meta, Hlen. cbn [set_meta run_i].
  rewrite Heq, <- Hlen, with_len_same. reflexivity.
Qed.

(* numbers: JsValue::new(u32) read back by ArraySetLength's ToUint32 / ToNumber comparison *)
Lemma f64_to_N_pos n : 0 < n -> n < 2 ^ 53 -> f64_to_N (pos_to_f64 n) = n.
Proof.
  intros Hn Hb. pose proof (pos_to_f64_fields n Hn Hb) as F. cbv zeta in F. destruct F as (F1 & F2 & F3 & _ & _).
  destruct (pos_to_f64_shape n Hn Hb) as (He & _ & _ & Hsum).
  set (e := N.log2 n) in *.
  unfold f64_to_N. rewrite F1, F2, F3.
  replace (1023 + e =? 2047) with false by (symmetry; apply N.eqb_neq; lia).
  replace (1023 + e <? 1023) with false by (symmetry; apply N.ltb_ge; lia).
  replace (1023 + e <=? 1075) with true by (symmetry; apply N.leb_le; lia).
  replace (1075 - (1023 + e)) with (52 - e) by lia.
  rewrite Hsum. apply N.div_mul. apply N.pow_nonzero. discriminate.
Qed.

Lemma to_array_len_value_of_N n : n < 4294967296 -> to_array_len (value_of_N n) = inl (Some n).
Proof.
  intros Hn. unfold value_of_N. destruct (N.ltb_spec n two31) as [Hs|Hs]; cbn [to_array_len].
  - replace (Z.of_N n <? 0)%Z with false by (symmetry; apply Z.ltb_ge; lia). rewrite N2Z.id. reflexivity.
  - unfold two31 in Hs. assert (H0 : 0 < n) by lia.
    assert (Hb : n < 2 ^ 53) by (eapply N.lt_trans; [exact Hn|reflexivity]).
    pose proof (pos_to_f64_fields n H0 Hb) as F. cbv zeta in F. destruct F as (F1 & _ & F3 & F4 & F5).
    destruct (pos_to_f64_shape n H0 Hb) as (He & _).
    unfold f64_integral_u32, f64_is_nan. rewrite F1, F3.
    replace (1023 + N.log2 n =? 2047) with false by (symmetry; apply N.eqb_neq; lia). cbn [andb].
    replace (pos_to_f64 n =? NEG_ZERO) with false by (symmetry; apply N.eqb_neq; unfold NEG_ZERO; fold p63; lia).
    replace (pos_to_f64 n =? 0) with false by (symmetry; apply N.eqb_neq; lia).
    rewrite f64_to_N_pos by assumption. rewrite N.eqb_refl.
    replace (n <? 4294967296) with true by (symmetry; apply N.ltb_lt; assumption).
    replace (0 <? n) with true by (symmetry; apply N.ltb_lt; assumption). reflexivity.
Qed.

Lemma filter_ge_nil n l : (forall k, In k l -> k < n) -> filter_ge n l = [].
Proof.
  induction l as [|x t IH]; intros H; cbn [filter_ge]; [reflexivity|].
  destruct (N.leb_spec n x) as [Hle|_].
  - specialize (H x (or_introl eq_refl)). lia.
  - apply IH. intros k Hk. apply H. right. assumption.
Qed.

(* OrdinaryDefineOwnProperty("length", {[[Value]]: n}) on the template length descriptor *)
Lemma run_define_len_value s m lv n : m_len m = DData lv true false false ->
  run_i (ordinary_define_len (mkP (Some (value_of_N n)) None None None None None)) s m =
  (inl true, s, with_len m (DData (value_of_N n) true false false)).
Proof.
  intros H. unfold ordinary_define_len. rewrite run_bind, run_get_meta, H.
  cbn [validate_and_apply pd_is_empty pd_is_generic pd_is_accessor pd_is_data p_get p_set p_value p_writable
       p_enum p_conf is_some orb andb negb d_configurable d_enumerable d_is_data Bool.eqb fill_with odflt].
  rewrite run_bind. reflexivity.
Qed.

(* Array::set_length: storing the number into the length slot of a template-shaped array is
   Set(O, "length", n, true) = ArraySetLength whenever no element sits at or above n (the builtins call it after
   they have deleted / moved those elements themselves) *)
Theorem set_len_flavours s m n : wf s -> (forall k, abs s k <> None -> k < n) ->
  run_i (set_len Boa n) s m = run_i (set_len Spec n) s m.
Proof.
  intros Hwf Hkeys. unfold set_len. destruct (N.ltb_spec MAX_INDEX n) as [|Hmax]; [reflexivity|].
  rewrite !run_bind, !run_get_meta.
  destruct (is_array m && (n <? 4294967295) && template_shape m) eqn:Efast; [|reflexivity].
  apply andb_true_iff in Efast. destruct Efast as [Ha Ht]. apply andb_true_iff in Ha. destruct Ha as [Ha _].
  assert (Hkind : m_kind m = KArray) by (unfold is_array in Ha; destruct (m_kind m); [reflexivity|discriminate]).
  assert (Htl : exists lv, m_len m = DData lv true false false).
  { unfold template_shape in Ht. apply andb_true_iff in Ht. destruct Ht as [_ Ht].
    destruct (m_len m) as [lv [] [] []|]; try discriminate. eauto. }
  destruct Htl as [lv Hlen].
  (* boa: the slot store *)
  unfold set_len_value at 1. rewrite run_bind, run_get_meta, Hlen. cbn [set_meta run_i].
  (* specification: OrdinarySet -> ArraySetLength *)
  unfold set_len_prop. rewrite !run_bind, run_get_meta, Hlen.
  unfold define_len. rewrite run_bind, run_get_meta, Hkind.
  unfold array_set_length. cbn [pd_value p_value p_writable p_enum p_conf].
  unfold MAX_INDEX in Hmax. rewrite to_array_len_value_of_N by lia.
  rewrite run_bind, run_get_meta.
  destruct (N.leb_spec (meta_len m) n) as [Hge|Hlt].
  - rewrite (run_define_len_value s m lv n Hlen). reflexivity.
  - assert (Hw : len_writable m = true) by (unfold len_writable; rewrite Hlen; reflexivity).
    rewrite Hw. cbn [negb]. rewrite run_bind, (run_define_len_value s m lv n Hlen). cbn [negb].
    rewrite run_bind. cbn [own_keys run_i].
    rewrite filter_ge_nil.
    + reflexivity.
    + intros k Hk. apply Hkeys. apply (sorted_keys_abs s Hwf). exact Hk.
Qed.

(* the array invariant is satisfiable: a fresh literal [1, 2] *)
Lemma array_inv_literal_lemma : let '(s, m) := init_array_i [Some (VInt 1); Some (VInt 2)] in array_inv s m.
Proof.
  cbv [init_array_i lit_build push_dense as_i32 storage_default app N.add Pos.add Pos.succ array_len_desc value_of_N two31
       N.ltb N.compare Pos.compare Pos.compare_cont Z.of_N].
  split.
  - intros k Hk. change (meta_len _) with 2. destruct (N.lt_ge_cases k 2) as [|Hge]; [assumption|].
    exfalso. apply Hk. cbn [abs]. replace (vget [1%Z; 2%Z] k) with (@None Z); [reflexivity|].
    symmetry. apply vget_none. exact Hge.
  - exists true, false, false. reflexivity.
Qed.

(* ------------------------------------------------------------------------------------------ *)
(* Array.prototype.shift: `dense.remove(0)` against the generic loop *)

Lemma abs_wfd s k d : wf s -> abs s k = Some d -> wfd d /\ dnorm d = d.
Proof.
  intros Hwf H. rewrite <- get_abs in H by assumption.
  destruct (get s k) as [d'|] eqn:E; [|discriminate]. cbn [option_map] in H. injection H as <-.
  pose proof (get_wf s k d' Hwf E) as Hd. destruct d' as [v w e c|g st e c]; cbn [dnorm]; [|auto].
  split; [apply vnorm_wf; exact Hd|]. rewrite vnorm_idem by exact Hd. reflexivity.
Qed.

(* generic [[Set]] on an existing all-default element of an array, below `length` *)
Lemma run_set_existing s m k v v0 : wf s -> wfv v -> is_array m = true -> len_canonical m ->
  k < meta_len m -> abs s k = Some (simple v0) ->
  run_i (set_or_throw Boa k v) s m = (inl tt, snd (insert s k (simple v)), m).
Proof.
  intros Hwf Hv Harr (w & e & c & Hlen) Hkn Habs.
  assert (Hkind : m_kind m = KArray) by (unfold is_array in Harr; destruct (m_kind m); [reflexivity|discriminate]).
  unfold set_or_throw. rewrite run_bind. unfold set_idx.
  rewrite run_bind, run_get_own by assumption. rewrite Habs. cbn [simple].
  unfold define_idx. rewrite run_bind, run_get_meta, Hkind.
  unfold array_define_idx. rewrite run_bind, run_get_meta.
  destruct ((k + 1 <? 4294967295) && template_shape m && (meta_len m <=? k + 1)) eqn:Efast.
  - apply andb_true_iff in Efast. destruct Efast as [_ Hle]. apply N.leb_le in Hle.
    assert (Heq : k + 1 = meta_len m) by lia.
    rewrite run_bind, (run_define_value s m k v v0) by assumption.
    rewrite run_bind. unfold set_len_value. rewrite run_bind, run_get_meta, Hlen.
    cbn [set_meta run_i]. rewrite Heq, <- Hlen, with_len_same. reflexivity.
  - replace ((meta_len m <=? k) && negb (len_writable m)) with false
      by (symmetry; apply andb_false_iff; left; apply N.leb_gt; assumption).
    rewrite run_bind, (run_define_value s m k v v0) by assumption.
    replace (meta_len m <=? k) with false by (symmetry; apply N.leb_gt; assumption).
    reflexivity.
Qed.

Lemma dense_elem s0 n k : wf s0 -> dense_len s0 = Some n -> k < n -> exists x, abs s0 k = Some (simple x) /\ wfv x /\ vnorm x = x.
Proof.
  intros Hwf Hd Hk. pose proof (dense_len_abs s0 n Hd k) as Hs. apply N.ltb_lt in Hk. rewrite Hk in Hs.
  destruct (abs s0 k) as [d|] eqn:E; [|discriminate].
  destruct (dense_abs_simple s0 n k d Hd E) as [x ->]. exists x. split; [reflexivity|].
  destruct (abs_wfd s0 k _ Hwf E) as [H1 H2]. split; [exact H1|]. rewrite dnorm_simple in H2. unfold simple in H2. injection H2 as H2. exact H2.
Qed.

Lemma move_up_shift s0 m n : wf s0 -> is_array m = true -> len_canonical m -> meta_len m = n -> dense_len s0 = Some n ->
  forall cnt s i, wf s -> N.of_nat cnt + i + 1 = n ->
  (forall k, abs s k = if k <? i then abs s0 (k + 1) else abs s0 k) ->
  exists s1, run_i (move_up Boa cnt i 1 0) s m = (inl tt, s1, m) /\ wf s1 /\
    (forall k, abs s1 k = if k <? n - 1 then abs s0 (k + 1) else abs s0 k).
Proof.
  intros Hwf0 Harr Hcan Hn Hd. induction cnt as [|c IH]; intros s i Hwf Hcnt Hinv; cbn [move_up].
  - exists s. split; [reflexivity|]. split; [assumption|]. intros k. rewrite Hinv.
    replace (n - 1) with i by lia. reflexivity.
  - destruct (dense_elem s0 n (i + 1) Hwf0 Hd) as (x & Hx & Hxw & Hxn); [lia|].
    destruct (dense_elem s0 n i Hwf0 Hd) as (y & Hy & _ & _); [lia|].
    assert (Hfrom : abs s (i + 1) = Some (simple x)).
    { rewrite Hinv. destruct (N.ltb_spec (i + 1) i); [lia|exact Hx]. }
    assert (Hto : abs s (i + 0) = Some (simple y)).
    { rewrite N.add_0_r, Hinv. rewrite N.ltb_irrefl. exact Hy. }
    rewrite run_bind. unfold move. rewrite run_bind. unfold try_get_idx.
    rewrite run_bind, run_get_own by assumption. rewrite Hfrom. cbn [simple run_i].
    rewrite (run_set_existing s m (i + 0) x y) by (try assumption; lia).
    destruct (insert_abs s (i + 0) (simple x) Hwf Hxw) as (Hw2 & _ & Ha2).
    apply IH; [exact Hw2|lia|].
    intros k. rewrite Ha2. unfold upd. rewrite N.add_0_r, dnorm_simple, Hxn.
    destruct (N.eqb_spec k i) as [->|Hne].
    + destruct (N.ltb_spec i (i + 1)); [symmetry; exact Hx|lia].
    + rewrite Hinv. destruct (N.ltb_spec k i); destruct (N.ltb_spec k (i + 1)); try lia; reflexivity.
Qed.

Theorem shift_fast_path s m v s' : wf s -> is_array m = true -> array_inv s m ->
  meta_len m <> 0 -> meta_len m <= LOOP_LIMIT -> shift_dense s (meta_len m) = Some (v, s') ->
  fst (fst (istep OShift s m)) = fst (fst (run_i (op_prog Boa OShift) s m)) /\
  snd (istep OShift s m) = snd (run_i (op_prog Boa OShift) s m) /\
  same_map (snd (fst (istep OShift s m))) (snd (fst (run_i (op_prog Boa OShift) s m))) /\
  dump_i (snd (fst (istep OShift s m))) = dump_i (snd (fst (run_i (op_prog Boa OShift) s m))).
Proof.
  intros Hwf Harr [Hlt Hcan] Hn0 Hlim Hsh.
  set (n := meta_len m) in *.
  destruct (shift_dense_abs s n v s' Hwf Hsh) as (Hwf' & Hv & Hfirst & (d & Hd & Hnd & _) & Hshift).
  (* the dense length is exactly the array length *)
  assert (Hdn : d = n).
  { destruct (N.lt_ge_cases n d) as [Hlt'|]; [|lia]. exfalso.
    pose proof (dense_len_abs s d Hd n) as Hs. apply N.ltb_lt in Hlt'. rewrite Hlt' in Hs.
    assert (n < n); [|lia]. apply Hlt. destruct (abs s n); [discriminate|discriminate]. }
  subst d.
  (* fast side *)
  cbn [istep]. fold n. rewrite Harr. replace (negb (n =? 0)) with true by (symmetry; apply negb_true_iff, N.eqb_neq; exact Hn0).
  replace (n <=? LOOP_LIMIT) with true by (symmetry; apply N.leb_le; exact Hlim).
  cbn [andb]. rewrite Hsh.
  (* generic side *)
  cbn [op_prog]. unfold a_shift, get_len. rewrite !run_bind, run_get_meta. cbn [run_i]. fold n.
  replace (n =? 0) with false by (symmetry; apply N.eqb_neq; exact Hn0).
  rewrite run_bind. unfold guard_loop. replace (LOOP_LIMIT <? n) with false by (symmetry; apply N.ltb_ge; exact Hlim).
  cbn [run_i]. rewrite run_bind. unfold get_idx. rewrite run_bind, run_get_own by assumption.
  rewrite Hfirst. cbn [simple run_i].
  destruct (move_up_shift s m n Hwf Harr Hcan eq_refl Hd (N.to_nat (n - 1)) s 0 Hwf) as (s1 & Hrun & Hw1 & Ha1).
  { lia. }
  { intros k. destruct (N.ltb_spec k 0); [lia|reflexivity]. }
  rewrite run_bind, Hrun.
  (* delete the last element *)
  destruct (dense_elem s n (n - 1) Hwf Hd) as (z & Hz & _ & _); [lia|].
  assert (Hlast : abs s1 (n - 1) = Some (simple z)) by (rewrite Ha1, N.ltb_irrefl; exact Hz).
  rewrite run_bind. unfold delete_or_throw. rewrite run_bind. unfold delete_idx.
  rewrite run_bind, run_get_own by assumption. rewrite Hlast. cbn [simple d_configurable].
  rewrite run_bind. cbn [rem run_i].
  destruct (remove_abs s1 (n - 1) Hw1) as (Hw2 & _ & Ha2).
  set (s2 := snd (remove s1 (n - 1))) in *.
  (* both sides now run Array::set_length on storages that hold the same map *)
  assert (Hsame : same_map s' s2).
  { intros k. rewrite Hshift, Ha2. unfold upd. destruct (N.eqb_spec k (n - 1)) as [->|Hne].
    - replace (n - 1 + 1) with n by lia.
      pose proof (dense_len_abs s n Hd n) as Hs. rewrite N.ltb_irrefl in Hs. destruct (abs s n); [discriminate|reflexivity].
    - rewrite Ha1. destruct (N.ltb_spec k (n - 1)); [reflexivity|].
      assert (Hk : n <= k) by lia.
      pose proof (dense_len_abs s n Hd k) as Hs1. pose proof (dense_len_abs s n Hd (k + 1)) as Hs2.
      replace (k <? n) with false in Hs1 by (symmetry; apply N.ltb_ge; lia).
      replace (k + 1 <? n) with false in Hs2 by (symmetry; apply N.ltb_ge; lia).
      destruct (abs s k); [discriminate|]. destruct (abs s (k + 1)); [discriminate|reflexivity]. }
  destruct (storage_independence (set_len Boa (n - 1)) s' s2 m Hwf' Hw2 Hsame) as (E1 & E2 & _ & _ & E5 & E6).
  rewrite run_bind.
  destruct (run_i (set_len Boa (n - 1)) s' m) as [[r1 t1] m1].
  destruct (run_i (set_len Boa (n - 1)) s2 m) as [[r2 t2] m2].
  cbn [fst snd] in E1, E2, E5, E6. subst r2 m2.
  destruct r1 as [[]|err]; cbn [run_i fst snd]; auto.
Qed.
