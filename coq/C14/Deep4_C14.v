(* C14 deepening, part 4: every modelled operation keeps the invariant and runs identically in boa's flavour and in
   the ECMA-262 flavour (same storage, same meta state, same completion). *)
From Coq Require Import NArith ZArith List Bool Lia.
From C14 Require Import Indexed ArraySpec ProofsA_C14 ProofsB_C14 ProofsC_C14 ProofsD_C14 Deep1_C14 Deep2_C14 Deep3_C14.
Import ListNotations.
Local Open Scope N_scope.

Definition I0 (kd : kind) (s : storage) (m : meta) : Prop := m_kind m = kd /\ Inv s m.

Lemma IK_I0 kd b s m : IK kd b s m -> I0 kd s m.
Proof. intros (H1 & H2 & _). split; assumption. Qed.

Lemma I0_IK kd b s m : I0 kd s m -> meta_len m <= b -> IK kd b s m.
Proof.
  intros [Hk Hi] Hb. split; [assumption|]. split; [assumption|]. eapply KL_mono; [apply Inv_KL; exact Hi|exact Hb].
Qed.

Lemma I0_msame kd s m m' : I0 kd s m -> msame m m' -> I0 kd s m'.
Proof. intros [Hk Hi] Hs. split; [destruct Hs; congruence|eapply Inv_msame; eassumption]. Qed.

Lemma ok_ro_I0 {A} (p : prog A) kd : ro p -> ok (I0 kd) (fun _ => p) (fun _ => I0 kd).
Proof.
  intros Hro. eapply ok_weaken; [apply (ok_ro p (I0 kd) Hro)|auto|].
  intros r s' m' (s & m & H & -> & Hs). eapply I0_msame; eassumption.
Qed.

(* use an IK-lemma with a bound computed from the length read at the start *)
Lemma ok_from_IK {A} kd b n (P : flavour -> prog A) : n <= b ->
  ok (IK kd b) P (fun _ => IK kd b) ->
  ok (fun s m => I0 kd s m /\ meta_len m = n) P (fun _ => I0 kd).
Proof.
  intros Hb H. eapply ok_weaken; [exact H| |].
  - intros s m [Hi Hn]. apply I0_IK; [assumption|lia].
  - intros r s m. apply IK_I0.
Qed.

Lemma ok_with_len {A} kd (BODY : N -> flavour -> prog A) :
  (forall n, ok (fun s m => I0 kd s m /\ meta_len m = n) (BODY n) (fun _ => I0 kd)) ->
  ok (I0 kd) (fun fl => n <- get_len ;; BODY n fl) (fun _ => I0 kd).
Proof.
  intros H s m Hi. unfold get_len. rewrite !run_bind, !run_get_meta. cbn [run_i].
  apply H. split; [assumption|reflexivity].
Qed.

Lemma ok_ret_I0 {A} kd n (a : A) : ok (fun s m => I0 kd s m /\ meta_len m = n) (fun _ => Ret a) (fun _ => I0 kd).
Proof. intros s m [H _]. split; [reflexivity|exact H]. Qed.
Lemma ok_throw_I0 {A} kd n e : ok (fun s m => I0 kd s m /\ meta_len m = n) (fun _ => @Throw A e) (fun _ => I0 kd).
Proof. intros s m [H _]. split; [reflexivity|exact H]. Qed.

(* sequencing inside IK *)
Lemma ok_then_ret {A} kd b (P : flavour -> prog unit) (a : A) :
  ok (IK kd b) P (fun _ => IK kd b) -> ok (IK kd b) (fun fl => P fl ;;; Ret a) (fun _ => IK kd b).
Proof. intros H. apply ok_seq; [exact H|apply ok_ret_IK|auto]. Qed.

(* ------------------------------------------------------------------------------------------ *)
(* read-only loops *)

Lemma ro_collect cnt : forall k j, ro (collect cnt k j).
Proof.
  induction cnt as [|c IH]; intros k j; cbn [collect]; [constructor|].
  apply ro_bind; [apply ro_try_get_idx|]. intros v. apply ro_bind; [apply IH|]. intros; constructor.
Qed.

Lemma ro_index_of_loop v cnt : forall k, ro (index_of_loop cnt k v).
Proof.
  induction cnt as [|c IH]; intros k; cbn [index_of_loop]; [constructor|].
  apply ro_bind; [apply ro_try_get_idx|]. intros [x|]; [destruct (strict_equals v x); [constructor|apply IH]|apply IH].
Qed.

Lemma ro_last_index_of_loop v cnt : forall k, ro (last_index_of_loop cnt k v).
Proof.
  induction cnt as [|c IH]; intros k; cbn [last_index_of_loop]; [constructor|].
  apply ro_bind; [apply ro_try_get_idx|]. intros [x|]; [destruct (strict_equals v x); [constructor|apply IH]|apply IH].
Qed.

Lemma ro_includes_loop v cnt : forall k, ro (includes_loop cnt k v).
Proof.
  induction cnt as [|c IH]; intros k; cbn [includes_loop]; [constructor|].
  apply ro_bind; [apply ro_get_idx|]. intros x. destruct (same_value_zero v x); [constructor|apply IH].
Qed.

Lemma ro_join_loop cnt : forall k, ro (join_loop cnt k).
Proof.
  induction cnt as [|c IH]; intros k; cbn [join_loop]; [constructor|].
  apply ro_bind; [apply ro_get_idx|]. intros x. apply ro_bind; [apply IH|]. intros; constructor.
Qed.

Ltac ro_tac :=
  repeat first
    [ apply ro_get_len | apply ro_get_meta | apply ro_guard_loop | apply ro_get_idx | apply ro_try_get_idx
    | apply ro_collect | apply ro_index_of_loop | apply ro_last_index_of_loop | apply ro_includes_loop | apply ro_join_loop
    | apply ro_ret | apply ro_throw
    | (apply ro_bind; [|intros ?]) ].

Lemma ro_a_slice s e : ro (a_slice s e).
Proof. unfold a_slice. ro_tac. Qed.

Lemma ro_a_concat args : ro (a_concat args).
Proof.
  unfold a_concat. apply ro_bind; [apply ro_get_meta|]. intros m. destruct (m_kind m).
  - apply ro_bind; [apply ro_get_len|]. intros n. apply ro_bind; [apply ro_guard_loop|]. intros _.
    apply ro_bind; [apply ro_collect|]. intros own. destruct (concat_args args n). constructor.
  - destruct (concat_args args 1). constructor.
Qed.

Lemma ro_a_index_of v f : ro (a_index_of v f).
Proof.
  unfold a_index_of. apply ro_bind; [apply ro_get_len|]. intros n. destruct (n =? 0); [constructor|].
  destruct (from_index f n); [|constructor]. ro_tac.
Qed.

Lemma ro_a_includes v f : ro (a_includes v f).
Proof.
  unfold a_includes. apply ro_bind; [apply ro_get_len|]. intros n. destruct (n =? 0); [constructor|].
  destruct (from_index f n); [|constructor]. ro_tac.
Qed.

Lemma ro_a_last_index_of v f : ro (a_last_index_of v f).
Proof.
  unfold a_last_index_of. apply ro_bind; [apply ro_get_len|]. intros n. destruct (n =? 0); [constructor|].
  match goal with |- ro (match ?st with _ => _ end) => destruct st as [k|] end; [|constructor].
  destruct (k <? 0)%Z; [constructor|]. ro_tac.
Qed.

Lemma ro_a_join : ro a_join.
Proof. unfold a_join. ro_tac. Qed.

Lemma ro_a_at i : ro (a_at i).
Proof.
  unfold a_at. apply ro_bind; [apply ro_get_len|]. intros n.
  match goal with |- ro (match ?st with _ => _ end) => destruct st as [k|] end; [|constructor]. ro_tac.
Qed.
