(* C14 deepening, part 6: implementation-model histories = specification histories.
   `irun` (boa's flavour of the algorithms + the three store-level fast paths, on boa's storage) and `srun`
   (ECMA-262 flavour on the abstract array-like) give the same observation after every step. *)
From Coq Require Import NArith ZArith List Bool Lia.
From C14 Require Import Indexed ArraySpec ProofsA_C14 ProofsB_C14 ProofsC_C14 ProofsD_C14
     Deep1_C14 Deep2_C14 Deep3_C14 Deep4_C14 Deep5_C14 Deep7_C14.
Import ListNotations.
Local Open Scope N_scope.

(* well-formed operations: index arguments are array indices (<= 2^32 - 2), Integer32 values written to `length`
   are int32s (what JsValue can hold); every operation of ArraySpec.v is op_wf *)
Definition op_wf (o : op) : bool :=
  match o with
  | OSet k _ | ODef k _ => k <=? MAX_INDEX
  | OLen v => wfvb v
  | ODefLen p => match p_value p with Some v => wfvb v | None => true end
  | _ => true
  end.

Lemma ok_op kd o : op_wf o = true -> ok (I0 kd) (fun fl => op_prog fl o) (POST kd).
Proof.
  destruct o; cbn [op_wf]; intros Hc.
  - apply ok_OSet. apply N.leb_le. exact Hc.
  - apply ok_OGet.
  - apply ok_ODel.
  - apply ok_OLen. exact Hc.
  - apply ok_ODef. apply N.leb_le. exact Hc.
  - apply ok_ODefLen. destruct (p_value p); [exact Hc|exact I].
  - cbn [op_prog]. apply ok_integrity.
  - cbn [op_prog]. apply ok_integrity.
  - apply ok_OPrevent.
  - apply ok_OPush.
  - apply ok_OPop.
  - apply ok_OShift.
  - apply ok_OUnshift.
  - apply ok_OSplice.
  - cbn [op_prog]. apply ok_ro_I0, ro_a_slice.
  - cbn [op_prog]. apply ok_ro_I0, ro_a_concat.
  - apply ok_OReverse.
  - apply ok_OFill.
  - apply ok_OCopyWithin.
  - cbn [op_prog]. apply ok_ro_I0, ro_a_index_of.
  - cbn [op_prog]. apply ok_ro_I0, ro_a_last_index_of.
  - cbn [op_prog]. apply ok_ro_I0, ro_a_includes.
  - cbn [op_prog]. apply ok_ro_I0, ro_a_join.
  - cbn [op_prog]. apply ok_ro_I0, ro_a_at.
Qed.

(* the invariant only looks at the map a storage holds *)
Lemma I0_same_map kd s s' m : I0 kd s m -> wf s' -> same_map s' s -> I0 kd s' m.
Proof.
  intros (Hk & Hwf & Hu & Hi) Hwf' Hsame. split; [assumption|]. split; [assumption|]. split; [assumption|].
  intros Ha. destruct (Hi Ha) as [Hel Hc]. split; [|assumption]. intros k Hk'. apply Hel. rewrite <- Hsame. exact Hk'.
Qed.

Lemma Inv_array_inv s m : Inv s m -> is_array m = true -> array_inv s m.
Proof. intros (_ & _ & Hi) Ha. destruct (Hi Ha) as [H1 H2]. split; assumption. Qed.

(* the implementation model against the generic algorithm in boa's flavour *)
Lemma istep_vs_generic kd o s m : I0 kd s m ->
  rs_of (istep o s m) = rs_of (run_i (op_prog Boa o) s m) /\
  mt_of (istep o s m) = mt_of (run_i (op_prog Boa o) s m) /\
  (wf (st_of (run_i (op_prog Boa o) s m)) -> wf (st_of (istep o s m))) /\
  same_map (st_of (istep o s m)) (st_of (run_i (op_prog Boa o) s m)).
Proof.
  intros (Hk & Hi). pose proof Hi as (Hwf & _ & _).
  assert (Hrefl : forall x : result res * storage * meta,
            rs_of x = rs_of x /\ mt_of x = mt_of x /\ (wf (st_of x) -> wf (st_of x)) /\ same_map (st_of x) (st_of x)).
  { intros x. split; [reflexivity|]. split; [reflexivity|]. split; [auto|]. intros k. reflexivity. }
  destruct o; try apply Hrefl.
  - (* by-value store *)
    cbn [istep]. destruct (is_array m) eqn:Ha; [|apply Hrefl]. destruct (m_ext m); [|apply Hrefl].
    destruct (wfvb v) eqn:Hv; [|apply Hrefl]. cbn [andb].
    destruct (set_dense_property s k v) as [s'|] eqn:E; [|apply Hrefl].
    rewrite (set_fast_path s m k v s' Hwf Hv Ha (Inv_array_inv s m Hi Ha) E). apply Hrefl.
  - (* by-value load *)
    cbn [istep]. destruct (is_array m) eqn:Ha; [|apply Hrefl].
    destruct (get_dense_property s k) as [v|] eqn:E; [|apply Hrefl].
    rewrite (get_fast_path s m k v Hwf E). apply Hrefl.
  - (* shift *)
    destruct (is_array m && negb (meta_len m =? 0) && (meta_len m <=? LOOP_LIMIT)) eqn:Ec.
    + pose proof Ec as Ec0. apply andb_true_iff in Ec. destruct Ec as [Ec Hl]. apply andb_true_iff in Ec. destruct Ec as [Ha Hn].
      apply negb_true_iff, N.eqb_neq in Hn. apply N.leb_le in Hl.
      destruct (shift_dense s (meta_len m)) as [[v s']|] eqn:E.
      * destruct (shift_fast_path s m v s' Hwf Ha (Inv_array_inv s m Hi Ha) Hn Hl E) as (H1 & H2 & H3 & _).
        split; [exact H1|]. split; [exact H2|]. split; [|exact H3].
        intros _. (* wf of the fast result: the tail of a dense vector, then Array::set_length *)
        cbn [istep]. rewrite Ha. replace (negb (meta_len m =? 0)) with true by (symmetry; apply negb_true_iff, N.eqb_neq; exact Hn).
        replace (meta_len m <=? LOOP_LIMIT) with true by (symmetry; apply N.leb_le; exact Hl).
        cbn [andb]. rewrite E.
        destruct (shift_dense_abs s (meta_len m) v s' Hwf E) as (Hwf' & _).
        destruct (storage_independence (set_len Boa (meta_len m - 1)) s' s' m Hwf' Hwf' (fun k => eq_refl)) as (_ & _ & Hw & _).
        destruct (run_i (set_len Boa (meta_len m - 1)) s' m) as [[[u|e] t1] m1]; exact Hw.
      * cbn [istep]. rewrite Ec0, E. apply Hrefl.
    + cbn [istep]. rewrite Ec. apply Hrefl.
Qed.

Lemma clear_log_msame m : msame m (clear_log m).
Proof. split; reflexivity. Qed.

(* one observed step *)
Lemma step_impl_eq_spec kd o s a m : R s a -> I0 kd s m -> op_wf o = true ->
  fst (fst (iobs o s m)) = fst (fst (sobs o a m)) /\
  snd (iobs o s m) = snd (sobs o a m) /\
  R (snd (fst (iobs o s m))) (snd (fst (sobs o a m))) /\
  I0 kd (snd (fst (iobs o s m))) (snd (iobs o s m)).
Proof.
  intros HR Hi Hc. set (m0 := clear_log m).
  assert (Hi0 : I0 kd s m0) by (eapply I0_msame; [exact Hi|apply clear_log_msame]).
  destruct (ok_op kd o Hc s m0 Hi0) as [Efl Hpost].
  destruct (istep_vs_generic kd o s m0 Hi0) as (I1 & I2 & I3 & I4).
  pose proof (run_sim (op_prog Spec o) s a m0 HR) as (S1 & S2 & S3).
  unfold iobs, sobs, sstep. fold m0.
  rewrite Efl in I1, I2, I3, I4.
  unfold rs_of, st_of, mt_of, POST in *.
  destruct (istep o s m0) as [[ri si] mi].
  destruct (run_i (op_prog Spec o) s m0) as [[rg sg] mg].
  destruct (run_a (op_prog Spec o) a m0) as [[ra sa] ma].
  cbn [fst snd] in *. subst ri mi ra ma.
  destruct Hpost as [Hk' Hinv]. pose proof Hinv as (Hwg & _).
  specialize (I3 Hwg).
  assert (HRi : R si sa).
  { destruct S3 as (_ & Hs & Ha). split; [assumption|]. split; [assumption|]. intros k. rewrite I4. apply Ha. }
  split; [|split; [reflexivity|split; [exact HRi|]]].
  - rewrite (R_dump si sa HRi). reflexivity.
  - eapply I0_same_map; [split; eassumption|assumption|assumption].
Qed.

Theorem histories_impl_eq_spec_lemma kd : forall ops s a m,
  R s a -> I0 kd s m -> forallb op_wf ops = true -> irun ops s m = srun ops a m.
Proof.
  induction ops as [|o t IH]; intros s a m HR Hi Hc; cbn [irun srun]; [reflexivity|].
  cbn [forallb] in Hc. apply andb_true_iff in Hc. destruct Hc as [Ho Ht].
  destruct (step_impl_eq_spec kd o s a m HR Hi Ho) as (E1 & E2 & E3 & E4).
  destruct (iobs o s m) as [[ob s1] m1]. destruct (sobs o a m) as [[ob' a1] m1'].
  cbn [fst snd] in *. subst ob' m1'. f_equal. apply IH; assumption.
Qed.

(* ------------------------------------------------------------------------------------------ *)
(* initial states satisfy the invariant *)

Lemma abuild_lookup_ge l : forall n k, n + len l <= k -> alookup (abuild l n) k = None.
Proof.
  unfold alookup, len. induction l as [|[v|] t IH]; intros n k Hk; cbn [abuild mget length] in *; [reflexivity| |].
  - destruct (N.eqb_spec n k); [lia|]. apply IH. lia.
  - apply IH. lia.
Qed.

Lemma init_array_I0 l : elems_wf l -> len l <= U32 ->
  I0 KArray (fst (init_array_i l)) (snd (init_array_i l)).
Proof.
  intros Hl Hu. destruct (init_array_R l Hl) as [(Hwf & _ & Ha) Hm]. rewrite Hm.
  unfold init_a. cbn [snd fst].
  assert (Hlen : meta_len (mkMeta KArray (array_len_desc (len l)) true []) = len l).
  { unfold meta_len, array_len_desc. cbn [m_len]. apply len_of_value_of_N, u32_lt_53, Hu. }
  split; [reflexivity|]. split; [assumption|]. rewrite Hlen. split; [assumption|]. intros _. split.
  - intros k Hk. rewrite Ha in Hk. unfold init_a in Hk. cbn [fst] in Hk.
    destruct (N.lt_ge_cases k (len l)) as [|Hge]; [assumption|]. exfalso. apply Hk. apply abuild_lookup_ge. lia.
  - exists true, false, false. rewrite Hlen. reflexivity.
Qed.

Lemma init_plain_I0 l : elems_wf l -> len l <= U32 ->
  I0 KPlain (fst (init_plain_i l)) (snd (init_plain_i l)).
Proof.
  intros Hl Hu. destruct (init_plain_R l Hl) as [(Hwf & _ & _) Hm]. rewrite Hm.
  unfold init_a. cbn [snd fst].
  split; [reflexivity|]. split; [assumption|]. split.
  - unfold meta_len, plain_len_desc. cbn [m_len]. rewrite len_of_value_of_N by (apply u32_lt_53, Hu). exact Hu.
  - intros H. discriminate.
Qed.

(* the composition theorem from the initial states the check uses *)
Theorem histories_from_literal l ops : elems_wf l -> len l <= U32 -> forallb op_wf ops = true ->
  irun ops (fst (init_array_i l)) (snd (init_array_i l)) = srun ops (fst (init_a KArray l)) (snd (init_a KArray l)) /\
  irun ops (fst (init_plain_i l)) (snd (init_plain_i l)) = srun ops (fst (init_a KPlain l)) (snd (init_a KPlain l)).
Proof.
  intros Hl Hu Hc. split.
  - destruct (init_array_R l Hl) as [HR Hm]. rewrite <- Hm.
    apply (histories_impl_eq_spec_lemma KArray); [exact HR|apply init_array_I0; assumption|exact Hc].
  - destruct (init_plain_R l Hl) as [HR Hm]. rewrite <- Hm.
    apply (histories_impl_eq_spec_lemma KPlain); [exact HR|apply init_plain_I0; assumption|exact Hc].
Qed.
