(* C14 proofs, part B: the five storage forms of `IndexedProperties` refine one abstract index map.
   `abs : storage -> (N -> option desc)` (Indexed.v) is the abstraction; `wf` the representation invariant
   (DenseI32 holds int32s, hash maps have no duplicate keys, Integer32 values are in range).
   Every operation of the storage interface - get / insert / remove / contains_key / push_dense /
   transform_to_sparse / keys and the dense fast paths set/get_dense_property / shift - is shown to compute
   the corresponding operation on the abstract map, whatever form the storage is in and whatever form
   transition the operation triggers. *)
From Coq Require Import NArith ZArith List Bool Lia Sorted.
From C14 Require Import Indexed ProofsA_C14.
Import ListNotations.
Local Open Scope N_scope.

(* ------------------------------------------------------------------------------------------ *)
(* lists as vectors *)

Lemma let_pair {A B C} (p : A * B) (f : B -> C) : (let (r, m) := p in (r, f m)) = (fst p, f (snd p)).
Proof. destruct p. reflexivity. Qed.

Lemma is_some_map {A B} (f : A -> B) (o : option A) : is_some (option_map f o) = is_some o.
Proof. destruct o; reflexivity. Qed.

Lemma nth_error_nil' {A} n : nth_error (@nil A) n = None.
Proof. destruct n; reflexivity. Qed.

Lemma len_app {A} (l : list A) a : len (l ++ [a]) = len l + 1.
Proof. unfold len. rewrite app_length. cbn [length]. lia. Qed.
Lemma len_map {A B} (f : A -> B) l : len (map f l) = len l.
Proof. unfold len. rewrite map_length. reflexivity. Qed.

Lemma vget_nth {A} (l : list A) k : vget l k = nth_error l (N.to_nat k).
Proof.
  unfold vget. destruct (N.ltb_spec k (len l)); [reflexivity|].
  symmetry. apply nth_error_None. unfold len in *. lia.
Qed.

Lemma vget_none {A} (l : list A) k : vget l k = None <-> len l <= k.
Proof. rewrite vget_nth. unfold len. rewrite nth_error_None. lia. Qed.
Lemma vget_some_lt {A} (l : list A) k a : vget l k = Some a -> k < len l.
Proof.
  intros H. destruct (N.lt_ge_cases k (len l)) as [|Hge]; [assumption|].
  apply vget_none in Hge. congruence.
Qed.
Lemma vget_is_some {A} (l : list A) k : is_some (vget l k) = (k <? len l).
Proof.
  destruct (vget l k) eqn:E; cbn [is_some]; symmetry.
  - apply N.ltb_lt. eapply vget_some_lt; eassumption.
  - apply N.ltb_ge. apply vget_none. assumption.
Qed.
Lemma vget_map {A B} (f : A -> B) l k : vget (map f l) k = option_map f (vget l k).
Proof. rewrite !vget_nth. apply nth_error_map. Qed.
Lemma vget_forall {A} (P : A -> Prop) l k a : Forall P l -> vget l k = Some a -> P a.
Proof. intros HF H. rewrite vget_nth in H. rewrite Forall_forall in HF. apply HF. eapply nth_error_In. exact H. Qed.

Lemma vget_app_last {A} (l : list A) a k :
  vget (l ++ [a]) k = if k =? len l then Some a else vget l k.
Proof.
  rewrite !vget_nth. unfold len. destruct (N.eqb_spec k (N.of_nat (length l))) as [->|Hne].
  - rewrite nth_error_app2 by lia. rewrite Nat2N.id, Nat.sub_diag. reflexivity.
  - destruct (Nat.lt_ge_cases (N.to_nat k) (length l)) as [Hlt|Hge].
    + apply nth_error_app1. assumption.
    + assert (length l < N.to_nat k)%nat by lia.
      transitivity (@None A).
      * apply nth_error_None. rewrite app_length. cbn [length]. lia.
      * symmetry. apply nth_error_None. lia.
Qed.

Lemma set_nth_length {A} (l : list A) n a : length (set_nth l n a) = length l.
Proof. revert n. induction l; intros [|n]; cbn [set_nth length]; auto. Qed.

Lemma set_nth_get {A} (l : list A) n a m :
  nth_error (set_nth l n a) m =
  if Nat.eqb m n then (if Nat.ltb n (length l) then Some a else None) else nth_error l m.
Proof.
  revert n m. induction l as [|h t IH]; intros n m.
  - cbn [set_nth length]. rewrite nth_error_nil'. destruct (Nat.eqb m n); reflexivity.
  - destruct n, m; cbn [set_nth nth_error length]; try reflexivity.
    rewrite IH. cbn [Nat.eqb]. change (Nat.ltb (S n) (S (length t))) with (Nat.ltb n (length t)). reflexivity.
Qed.

Lemma len_vset {A} (l : list A) k a : len (vset l k a) = len l.
Proof. unfold len, vset. rewrite set_nth_length. reflexivity. Qed.

Lemma vget_vset {A} (l : list A) k a k' :
  vget (vset l k a) k' = if k' =? k then (if k <? len l then Some a else None) else vget l k'.
Proof.
  rewrite !vget_nth. unfold vset, len. rewrite set_nth_get.
  destruct (N.eqb_spec k' k) as [->|Hne].
  - rewrite Nat.eqb_refl.
    destruct (N.ltb_spec k (N.of_nat (length l))); destruct (Nat.ltb_spec (N.to_nat k) (length l)); try reflexivity; lia.
  - destruct (Nat.eqb_spec (N.to_nat k') (N.to_nat k)); [lia|reflexivity].
Qed.

Lemma set_nth_forall {A} (P : A -> Prop) l n a : Forall P l -> P a -> Forall P (set_nth l n a).
Proof.
  intros HF Ha. revert n. induction HF; intros [|n]; cbn [set_nth]; constructor; auto.
Qed.

Lemma dense_put_spec {A} (l : list A) k a : k <= len l ->
  fst (dense_put l k a) = is_some (vget l k) /\
  forall k', vget (snd (dense_put l k a)) k' = if k' =? k then Some a else vget l k'.
Proof.
  intros Hk. unfold dense_put. rewrite vget_is_some.
  destruct (N.eqb_spec k (len l)) as [->|Hne]; cbn [fst snd].
  - split; [symmetry; apply N.ltb_irrefl|]. intros k'. apply vget_app_last.
  - assert (Hlt : k < len l) by lia. split; [symmetry; apply N.ltb_lt; assumption|].
    intros k'. rewrite vget_vset. apply N.ltb_lt in Hlt. rewrite Hlt. reflexivity.
Qed.

Lemma dense_put_forall {A} (P : A -> Prop) l k a : Forall P l -> P a -> Forall P (snd (dense_put l k a)).
Proof.
  intros HF Ha. unfold dense_put. destruct (k =? len l); cbn [snd].
  - apply Forall_app. split; [assumption|constructor; [assumption|constructor]].
  - apply set_nth_forall; assumption.
Qed.

Lemma dense_put_push {A} (l : list A) a : dense_put l (len l) a = (false, l ++ [a]).
Proof. unfold dense_put. rewrite N.eqb_refl. reflexivity. Qed.

Lemma removelast_spec {A} (l : list A) k : k + 1 = len l ->
  exists l' x, l = l' ++ [x] /\ removelast l = l' /\ len l' = k.
Proof.
  intros Hk. induction l as [|x l' _] using rev_ind.
  - unfold len in Hk. cbn in Hk. lia.
  - exists l', x. split; [reflexivity|]. split; [apply removelast_last|].
    rewrite len_app in Hk. lia.
Qed.

Lemma vget_removelast {A} (l : list A) k k' : k + 1 = len l ->
  vget (removelast l) k' = if k' =? k then None else vget l k'.
Proof.
  intros Hk. destruct (removelast_spec l k Hk) as (l' & x & -> & -> & Hl).
  rewrite vget_app_last, Hl. destruct (N.eqb_spec k' k) as [->|]; [|reflexivity].
  apply vget_none. lia.
Qed.

Lemma removelast_forall {A} (P : A -> Prop) (l : list A) k : k + 1 = len l -> Forall P l -> Forall P (removelast l).
Proof.
  intros Hk HF. destruct (removelast_spec l k Hk) as (l' & x & -> & -> & _).
  apply Forall_app in HF. tauto.
Qed.

(* ------------------------------------------------------------------------------------------ *)
(* association lists as hash maps *)

Section MapLemmas.
  Context {A : Type}.
  Implicit Types (m : list (N * A)) (k : N) (a : A).

  Lemma mget_in_keys m k : In k (mkeys m) <-> mget m k <> None.
  Proof.
    induction m as [|[k0 a0] t IH]; cbn [mkeys map mget In fst].
    - split; [tauto|congruence].
    - destruct (N.eqb_spec k0 k) as [->|Hne].
      + split; [discriminate|auto].
      + rewrite <- IH. unfold mkeys. split; [intros [?|?]; [contradiction|assumption]|auto].
  Qed.

  Lemma mget_not_in m k : ~ In k (mkeys m) -> mget m k = None.
  Proof. intros H. destruct (mget m k) eqn:E; [|reflexivity]. exfalso. apply H, mget_in_keys. congruence. Qed.

  Lemma minsert_fst m k a : fst (minsert m k a) = is_some (mget m k).
  Proof.
    induction m as [|[k0 a0] t IH]; cbn [minsert mget fst]; [reflexivity|].
    destruct (k0 =? k); [reflexivity|]. destruct (minsert t k a). exact IH.
  Qed.

  Lemma minsert_get m k a k' : mget (snd (minsert m k a)) k' = if k' =? k then Some a else mget m k'.
  Proof.
    induction m as [|[k0 a0] t IH]; cbn [minsert mget snd].
    - rewrite (N.eqb_sym k k'). destruct (k' =? k); reflexivity.
    - destruct (N.eqb_spec k0 k) as [->|Hne]; cbn [snd mget].
      + rewrite (N.eqb_sym k k'). destruct (k' =? k); reflexivity.
      + destruct (minsert t k a) as [r t'] eqn:E. cbn [snd mget] in *.
        destruct (N.eqb_spec k0 k') as [->|Hne'].
        * destruct (N.eqb_spec k' k); [contradiction|reflexivity].
        * exact IH.
  Qed.

  Lemma minsert_keys m k a k' : In k' (mkeys (snd (minsert m k a))) <-> k' = k \/ In k' (mkeys m).
  Proof.
    rewrite !mget_in_keys, minsert_get. destruct (N.eqb_spec k' k) as [->|Hne].
    - split; [auto|discriminate].
    - split; [auto|intros [?|?]; [contradiction|assumption]].
  Qed.

  Lemma minsert_nodup m k a : NoDup (mkeys m) -> NoDup (mkeys (snd (minsert m k a))).
  Proof.
    induction m as [|[k0 a0] t IH]; cbn [minsert snd]; intros H.
    - cbn. constructor; [tauto|constructor].
    - cbn [mkeys map fst] in H. apply NoDup_cons_iff in H. destruct H as [Hn Ht].
      destruct (N.eqb_spec k0 k) as [->|Hne]; cbn [snd].
      + cbn [mkeys map fst]. constructor; assumption.
      + specialize (IH Ht). destruct (minsert t k a) as [r t'] eqn:E. cbn [snd] in *.
        cbn [mkeys map fst]. constructor; [|exact IH].
        intros Hin. pose proof (minsert_keys t k a k0) as Hk. rewrite E in Hk. cbn [snd] in Hk.
        apply Hk in Hin. destruct Hin; [congruence|contradiction].
  Qed.

  Lemma minsert_forall (P : A -> Prop) m k a : Forall P (mvalues m) -> P a -> Forall P (mvalues (snd (minsert m k a))).
  Proof.
    intros HF Ha. induction m as [|[k0 a0] t IH]; cbn [minsert snd].
    - cbn. constructor; [assumption|constructor].
    - cbn [mvalues map snd] in HF. inversion HF; subst.
      destruct (k0 =? k); cbn [snd].
      + cbn [mvalues map snd]. constructor; assumption.
      + specialize (IH H2). destruct (minsert t k a). cbn [snd] in *. cbn [mvalues map snd]. constructor; assumption.
  Qed.

  Lemma mremove_fst m k : fst (mremove m k) = is_some (mget m k).
  Proof.
    induction m as [|[k0 a0] t IH]; cbn [mremove mget fst]; [reflexivity|].
    destruct (k0 =? k); [reflexivity|]. destruct (mremove t k). exact IH.
  Qed.

  Lemma mremove_get m k k' : NoDup (mkeys m) ->
    mget (snd (mremove m k)) k' = if k' =? k then None else mget m k'.
  Proof.
    induction m as [|[k0 a0] t IH]; cbn [mremove mget snd]; intros H.
    - destruct (k' =? k); reflexivity.
    - cbn [mkeys map fst] in H. apply NoDup_cons_iff in H. destruct H as [Hn Ht].
      destruct (N.eqb_spec k0 k) as [->|Hne]; cbn [snd mget].
      + destruct (N.eqb_spec k' k) as [Heq|Hne'].
        * rewrite Heq. apply mget_not_in. assumption.
        * destruct (N.eqb_spec k k'); [congruence|reflexivity].
      + specialize (IH Ht). destruct (mremove t k) as [r t'] eqn:E. cbn [snd mget] in *.
        destruct (N.eqb_spec k0 k') as [->|Hne'].
        * destruct (N.eqb_spec k' k); [contradiction|reflexivity].
        * exact IH.
  Qed.

  Lemma mremove_keys_sub m k k' : In k' (mkeys (snd (mremove m k))) -> In k' (mkeys m).
  Proof.
    induction m as [|[k0 a0] t IH]; cbn [mremove snd]; [tauto|].
    destruct (k0 =? k); cbn [snd].
    - cbn [mkeys map fst In]. auto.
    - destruct (mremove t k) as [r t']. cbn [snd] in *. cbn [mkeys map fst In]. intros [?|?]; auto.
  Qed.

  Lemma mremove_nodup m k : NoDup (mkeys m) -> NoDup (mkeys (snd (mremove m k))).
  Proof.
    induction m as [|[k0 a0] t IH]; cbn [mremove snd]; intros H; [assumption|].
    cbn [mkeys map fst] in H. apply NoDup_cons_iff in H. destruct H as [Hn Ht].
    destruct (k0 =? k); cbn [snd]; [assumption|].
    specialize (IH Ht). pose proof (mremove_keys_sub t k k0) as Hs.
    destruct (mremove t k) as [r t']. cbn [snd] in *. cbn [mkeys map fst]. constructor; auto.
  Qed.

  Lemma mremove_forall (P : A -> Prop) m k : Forall P (mvalues m) -> Forall P (mvalues (snd (mremove m k))).
  Proof.
    intros HF. induction m as [|[k0 a0] t IH]; cbn [mremove snd]; [assumption|].
    cbn [mvalues map snd] in HF. inversion HF; subst.
    destruct (k0 =? k); cbn [snd]; [assumption|].
    specialize (IH H2). destruct (mremove t k). cbn [snd] in *. cbn [mvalues map snd]. constructor; assumption.
  Qed.

  Lemma mget_forall (P : A -> Prop) m k a : Forall P (mvalues m) -> mget m k = Some a -> P a.
  Proof.
    induction m as [|[k0 a0] t IH]; cbn [mget mvalues map snd]; [discriminate|].
    intros HF. inversion HF; subst. destruct (k0 =? k); [intros [= <-]; assumption|auto].
  Qed.
End MapLemmas.

(* enumerate *)
Lemma mget_enum_from {A} (l : list A) i k :
  mget (enum_from i l) k = if i <=? k then vget l (k - i) else None.
Proof.
  revert i. induction l as [|a t IH]; intros i; cbn [enum_from mget].
  - rewrite vget_nth, nth_error_nil'. destruct (i <=? k); reflexivity.
  - destruct (N.eqb_spec i k) as [->|Hne].
    + rewrite N.leb_refl, N.sub_diag, vget_nth. reflexivity.
    + rewrite IH. destruct (N.leb_spec i k) as [Hle|Hgt].
      * destruct (N.leb_spec (N.succ i) k); [|lia].
        rewrite !vget_nth. replace (N.to_nat (k - i)) with (S (N.to_nat (k - N.succ i))) by lia. reflexivity.
      * destruct (N.leb_spec (N.succ i) k); [lia|reflexivity].
Qed.

Lemma mget_enumerate {A} (l : list A) k : mget (enumerate l) k = vget l k.
Proof. unfold enumerate. rewrite mget_enum_from, N.sub_0_r.
  replace (0 <=? k) with true by (symmetry; apply N.leb_le; lia). reflexivity. Qed.

Lemma mkeys_enum_from {A} (l : list A) i : mkeys (enum_from i l) = nseq i (length l).
Proof. revert i. induction l; intros i; cbn [enum_from mkeys map fst nseq length]; [reflexivity|]. f_equal. apply IHl. Qed.

Lemma mvalues_enum_from {A} (l : list A) i : mvalues (enum_from i l) = l.
Proof. revert i. induction l; intros i; cbn [enum_from mvalues map snd]; [reflexivity|]. f_equal. apply IHl. Qed.

Lemma in_nseq i n k : In k (nseq i n) <-> i <= k < i + N.of_nat n.
Proof.
  revert i. induction n as [|n IH]; intros i; cbn [nseq In].
  - lia.
  - rewrite IH. lia.
Qed.

Lemma nodup_nseq i n : NoDup (nseq i n).
Proof.
  revert i. induction n as [|n IH]; intros i; cbn [nseq]; constructor; [|apply IH].
  rewrite in_nseq. lia.
Qed.

Lemma nodup_enumerate {A} (l : list A) : NoDup (mkeys (enumerate l)).
Proof. unfold enumerate. rewrite mkeys_enum_from. apply nodup_nseq. Qed.

Lemma mvalues_enumerate {A} (l : list A) : mvalues (enumerate l) = l.
Proof. apply mvalues_enum_from. Qed.

(* map_descs *)
Lemma mget_map_descs m k : mget (map_descs m) k = option_map simple (mget m k).
Proof.
  induction m as [|[k0 v0] t IH]; cbn [map_descs map mget fst snd]; [reflexivity|].
  destruct (k0 =? k); [reflexivity|exact IH].
Qed.
Lemma mkeys_map_descs m : mkeys (map_descs m) = mkeys m.
Proof. unfold mkeys, map_descs. rewrite map_map. reflexivity. Qed.
Lemma mvalues_map_descs m : mvalues (map_descs m) = map simple (mvalues m).
Proof. unfold mvalues, map_descs. rewrite !map_map. reflexivity. Qed.

(* ------------------------------------------------------------------------------------------ *)
(* representation invariant *)

Definition wf (s : storage) : Prop :=
  match s with
  | DenseI32 l => Forall in_i32 l
  | DenseF64 l => True
  | DenseElement l => Forall wfv l
  | SparseElement m => NoDup (mkeys m) /\ Forall wfv (mvalues m)
  | SparseProperty m => NoDup (mkeys m) /\ Forall wfd (mvalues m)
  end.

Lemma wf_default : wf storage_default.
Proof. constructor. Qed.

Lemma wfd_simple v : wfd (simple v) <-> wfv v.
Proof. reflexivity. Qed.

Lemma psv_some d v : property_simple_value d = Some v -> d = simple v.
Proof. destruct d as [v0 [] [] []|]; cbn; intros [= ->] || discriminate; reflexivity. Qed.

Lemma dnorm_simple v : dnorm (simple v) = simple (vnorm v).
Proof. reflexivity. Qed.

Lemma as_i32_vnorm v z : as_i32 v = Some z -> vnorm v = VInt z.
Proof.
  destruct v; cbn [as_i32 vnorm]; try discriminate.
  - intros [= ->]. reflexivity.
  - intros E. change (match as_i32 (VDouble b) with Some z0 => VInt z0 | None => VDouble (canon b) end = VInt z).
    unfold as_i32. rewrite E. reflexivity.
Qed.

Lemma as_number_double v b : as_i32 v = None -> as_number v = Some b -> v = VDouble b.
Proof. destruct v; cbn [as_i32 as_number]; try discriminate. intros _ [= ->]. reflexivity. Qed.

Lemma as_number_vnorm v b : wfv v -> as_number v = Some b -> vnorm v = vnorm (VDouble b).
Proof.
  destruct v; cbn [as_number]; try discriminate; intros Hv [= <-]; [|reflexivity].
  apply wfv_int in Hv. rewrite vnorm_of_i32 by assumption. reflexivity.
Qed.

Lemma wfv_double b : wfv (VDouble b). Proof. reflexivity. Qed.
Lemma wfv_from_f64 b : wfv (from_f64 b). Proof. reflexivity. Qed.
Lemma wfv_from_i32 z : in_i32 z -> wfv (from_i32 z). Proof. apply wfv_int. Qed.

(* the element values of a dense form, as boa converts them when it leaves the form *)
Lemma dense_values_spec s l : wf s -> dense_values s = Some l ->
  Forall wfv l /\ dense_len s = Some (len l) /\
  forall k, abs s k = option_map (fun v => simple (vnorm v)) (vget l k).
Proof.
  destruct s as [zl|bl|vl|m|m]; cbn [dense_values wf dense_len abs]; intros Hwf [= <-].
  - split; [|split].
    + apply Forall_map. eapply Forall_impl; [|exact Hwf]. intros z Hz. apply wfv_from_i32. assumption.
    + rewrite len_map. reflexivity.
    + intros k. rewrite vget_map. destruct (vget zl k); reflexivity.
  - split; [|split].
    + apply Forall_map. apply Forall_forall. intros b _. apply wfv_from_f64.
    + rewrite len_map. reflexivity.
    + intros k. rewrite vget_map. destruct (vget bl k); cbn [option_map]; [|reflexivity].
      rewrite vnorm_from_f64. reflexivity.
  - split; [assumption|]. split; reflexivity.
Qed.

(* the descriptor map `convert_to_sparse_and_insert` builds from any form *)
Definition descs_of (s : storage) : list (N * desc) :=
  match s with
  | DenseI32 l => map_descs (enumerate (map from_i32 l))
  | DenseF64 l => map_descs (enumerate (map from_f64 l))
  | DenseElement l => map_descs (enumerate l)
  | SparseElement m => map_descs m
  | SparseProperty m => m
  end.

Lemma descs_of_spec s : wf s ->
  NoDup (mkeys (descs_of s)) /\ Forall wfd (mvalues (descs_of s)) /\
  forall k, option_map dnorm (mget (descs_of s) k) = abs s k.
Proof.
  intros Hwf.
  assert (Hdense : forall l, dense_values s = Some l -> descs_of s = map_descs (enumerate l) ->
            NoDup (mkeys (descs_of s)) /\ Forall wfd (mvalues (descs_of s)) /\
            forall k, option_map dnorm (mget (descs_of s) k) = abs s k).
  { intros l Hl ->. destruct (dense_values_spec s l Hwf Hl) as (HF & _ & Habs).
    split; [|split].
    - rewrite mkeys_map_descs. apply nodup_enumerate.
    - rewrite mvalues_map_descs, mvalues_enumerate. apply Forall_map. exact HF.
    - intros k. rewrite mget_map_descs, mget_enumerate, Habs. destruct (vget l k); reflexivity. }
  destruct s as [zl|bl|vl|m|m]; try (eapply Hdense; reflexivity).
  - destruct Hwf as [Hn HF]. cbn [descs_of abs]. split; [|split].
    + rewrite mkeys_map_descs. assumption.
    + rewrite mvalues_map_descs. apply Forall_map. exact HF.
    + intros k. rewrite mget_map_descs. destruct (mget m k); reflexivity.
  - destruct Hwf as [Hn HF]. cbn [descs_of abs]. auto.
Qed.

(* ------------------------------------------------------------------------------------------ *)
(* get *)

Lemma get_abs s k : wf s -> option_map dnorm (get s k) = abs s k.
Proof.
  intros _. destruct s as [zl|bl|vl|m|m]; cbn [get abs].
  - destruct (vget zl k); reflexivity.
  - destruct (vget bl k); cbn [option_map]; [|reflexivity]. rewrite dnorm_simple, vnorm_from_f64. reflexivity.
  - destruct (vget vl k); reflexivity.
  - destruct (mget m k); reflexivity.
  - reflexivity.
Qed.

Lemma get_wf s k d : wf s -> get s k = Some d -> wfd d.
Proof.
  destruct s as [zl|bl|vl|m|m]; cbn [get wf]; intros Hwf.
  - destruct (vget zl k) eqn:E; cbn [option_map]; [|discriminate]. intros [= <-].
    apply wfd_simple, wfv_from_i32. eapply vget_forall; eassumption.
  - destruct (vget bl k); cbn [option_map]; [|discriminate]. intros [= <-]. reflexivity.
  - destruct (vget vl k) eqn:E; cbn [option_map]; [|discriminate]. intros [= <-].
    apply wfd_simple. eapply vget_forall; eassumption.
  - destruct (mget m k) eqn:E; cbn [option_map]; [|discriminate]. intros [= <-].
    apply wfd_simple. eapply mget_forall; [apply Hwf|eassumption].
  - intros E. eapply mget_forall; [apply Hwf|eassumption].
Qed.

Lemma contains_key_abs s k : contains_key s k = is_some (abs s k).
Proof.
  destruct s as [zl|bl|vl|m|m]; cbn [contains_key abs]; rewrite is_some_map;
    try (symmetry; apply vget_is_some); destruct (mget m k); reflexivity.
Qed.

(* ------------------------------------------------------------------------------------------ *)
(* insert *)

Definition ins_ok (s : storage) (k : N) (d : desc) (r : bool) (s' : storage) : Prop :=
  wf s' /\ r = is_some (abs s k) /\ forall k', abs s' k' = upd (abs s) k (Some (dnorm d)) k'.

Lemma ins_sparse_property s k d M : wfd d ->
  NoDup (mkeys M) -> Forall wfd (mvalues M) -> (forall k', option_map dnorm (mget M k') = abs s k') ->
  ins_ok s k d (fst (minsert M k d)) (SparseProperty (snd (minsert M k d))).
Proof.
  intros Hd Hn HF Habs. split; [|split].
  - split; [apply minsert_nodup; assumption|apply minsert_forall; assumption].
  - rewrite minsert_fst, <- Habs, is_some_map. reflexivity.
  - intros k'. cbn [abs]. rewrite minsert_get. unfold upd. destruct (k' =? k); [reflexivity|apply Habs].
Qed.

Lemma ins_sparse_element s k v M : wfv v ->
  NoDup (mkeys M) -> Forall wfv (mvalues M) ->
  (forall k', option_map (fun v => simple (vnorm v)) (mget M k') = abs s k') ->
  ins_ok s k (simple v) (fst (minsert M k v)) (SparseElement (snd (minsert M k v))).
Proof.
  intros Hv Hn HF Habs. split; [|split].
  - split; [apply minsert_nodup; assumption|apply minsert_forall; assumption].
  - rewrite minsert_fst, <- Habs, is_some_map. reflexivity.
  - intros k'. cbn [abs]. rewrite minsert_get. unfold upd. destruct (k' =? k); [reflexivity|apply Habs].
Qed.

Lemma ins_dense_element s k v l : wfv v -> k <= len l -> Forall wfv l ->
  (forall k', option_map (fun v => simple (vnorm v)) (vget l k') = abs s k') ->
  ins_ok s k (simple v) (fst (dense_put l k v)) (DenseElement (snd (dense_put l k v))).
Proof.
  intros Hv Hk HF Habs. destruct (dense_put_spec l k v Hk) as [Hf Hg]. split; [|split].
  - apply dense_put_forall; assumption.
  - rewrite Hf, <- Habs, is_some_map. reflexivity.
  - intros k'. cbn [abs]. rewrite Hg. unfold upd. destruct (k' =? k); [reflexivity|apply Habs].
Qed.

Lemma ins_dense_f64 s k v b l : vnorm v = vnorm (VDouble b) -> k <= len l ->
  (forall k', option_map (fun b => simple (vnorm (VDouble b))) (vget l k') = abs s k') ->
  ins_ok s k (simple v) (fst (dense_put l k b)) (DenseF64 (snd (dense_put l k b))).
Proof.
  intros Hv Hk Habs. destruct (dense_put_spec l k b Hk) as [Hf Hg]. split; [|split].
  - exact I.
  - rewrite Hf, <- Habs, is_some_map. reflexivity.
  - intros k'. cbn [abs]. rewrite Hg. unfold upd. destruct (k' =? k); [|apply Habs].
    cbn [option_map]. rewrite dnorm_simple, Hv. reflexivity.
Qed.

Lemma ins_dense_i32 s k v z l : vnorm v = VInt z -> in_i32 z -> k <= len l -> Forall in_i32 l ->
  (forall k', option_map (fun z => simple (VInt z)) (vget l k') = abs s k') ->
  ins_ok s k (simple v) (fst (dense_put l k z)) (DenseI32 (snd (dense_put l k z))).
Proof.
  intros Hv Hz Hk HF Habs. destruct (dense_put_spec l k z Hk) as [Hf Hg]. split; [|split].
  - apply dense_put_forall; assumption.
  - rewrite Hf, <- Habs, is_some_map. reflexivity.
  - intros k'. cbn [abs]. rewrite Hg. unfold upd. destruct (k' =? k); [|apply Habs].
    cbn [option_map]. rewrite dnorm_simple, Hv. reflexivity.
Qed.

(* leaving a dense form because the key makes a hole *)
Lemma ins_hole s k v l : wf s -> wfv v -> dense_values s = Some l ->
  ins_ok s k (simple v) (fst (minsert (enumerate l) k v)) (SparseElement (snd (minsert (enumerate l) k v))).
Proof.
  intros Hwf Hv Hl. destruct (dense_values_spec s l Hwf Hl) as (HF & _ & Habs).
  apply ins_sparse_element; try assumption.
  - apply nodup_enumerate.
  - rewrite mvalues_enumerate. assumption.
  - intros k'. rewrite mget_enumerate. symmetry. apply Habs.
Qed.

Lemma convert_insert_eq s k d :
  convert_to_sparse_and_insert s k d = (fst (minsert (descs_of s) k d), SparseProperty (snd (minsert (descs_of s) k d))).
Proof. destruct s; cbn [convert_to_sparse_and_insert descs_of]; apply let_pair. Qed.

Lemma insert_abs s k d : wf s -> wfd d -> ins_ok s k d (fst (insert s k d)) (snd (insert s k d)).
Proof.
  intros Hwf Hd. unfold insert. destruct (property_simple_value d) as [v|] eqn:Ep.
  2:{ rewrite convert_insert_eq. cbn [fst snd].
      destruct (descs_of_spec s Hwf) as (Hn & HF & Habs). apply ins_sparse_property; assumption. }
  apply psv_some in Ep. subst d. assert (Hv : wfv v) by (apply wfd_simple; assumption).
  destruct s as [zl|bl|vl|m|m].
  - (* DenseI32 *)
    destruct (N.leb_spec k (len zl)) as [Hk|Hk].
    + destruct (as_i32 v) as [z|] eqn:Ei.
      * rewrite let_pair. cbn [fst snd]. apply ins_dense_i32; try assumption.
        -- apply as_i32_vnorm. assumption.
        -- eapply as_i32_range; eassumption.
        -- intros k'. reflexivity.
      * destruct (as_number v) as [b|] eqn:En.
        -- rewrite let_pair. cbn [fst snd]. apply ins_dense_f64.
           ++ apply as_number_vnorm; assumption.
           ++ rewrite len_map. assumption.
           ++ intros k'. cbn [abs]. rewrite vget_map. destruct (vget zl k') eqn:E; cbn [option_map]; [|reflexivity].
              rewrite vnorm_of_i32; [reflexivity|]. eapply vget_forall; eassumption.
        -- rewrite let_pair. cbn [fst snd].
           destruct (dense_values_spec (DenseI32 zl) _ Hwf eq_refl) as (HF & _ & Habs).
           apply ins_dense_element; try assumption.
           ++ rewrite len_map. assumption.
           ++ intros k'. symmetry. apply Habs.
    + rewrite let_pair. cbn [fst snd]. apply (ins_hole (DenseI32 zl)); [assumption|assumption|reflexivity].
  - (* DenseF64 *)
    destruct (N.leb_spec k (len bl)) as [Hk|Hk].
    + destruct (as_number v) as [b|] eqn:En.
      * rewrite let_pair. cbn [fst snd]. apply ins_dense_f64; try assumption.
        -- apply as_number_vnorm; assumption.
        -- intros k'. reflexivity.
      * rewrite let_pair. cbn [fst snd].
        destruct (dense_values_spec (DenseF64 bl) _ Hwf eq_refl) as (HF & _ & Habs).
        apply ins_dense_element; try assumption.
        -- rewrite len_map. assumption.
        -- intros k'. symmetry. apply Habs.
    + rewrite let_pair. cbn [fst snd]. apply (ins_hole (DenseF64 bl)); [assumption|assumption|reflexivity].
  - (* DenseElement *)
    destruct (N.leb_spec k (len vl)) as [Hk|Hk].
    + rewrite let_pair. cbn [fst snd]. apply ins_dense_element; try assumption. intros k'. reflexivity.
    + rewrite let_pair. cbn [fst snd]. apply (ins_hole (DenseElement vl)); [assumption|assumption|reflexivity].
  - (* SparseElement *)
    rewrite let_pair. cbn [fst snd]. destruct Hwf as [Hn HF].
    apply ins_sparse_element; try assumption. intros k'. reflexivity.
  - (* SparseProperty *)
    rewrite let_pair. cbn [fst snd]. destruct Hwf as [Hn HF].
    apply (ins_sparse_property (SparseProperty m) k (simple v)); try assumption. intros k'. reflexivity.
Qed.

(* ------------------------------------------------------------------------------------------ *)
(* remove *)

Definition rem_ok (s : storage) (k : N) (r : bool) (s' : storage) : Prop :=
  wf s' /\ r = is_some (abs s k) /\ forall k', abs s' k' = upd (abs s) k None k'.

Lemma rem_noop s k : wf s -> abs s k = None -> rem_ok s k false s.
Proof.
  intros Hwf Hk. split; [assumption|]. split; [rewrite Hk; reflexivity|].
  intros k'. unfold upd. destruct (N.eqb_spec k' k) as [->|]; [assumption|reflexivity].
Qed.

Lemma rem_sparse_element s k M :
  NoDup (mkeys M) -> Forall wfv (mvalues M) ->
  (forall k', option_map (fun v => simple (vnorm v)) (mget M k') = abs s k') ->
  rem_ok s k (fst (mremove M k)) (SparseElement (snd (mremove M k))).
Proof.
  intros Hn HF Habs. split; [|split].
  - split; [apply mremove_nodup; assumption|apply mremove_forall; assumption].
  - rewrite mremove_fst, <- Habs, is_some_map. reflexivity.
  - intros k'. cbn [abs]. rewrite mremove_get by assumption. unfold upd. destruct (k' =? k); [reflexivity|apply Habs].
Qed.

Lemma rem_sparse_property s k M :
  NoDup (mkeys M) -> Forall wfd (mvalues M) -> (forall k', option_map dnorm (mget M k') = abs s k') ->
  rem_ok s k (fst (mremove M k)) (SparseProperty (snd (mremove M k))).
Proof.
  intros Hn HF Habs. split; [|split].
  - split; [apply mremove_nodup; assumption|apply mremove_forall; assumption].
  - rewrite mremove_fst, <- Habs, is_some_map. reflexivity.
  - intros k'. cbn [abs]. rewrite mremove_get by assumption. unfold upd. destruct (k' =? k); [reflexivity|apply Habs].
Qed.

Lemma rem_inner s k l : wf s -> dense_values s = Some l ->
  rem_ok s k (fst (mremove (enumerate l) k)) (SparseElement (snd (mremove (enumerate l) k))).
Proof.
  intros Hwf Hl. destruct (dense_values_spec s l Hwf Hl) as (HF & _ & Habs).
  apply rem_sparse_element.
  - apply nodup_enumerate.
  - rewrite mvalues_enumerate. assumption.
  - intros k'. rewrite mget_enumerate. symmetry. apply Habs.
Qed.

Lemma remove_abs s k : wf s -> rem_ok s k (fst (remove s k)) (snd (remove s k)).
Proof.
  intros Hwf. destruct s as [zl|bl|vl|m|m]; cbn [remove].
  - destruct (N.eqb_spec (k + 1) (len zl)) as [Hp|Hp]; cbn [fst snd].
    + split; [|split].
      * eapply removelast_forall; eassumption.
      * cbn [abs]. rewrite is_some_map, vget_is_some. symmetry. apply N.ltb_lt. lia.
      * intros k'. cbn [abs]. rewrite (vget_removelast _ k) by assumption. unfold upd. destruct (k' =? k); reflexivity.
    + destruct (N.leb_spec (len zl) k) as [Hge|Hlt]; cbn [fst snd].
      * apply rem_noop; [assumption|]. cbn [abs]. apply vget_none in Hge. rewrite Hge. reflexivity.
      * cbn [convert_to_sparse_and_remove]. rewrite let_pair. cbn [fst snd].
        apply (rem_inner (DenseI32 zl)); [assumption|reflexivity].
  - destruct (N.eqb_spec (k + 1) (len bl)) as [Hp|Hp]; cbn [fst snd].
    + split; [|split].
      * exact I.
      * cbn [abs]. rewrite is_some_map, vget_is_some. symmetry. apply N.ltb_lt. lia.
      * intros k'. cbn [abs]. rewrite (vget_removelast _ k) by assumption. unfold upd. destruct (k' =? k); reflexivity.
    + destruct (N.leb_spec (len bl) k) as [Hge|Hlt]; cbn [fst snd].
      * apply rem_noop; [assumption|]. cbn [abs]. apply vget_none in Hge. rewrite Hge. reflexivity.
      * cbn [convert_to_sparse_and_remove]. rewrite let_pair. cbn [fst snd].
        apply (rem_inner (DenseF64 bl)); [assumption|reflexivity].
  - destruct (N.eqb_spec (k + 1) (len vl)) as [Hp|Hp]; cbn [fst snd].
    + split; [|split].
      * eapply removelast_forall; eassumption.
      * cbn [abs]. rewrite is_some_map, vget_is_some. symmetry. apply N.ltb_lt. lia.
      * intros k'. cbn [abs]. rewrite (vget_removelast _ k) by assumption. unfold upd. destruct (k' =? k); reflexivity.
    + destruct (N.leb_spec (len vl) k) as [Hge|Hlt]; cbn [fst snd].
      * apply rem_noop; [assumption|]. cbn [abs]. apply vget_none in Hge. rewrite Hge. reflexivity.
      * cbn [convert_to_sparse_and_remove]. rewrite let_pair. cbn [fst snd].
        apply (rem_inner (DenseElement vl)); [assumption|reflexivity].
  - rewrite let_pair. cbn [fst snd]. destruct Hwf as [Hn HF]. apply rem_sparse_element; try assumption. intros k'. reflexivity.
  - rewrite let_pair. cbn [fst snd]. destruct Hwf as [Hn HF]. apply rem_sparse_property; try assumption. intros k'. reflexivity.
Qed.

(* ------------------------------------------------------------------------------------------ *)
(* push_dense, transform_to_sparse, keys *)

Lemma dense_len_abs s n : dense_len s = Some n -> forall k, is_some (abs s k) = (k <? n).
Proof.
  destruct s as [zl|bl|vl|m|m]; cbn [dense_len abs]; try discriminate; intros [= <-] k;
    rewrite is_some_map; apply vget_is_some.
Qed.

(* pushing is inserting at the dense length (the code duplicates the transitions of `insert`) *)
Lemma push_dense_insert s v n : dense_len s = Some n ->
  push_dense s v = (true, snd (insert s n (simple v))) /\ fst (insert s n (simple v)) = false.
Proof.
  destruct s as [zl|bl|vl|m|m]; cbn [dense_len]; try discriminate; intros [= <-];
    unfold insert, push_dense; cbn [property_simple_value simple]; rewrite N.leb_refl.
  - destruct (as_i32 v); [rewrite dense_put_push; auto|].
    destruct (as_number v).
    + rewrite <- (len_map i32_to_f64 zl), dense_put_push. auto.
    + rewrite <- (len_map from_i32 zl), dense_put_push. auto.
  - destruct (as_number v); [rewrite dense_put_push; auto|].
    rewrite <- (len_map from_f64 bl), dense_put_push. auto.
  - rewrite dense_put_push. auto.
Qed.

Lemma push_dense_sparse s v : dense_len s = None -> push_dense s v = (false, s).
Proof. destruct s; cbn [dense_len]; try discriminate; reflexivity. Qed.

Lemma push_dense_abs s v : wf s -> wfv v ->
  match dense_len s with
  | Some n => fst (push_dense s v) = true /\ wf (snd (push_dense s v)) /\ abs s n = None /\
              forall k, abs (snd (push_dense s v)) k = upd (abs s) n (Some (simple (vnorm v))) k
  | None => push_dense s v = (false, s)
  end.
Proof.
  intros Hwf Hv. destruct (dense_len s) as [n|] eqn:E; [|apply push_dense_sparse; assumption].
  destruct (push_dense_insert s v n E) as [-> _]. cbn [fst snd].
  destruct (insert_abs s n (simple v) Hwf Hv) as (H1 & _ & H3).
  split; [reflexivity|]. split; [assumption|]. split; [|exact H3].
  pose proof (dense_len_abs s n E n) as Hn. rewrite N.ltb_irrefl in Hn. destruct (abs s n); [discriminate|reflexivity].
Qed.

Lemma transform_abs s : wf s -> wf (transform_to_sparse s) /\ forall k, abs (transform_to_sparse s) k = abs s k.
Proof.
  intros Hwf.
  assert (Hd : forall l, dense_values s = Some l ->
           wf (SparseElement (enumerate l)) /\ forall k, abs (SparseElement (enumerate l)) k = abs s k).
  { intros l Hl. destruct (dense_values_spec s l Hwf Hl) as (HF & _ & Habs). split.
    - split; [apply nodup_enumerate|rewrite mvalues_enumerate; assumption].
    - intros k. cbn [abs]. rewrite mget_enumerate. symmetry. apply Habs. }
  destruct s; cbn [transform_to_sparse]; try (apply Hd; reflexivity); auto.
Qed.

Lemma keys_abs s : wf s -> NoDup (keys s) /\ forall k, In k (keys s) <-> abs s k <> None.
Proof.
  assert (Hopt : forall A B (f : A -> B) (o : option A), option_map f o <> None <-> o <> None).
  { intros A B f [a|]; cbn; split; congruence. }
  assert (Hv : forall A (l : list A) k, In k (nseq 0 (length l)) <-> vget l k <> None).
  { intros A l k. rewrite in_nseq. fold (len l). split.
    - intros [_ H] E. apply vget_none in E. lia.
    - intros H. split; [lia|]. destruct (N.lt_ge_cases k (len l)); [lia|]. exfalso. apply H, vget_none. assumption. }
  intros Hwf. destruct s as [zl|bl|vl|m|m]; cbn [keys abs wf] in *;
    (split; [try apply nodup_nseq; try apply Hwf|intros k; rewrite Hopt; try apply Hv; try apply mget_in_keys]).
Qed.

(* ------------------------------------------------------------------------------------------ *)
(* the key list after `sort_unstable` *)

Definition sorted_lt (l : list N) : Prop := StronglySorted N.lt l.

Lemma in_ninsert x y l : In x (ninsert y l) <-> x = y \/ In x l.
Proof.
  induction l as [|h t IH]; cbn [ninsert In].
  - intuition congruence.
  - destruct (y <=? h); cbn [In]; [intuition congruence|]. rewrite IH. intuition congruence.
Qed.

Lemma in_nsort x l : In x (nsort l) <-> In x l.
Proof. induction l as [|h t IH]; cbn [nsort In]; [tauto|]. rewrite in_ninsert, IH. intuition congruence. Qed.

Lemma ninsert_sorted x l : ~ In x l -> sorted_lt l -> sorted_lt (ninsert x l).
Proof.
  unfold sorted_lt. induction l as [|h t IH]; cbn [ninsert]; intros Hn Hs.
  - constructor; constructor.
  - apply StronglySorted_inv in Hs. destruct Hs as [Hs Hh].
    destruct (N.leb_spec x h) as [Hle|Hgt].
    + assert (Hlt : x < h) by (cbn [In] in Hn; assert (h <> x) by tauto; lia).
      constructor; [constructor; assumption|].
      constructor; [assumption|]. eapply Forall_impl; [|exact Hh]. intros; lia.
    + constructor.
      * apply IH; [cbn [In] in Hn; tauto|assumption].
      * apply Forall_forall. intros y Hy. apply in_ninsert in Hy. destruct Hy as [->|Hy]; [assumption|].
        rewrite Forall_forall in Hh. apply Hh. assumption.
Qed.

Lemma nsort_sorted l : NoDup l -> sorted_lt (nsort l).
Proof.
  induction 1 as [|x t Hn Hd IH]; cbn [nsort]; [constructor|].
  apply ninsert_sorted; [rewrite in_nsort; assumption|assumption].
Qed.

Lemma sorted_lt_ext l1 l2 : sorted_lt l1 -> sorted_lt l2 -> (forall k, In k l1 <-> In k l2) -> l1 = l2.
Proof.
  unfold sorted_lt. revert l2. induction l1 as [|a t IH]; intros l2 H1 H2 Hin.
  - destruct l2 as [|b u]; [reflexivity|]. exfalso. apply (Hin b). left. reflexivity.
  - destruct l2 as [|b u]; [exfalso; apply (Hin a); left; reflexivity|].
    apply StronglySorted_inv in H1. destruct H1 as [H1 Ha].
    apply StronglySorted_inv in H2. destruct H2 as [H2 Hb].
    rewrite Forall_forall in Ha, Hb.
    assert (a = b).
    { destruct (proj1 (Hin a) (or_introl eq_refl)) as [->|Hau]; [reflexivity|].
      destruct (proj2 (Hin b) (or_introl eq_refl)) as [->|Hbt]; [reflexivity|].
      specialize (Ha _ Hbt). specialize (Hb _ Hau). lia. }
    subst b. f_equal. apply IH; try assumption.
    intros k. split; intros Hk.
    + destruct (proj1 (Hin k) (or_intror Hk)) as [->|]; [|assumption]. specialize (Ha _ Hk). lia.
    + destruct (proj2 (Hin k) (or_intror Hk)) as [->|]; [|assumption]. specialize (Hb _ Hk). lia.
Qed.

Lemma sorted_lt_nodup l : sorted_lt l -> NoDup l.
Proof.
  induction 1 as [|a t Hs IH Ha]; constructor; [|assumption].
  intros Hin. rewrite Forall_forall in Ha. specialize (Ha _ Hin). lia.
Qed.

(* own index keys in the order of ordinary_own_property_keys: ascending, each present key once *)
Lemma sorted_keys_abs s : wf s ->
  sorted_lt (nsort (keys s)) /\ forall k, In k (nsort (keys s)) <-> abs s k <> None.
Proof.
  intros Hwf. destruct (keys_abs s Hwf) as [Hn Hin]. split; [apply nsort_sorted; assumption|].
  intros k. rewrite in_nsort. apply Hin.
Qed.

(* ------------------------------------------------------------------------------------------ *)
(* dense fast paths *)

Lemma get_dense_property_abs s k v : wf s -> get_dense_property s k = Some v ->
  abs s k = Some (simple (vnorm v)) /\ wfv v.
Proof.
  intros Hwf H.
  assert (exists l, dense_values s = Some l /\ vget l k = Some v) as (l & Hl & Hg).
  { destruct s; cbn [get_dense_property dense_values] in *; try discriminate;
      eexists; (split; [reflexivity|]); rewrite ?vget_map; assumption. }
  destruct (dense_values_spec s l Hwf Hl) as (HF & _ & Habs). rewrite Habs, Hg. split; [reflexivity|].
  eapply vget_forall; eassumption.
Qed.

Lemma get_dense_property_none s k : get_dense_property s k = None -> dense_len s = None \/ abs s k = None.
Proof.
  destruct s as [zl|bl|vl|m|m]; cbn [get_dense_property dense_len abs]; auto; intros H; right;
    [destruct (vget zl k)|destruct (vget bl k)|destruct (vget vl k)]; try discriminate; reflexivity.
Qed.

Lemma vset_as_put {A} (l : list A) k a : k < len l -> vset l k a = snd (dense_put l k a).
Proof. intros H. unfold dense_put. destruct (N.eqb_spec k (len l)); [lia|reflexivity]. Qed.

(* set_dense_property succeeds exactly on an existing dense index and then equals `insert` *)
Lemma set_dense_property_insert s k v s' : wfv v -> set_dense_property s k v = Some s' ->
  s' = snd (insert s k (simple v)) /\ (exists n, dense_len s = Some n /\ k < n).
Proof.
  intros Hv. destruct s as [zl|bl|vl|m|m]; cbn [set_dense_property]; try discriminate.
  - destruct (N.ltb_spec k (len zl)) as [Hk|]; [|discriminate]. intros H.
    split; [|eexists; split; [reflexivity|assumption]].
    unfold insert. cbn [property_simple_value simple].
    destruct (N.leb_spec k (len zl)); [|lia].
    destruct v as [z|b|o]; cbn [as_i32 as_number].
    + injection H as <-. rewrite let_pair. cbn [snd]. f_equal. apply vset_as_put. assumption.
    + destruct (i32_to_f64 (f64_to_i32_sat b) =? b); injection H as <-; rewrite let_pair; cbn [snd]; f_equal;
        apply vset_as_put; rewrite ?len_map; assumption.
    + injection H as <-. rewrite let_pair. cbn [snd]. f_equal. apply vset_as_put. rewrite len_map. assumption.
  - destruct (N.ltb_spec k (len bl)) as [Hk|]; [|discriminate]. intros H.
    split; [|eexists; split; [reflexivity|assumption]].
    unfold insert. cbn [property_simple_value simple].
    destruct (N.leb_spec k (len bl)); [|lia].
    destruct (as_number v); injection H as <-; rewrite let_pair; cbn [snd]; f_equal;
      apply vset_as_put; rewrite ?len_map; assumption.
  - destruct (N.ltb_spec k (len vl)) as [Hk|]; [|discriminate]. intros [= <-].
    split; [|eexists; split; [reflexivity|assumption]].
    unfold insert. cbn [property_simple_value simple].
    destruct (N.leb_spec k (len vl)); [|lia].
    rewrite let_pair. cbn [snd]. f_equal. apply vset_as_put. assumption.
Qed.

Lemma set_dense_property_abs s k v s' : wf s -> wfv v -> set_dense_property s k v = Some s' ->
  wf s' /\ abs s k <> None /\ forall k', abs s' k' = upd (abs s) k (Some (simple (vnorm v))) k'.
Proof.
  intros Hwf Hv H. destruct (set_dense_property_insert s k v s' Hv H) as (-> & n & Hn & Hk).
  destruct (insert_abs s k (simple v) Hwf Hv) as (H1 & _ & H3).
  split; [assumption|]. split; [|exact H3].
  pose proof (dense_len_abs s n Hn k) as Hs. apply N.ltb_lt in Hk. rewrite Hk in Hs.
  destruct (abs s k); [discriminate|discriminate].
Qed.

(* Array.prototype.shift's `dense.remove(0)`: every element moves down by one *)
Lemma shift_dense_abs s n v s' : wf s -> shift_dense s n = Some (v, s') ->
  wf s' /\ wfv v /\ abs s 0 = Some (simple (vnorm v)) /\
  (exists m, dense_len s = Some m /\ n <= m /\ dense_len s' = Some (m - 1)) /\
  forall k, abs s' k = abs s (k + 1).
Proof.
  assert (Hsucc : forall A (a : A) t k, vget (a :: t) (k + 1) = vget t k).
  { intros A a t k. rewrite !vget_nth. replace (N.to_nat (k + 1)) with (S (N.to_nat k)) by lia. reflexivity. }
  assert (Hlen : forall A (a : A) t, len (a :: t) - 1 = len t).
  { intros. unfold len. cbn [length]. lia. }
  intros Hwf. destruct s as [[|z t]|[|b t]|[|x t]|m|m]; cbn [shift_dense]; try discriminate.
  - destruct (N.leb_spec n (len (z :: t))); [|discriminate]. intros [= <- <-].
    cbn [wf] in *. inversion Hwf; subst. split; [assumption|]. split; [apply wfv_from_i32; assumption|].
    split; [reflexivity|]. split.
    + eexists. split; [reflexivity|]. split; [assumption|]. cbn [dense_len]. rewrite Hlen. reflexivity.
    + intros k. cbn [abs]. rewrite Hsucc. reflexivity.
  - destruct (N.leb_spec n (len (b :: t))); [|discriminate]. intros [= <- <-].
    split; [exact I|]. split; [reflexivity|]. split.
    + cbn [abs]. rewrite vget_nth. cbn [N.to_nat nth_error option_map]. rewrite vnorm_from_f64. reflexivity.
    + split.
      * eexists. split; [reflexivity|]. split; [assumption|]. cbn [dense_len]. rewrite Hlen. reflexivity.
      * intros k. cbn [abs]. rewrite Hsucc. reflexivity.
  - destruct (N.leb_spec n (len (x :: t))); [|discriminate]. intros [= <- <-].
    cbn [wf] in *. inversion Hwf; subst. split; [assumption|]. split; [assumption|].
    split; [reflexivity|]. split.
    + eexists. split; [reflexivity|]. split; [assumption|]. cbn [dense_len]. rewrite Hlen. reflexivity.
    + intros k. cbn [abs]. rewrite Hsucc. reflexivity.
Qed.

(* ------------------------------------------------------------------------------------------ *)
(* value fidelity *)

(* what is read back after a store denotes the same JS value: for numbers the same canonical bit pattern
   (so -0 stays -0, NaN stays NaN, 5.0 stays 5), for everything else the identical value *)
Lemma value_fidelity s k v : wf s -> wfv v ->
  exists v', get (snd (insert s k (simple v))) k = Some (simple v') /\ js_same v' v.
Proof.
  intros Hwf Hv. destruct (insert_abs s k (simple v) Hwf Hv) as (H1 & _ & H3).
  specialize (H3 k). unfold upd in H3. rewrite N.eqb_refl in H3.
  rewrite <- get_abs in H3 by assumption.
  destruct (get (snd (insert s k (simple v))) k) as [d'|] eqn:E; [|discriminate].
  pose proof (get_wf _ _ _ H1 E) as Hd'.
  cbn [option_map] in H3. injection H3 as H3.
  destruct d' as [v' w e c|]; cbn [dnorm simple] in H3; [|discriminate].
  injection H3 as Hvn -> -> ->. exists v'. split; [reflexivity|].
  apply vnorm_eq_iff; assumption.
Qed.

(* the packed-integer form holds int32s only, so neither -0 nor NaN nor a fraction is ever narrowed into it *)
Lemma dense_i32_exact s k v zl : wf s -> wfv v -> snd (insert s k (simple v)) = DenseI32 zl ->
  exists z, vget zl k = Some z /\ in_i32 z /\ num_bits v = Some (i32_to_f64 z).
Proof.
  intros Hwf Hv E. destruct (value_fidelity s k v Hwf Hv) as (v' & Hg & Hs).
  rewrite E in Hg. cbn [get] in Hg. destruct (vget zl k) as [z|] eqn:Ez; [|discriminate].
  cbn [option_map] in Hg. injection Hg as <-. exists z. split; [reflexivity|].
  destruct (insert_abs s k (simple v) Hwf Hv) as (H1 & _). rewrite E in H1. cbn [wf] in H1.
  split; [eapply vget_forall; eassumption|].
  unfold js_same in Hs. cbn [from_i32 num_bits] in Hs. destruct (num_bits v); [congruence|contradiction].
Qed.
