(* C04 deepening, part 1 — a small instrumented semantics for the scope-annotated skeleton and
   `local_single_activation`.

   The semantics abstracts every execution to the *binding access events* it can perform:
     Acc actor owner sid x dyn  — activation `actor` reads or writes the instance of binding x of static scope sid
                                   that was created by activation `owner`; dyn = the access is a by-name lookup through
                                   the environment chain (code under `with`, code evaluated by a direct eval) rather than
                                   a compiled (scope index, binding index) access.
   State while "executing" a skeleton: the scope `cur` the code is compiled in, the dynamic-lookup mode, the running
   activation `aid`, and `rho : scope id -> activation`: which activation created the instance of each static scope that
   is visible from here (the run-time environment chain mirrors the static chain — the bytecompiler's push/pop
   discipline, C03's concern, is assumed).
     * an identifier resolves statically (Scope::get_identifier_reference) and touches the visible instance;
     * entering a block-like scope / `with` / class name scope instantiates it in the running activation;
     * a function node creates a closure over rho; it may be called any number of times, each call being a FRESH
       activation that instantiates the function's scopes (parameters, body);  class field initializers run as
       functions of their own;
     * a direct eval call site can touch ANY binding visible from it, by name, from the running activation or from
       any later activation (closures created by the evaluated code).
   Not modelled: the mapped `arguments` object (writes to parameters through `arguments[i]`), bindings created at run
   time by eval (`var` hoisting into the function scope). *)
From Coq Require Import NArith List Bool Arith Lia.
From C04 Require Import Model_C04 Proofs_C04.
Import ListNotations.

Inductive event := Acc (actor owner sid : nat) (x : name) (dyn : bool).

Definition setr (rho : nat -> nat) (s a : nat) : nat -> nat := fun i => if Nat.eqb i s then a else rho i.
Definition setr_opt (rho : nat -> nat) (o : option nat) (a : nat) : nat -> nat :=
  match o with Some s => setr rho s a | None => rho end.
Definition setr_all (rho : nat -> nat) (l : list nat) (a : nat) : nat -> nat :=
  fun i => if existsb (Nat.eqb i) l then a else rho i.

Definition rs (T : table) (s : nat) (x : name) : option (nat * bool) := resolve (length T) T s x false.

Inductive ev (T : table) : sk -> nat -> bool -> nat -> (nat -> nat) -> event -> Prop :=
| ev_id : forall x cur dm aid rho sb c,
    rs T cur x = Some (sb, c) -> ev T (KId x) cur dm aid rho (Acc aid (rho sb) sb x dm)
| ev_eval_callee : forall args cur dm aid rho sb c,
    rs T cur n_eval = Some (sb, c) -> ev T (KEval args) cur dm aid rho (Acc aid (rho sb) sb n_eval dm)
| ev_eval_arg : forall args a cur dm aid rho e,
    In a args -> ev T a cur dm aid rho e -> ev T (KEval args) cur dm aid rho e
| ev_eval_dyn : forall args cur dm aid rho x sb c actor,
    rs T cur x = Some (sb, c) -> ev T (KEval args) cur dm aid rho (Acc actor (rho sb) sb x true)
| ev_seq : forall ks a cur dm aid rho e,
    In a ks -> ev T a cur dm aid rho e -> ev T (KSeq ks) cur dm aid rho e
| ev_scope : forall al sid cde ks a cur dm aid rho e,
    In a ks -> ev T a (scope_cur sid cur) dm aid (setr_opt rho sid aid) e -> ev T (KScope al sid cde ks) cur dm aid rho e
| ev_with_obj : forall sid obj body cur dm aid rho e,
    ev T obj cur dm aid rho e -> ev T (KWith sid obj body) cur dm aid rho e
| ev_with_body : forall sid obj body cur dm aid rho e,
    ev T body sid true aid (setr rho sid aid) e -> ev T (KWith sid obj body) cur dm aid rho e
| ev_fun_param : forall fs cde pn ps b a cur dm aid rho aid' e,
    aid' <> aid -> (forall s, rho s <> aid') -> In a ps ->
    ev T a (parameter_scope fs) dm aid' (setr_all rho (fs_all fs) aid') e -> ev T (KFun fs cde pn ps b) cur dm aid rho e
| ev_fun_body : forall fs cde pn ps b a cur dm aid rho aid' e,
    aid' <> aid -> (forall s, rho s <> aid') -> In a b ->
    ev T a (body_scope fs) dm aid' (setr_all rho (fs_all fs) aid') e -> ev T (KFun fs cde pn ps b) cur dm aid rho e
| ev_named : forall nsid cde k cur dm aid rho e,
    ev T k nsid dm aid (setr rho nsid aid) e -> ev T (KNamed nsid cde k) cur dm aid rho e
| ev_class : forall nsid ks a cur dm aid rho e,
    In a ks -> ev T a (scope_cur nsid cur) dm aid (setr_opt rho nsid aid) e -> ev T (KClass nsid ks) cur dm aid rho e
| ev_swap : forall sid ks a cur dm aid rho aid' e,
    aid' <> aid -> (forall s, rho s <> aid') -> In a ks ->
    ev T a sid dm aid' (setr rho sid aid') e -> ev T (KSwap sid ks) cur dm aid rho e.

(* the skeleton is laid out on the table the way the collector lays it out: every scope a node enters hangs below
   the scope the node is compiled in (checked per program: r_sem) *)
Definition opt_nat_eqb (a b : option nat) : bool :=
  match a, b with Some x, Some y => Nat.eqb x y | None, None => true | _, _ => false end.

Definition scope_is (T : table) (s o : nat) (fn : bool) : bool :=
  match nth_error T s with
  | Some sc => opt_nat_eqb (s_outer sc) (Some o) && Bool.eqb (s_fun sc) fn
  | None => false
  end.

Definition nobinds (T : table) (s : nat) : bool :=
  match nth_error T s with Some sc => match s_binds sc with [] => true | _ => false end | None => false end.

Definition wfs (T : table) (fs : fscopes) (cur : nat) : bool :=
  scope_is T (fs_fun fs) cur true
  && match fs_peval fs with Some p => scope_is T p (fs_fun fs) false | None => true end
  && match fs_par fs with Some p => scope_is T p (parameter_scope fs) false | None => true end
  && match fs_lex fs with
     | Some l => scope_is T l (match fs_par fs with Some p => p | None => parameter_scope fs end) false
     | None => true
     end.

Fixpoint wsk (T : table) (k : sk) (cur : nat) {struct k} : bool :=
  match k with
  | KId _ => true
  | KEval args => forallb (fun a => wsk T a cur) args
  | KSeq ks => forallb (fun a => wsk T a cur) ks
  | KScope _ sid _ ks =>
      match sid with Some s => scope_is T s cur false | None => true end
      && forallb (fun a => wsk T a (scope_cur sid cur)) ks
  | KWith sid o b => scope_is T sid cur false && nobinds T sid && wsk T o cur && wsk T b sid
  | KFun fs _ _ ps b =>
      wfs T fs cur && forallb (fun a => wsk T a (parameter_scope fs)) ps && forallb (fun a => wsk T a (body_scope fs)) b
  | KNamed nsid _ k =>
      (* the wrapped node is the function: it hangs below its name scope *)
      scope_is T nsid cur false && match k with KFun _ _ _ _ _ => true | _ => false end && wsk T k nsid
  | KClass nsid ks =>
      match nsid with Some s => scope_is T s cur false | None => true end
      && forallb (fun a => wsk T a (scope_cur nsid cur)) ks
  | KSwap sid ks => scope_is T sid cur true && nobinds T sid && forallb (fun a => wsk T a sid) ks
  end.

(* a binding resolved without crossing a function border belongs to the running activation *)
Definition Inv (T : table) (cur aid : nat) (rho : nat -> nat) : Prop :=
  forall x sb, rs T cur x = Some (sb, false) -> rho sb = aid.

Definition reach (T : table) (cur : nat) (x : name) (sb : nat) : Prop := exists c, rs T cur x = Some (sb, c).

(* ---------------------------------------------------------------------------------------------- *)
(* facts about resolve *)

Lemma resolve_indep : forall n T s x c1 c2 sb c,
  resolve n T s x c1 = Some (sb, c) -> exists c', resolve n T s x c2 = Some (sb, c').
Proof.
  induction n as [|n IH]; intros T s x c1 c2 sb c; simpl; [discriminate|].
  destruct (nth_error T s) as [sc|]; [|discriminate].
  destruct (has_binding x (s_binds sc)).
  - intros H; inversion H; subst. eauto.
  - destruct (s_outer sc); [|discriminate]. apply IH.
Qed.

Lemma resolve_true : forall n T s x sb c, resolve n T s x true = Some (sb, c) -> c = true.
Proof.
  induction n as [|n IH]; intros T s x sb c; simpl; [discriminate|].
  destruct (nth_error T s) as [sc|]; [|discriminate].
  destruct (has_binding x (s_binds sc)).
  - intros H; inversion H; auto.
  - destruct (s_outer sc); [|discriminate]. simpl. apply IH.
Qed.

Lemma resolve_has : forall n T s x c0 sb c, resolve n T s x c0 = Some (sb, c) ->
  exists sc, nth_error T sb = Some sc /\ has_binding x (s_binds sc) = true.
Proof.
  induction n as [|n IH]; intros T s x c0 sb c; simpl; [discriminate|].
  destruct (nth_error T s) as [sc|] eqn:E; [|discriminate].
  destruct (has_binding x (s_binds sc)) eqn:Eh.
  - intros H; inversion H; subst. eauto.
  - destruct (s_outer sc); [|discriminate]. apply IH.
Qed.

Lemma resolve_unfold : forall n T s x c,
  resolve (S n) T s x c =
  match nth_error T s with
  | None => None
  | Some sc => if has_binding x (s_binds sc) then Some (s, c)
               else match s_outer sc with Some o => resolve n T o x (c || s_fun sc) | None => None end
  end.
Proof. reflexivity. Qed.

Section WithTable.
  Variable T : table.
  Hypothesis Hwf : wf_table T = true.

  Lemma nth_lt : forall s sc, nth_error T s = Some sc -> s < length T.
  Proof. intros s sc H. apply nth_error_Some. congruence. Qed.

  (* one step of the walk, back at full fuel *)
  Lemma rs_step : forall s sc x, nth_error T s = Some sc ->
    rs T s x = if has_binding x (s_binds sc) then Some (s, false)
               else match s_outer sc with
                    | Some o => resolve (length T) T o x (s_fun sc)
                    | None => None
                    end.
  Proof.
    intros s sc x E. unfold rs. pose proof (nth_lt s sc E) as Hlt.
    destruct (length T) as [|n] eqn:El; [lia|]. rewrite resolve_unfold, E.
    destruct (has_binding x (s_binds sc)); auto.
    destruct (s_outer sc) as [o|] eqn:Eo; auto.
    pose proof (wf_from_nth T 0 s sc o Hwf E Eo) as Ho. simpl in Ho.
    change (false || s_fun sc) with (s_fun sc). apply resolve_fuel; auto; lia.
  Qed.

  Lemma rs_le : forall s x sb c, rs T s x = Some (sb, c) -> sb <= s.
  Proof.
    intros s x sb c H. unfold rs in H.
    destruct (nth_error T s) as [sc|] eqn:E.
    - pose proof (nth_lt s sc E). eapply (resolve_crossed T Hwf); eauto.
    - destruct (length T); simpl in H; [discriminate|]. rewrite E in H. discriminate.
  Qed.

  Lemma scope_is_spec : forall s o fn, scope_is T s o fn = true ->
    exists sc, nth_error T s = Some sc /\ s_outer sc = Some o /\ s_fun sc = fn.
  Proof.
    unfold scope_is. intros s o fn H. destruct (nth_error T s) as [sc|]; [|discriminate].
    apply andb_true_iff in H. destruct H as [H1 H2]. exists sc. split; auto. split.
    - destruct (s_outer sc) as [o'|]; simpl in H1; [|discriminate]. apply Nat.eqb_eq in H1. congruence.
    - apply eqb_prop in H2. auto.
  Qed.

  Lemma scope_is_lt : forall s o fn, scope_is T s o fn = true -> o < s.
  Proof.
    intros s o fn H. destruct (scope_is_spec _ _ _ H) as (sc & E & Eo & _).
    pose proof (wf_from_nth T 0 s sc o Hwf E Eo). simpl in *. lia.
  Qed.

  (* walking up from a scope that hangs below o: the binding is in the scope itself or reachable from o *)
  Lemma reach_up : forall s o fn x sb, scope_is T s o fn = true -> reach T s x sb -> sb = s \/ reach T o x sb.
  Proof.
    intros s o fn x sb H [c Hr]. destruct (scope_is_spec _ _ _ H) as (sc & E & Eo & Ef).
    rewrite (rs_step s sc x E) in Hr. destruct (has_binding x (s_binds sc)).
    - inversion Hr; auto.
    - rewrite Eo in Hr. right. destruct (resolve_indep _ _ _ _ _ false _ _ Hr) as [c' Hc']. exists c'. exact Hc'.
  Qed.

  (* … and if no border was crossed, the scope below is not a function scope or holds the binding itself *)
  Lemma rs_up_false : forall s o fn x sb, scope_is T s o fn = true -> rs T s x = Some (sb, false) ->
    sb = s \/ (fn = false /\ rs T o x = Some (sb, false)).
  Proof.
    intros s o fn x sb H Hr. destruct (scope_is_spec _ _ _ H) as (sc & E & Eo & Ef).
    rewrite (rs_step s sc x E) in Hr. destruct (has_binding x (s_binds sc)).
    - inversion Hr; auto.
    - rewrite Eo, Ef in Hr. right. destruct fn; [apply resolve_true in Hr; discriminate|]. split; auto.
  Qed.

  Lemma nobinds_rs : forall s x sb c, nobinds T s = true -> rs T s x = Some (sb, c) -> sb <> s.
  Proof.
    intros s x sb c Hn Hr Heq. subst sb. unfold rs in Hr.
    destruct (resolve_has _ _ _ _ _ _ _ Hr) as (sc & E & Hb).
    unfold nobinds in Hn. rewrite E in Hn. destruct (s_binds sc); [discriminate Hb | discriminate Hn].
  Qed.

  Lemma setr_other : forall rho s a i, i <> s -> setr rho s a i = rho i.
  Proof. intros. unfold setr. destruct (Nat.eqb_spec i s); congruence. Qed.
  Lemma setr_same : forall rho s a, setr rho s a s = a.
  Proof. intros. unfold setr. rewrite Nat.eqb_refl. auto. Qed.

  Lemma inv_enter : forall s cur aid rho, scope_is T s cur false = true -> Inv T cur aid rho -> Inv T s aid (setr rho s aid).
  Proof.
    intros s cur aid rho H HI x sb Hr.
    destruct (rs_up_false _ _ _ _ _ H Hr) as [->|[_ Hr']]; [apply setr_same|].
    pose proof (rs_le _ _ _ _ Hr') as Hle. pose proof (scope_is_lt _ _ _ H).
    rewrite setr_other by lia. eapply HI; eauto.
  Qed.

  Lemma inv_enter_opt : forall sid cur aid rho,
    match sid with Some s => scope_is T s cur false | None => true end = true ->
    Inv T cur aid rho -> Inv T (scope_cur sid cur) aid (setr_opt rho sid aid).
  Proof. intros [s|] cur aid rho H HI; simpl; auto. eapply inv_enter; eauto. Qed.

  Lemma inv_fresh_fun : forall s cur aid' rho, scope_is T s cur true = true -> nobinds T s = true -> Inv T s aid' (setr rho s aid').
  Proof.
    intros s cur aid' rho H Hn x sb Hr.
    destruct (rs_up_false _ _ _ _ _ H Hr) as [->|[Hf _]]; [apply setr_same | discriminate].
  Qed.

  Lemma setr_all_in : forall rho l a i, In i l -> setr_all rho l a i = a.
  Proof.
    intros rho l a i Hin. unfold setr_all.
    assert (existsb (Nat.eqb i) l = true) as ->; auto.
    apply existsb_exists. exists i. split; auto. apply Nat.eqb_refl.
  Qed.

  Lemma in_fs_fun : forall fs, In (fs_fun fs) (fs_all fs).
  Proof. intros; unfold fs_all; left; auto. Qed.
  Lemma in_fs_peval : forall fs p, fs_peval fs = Some p -> In p (fs_all fs).
  Proof. intros fs p E; unfold fs_all; rewrite E; right; simpl; auto. Qed.
  Lemma in_fs_par : forall fs p, fs_par fs = Some p -> In p (fs_all fs).
  Proof. intros fs p E; unfold fs_all; rewrite E; right; apply in_or_app; right; apply in_or_app; left; simpl; auto. Qed.
  Lemma in_fs_lex : forall fs p, fs_lex fs = Some p -> In p (fs_all fs).
  Proof. intros fs p E; unfold fs_all; rewrite E; right; apply in_or_app; right; apply in_or_app; right; simpl; auto. Qed.

  (* inside a function: whatever resolves without crossing a border lives in one of the function's own scopes *)
  Lemma fun_chain_false : forall fs cur x sb, wfs T fs cur = true ->
    (rs T (parameter_scope fs) x = Some (sb, false) -> In sb (fs_all fs)) /\
    (rs T (body_scope fs) x = Some (sb, false) -> In sb (fs_all fs)).
  Proof.
    intros fs cur x sb H. unfold wfs in H. rewrite !andb_true_iff in H. destruct H as [[[Hf Hpe] Hpa] Hlx].
    assert (Hfun : rs T (fs_fun fs) x = Some (sb, false) -> In sb (fs_all fs)).
    { intros Hr. destruct (rs_up_false _ _ _ _ _ Hf Hr) as [->|[Hc _]]; [apply in_fs_fun | discriminate]. }
    assert (Hparam : rs T (parameter_scope fs) x = Some (sb, false) -> In sb (fs_all fs)).
    { unfold parameter_scope. destruct (fs_peval fs) as [p|] eqn:Ep; auto.
      intros Hr. destruct (rs_up_false _ _ _ _ _ Hpe Hr) as [->|[_ Hr']]; [apply in_fs_peval; auto | auto]. }
    split; auto.
    assert (Hpar : forall p, fs_par fs = Some p -> rs T p x = Some (sb, false) -> In sb (fs_all fs)).
    { intros p Ep Hr. rewrite Ep in Hpa. destruct (rs_up_false _ _ _ _ _ Hpa Hr) as [->|[_ Hr']]; auto.
      apply in_fs_par; auto. }
    unfold body_scope. destruct (fs_lex fs) as [l|] eqn:El.
    - intros Hr. destruct (rs_up_false _ _ _ _ _ Hlx Hr) as [->|[_ Hr']]; [apply in_fs_lex; auto|].
      destruct (fs_par fs) as [p|] eqn:Ep; [eapply Hpar; eauto | auto].
    - destruct (fs_par fs) as [p|] eqn:Ep; [intros; eapply Hpar; eauto|].
      exact Hparam.
  Qed.

  Lemma inv_fun : forall fs cur aid' rho, wfs T fs cur = true ->
    Inv T (parameter_scope fs) aid' (setr_all rho (fs_all fs) aid') /\
    Inv T (body_scope fs) aid' (setr_all rho (fs_all fs) aid').
  Proof.
    intros fs cur aid' rho H. split; intros x sb Hr; apply setr_all_in;
      destruct (fun_chain_false fs cur x sb H) as [H1 H2]; auto.
  Qed.

  (* … and whatever resolves at all from inside a function is in one of its scopes or reachable from where the
     function hangs *)
  Lemma fun_chain_reach : forall fs cur x sb, wfs T fs cur = true ->
    (reach T (parameter_scope fs) x sb -> In sb (fs_all fs) \/ reach T cur x sb) /\
    (reach T (body_scope fs) x sb -> In sb (fs_all fs) \/ reach T cur x sb).
  Proof.
    intros fs cur x sb H. unfold wfs in H. rewrite !andb_true_iff in H. destruct H as [[[Hf Hpe] Hpa] Hlx].
    assert (Hfun : reach T (fs_fun fs) x sb -> In sb (fs_all fs) \/ reach T cur x sb).
    { intros Hr. destruct (reach_up _ _ _ _ _ Hf Hr) as [->|Hr']; [left; apply in_fs_fun | right; auto]. }
    assert (Hparam : reach T (parameter_scope fs) x sb -> In sb (fs_all fs) \/ reach T cur x sb).
    { unfold parameter_scope. destruct (fs_peval fs) as [p|] eqn:Ep; auto.
      intros Hr. destruct (reach_up _ _ _ _ _ Hpe Hr) as [->|Hr']; [left; apply in_fs_peval; auto | auto]. }
    split; auto.
    assert (Hpar : forall p, fs_par fs = Some p -> reach T p x sb -> In sb (fs_all fs) \/ reach T cur x sb).
    { intros p Ep Hr. rewrite Ep in Hpa. destruct (reach_up _ _ _ _ _ Hpa Hr) as [->|Hr']; auto.
      left; apply in_fs_par; auto. }
    unfold body_scope. destruct (fs_lex fs) as [l|] eqn:El.
    - intros Hr. destruct (reach_up _ _ _ _ _ Hlx Hr) as [->|Hr']; [left; apply in_fs_lex; auto|].
      destruct (fs_par fs) as [p|] eqn:Ep; [eapply Hpar; eauto | auto].
    - destruct (fs_par fs) as [p|] eqn:Ep; [intros; eapply Hpar; eauto|].
      exact Hparam.
  Qed.

  (* ---------------------------------------------------------------------------------------------- *)
  (* every event is either the access of a syntactic occurrence (with the facts escape_sound needs) or a by-name
     access from a direct eval that can only reach scopes entered around the eval or visible from the root *)

  Definition ev_class_of (k : sk) (cur : nat) (de w : bool) (e : event) : Prop :=
    match e with
    | Acc actor owner sb x dyn =>
        (exists s ew c, In (x, s, ew) (occs k cur de w) /\ rs T s x = Some (sb, c) /\
                        (dyn = true -> ew = true) /\ (c = false -> actor = owner))
        \/ (has_eval k = true /\ (In sb (ev_scopes k) \/ reach T cur x sb))
    end.

  Lemma existsb_in : forall (f : sk -> bool) a l, In a l -> f a = true -> existsb f l = true.
  Proof. intros. apply existsb_exists. eauto. Qed.

  Lemma forallb_in : forall (f : sk -> bool) a l, In a l -> forallb f l = true -> f a = true.
  Proof. intros f a l Hin H. rewrite forallb_forall in H. auto. Qed.

  Lemma in_ev_fun : forall fs cde pn ps b sb,
    existsb has_eval ps || existsb has_eval b = true ->
    In sb (fs_all fs) \/ In sb (flat_map ev_scopes ps) \/ In sb (flat_map ev_scopes b) ->
    In sb (ev_scopes (KFun fs cde pn ps b)).
  Proof.
    intros fs cde pn ps b sb H Hin. simpl. rewrite H. apply in_or_app.
    destruct Hin as [Hin|[Hin|Hin]]; auto; right; apply in_or_app; auto.
  Qed.

  Ltac inl := solve [auto | left; simpl; auto | left; apply in_or_app; left; simpl; auto].

  Lemma ev_classified : forall k cur dm aid rho e, ev T k cur dm aid rho e ->
    forall de w, (dm = true -> w = true) -> wsk T k cur = true -> Inv T cur aid rho -> ev_class_of k cur de w e.
  Proof.
    induction 1; intros de w Hdm Hw HI; simpl in Hw.
    - (* KId *) left. exists cur, (de || w), c. simpl. repeat split; auto.
      + intros ->. rewrite Hdm; auto. apply orb_true_r.
      + intros ->. symmetry. eapply HI; eauto.
    - (* eval callee *) left. exists cur, (de || w), c. simpl. repeat split; auto.
      + intros ->. rewrite Hdm; auto. apply orb_true_r.
      + intros ->. symmetry. eapply HI; eauto.
    - (* eval arg *)
      pose proof (forallb_in _ _ _ H Hw) as Hwa. specialize (IHev de w Hdm Hwa HI).
      destruct e as [actor owner sb x dyn]. simpl in *. destruct IHev as [(s & ew & c & Hin & Hr & Hd & Hc)|[He Hs]].
      + left. exists s, ew, c. repeat split; auto. right. apply in_flat_map. eauto.
      + right. split; auto. destruct Hs as [Hs|Hs]; auto. left. apply in_flat_map. eauto.
    - (* eval dyn *) right. simpl. split; auto. right. exists c. auto.
    - (* KSeq *)
      pose proof (forallb_in _ _ _ H Hw) as Hwa. specialize (IHev de w Hdm Hwa HI).
      destruct e as [actor owner sb x dyn]. simpl in *. destruct IHev as [(s & ew & c & Hin & Hr & Hd & Hc)|[He Hs]].
      + left. exists s, ew, c. repeat split; auto. apply in_flat_map. eauto.
      + right. split; [eapply existsb_in; eauto|]. destruct Hs as [Hs|Hs]; auto. left. apply in_flat_map. eauto.
    - (* KScope *)
      apply andb_true_iff in Hw. destruct Hw as [Hs Hk]. pose proof (forallb_in _ _ _ H Hk) as Hwa.
      specialize (IHev (scope_de al sid cde de) w Hdm Hwa (inv_enter_opt sid cur aid rho Hs HI)).
      destruct e as [actor owner sb x dyn]. simpl in *. destruct IHev as [(s & ew & c & Hin & Hr & Hd & Hc)|[He Hsc]].
      + left. exists s, ew, c. repeat split; auto. apply in_flat_map. exists a. split; auto.
      + right. assert (Hex : existsb has_eval ks = true) by (eapply existsb_in; eauto). split; auto. rewrite Hex.
        destruct Hsc as [Hsc|Hsc].
        * left. apply in_or_app. right. apply in_flat_map. eauto.
        * destruct sid as [s0|]; simpl in *; auto.
          destruct (reach_up _ _ _ _ _ Hs Hsc) as [->|Hr']; inl.
    - (* with: object *)
      rewrite !andb_true_iff in Hw. destruct Hw as [[[Hs Hn] Ho] Hb].
      assert (Hdm' : dm = true -> true = true) by auto.
      specialize (IHev de true Hdm' Ho HI).
      destruct e as [actor owner sb x dyn]. simpl in *. destruct IHev as [(s & ew & c & Hin & Hr & Hd & Hc)|[He Hsc]].
      + left. exists s, ew, c. repeat split; auto. apply in_or_app. auto.
      + right. split; [rewrite He; auto|]. destruct Hsc as [Hsc|Hsc]; auto. left. apply in_or_app. auto.
    - (* with: body *)
      rewrite !andb_true_iff in Hw. destruct Hw as [[[Hs Hn] Ho] Hb].
      assert (Hdm' : true = true -> true = true) by auto.
      specialize (IHev de true Hdm' Hb (inv_enter _ _ _ _ Hs HI)).
      destruct e as [actor owner sb x dyn]. simpl in *. destruct IHev as [(s & ew & c & Hin & Hr & Hd & Hc)|[He Hsc]].
      + left. exists s, ew, c. repeat split; auto. apply in_or_app. auto.
      + right. split; [rewrite He; apply orb_true_r|]. destruct Hsc as [Hsc|Hsc].
        * left. apply in_or_app. auto.
        * destruct (reach_up _ _ _ _ _ Hs Hsc) as [->|Hr']; auto.
          destruct Hsc as [c Hc]. exfalso. eapply nobinds_rs; eauto.
    - (* function: parameters *)
      rewrite !andb_true_iff in Hw. destruct Hw as [[Hf Hp] Hb]. pose proof (forallb_in _ _ _ H1 Hp) as Hwa.
      destruct (inv_fun fs cur aid' rho Hf) as [HIp HIb].
      specialize (IHev (cde || de) w Hdm Hwa HIp).
      destruct e as [actor owner sb x dyn]. simpl in *. destruct IHev as [(s & ew & c & Hin & Hr & Hd & Hc)|[He Hsc]].
      + left. exists s, ew, c. repeat split; auto. apply in_or_app. left. apply in_flat_map. eauto.
      + right. assert (Hex : existsb has_eval ps || existsb has_eval b = true)
          by (apply orb_true_iff; left; eapply existsb_in; eauto).
        split; auto. destruct Hsc as [Hsc|Hsc].
        * left. apply (in_ev_fun fs cde pn ps b sb Hex). right. left. apply in_flat_map. eauto.
        * destruct (fun_chain_reach fs cur x sb Hf) as [Hc1 _]. destruct (Hc1 Hsc); auto.
          left. apply (in_ev_fun fs cde pn ps b sb Hex). auto.
    - (* function: body *)
      rewrite !andb_true_iff in Hw. destruct Hw as [[Hf Hp] Hb]. pose proof (forallb_in _ _ _ H1 Hb) as Hwa.
      destruct (inv_fun fs cur aid' rho Hf) as [HIp HIb].
      specialize (IHev (cde || de) w Hdm Hwa HIb).
      destruct e as [actor owner sb x dyn]. simpl in *. destruct IHev as [(s & ew & c & Hin & Hr & Hd & Hc)|[He Hsc]].
      + left. exists s, ew, c. repeat split; auto. apply in_or_app. right. apply in_flat_map. eauto.
      + right. assert (Hex : existsb has_eval ps || existsb has_eval b = true)
          by (apply orb_true_iff; right; eapply existsb_in; eauto).
        split; auto. destruct Hsc as [Hsc|Hsc].
        * left. apply (in_ev_fun fs cde pn ps b sb Hex). right. right. apply in_flat_map. eauto.
        * destruct (fun_chain_reach fs cur x sb Hf) as [_ Hc2]. destruct (Hc2 Hsc); auto.
          left. apply (in_ev_fun fs cde pn ps b sb Hex). auto.
    - (* named function expression *)
      rewrite !andb_true_iff in Hw. destruct Hw as [[Hs Hfun] Hk].
      specialize (IHev de w Hdm Hk (inv_enter _ _ _ _ Hs HI)).
      destruct e as [actor owner sb x dyn]. simpl in *. destruct IHev as [(s & ew & c & Hin & Hr & Hd & Hc)|[He Hsc]].
      + left. exists s, ew, c. repeat split; auto.
        (* occs of the wrapped function do not depend on the scope it is compiled in *)
        destruct k; try discriminate Hfun. simpl in *. auto.
      + right. split; auto. rewrite He. destruct Hsc as [Hsc|Hsc].
        * left. apply in_or_app. auto.
        * destruct (reach_up _ _ _ _ _ Hs Hsc) as [->|Hr']; inl.
    - (* class *)
      apply andb_true_iff in Hw. destruct Hw as [Hs Hk]. pose proof (forallb_in _ _ _ H Hk) as Hwa.
      specialize (IHev de w Hdm Hwa (inv_enter_opt nsid cur aid rho Hs HI)).
      destruct e as [actor owner sb x dyn]. simpl in *. destruct IHev as [(s & ew & c & Hin & Hr & Hd & Hc)|[He Hsc]].
      + left. exists s, ew, c. repeat split; auto. apply in_flat_map. exists a. split; auto.
      + right. assert (Hex : existsb has_eval ks = true) by (eapply existsb_in; eauto). split; auto. rewrite Hex.
        destruct Hsc as [Hsc|Hsc].
        * left. apply in_or_app. right. apply in_flat_map. eauto.
        * destruct nsid as [s0|]; simpl in *; auto.
          destruct (reach_up _ _ _ _ _ Hs Hsc) as [->|Hr']; inl.
    - (* class field initializer *)
      rewrite !andb_true_iff in Hw. destruct Hw as [[Hs Hn] Hk]. pose proof (forallb_in _ _ _ H1 Hk) as Hwa.
      specialize (IHev de w Hdm Hwa (inv_fresh_fun _ _ _ _ Hs Hn)).
      destruct e as [actor owner sb x dyn]. simpl in *. destruct IHev as [(s & ew & c & Hin & Hr & Hd & Hc)|[He Hsc]].
      + left. exists s, ew, c. repeat split; auto. apply in_flat_map. eauto.
      + right. split; [eapply existsb_in; eauto|]. destruct Hsc as [Hsc|Hsc].
        * left. apply in_flat_map. eauto.
        * destruct (reach_up _ _ _ _ _ Hs Hsc) as [->|Hr']; auto.
          destruct Hsc as [c Hc]. exfalso. eapply nobinds_rs; eauto.
  Qed.
End WithTable.

(* ---------------------------------------------------------------------------------------------- *)
(* local_single_activation *)

Lemma all_esc_not_local : forall T s x, all_esc T s = true -> local T s x = false.
Proof.
  intros T s x. unfold all_esc, local, find_binding. destruct (nth_error T s) as [sc|]; auto.
  induction (s_binds sc) as [|b r IH]; simpl; auto.
  intros H. apply andb_true_iff in H. destruct H as [Hb Hr].
  destruct (N.eqb (b_name b) x); auto. rewrite Hb. reflexivity.
Qed.

Lemma escapes_not_local : forall T s x, escapes T s x = true -> local T s x = false.
Proof.
  intros T s x. unfold escapes, local. destruct (find_binding T s x); auto. intros ->. reflexivity.
Qed.

Theorem local_single_activation_sk :
  forall (T : table) (k : sk) (cur : nat) (de w dm : bool) (aid : nat) (rho : nat -> nat)
         (actor owner sb : nat) (x : name) (dyn : bool),
    wf_table T = true -> wsk T k cur = true -> honest k = true ->
    Inv T cur aid rho ->
    (forall y s, reach T cur y s -> all_esc T s = true) ->
    (dm = true -> w = true) ->
    ev T k cur dm aid rho (Acc actor owner sb x dyn) ->
    local (an k cur de w T) sb x = true ->
    actor = owner /\ dyn = false.
Proof.
  intros T k cur de w dm aid rho actor owner sb x dyn Hwf Hw Hh HI Hroot Hdm Hev Hl.
  pose proof (ev_classified T Hwf k cur dm aid rho _ Hev de w Hdm Hw HI) as Hc. simpl in Hc.
  destruct Hc as [(s & ew & c & Hin & Hr & Hd & Hc)|[He [Hs|Hs]]].
  - destruct (c || ew) eqn:E.
    + pose proof (escape_sound_sk k cur de w T x s ew sb c Hin Hr E) as Hesc.
      apply escapes_not_local in Hesc. congruence.
    + apply orb_false_iff in E. destruct E as [-> ->]. split; auto.
      destruct dyn; auto. specialize (Hd eq_refl). discriminate.
  - pose proof (ev_sound_sk k cur de w T sb Hh Hs) as Ha. apply all_esc_not_local with (x := x) in Ha. congruence.
  - pose proof (Hroot x sb Hs) as Ha.
    apply (all_esc_mono _ _ _ (an_tle k cur de w T)) in Ha. apply all_esc_not_local with (x := x) in Ha. congruence.
Qed.

(* for whole scripts: the hypotheses about the collector's output are executable and checked per program
   (wf_table, the layout predicate wsk, the global scope at the root with only escaping bindings) *)
Definition root_ok (T : table) : bool :=
  match T with
  | sc :: _ => match s_outer sc with None => forallb b_esc (s_binds sc) | Some _ => false end
  | [] => false
  end.

Definition sem_hyp (strict : bool) (stmts : list node) : bool :=
  let '(k, T0) := collect_script strict stmts in wf_table T0 && wsk T0 k 0 && root_ok T0.

Lemma root_reach : forall T, wf_table T = true -> root_ok T = true ->
  forall y s, reach T 0 y s -> all_esc T s = true.
Proof.
  intros T Hwf Hr y s [c Hc]. destruct T as [|sc r]; [discriminate|]. simpl in Hr.
  destruct (s_outer sc) eqn:Eo; [discriminate|].
  rewrite (rs_step (sc :: r) Hwf 0 sc y eq_refl) in Hc. rewrite Eo in Hc.
  destruct (has_binding y (s_binds sc)); [|discriminate]. inversion Hc; subst. unfold all_esc. simpl. exact Hr.
Qed.

Theorem local_single_activation :
  forall (strict : bool) (stmts : list node), sem_hyp strict stmts = true ->
  forall (aid0 actor owner sb : nat) (x : name) (dyn : bool),
    ev (snd (collect_script strict stmts)) (fst (collect_script strict stmts)) 0 false aid0 (fun _ => aid0)
       (Acc actor owner sb x dyn) ->
    local (analyze strict stmts) sb x = true ->
    actor = owner /\ dyn = false.
Proof.
  intros strict stmts Hh aid0 actor owner sb x dyn Hev Hl.
  unfold sem_hyp, analyze in *. pose proof (collect_script_honest strict stmts) as Hon.
  destruct (collect_script strict stmts) as [k T0]. simpl in *.
  rewrite !andb_true_iff in Hh. destruct Hh as [[Hwf Hw] Hr].
  eapply (local_single_activation_sk T0 k 0 false false false aid0 (fun _ => aid0)); eauto.
  - intros y s _. reflexivity.
  - apply root_reach; auto.
Qed.
